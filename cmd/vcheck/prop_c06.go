package main

func init() {
	props = append(props, prop{
		ID: "C06", Title: "HTTP/1.x parsing is independent of segmentation", Level: "exploration",
		Rule:        "differential monitor against the same nbhttp.Parser fed the stream in one piece. Streams: grammar-generated request streams (server parser) and response streams (client parser) of 1-5 pipelined messages (Content-Length and chunked bodies, chunk extensions, declared trailers, the lenient spacing variants of parser_test.go, empty values, repeated fields), 45% of them damaged by 1-2 mutations (bit flip, byte replace/insert/delete, dropped CR, dropped LF, truncated tail). Two passes per stream: 'events' = a recording Processor logs every callback (consecutive OnBody concatenated); 'delivered' = the real ServerProcessor/ClientProcessor run and the handler logs the delivered *http.Request/*http.Response (start line, Host, Close, header multimap, body, trailer). Segmentations per stream and pass: every single cut position (exhaustive), byte-at-a-time, 6 (quick) / 12 (thorough) random cut sets of 2-8 cuts, and every pair of cuts when the stream is <= 200 bytes (quick: only for the quarter of streams generated short; thorough: all). Feeding stops at the first error, as the engine closes the connection; ReadLimit is 1 GiB so ErrTooLong cannot occur. Verdict: log and error text equal to the one-piece parse. evaluations = streams; a stream is non-trivial if its one-piece parse completed >= 1 message or was rejected after >= 1 event, and >= 4 segmented parses were compared; distinct by (kind, stream index). The generator also produces structurally ill-formed messages (Opts.Damage: a chunked message that announces trailers and ends with the plain last chunk); for those, as for mutated streams, only the agreement of every segmentation with the one-piece parse is asked",
		Assumptions: commonAssumptions,
		Phases: []phase{
			{Name: "main", Pkg: "./workers/c06", QuickShards: 8, ThorShards: 16},
		},
	})
}
