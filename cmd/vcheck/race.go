package main

import (
	"fmt"
	"os"
	"path/filepath"
	"regexp"
	"sort"
	"strings"

	"verif/internal/h"
)

var (
	reAccess  = regexp.MustCompile(`^(Previous )?(atomic )?(write|read|Write|Read) at 0x[0-9a-f]+ by (main )?goroutine`)
	reFrameFn = regexp.MustCompile(`^  (\S+)\(`)
	reClosure = regexp.MustCompile(`(\.func\d+|\.gowrap\d+|\.\d+)+$`)
)

// innermostNbio returns the innermost frame of the stack that belongs to
// nbio, with closure suffixes removed.
func innermostNbio(stack []string) string {
	for _, l := range stack {
		m := reFrameFn.FindStringSubmatch(l)
		if m == nil {
			continue
		}
		fn := m[1]
		if strings.HasPrefix(fn, "github.com/lesismal/nbio") {
			fn = strings.TrimPrefix(fn, "github.com/lesismal/")
			fn = reClosure.ReplaceAllString(fn, "")
			// a closure of a function inlined into another one is printed as
			// pkg.(*T).Outer.(*T).inner.func1: attribute it to the inner function
			if i := strings.LastIndex(fn, ".(*"); i > 0 {
				if j := strings.Index(fn, ".("); j >= 0 && j < i {
					fn = fn[:j] + fn[i:]
				}
			}
			return fn
		}
	}
	return ""
}

// collectRaces parses the race detector logs of a phase. A report is
// attributed to the property only when both accesses' innermost nbio
// functions match the property's guarded-state set; everything else is
// listed as unattributed and never alarms.
func collectRaces(m *merged, p *prop, ph *phase, outDir string) {
	files, _ := filepath.Glob(filepath.Join(outDir, "race-"+ph.Name+"-*"))
	seen := map[string]bool{}
	for _, f := range files {
		b, err := os.ReadFile(f)
		if err != nil {
			continue
		}
		blocks := strings.Split(string(b), "==================")
		for _, blk := range blocks {
			if !strings.Contains(blk, "WARNING: DATA RACE") {
				continue
			}
			m.raceBlocks++
			lines := strings.Split(blk, "\n")
			var stacks [][]string
			var cur []string
			in := false
			for _, l := range lines {
				if reAccess.MatchString(l) {
					if in {
						stacks = append(stacks, cur)
					}
					cur = nil
					in = true
					continue
				}
				if in {
					if strings.TrimSpace(l) == "" {
						stacks = append(stacks, cur)
						cur = nil
						in = false
						continue
					}
					cur = append(cur, l)
				}
			}
			if in {
				stacks = append(stacks, cur)
			}
			if len(stacks) < 2 {
				continue
			}
			a, b2 := innermostNbio(stacks[0]), innermostNbio(stacks[1])
			pair := []string{a, b2}
			sort.Strings(pair)
			key := pair[0] + " | " + pair[1]
			if p.RaceFuncs != nil && a != "" && b2 != "" && p.RaceFuncs.MatchString(a) && p.RaceFuncs.MatchString(b2) &&
				(p.RaceIgnore == nil || !(p.RaceIgnore.MatchString(a) || p.RaceIgnore.MatchString(b2))) {
				if !seen[key] {
					seen[key] = true
					d := blk
					if len(d) > 3500 {
						d = d[:3500]
					}
					m.viol = append(m.viol, violRec{Violation: h.Violation{Sig: "race:" + key, Detail: fmt.Sprintf("data race between guarded-state functions %s (race detector, //go:norace stripped)\n%s", key, d)}, Phase: ph.Name})
				}
			} else {
				m.raceUnattr[key]++
			}
		}
	}
}
