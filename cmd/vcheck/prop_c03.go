package main

import "time"

func init() {
	props = append(props, prop{
		ID: "C03", Title: "Connection lifecycle; truthful dial result", Level: "exploration",
		Rule:        "case = (tcp|unix) x (LT|ET|ONESHOT) x 1-3 pollers, 4-15 connections created by accept / AddConn / DialAsync, each ended by a seeded scenario: peer close, peer reset, Close, CloseWithError(e), 2-8 goroutines closing at once (while reads and writes are in flight), read deadline, write overflow, Close inside the open callback, engine Stop, peer reset/close while nbio holds a write backlog (failure met by the poller's flush), and - phase shim - the n-th write-side syscall failing with ECONNRESET/EPIPE/ETIMEDOUT; seeded delays at close.beforeTeardown / addConn.afterOnOpen / acceptor.afterAccept. Oracle over the notification log (one logical clock): exactly one close notification per connection at quiescence and after Stop, never before the open notification, error = the single injected cause (or one of the concurrent causes); after Close returned Write/Writev/Sendfile fail, Execute is false and its job never runs, and a victim socket re-occupying the freed descriptor number receives nothing; DialAsync against harness listeners with known outcome (accepted / refused / accept-queue full + timeout / still connecting when the engine stops / missing unix path / unix listener whose accept queue is full (connect() answers EAGAIN; success only if the listener accepts more than its fillers)): exactly one outcome report, success only if the listener really accepted. Missing notifications are decided at quiescence (no events, idle CPU, 60 samples / 3 s). A case is non-trivial when all its connections and dials were decided; distinct by case index One more step per case: a connection its owner closes before, or while, handing it to AddConn - whatever the engine announces for it must be paired (decided at quiescence, before Stop). Asynchronous reading (AsyncReadInPoller) is on in half of the ET/ONESHOT cells (signatures <mode>-async). One more step: a dialed UDP connection exchanges one datagram with a plain echo socket and is then ended by Close, CloseWithError(e) or a read deadline - exactly one close notification carrying that cause. Scenario peer-close-in-handler: the data handler of the connection is held while the peer sends more and closes, so the hang-up is dispatched while a handler (with asynchronous reading: the reading job) of the same connection is running; exactly one close notification of the peer class must still follow.",
		Assumptions: commonAssumptions,
		Phases: []phase{
			{Name: "main", Pkg: "./workers/c03", QuickShards: 12, ThorShards: 16, QuickTO: 6 * time.Minute},
			{Name: "shim", Pkg: "./workers/c03", Shim: true, QuickShards: 12, ThorShards: 16, QuickTO: 6 * time.Minute},
		},
	})
}
