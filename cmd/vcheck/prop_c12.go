package main

func init() {
	props = append(props, prop{
		ID: "C12", Title: "WebSocket message round trip: framing, masking, fragmentation, compression", Level: "exploration",
		Rule:        "in-memory differential check against an independent RFC 6455/7692 codec (internal/wsref), three directions: send = nbio WriteMessage (server and client conn) -> captured bytes -> reference decoder (mask bit per role, fragment payload <= MaxWebsocketFramePayloadSize, RSV1 only on the first frame of a compressed message, minimal length encoding, decoded (type,payload) sequence equals what was written); recv = reference encoder (random fragmentation incl. empty fragments, interleaved pings/pongs, masking for client->server, permessage-deflate at levels -2..9) -> segmentation (whole, every single cut for images <= 2 KiB, byte at a time, fixed chunks, random cuts) -> nbio Parse with an inline executor -> OnMessage sequence must equal the sent sequence exactly once, in order, same type and payload, no Parse error and no close; loop = nbio sender -> bytes -> nbio receiver of the opposite role. evaluations = executions of one message sequence through one sender or one receiver under one segmentation; a case (dir,index) is non-trivial when its comparison completed without violation and at least one message was compared byte for byte (send: decoded from nbio's frames by the reference; recv/loop: at least one non-empty message reached OnMessage and matched). Phase conc: 2-8 connections of one process (each a sender endpoint and a receiver endpoint of the opposite role, 3 of 4 with permessage-deflate) run their message sequences at the same time on their own goroutines - what the package shares between connections (flate reader/writer pools, buffer pool) is used concurrently; every written message must be delivered to the paired receiver exactly once, in order, same type and payload, no Parse error, no close, no recovered panic; one evaluation per connection. Frame limits above the 16-bit length class (65536, 131072) are part of the boundary cases, so that frames of exactly 65536 bytes are written and read",
		Assumptions: commonAssumptions,
		Phases: []phase{
			{Name: "main", Pkg: "./workers/c12", QuickShards: 8, ThorShards: 16},
			{Name: "conc", Pkg: "./workers/c12", QuickShards: 4, ThorShards: 8},
		},
	})
}
