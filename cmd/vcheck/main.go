// vcheck is the driver of the nbio runtime-monitoring checks.
//
//	vcheck run <ID> [--tier quick|thorough]   build workers from /repo's tree, run, decide, write evidence
//	vcheck replay <ID> <replay.json>          re-run one recorded case
//	vcheck list                               list property ids
//
// Exit status: 0 held / known findings only / inconclusive; 1 with a
// "VIOLATION property=<id> replay=<path>" line; 2 when the tree does not
// build with hooks on.
package main

import (
	"bytes"
	"encoding/json"
	"fmt"
	"os"
	"os/exec"
	"path/filepath"
	"regexp"
	"sort"
	"strconv"
	"strings"
	"sync"
	"syscall"
	"time"

	"verif/internal/h"
)

// repo is the tree the checks rebuild from. It is /repo; VERIF_REPO overrides
// it only for experiments against scratch worktrees (seeded-change trials
// while other work uses /repo): the workers are then built with a generated
// -modfile whose replace directive points there.
var repo = "/repo"

var verifDir string

func main() {
	if v := os.Getenv("VERIF_REPO"); v != "" {
		repo = v
	}
	wd, _ := os.Getwd()
	verifDir = wd
	if _, err := os.Stat(filepath.Join(verifDir, "properties.jsonl")); err != nil {
		verifDir = "/verif"
		_ = os.Chdir(verifDir)
	}
	if len(os.Args) < 2 {
		usage()
	}
	switch os.Args[1] {
	case "list":
		for _, p := range props {
			fmt.Println(p.ID, "-", p.Title)
		}
	case "run":
		if len(os.Args) < 3 {
			usage()
		}
		tier := os.Getenv("VERIF_TIER")
		only := ""
		for i := 3; i < len(os.Args); i++ {
			switch os.Args[i] {
			case "--tier":
				if i+1 < len(os.Args) {
					tier = os.Args[i+1]
					i++
				}
			case "--phase":
				if i+1 < len(os.Args) {
					only = os.Args[i+1]
					i++
				}
			}
		}
		if tier != "thorough" {
			tier = "quick"
		}
		os.Exit(runProp(os.Args[2], tier, only))
	case "replay":
		if len(os.Args) < 4 {
			usage()
		}
		os.Exit(replay(os.Args[2], os.Args[3]))
	default:
		usage()
	}
}

func usage() {
	fmt.Fprintln(os.Stderr, "usage: vcheck run <ID> [--tier quick|thorough] [--phase name] | replay <ID> <file> | list")
	os.Exit(64)
}

func seed() int64 {
	if s := os.Getenv("VERIF_SEED"); s != "" {
		if v, err := strconv.ParseInt(s, 10, 64); err == nil {
			return v
		}
	}
	return 1
}

func goEnv() []string {
	env := os.Environ()
	env = append(env, "GOFLAGS=-mod=mod", "GOPROXY=off", "GOSUMDB=off", "GOTOOLCHAIN=local", "CGO_ENABLED=1")
	return env
}

// ---------------------------------------------------------------- overlay

var reNorace = regexp.MustCompile(`(?m)^//go:norace[ \t]*$`)

type overlayInfo struct {
	Path        string
	NoraceSites int
	ShimSites   map[string]int
}

// makeOverlay regenerates the build overlay from /repo's current files.
// R1: //go:norace -> // (line count preserved). R2 (shim only): the package's
// write/read/sendfile/writev/epoll_ctl syscalls are routed through the
// verif* functions of the tag-guarded hook file.
func makeOverlay(dir string, shim bool) (*overlayInfo, error) {
	_ = os.RemoveAll(dir)
	if err := os.MkdirAll(dir, 0o755); err != nil {
		return nil, err
	}
	info := &overlayInfo{ShimSites: map[string]int{}}
	repl := map[string]string{}
	err := filepath.Walk(repo, func(p string, fi os.FileInfo, err error) error {
		if err != nil {
			return nil
		}
		rel, _ := filepath.Rel(repo, p)
		if fi.IsDir() {
			if rel == ".git" || rel == "autobahn" || rel == "tools" || strings.HasPrefix(rel, ".git/") {
				return filepath.SkipDir
			}
			return nil
		}
		if !strings.HasSuffix(p, ".go") || strings.HasSuffix(p, "_test.go") {
			return nil
		}
		b, err := os.ReadFile(p)
		if err != nil {
			return nil
		}
		nb := b
		if n := len(reNorace.FindAllIndex(nb, -1)); n > 0 {
			info.NoraceSites += n
			nb = reNorace.ReplaceAll(nb, []byte("//"))
		}
		if shim && filepath.Dir(rel) == "." && !strings.HasPrefix(rel, "verif_") {
			for _, rw := range []struct{ from, to, key string }{
				{"syscall.Write(", "verifWrite(", "write"},
				{"syscall.Read(", "verifRead(", "read"},
				{"syscall.Sendfile(", "verifSendfile(", "sendfile"},
				{"syscall.EpollCtl(", "verifEpollCtl(", "epoll_ctl"},
				{"syscall.Syscall(syscall.SYS_WRITEV,", "verifSyscallWritev(", "writev"},
			} {
				if c := bytes.Count(nb, []byte(rw.from)); c > 0 {
					info.ShimSites[rw.key] += c
					nb = bytes.ReplaceAll(nb, []byte(rw.from), []byte(rw.to))
				}
			}
		}
		if !bytes.Equal(nb, b) {
			dst := filepath.Join(dir, strings.ReplaceAll(rel, "/", "__"))
			if err := os.WriteFile(dst, nb, 0o644); err != nil {
				return err
			}
			repl[p] = dst
		}
		return nil
	})
	if err != nil {
		return nil, err
	}
	b, _ := json.MarshalIndent(map[string]interface{}{"Replace": repl}, "", " ")
	info.Path = filepath.Join(dir, "overlay.json")
	return info, os.WriteFile(info.Path, b, 0o644)
}

// ---------------------------------------------------------------- build + run

func buildWorker(p *prop, ph *phase, outDir string) (string, *overlayInfo, error) {
	ovDir := filepath.Join(outDir, "overlay-"+ph.Name)
	ov, err := makeOverlay(ovDir, ph.Shim)
	if err != nil {
		return "", nil, err
	}
	bin := filepath.Join(outDir, "bin-"+ph.Name)
	args := []string{"build", "-tags", "verif", "-overlay", ov.Path, "-o", bin}
	if repo != "/repo" {
		mf, err := altModfile(outDir)
		if err != nil {
			return "", ov, err
		}
		args = append(args, "-modfile="+mf)
	}
	if ph.Race {
		args = append(args, "-race")
	}
	args = append(args, ph.Pkg)
	cmd := exec.Command("go", args...)
	cmd.Env = goEnv()
	cmd.Dir = verifDir
	out, err := cmd.CombinedOutput()
	if err != nil {
		return "", ov, fmt.Errorf("go %s: %v\n%s", strings.Join(args, " "), err, out)
	}
	return bin, ov, nil
}

// altModfile writes a copy of go.mod whose nbio replace points at repo.
func altModfile(outDir string) (string, error) {
	b, err := os.ReadFile(filepath.Join(verifDir, "go.mod"))
	if err != nil {
		return "", err
	}
	nb := strings.Replace(string(b), "=> /repo", "=> "+repo, 1)
	mf := filepath.Join(outDir, "alt.mod")
	if err := os.WriteFile(mf, []byte(nb), 0o644); err != nil {
		return "", err
	}
	sum, _ := os.ReadFile(filepath.Join(verifDir, "go.sum"))
	_ = os.WriteFile(filepath.Join(outDir, "alt.sum"), sum, 0o644)
	return mf, nil
}

type procOut struct {
	shard    int
	res      *h.Result
	log      string
	crashed  bool
	timedOut bool
	partial  []h.Violation
	exit     int
}

func runShard(p *prop, ph *phase, bin, outDir, tier string, shard, shards int, extra []string) procOut {
	logPath := filepath.Join(outDir, fmt.Sprintf("log-%s-%d.txt", ph.Name, shard))
	resPath := filepath.Join(outDir, fmt.Sprintf("result-%s-%d.json", ph.Name, shard))
	_ = os.Remove(resPath)
	partPath := filepath.Join(outDir, fmt.Sprintf("partial-%s-%d.json", ph.Name, shard))
	_ = os.Remove(partPath)
	lf, _ := os.Create(logPath)
	args := []string{"--phase", ph.Name, "--shard", fmt.Sprintf("%d/%d", shard, shards), "--out", outDir}
	args = append(args, ph.Args...)
	args = append(args, extra...)
	cmd := exec.Command(bin, args...)
	cmd.Dir = verifDir
	cmd.Stdout = lf
	cmd.Stderr = lf
	env := append(os.Environ(), "VERIF_TIER="+tier, fmt.Sprintf("VERIF_SEED=%d", seed()), "GOTRACEBACK=all")
	if ph.Race {
		env = append(env, "GORACE=halt_on_error=0 exitcode=0 log_path="+filepath.Join(outDir, fmt.Sprintf("race-%s-%d", ph.Name, shard)))
	}
	env = append(env, ph.Env...)
	cmd.Env = env
	cmd.SysProcAttr = &syscall.SysProcAttr{Setpgid: true}
	to := ph.timeout(tier)
	po := procOut{shard: shard, log: logPath}
	if err := cmd.Start(); err != nil {
		po.crashed = true
		return po
	}
	done := make(chan error, 1)
	go func() { done <- cmd.Wait() }()
	select {
	case err := <-done:
		if err != nil {
			po.exit = 1
			if ee, ok := err.(*exec.ExitError); ok {
				po.exit = ee.ExitCode()
			}
		}
	case <-time.After(to):
		po.timedOut = true
		_ = syscall.Kill(-cmd.Process.Pid, syscall.SIGQUIT)
		select {
		case <-done:
		case <-time.After(10 * time.Second):
			_ = syscall.Kill(-cmd.Process.Pid, syscall.SIGKILL)
			<-done
		}
	}
	lf.Close()
	if b, err := os.ReadFile(resPath); err == nil {
		var r h.Result
		if json.Unmarshal(b, &r) == nil && r.Done {
			po.res = &r
		}
	}
	if po.res == nil {
		// the shard did not finish (watchdog, fatal error): the violations it had recorded by then
		// still count; its evaluations and coverage counters do not
		if b, err := os.ReadFile(partPath); err == nil {
			var r h.Result
			if json.Unmarshal(b, &r) == nil {
				po.partial = r.Violations
			}
		}
	}
	if po.res == nil && !po.timedOut {
		po.crashed = true
	}
	return po
}

type merged struct {
	evals      int64
	nt         map[string]struct{}
	samples    []interface{}
	viol       []violRec
	inc        []string
	counters   map[string]int64
	sets       map[string]map[string]struct{}
	phasesRun  []string
	shimSites  map[string]int
	norace     int
	raceBlocks int
	raceUnattr map[string]int
}

type violRec struct {
	h.Violation
	Phase string
}

func tail(path string, n int) string {
	b, err := os.ReadFile(path)
	if err != nil {
		return ""
	}
	if len(b) > n {
		b = b[len(b)-n:]
	}
	return string(b)
}

func head(path string, n int) string {
	b, err := os.ReadFile(path)
	if err != nil {
		return ""
	}
	if len(b) > n {
		b = b[:n]
	}
	return string(b)
}

var reFatal = regexp.MustCompile(`(?m)^(fatal error: .*|panic: .*|unexpected fault address .*|SIGSEGV.*)$`)

func runProp(id, tier, only string) int {
	p := findProp(id)
	if p == nil {
		fmt.Fprintln(os.Stderr, "unknown property", id)
		return 64
	}
	start := time.Now()
	outDir := filepath.Join(verifDir, "out", p.ID+os.Getenv("VERIF_OUT_SUFFIX"))
	_ = os.MkdirAll(outDir, 0o755)
	// stale replay files of earlier runs are removed so paths printed now are from now
	if m, _ := filepath.Glob(filepath.Join(outDir, "replay-*.json")); m != nil {
		for _, f := range m {
			_ = os.Remove(f)
		}
	}
	_ = os.MkdirAll(filepath.Join(verifDir, "evidence"), 0o755)
	evPath := filepath.Join(verifDir, "evidence", p.ID+os.Getenv("VERIF_OUT_SUFFIX")+".json")
	_ = os.Remove(evPath)

	m := &merged{nt: map[string]struct{}{}, counters: map[string]int64{}, sets: map[string]map[string]struct{}{}, shimSites: map[string]int{}, raceUnattr: map[string]int{}}

	for i := range p.Phases {
		ph := &p.Phases[i]
		if only != "" && ph.Name != only {
			continue
		}
		if ph.ThoroughOnly && tier != "thorough" {
			continue
		}
		bin, ov, err := buildWorker(p, ph, outDir)
		if err != nil {
			fmt.Printf("BUILD-FAILED property=%s phase=%s\n%v\n", p.ID, ph.Name, err)
			return 2
		}
		m.norace = ov.NoraceSites
		for k, v := range ov.ShimSites {
			m.shimSites[k] = v
		}
		if m2, _ := filepath.Glob(filepath.Join(outDir, "race-"+ph.Name+"-*")); m2 != nil {
			for _, f := range m2 {
				_ = os.Remove(f)
			}
		}
		shards := ph.shards(tier)
		outs := make([]procOut, shards)
		var wg sync.WaitGroup
		for s := 0; s < shards; s++ {
			wg.Add(1)
			go func(s int) {
				defer wg.Done()
				outs[s] = runShard(p, ph, bin, outDir, tier, s, shards, nil)
			}(s)
		}
		wg.Wait()
		m.phasesRun = append(m.phasesRun, ph.Name)
		for _, po := range outs {
			if po.res != nil {
				mergeResult(m, ph, po.res)
			}
			for _, v := range po.partial {
				m.viol = append(m.viol, violRec{Violation: v, Phase: ph.Name})
			}
			if po.timedOut {
				m.inc = append(m.inc, fmt.Sprintf("phase=%s shard=%d watchdog (%v) fired; log %s", ph.Name, po.shard, ph.timeout(tier), po.log))
				continue
			}
			// a worker that panics still runs its deferred Finish: a non-zero exit is a crash
			// even when a result file exists
			if po.crashed || po.exit != 0 {
				lg := tail(po.log, 20000)
				what := "worker process died without a result"
				if mm := reFatal.FindString(lg); mm != "" {
					what = mm
				} else if mm := reFatal.FindString(head(po.log, 200000)); mm != "" {
					what = mm
				}
				cur := filepath.Join(outDir, fmt.Sprintf("current-%s-%d.json", ph.Name, po.shard))
				var c interface{}
				if b, err := os.ReadFile(cur); err == nil {
					var w map[string]interface{}
					if json.Unmarshal(b, &w) == nil {
						c = w["case"]
					}
				}
				m.viol = append(m.viol, violRec{Violation: h.Violation{Sig: "crash:" + crashSig(what, lg), Detail: what + "\n--- log tail ---\n" + tail(po.log, 6000), Case: c}, Phase: ph.Name})
			}
		}
		if ph.Race {
			collectRaces(m, p, ph, outDir)
		}
	}

	// ---- verdict
	known := loadKnown()
	exit := 0
	nViol := 0
	printedKnown := map[string]bool{}
	for i, v := range m.viol {
		if kf := matchKnown(known, p.ID, v.Sig); kf != nil {
			if !printedKnown[kf.Sig] {
				fmt.Printf("KNOWN-FINDING: property=%s [%s] %s\n", p.ID, kf.Sig, kf.What)
				printedKnown[kf.Sig] = true
			}
			continue
		}
		nViol++
		rp := filepath.Join(outDir, fmt.Sprintf("replay-%d.json", i))
		b, _ := json.MarshalIndent(map[string]interface{}{"property": p.ID, "phase": v.Phase, "tier": tier, "seed": seed(), "sig": v.Sig, "detail": v.Detail, "case": v.Case}, "", " ")
		_ = os.WriteFile(rp, b, 0o644)
		fmt.Printf("VIOLATION property=%s replay=%s\n", p.ID, rp)
		fmt.Printf("  sig: %s\n  %s\n", v.Sig, indent(firstLines(v.Detail, 12)))
		exit = 1
	}
	for _, s := range m.inc {
		fmt.Printf("INCONCLUSIVE: property=%s %s\n", p.ID, s)
	}

	// ---- evidence
	cov := map[string]interface{}{
		"evaluations":         m.evals,
		"distinct_nontrivial": len(m.nt),
		"rule":                p.Rule,
		"samples":             m.samples,
		"phases":              m.phasesRun,
		"inconclusive":        len(m.inc),
		"known_findings_hit":  len(printedKnown),
	}
	if len(m.samples) == 0 {
		cov["samples"] = []interface{}{}
	}
	obs := map[string]interface{}{}
	for k, v := range m.counters {
		obs[k] = v
	}
	for k, s := range m.sets {
		obs["distinct_"+k] = len(s)
		var l []string
		for x := range s {
			l = append(l, x)
		}
		sort.Strings(l)
		if len(l) > 24 {
			l = l[:24]
		}
		obs["some_"+k] = l
	}
	if m.norace > 0 {
		obs["norace_pragmas_stripped"] = m.norace
	}
	if len(m.shimSites) > 0 {
		obs["shim_sites"] = m.shimSites
	}
	if m.raceBlocks > 0 || len(m.raceUnattr) > 0 {
		obs["race_reports_total"] = m.raceBlocks
		obs["race_reports_unattributed"] = m.raceUnattr
	}
	cov["observed"] = obs
	ev := map[string]interface{}{
		"property_id": p.ID,
		"tier":        tier,
		"seed":        seed(),
		"level":       p.Level,
		"coverage":    cov,
		"assumptions": p.Assumptions,
		"wall_s":      time.Since(start).Seconds(),
		"violations":  nViol,
	}
	b, _ := json.MarshalIndent(ev, "", " ")
	_ = os.WriteFile(evPath, b, 0o644)

	if len(m.nt) < 2 && exit == 0 {
		fmt.Printf("INCONCLUSIVE: property=%s coverage below minimum (distinct_nontrivial=%d) - no claim\n", p.ID, len(m.nt))
	}
	fmt.Printf("%s tier=%s seed=%d evaluations=%d distinct_nontrivial=%d violations=%d known=%d inconclusive=%d wall=%.1fs\n",
		p.ID, tier, seed(), m.evals, len(m.nt), nViol, len(printedKnown), len(m.inc), time.Since(start).Seconds())
	return exit
}

func crashSig(what, lg string) string {
	w := what
	if i := strings.Index(w, "0x"); i > 0 {
		w = w[:i]
	}
	if len(w) > 80 {
		w = w[:80]
	}
	return strings.TrimSpace(w)
}

func firstLines(s string, n int) string {
	l := strings.Split(s, "\n")
	if len(l) > n {
		l = append(l[:n], "…")
	}
	return strings.Join(l, "\n")
}

func indent(s string) string { return strings.ReplaceAll(s, "\n", "\n  ") }

func mergeResult(m *merged, ph *phase, r *h.Result) {
	m.evals += r.Evaluations
	for _, k := range r.Nontrivial {
		m.nt[ph.Name+":"+k] = struct{}{}
	}
	for _, s := range r.Samples {
		if len(m.samples) < 6 {
			m.samples = append(m.samples, s)
		}
	}
	for _, v := range r.Violations {
		m.viol = append(m.viol, violRec{Violation: v, Phase: ph.Name})
	}
	for _, s := range r.Inconclusive {
		m.inc = append(m.inc, "phase="+ph.Name+" "+s)
	}
	for k, v := range r.Counters {
		if strings.HasPrefix(k, "max_") {
			if v > m.counters[k] {
				m.counters[k] = v
			}
		} else {
			m.counters[k] += v
		}
	}
	for k, l := range r.Sets {
		s := m.sets[k]
		if s == nil {
			s = map[string]struct{}{}
			m.sets[k] = s
		}
		for _, x := range l {
			s[x] = struct{}{}
		}
	}
}

func replay(id, path string) int {
	p := findProp(id)
	if p == nil {
		fmt.Fprintln(os.Stderr, "unknown property", id)
		return 64
	}
	b, err := os.ReadFile(path)
	if err != nil {
		fmt.Fprintln(os.Stderr, err)
		return 64
	}
	var w struct {
		Phase string `json:"phase"`
		Tier  string `json:"tier"`
		Seed  int64  `json:"seed"`
	}
	_ = json.Unmarshal(b, &w)
	var ph *phase
	for i := range p.Phases {
		if p.Phases[i].Name == w.Phase {
			ph = &p.Phases[i]
		}
	}
	if ph == nil {
		ph = &p.Phases[0]
	}
	outDir := filepath.Join(verifDir, "out", p.ID)
	_ = os.MkdirAll(outDir, 0o755)
	bin, _, err := buildWorker(p, ph, outDir)
	if err != nil {
		fmt.Println(err)
		return 2
	}
	abs, _ := filepath.Abs(path)
	os.Setenv("VERIF_SEED", fmt.Sprint(w.Seed))
	tier := w.Tier
	if tier == "" {
		tier = "quick"
	}
	_ = os.Remove(filepath.Join(outDir, "result-replay.json"))
	po := runShard(p, ph, bin, outDir, tier, 0, 1, []string{"--replay", abs})
	fmt.Print(tail(po.log, 8000))
	rb, err := os.ReadFile(filepath.Join(outDir, "result-replay.json"))
	if err != nil {
		fmt.Println("replay: worker produced no result (crash?)")
		return 1
	}
	var r h.Result
	_ = json.Unmarshal(rb, &r)
	if len(r.Violations) > 0 {
		for _, v := range r.Violations {
			fmt.Printf("VIOLATION property=%s replay=%s\n  sig: %s\n  %s\n", p.ID, abs, v.Sig, indent(firstLines(v.Detail, 20)))
		}
		return 1
	}
	fmt.Println("replay: no violation")
	return 0
}

// ---------------------------------------------------------------- known findings

type knownFinding struct {
	Property string `json:"property"`
	Status   string `json:"status"`
	Sig      string `json:"sig"`
	What     string `json:"what"`
	Commit   string `json:"commit,omitempty"`
}

func loadKnown() []knownFinding {
	b, err := os.ReadFile(filepath.Join(verifDir, "known_findings.json"))
	if err != nil {
		return nil
	}
	var k []knownFinding
	_ = json.Unmarshal(b, &k)
	return k
}

func matchKnown(k []knownFinding, id, sig string) *knownFinding {
	for i := range k {
		if k[i].Property == id && k[i].Status == "known" && k[i].Sig == sig {
			return &k[i]
		}
	}
	return nil
}
