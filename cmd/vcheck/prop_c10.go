package main

import "time"

func init() {
	props = append(props, prop{
		ID: "C10", Title: "HTTP exchanges end to end: one answer per request, in order, isolated", Level: "exploration",
		Rule: "case = one started nbhttp.Engine in a cell of IOMod {NonBlocking, Blocking, Mixed} x {plain, TLS} x {LT, ET, ONESHOT} (all 18 enumerated) serving 1-64 concurrent connections of independent clients: a raw pipelining client (1-16 requests written back-to-back over net.Conn / crypto/tls, then the responses read with http.ReadResponse; HTTP/1.0 and 1.1, Connection close / keep-alive spellings, GET and POST with Content-Length or chunked bodies of 0 B - 1 MiB, responses of 0 B - 1 MiB written by the handler in 1-5 pieces with or without Content-Length, handler-side and client-side mid-stream closes, requests pipelined behind a dictated close) and net/http.Transport with keep-alive; plus cases that drive nbhttp's own Client.Do (pooled) and ClientConn.Do (pipelined, FIFO) against an nbhttp server of the cell and against a net/http server, with handler-side closes and ClientConn.Close racing pending requests; plus a handful of cases for the close-with-backlog shape (8-24 MiB response to a close-dictating request, reader starting 200-600 ms late, with a keep-alive control). Every exchange has a process-unique id; request and response bodies are the id-keyed 16-byte-cell pattern, so any byte of another exchange is recognised and attributed. Monitors: response i carries request i's id and exactly the expected body; one response per request unless a close was dictated / requested; EOF and nothing else after a close-dictating exchange, no answer to requests behind it; the next batch on the same connection succeeds otherwise; per (connection) an atomic inside-counter (handlers never overlap) and strictly increasing request sequence at handler entry; request bodies arrive intact; each client callback exactly once with the response carrying its own id or an error, checked after every issuer returned, the clients were closed, the configured Timeout expired and the history went quiet (most TLS client cases pin the client to TLS 1.2: with TLS 1.3 nbhttp's https client completes no exchange in this tree). A failed net/http request is counted and reported inconclusive, not alarmed (net/http hides the connection; the raw client asserts the same clauses). Phase chunked runs the response writer's multi-write chunk path (no Content-Length, > 60000 bytes) in its own processes with one collapsed signature. Missing responses / EOFs / callbacks are decided in a final history (all progress counters flat, no workload sleep pending, process CPU < 2 % over >= 30 samples / 3 s), hangs by h.Guard; read deadlines are 120 s watchdogs whose firing is inconclusive. seeded Gosched/us delays at execute.afterAppend / execute.afterJob in half of the cases. evaluations = cases; a case is non-trivial only if it raised nothing, was decided without the quiescence fallback and completed >= 1 connection with >= 2 exchanges (raw: >= 2 responses verified on one connection; net/http: a reused connection; ClientConn: >= 2 pipelined callbacks with their own responses); distinct by case index",
		Assumptions: append([]string{
			"the kernel may discard in-flight data when a connection is closed abortively at the harness's own request (handler closes the connection, requests pipelined behind a dictated close): responses lost that way are counted, not alarmed",
			"net/http's client, http.ReadResponse and crypto/tls are trusted as independent observers",
		}, commonAssumptions...),
		Phases: []phase{
			{Name: "main", Pkg: "./workers/c10", QuickShards: 12, ThorShards: 16, QuickTO: 8 * time.Minute},
			// the multi-write chunk path of the response writer (no Content-Length, more
			// than one 64 KiB buffer) runs in its own processes: see workers/c10/main.go
			{Name: "chunked", Pkg: "./workers/c10", QuickShards: 4, ThorShards: 8, QuickTO: 8 * time.Minute},
		},
	})
}
