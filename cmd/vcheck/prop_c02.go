package main

import "time"

func init() {
	props = append(props, prop{
		ID: "C02", Title: "Inbound delivery in every poller configuration", Level: "exploration",
		Rule:        "case = {tcp,unix,udp} x {LT,ET,ONESHOT} x {sync,async read} x IOExecute {default, goroutine-per-call, bounded pool} enumerated; NPoller {1,2,4}, ReadBufferSize {1,7,512,4096,65536}, MaxConnReadTimesPerEventLoop {1,3,default}, 1-4 connections/remotes, peer pattern {single burst, many small writes, byte-at-a-time, pause-resume, bursts larger than the read buffer, burst + half-close, burst + full close (what was sent before the close is still owed), echo (the application answers every chunk with a Write while the peer does not read, so that a write backlog forms and write interest is armed and re-armed while 2-14 MiB of input keep coming); UDP: bursts of 1-20 datagrams then silence}, seeded delays at asyncRead.beforeDecr and inside the data callback sampled from the seed. Streams are self-describing; per connection the concatenation of callback payloads must equal the sent stream at quiescence, callbacks must not overlap; UDP: every delivered datagram equals exactly one sent datagram, once, in per-remote order, one logical connection per remote with the right remote address (kernel drop counter > 0 => inconclusive). The senders are not waited for (a deaf connection blocks its sender). Non-delivery = read stuck-state (FIONREAD > 0 on nbio's descriptor, no read task in flight, idle CPU, 60 samples/3 s); idle spin = process CPU > 25% of a core in three consecutive 1 s windows after all input was delivered. A case is non-trivial when all its input was delivered and compared; distinct by case index Empty UDP datagrams are mixed into the bursts (whether they reach the callback is not asserted, they must not disturb sessions or neighbours); an engine that closes its UDP listener although nobody asked for it is a verdict of its own (udp-listener-closed). A fifth of the tcp cases let the engine dial its connections (DialAsync to a plain listener) while its single poller is held in the callback of a helper dial: every peer sends its first bytes the moment it has accepted and nothing more until they were delivered.. A third of the UDP cases listen on an IPv6 socket ([::1] or the wildcard address with IPv4 remotes) with two remotes of one address",
		Assumptions: commonAssumptions,
		Phases: []phase{
			{Name: "main", Pkg: "./workers/c02", QuickShards: 12, ThorShards: 16, QuickTO: 6 * time.Minute},
		},
	})
}
