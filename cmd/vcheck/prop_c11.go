package main

func init() {
	props = append(props, prop{
		ID: "C11", Title: "Pooled-buffer ownership: freed at most once, never used after free, never shared", Level: "exploration",
		Rule:        "placeholder",
		Assumptions: commonAssumptions,
		Phases: []phase{
			{Name: "main", Pkg: "./workers/c11", QuickShards: 8, ThorShards: 16},
		},
	})
}
