package main

import (
	"regexp"
	"time"
)

func init() {
	props = append(props, prop{
		ID: "C19", Title: "Executors: tasks run exactly once, within the bound, FIFO where promised", Level: "exploration",
		Rule: "three kinds of case, evaluations = cases. pool: taskpool.New(n,q) / New(n,q,caller) / NewIO(n,q,buf) under 1-16 submitters, bursts far above the bound, Stop racing the submissions; exactly-once for tasks whose Go returned before Stop was called (decided in a stuck state: nothing running, no start/end event over >=20 samples/>=2 s idle CPU), at-most-once otherwise, running counter <= n, IOTaskPool buffer length and exclusive ownership; non-trivial only if at least one fork failed (queue path taken, counted at taskpool.afterForkFail) and >=2 tasks ran together. capacity: K0 self-calibrated on fresh pools, then burst of 10-100x the bound, idle (workers exited), barrier of K0 on the same pool; non-trivial only if fork failures occurred in the burst and K0 >= 2. async: Timer.Async (timer.New and Engine.Async) under 1-16 producers with delays at timer.async.afterF: exactly-once, non-overlap, real-time FIFO (sweep, porcupine on histories <= 30); non-trivial only if the drainer finished the last queued function while a producer was inside Async (observed at the hook). distinct by kind and case index. Case kind async-churn: 4-16 producers pass thousands of functions that do nothing to Timer.Async, so that the drainer exits and is restarted all the time; every function runs exactly once, decided in the final state",
		Assumptions: append([]string{
			"the bound asserted for New(n, q) is n tasks submitted with Go running at once (workers plus the dispatcher running a task inline); Call runs on the caller's goroutine and is not counted",
			"K0 is measured on fresh pools of the same build, so the capacity clause is relative to what this tree's fresh pool can do",
		}, commonAssumptions...),
		Phases: []phase{
			{Name: "main", Pkg: "./workers/c19", QuickShards: 12, ThorShards: 14, QuickTO: 4 * time.Minute},
			{Name: "race", Pkg: "./workers/c19", Race: true, QuickShards: 6, ThorShards: 8, QuickTO: 4 * time.Minute},
		},
		// the optional prefixes cover inlining (e.g. taskpool.(*TaskPool).Go.(*TaskPool).fork.func1)
		RaceFuncs: regexp.MustCompile(`^nbio/(taskpool\.(.+\.)?\(\*TaskPool\)\.(fork|Go|Call|Stop)|taskpool\.(.+\.)?\(\*IOTaskPool\)\.(Go|Call)|timer\.(.+\.)?\(\*Timer\)\.Async)$`),
	})
}
