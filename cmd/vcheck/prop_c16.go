package main

import "time"

func init() {
	props = append(props, prop{
		ID: "C16", Title: "Deadlines fire on time, never early, and can be renewed or cleared", Level: "exploration",
		Rule: "phase core: history = one connection of an nbio engine ((tcp|unix) x (LT|ET|ONESHOT) x 1-2 pollers, 100 histories in parallel) running 1-8 random steps of SetReadDeadline/SetWriteDeadline/SetDeadline(now+d, d in 50..400 ms, sometimes already expired), renew later/earlier, clear (zero time), peer traffic (with and without an OnData handler that renews), small application writes, Close(), peer close, two goroutines issuing Set* at once, and calls aimed at the instant the old deadline fires; 12% of the histories put a write deadline on a real backlog (peer paused; then either left to expire, or drained and followed by a small Write, or drained only). Every Set*/Write call is stamped before and after with one monotonic clock, the engine's close callback stamps the notification. Oracles: a timeout close (errors.Is ErrReadTimeout/ErrWriteTimeout) is never observed before the deadline value of the last effect of that direction that returned before it (an effect returning later than old deadline - 30 ms or overlapping the close accepts the older bound too; concurrent calls accept the smaller deadline); after a clear / a Write that found and left an empty backlog that returned >= 30 ms before the deadline no timeout close of that direction at all; error matches the direction; exactly one close notification per connection, watched until every deadline ever set has passed + 300 ms; an armed, not renewed deadline closes the connection by deadline + L + 1 s where L is the lateness of a control time.AfterFunc armed for the same instant (L > 500 ms or a scheduling gap > 250 ms = inconclusive); never-fired = no notification at +5 s and +10 s with control timers on time and the connection still open. phase app: nbhttp engine (IOModNonBlocking, IOModBlocking) with KeepaliveTime 200-500 ms and a websocket.Upgrader with its own KeepaliveTime; raw clients send 0-3 requests (or upgrade + 0-3 masked text frames) and fall silent; the instants at which nbhttp computed now+KeepaliveTime are bracketed by server-side stamps (dial begin / a later accept on the sequential listener; handler end / execute.afterJob; before / after Upgrade) and fed to the same oracle; the client must see EOF/reset no earlier than the bound, by bound + L + 1 s, and never-closed is confirmed at +5 s/+10 s. A history is non-trivial if it contained >= 1 Set*Deadline (app: reached the silent phase) and reached a decided final state (fired in time, survived a trustworthy window, or was closed by app/peer with exactly one notification); distinct by history index Every second dialed history dials with a (far) dial timeout; a close of an established connection with the dial-timeout error is a violation; every fourth application batch runs with Upgrader.KeepaliveTime = 0 (the upgrade clears the deadline: an upgraded connection must not be closed by any timer).",
		Assumptions: append([]string{
			"time.AfterFunc/Timer.Reset of the Go runtime never run a timer before its instant; the harness and nbio read the same monotonic clock",
			"'fires on time' is decided as: within control-timer lateness + 1 s; 'never' as the stuck state at +5 s and +10 s",
			"a write deadline whose backlog was drained by the poller's flush alone (no later Write) is not asserted either way: the statement only names 'a write that empties the backlog'",
			"a stale timer firing on an already closed connection is a no-op inside nbio and not observable without a hook; only second notifications are checked",
		}, commonAssumptions...),
		Phases: []phase{
			{Name: "core", Pkg: "./workers/c16", QuickShards: 6, ThorShards: 10, QuickTO: 6 * time.Minute},
			{Name: "app", Pkg: "./workers/c16", QuickShards: 6, ThorShards: 10, QuickTO: 6 * time.Minute},
			{Name: "client", Pkg: "./workers/c16", QuickShards: 6, ThorShards: 10, QuickTO: 6 * time.Minute},
		},
	})
}
