package main

import "regexp"

func init() {
	props = append(props, prop{
		ID: "C20", Title: "Allocator contracts", Level: "exploration",
		Rule:        "random programs over Malloc/Append/AppendString/Realloc/Free per allocator (mempool.New variants, NewAligned, NewSTD, DefaultMemPool, TraceDebugger wrappers) checked after every operation against a shadow copy; every k ops all live buffers are compared with their shadows and their [base,base+cap) ranges checked pairwise disjoint. evaluations = programs; a program is non-trivial if it performed >=1 growth (Append/Realloc beyond capacity), >=1 free-then-malloc reuse and held >=2 buffers live at a full sweep; distinct by (allocator, mode, program seed)",
		Assumptions: commonAssumptions,
		Phases: []phase{
			{Name: "main", Pkg: "./workers/c20", QuickShards: 4, ThorShards: 12},
			{Name: "race", Pkg: "./workers/c20", Race: true, ThoroughOnly: true, ThorShards: 2, Args: []string{"--concurrent-only"}},
		},
		RaceFuncs: regexp.MustCompile(`^nbio/mempool\.`),
	})
}
