package main

import "regexp"

func init() {
	props = append(props, prop{
		ID: "C20", Title: "Allocator contracts", Level: "exploration",
		Rule:        "random programs over Malloc/Append/AppendString/Realloc/Free per allocator (mempool.New variants, NewAligned, NewSTD, DefaultMemPool, TraceDebugger wrappers) checked after every operation against a shadow copy; every k ops all live buffers are compared with their shadows and their [base,base+cap) ranges checked pairwise disjoint. evaluations = programs; a program is non-trivial if it performed >=1 growth (Append/Realloc beyond capacity), >=1 free-then-malloc reuse and held >=2 buffers live at a full sweep; distinct by (allocator, mode, program seed). Mode handoff: 8 producers allocate and fill buffers (1-256 bytes, every 64th up to 16 KiB) and hand them through a channel to 8 consumers, which check length and contents on receipt, after a yield and after an Append, then free them - buffers are allocated and freed on different Ps, so a Malloc regularly takes a header another goroutine has just put back (counter handoff_malloc_free_pairs)",
		Assumptions: commonAssumptions,
		Phases: []phase{
			{Name: "main", Pkg: "./workers/c20", QuickShards: 4, ThorShards: 12},
			{Name: "race", Pkg: "./workers/c20", Race: true, ThoroughOnly: true, ThorShards: 2, Args: []string{"--concurrent-only"}},
		},
		RaceFuncs: regexp.MustCompile(`^nbio/mempool\.`),
	})
}
