package main

import (
	"regexp"
	"time"
)

func init() {
	props = append(props, prop{
		ID: "C14", Title: "WebSocket callbacks ordered and exactly-once; concurrent writes stay whole", Level: "exploration",
		Rule: "case = one server (nbhttp.Engine + websocket.Upgrader, or net/http server handing connections to the Upgrader) on one upgrade path - poller-driven (IOModNonBlocking), blocking with parser (IOModBlocking), blocking with own read loop (net/http + Upgrade -> HandleRead, and UpgradeWithoutHandlingReadForConnFromSTDServer + go HandleRead), transferred to the poller (UpgradeAndTransferConnToPoller from IOModBlocking and from net/http), IOModMixed - x {LT, ET, ONESHOT} x direct / queued (BlockingModAsyncWrite) writes, engine-served paths also over TLS; 1-5 raw clients (by-hand handshake, frames through internal/wsref, masked) each send 4-43 numbered binary messages (0 B - 100 KiB, half of them in 2-4 fragments, pings between fragments, random TCP segmentation) while 2-32 goroutines per connection call WriteMessage concurrently with messages mostly larger than Config.MaxWebsocketFramePayloadSize (512-4096), followed by an end marker written after all writers returned; connections end by client close frame (after the end marker arrived), client TCP close, wsc.Close() from inside/outside a message callback, or Engine.Stop while traffic flows; seeded Gosched/us delays at execute.afterAppend / execute.afterJob / ws.sendq.afterWrite, open callback lasting 0-3 ms, message callbacks with jitter. Monitors (one logical clock, inside-counters per connection): no message callback before the open callback returned; message callbacks never overlap, arrive with strictly consecutive sequence numbers and intact payload; never after / overlapping the close callback; exactly one close callback per connection that ended while the engine ran (a missing one is decided in a final history: no progress, CPU < 2 % over 30 samples / 3 s; for Stop-ended connections only a second one alarms); on the wire: fragments of a data message contiguous (only control frames in between), every message intact, of this connection, at most once, per-writer order; when the end marker arrived, every message whose WriteMessage returned nil arrived; after the client's close frame all its messages were delivered before the close callback and the server closes. evaluations = cases; a case is non-trivial only if it raised nothing, >= 1 concurrently written message arrived in >= 2 frames and >= 1 connection had >= 2 message callbacks in order; distinct by case index The ping handler runs under the same inside-counter as the message callbacks and is checked for wire order (a ping sent after message k was complete is handled after callback k).. Phase dialer: connections made by nbio itself (websocket.Dialer on a client engine, LT/ET/ONESHOT) to a by-hand server that sends its first messages in the same write as the handshake response, more messages later, and ends the connection with a close frame or by closing the socket; on the client no message callback starts before the open callback has returned (and the session it set is visible), message callbacks do not overlap and come in wire order, exactly one close callback follows them. Phase qclose: queued write mode on blocking connections (net/http server + Upgrade, nbhttp IOModBlocking) with BlockingModAsyncCloseDelay = 30 s; the server writes one 6-12 MiB frame / two messages / a fragmented message to a client that starts reading only after Close has returned, or 1-5 tiny messages to a client that reads at once, and calls Close right behind the last WriteMessage; every message whose WriteMessage returned nil must arrive intact before the stream ends; an early end is a violation only when observed less than half the delay after Close was called (the delayed close cannot have fired), otherwise inconclusive",
		Assumptions: append([]string{
			"the raw client follows RFC 6455 (waits for the 101 response before it sends frames); internal/wsref is the independent codec",
			"connections ended by Engine.Stop are outside the quantifier: only a duplicated close callback alarms for them",
		}, commonAssumptions...),
		Phases: []phase{
			{Name: "main", Pkg: "./workers/c14", QuickShards: 12, ThorShards: 16, QuickTO: 8 * time.Minute},
			{Name: "race", Pkg: "./workers/c14", Race: true, ThoroughOnly: true, ThorShards: 12},
			{Name: "dialer", Pkg: "./workers/c14", QuickShards: 12, ThorShards: 16, QuickTO: 8 * time.Minute},
			{Name: "qclose", Pkg: "./workers/c14", QuickShards: 8, ThorShards: 12, QuickTO: 8 * time.Minute},
		},
		RaceFuncs: regexp.MustCompile(`^nbio/nbhttp/websocket\.\(\*Conn\)\.(writeFrame|WriteMessage|WriteFrame|CloseAndClean)$`),
	})
}
