package main

func init() {
	props = append(props, prop{
		ID: "C09", Title: "HTTP response framing: what the handler writes is what a client decodes", Level: "exploration",
		Rule:        "placeholder",
		Assumptions: commonAssumptions,
		Phases: []phase{
			{Name: "main", Pkg: "./workers/c09", QuickShards: 8, ThorShards: 16},
		},
	})
}
