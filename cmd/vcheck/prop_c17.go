package main

import "time"

func init() {
	props = append(props, prop{
		ID: "C17", Title: "Write-buffer bound", Level: "fault_enumeration",
		Rule:        "case = (tcp|unix) x (LT|ET|ONESHOT) x MaxWriteBufferSize in {1,100,4096,65536,70000,200000,1 MiB}; one connection, one writer, 40-300 fill/drain cycles of Write/Writev/Sendfile. Phase shim: the syscall shim gives the kernel room for exactly Budget bytes (0 while filling), so the true backlog B = accepted - handed to the kernel is known; writes are placed below, exactly at and one byte above the bound; partial and full drains in between. After every call a snapshot taken under the connection mutex is checked: counter == unsent bytes in queued buffers, <= max, == model B; overflow error only if B+n > max and then the connection is closed with ErrOverflow; B+n <= max is accepted; B+n > max accepted (exact model) = violation; after a full drain a write of exactly max is accepted. Phase real: same invariants with a paused peer and a really full socket. Finally the stream is checked with the C01 oracle. A case is non-trivial if it completed >= 1 full drain and either hit the bound or made > 10 calls; distinct by case index. The clause \"a write that fits is always accepted\" also covers transient refusals: a Write/Writev that fits the budget and returns EAGAIN/EINTR to the caller (instead of caching its input) is a violation (fitting-write-not-accepted)",
		Assumptions: append([]string{"file ranges queued by Sendfile are not counted against the bound (they hold no memory); 'fits' means backlog + n <= max at call time, as the implementation defines it"}, commonAssumptions...),
		Phases: []phase{
			{Name: "shim", Pkg: "./workers/c17", Shim: true, QuickShards: 12, ThorShards: 16, QuickTO: 6 * time.Minute},
			{Name: "real", Pkg: "./workers/c17", QuickShards: 12, ThorShards: 16, QuickTO: 6 * time.Minute},
			{Name: "conc", Pkg: "./workers/c17", QuickShards: 12, ThorShards: 16, QuickTO: 6 * time.Minute},
		},
	})
}
