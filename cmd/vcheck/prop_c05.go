package main

import (
	"regexp"
	"time"
)

func init() {
	props = append(props, prop{
		ID: "C05", Title: "Per-connection job serialization: FIFO, one at a time, exactly once", Level: "exploration",
		Rule: "history monitor over Conn.Execute/MustExecute on real accepted connections: 1-16 submitters x 1-4 connections x {nbio's inline default, goroutine-per-call, bounded taskpool} executor x job durations x seeded delays at execute.afterAppend/execute.afterJob/close.beforeTeardown x GOMAXPROCS {1,2,16} x Close racing the submissions; exactly-once decided in the final state (all submitters returned, no executor closure pending, nobody inside), mutual exclusion by an inside counter and interval sweep, real-time FIFO by a sweep cross-checked with porcupine on histories <= 30 jobs. evaluations = histories (cases); a case is non-trivial only if more than one drainer generation ran AND at least once a drainer finished the last queued job while another submitter was inside Execute/MustExecute on that connection (the two-party hand-over window, observed at the execute.afterJob hook); distinct by case index The close callback of every connection queues a close-handling job with MustExecute (as nbhttp does): no job accepted by Execute may run behind it - such a job was appended to a connection that was closed already.. Phase http: the same clause for nbhttp's own jobs - per engine cell (IOMod x plain/TLS x epoll mode) raw clients write 2-5 pipelined requests in one segment, the handler of the first is held so that the others are queued behind it, the client closes while it is inside; in the log (one atomic clock) no two handler invocations of a connection overlap, they run in request order, and the notification registered with Engine.OnClose neither arrives while a handler of that connection is inside nor is followed by a handler start",
		Assumptions: append([]string{
			"the logical clock is one atomic counter: tick order is consistent with happens-before, so A.ret < B.call implies A's submit returned before B's was invoked",
			"hook callbacks (build tag verif) only delay; VerifJobs/VerifBacklog read under the connection's own mutex",
		}, commonAssumptions...),
		Phases: []phase{
			{Name: "main", Pkg: "./workers/c05", QuickShards: 8, ThorShards: 14, QuickTO: 4 * time.Minute},
			{Name: "race", Pkg: "./workers/c05", Race: true, QuickShards: 4, ThorShards: 8, QuickTO: 4 * time.Minute},
			{Name: "http", Pkg: "./workers/c05", QuickShards: 12, ThorShards: 16, QuickTO: 4 * time.Minute},
		},
		// the optional prefix covers inlining: execute's closure inlined into Execute is
		// reported as nbio.(*Conn).Execute.(*Conn).execute.func1
		RaceFuncs: regexp.MustCompile(`^nbio\.(.+\.)?\(\*Conn\)\.(Execute|MustExecute|execute)$`),
	})
}
