package main

import "time"

func init() {
	props = append(props, prop{
		ID: "C18", Title: "Stop terminates and reclaims", Level: "exploration",
		Rule:        "case = one Start -> history -> Stop|Shutdown(live context) cycle inside a long-lived process; core engine: {tcp,unix,udp} x {LT,ET,ONESHOT} x 1-3 pollers with 1-10 connections, 0-2 connections holding a 6 MiB backlog (buffers or a queued Sendfile; in a third of the cases MaxWriteBufferSize is 256 KiB so that these writes fail with the overflow error before Stop), 0-2 with pending deadlines, 0-2 DialAsync still connecting (accept queue full; with and without timeout), 0-3 goroutines closing connections while Stop runs, optionally clients that keep connecting during Stop, optionally an Engine.AddConn issued around the start of Stop (racing it, or with its open callback still running when Stop starts), seeded delays at acceptor.afterAccept / addConn.afterOnOpen / close.beforeTeardown; HTTP engine: IOMod {NonBlocking, Blocking, Mixed} x {plain, TLS} x epoll mode with served keep-alive connections, idle connections and 0-2 upgraded WebSocket connections (Upgrader.BlockingModTrasferConnToPoller on/off, BlockingModAsyncWrite on/off). Monitors: Stop returns (hang = no progress >= 30 s, idle CPU, same goroutines blocked inside nbio in two dumps 5 s apart); core engine: opens (+ pending dials) == close notifications when Stop returns; every client connection is closed or reset within 3 s after Stop returned; after the harness closed its own peers, goroutines running in / created by nbio and open descriptors equal the pre-start baseline (settle loop, then confirmed stable over 2 s); per-shard slope over all cycles is 0. A case is non-trivial when the whole cycle was decided clean; distinct by case index Further history elements: Close of an nbio.Conn before / while it is handed to AddConn; a burst of six AddConn calls around the start of Stop; application-supplied HTTP executors (server / client / both). DialAsync calls issued around the start of Stop (refused, or taken and closed by Stop).",
		Assumptions: commonAssumptions,
		Phases: []phase{
			{Name: "main", Pkg: "./workers/c18", QuickShards: 12, ThorShards: 16, QuickTO: 8 * time.Minute},
		},
	})
}
