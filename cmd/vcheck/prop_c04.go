package main

import "time"

func init() {
	props = append(props, prop{
		ID: "C04", Title: "Flush liveness", Level: "fault_enumeration",
		Rule:        "case = (tcp|unix) x (LT|ET|ONESHOT) x write origin (inside OnOpen before epoll registration | foreign goroutine in the registration gap (delay point addConn.afterOnOpen) | inside OnData | foreign goroutine | timer callback | another connection's OnClose callback | inside the DialAsync callback of a connection the engine dialed to a plain listener) x backlog shape (buffers | sendfile | mixed; in a quarter of the cases a Sendfile of a file with nothing left to send is queued inside or behind the backlog) x socket buffer sizes x delay before the peer starts reading; 5-8 MiB are written while the peer does not read, then the peer reads continuously and no further call is made. Outcome: complete (stream checked with the C01 oracle) or the stable write stuck-state: connection open, accessor backlog > 0, poll(POLLOUT) says writable, peer FIONREAD == 0, no progress over 60 samples / 3 s with idle process CPU while a control connection on the same single poller answers pings = violation. Phase shim additionally shortens/refuses transfers and, in LT/ONESHOT, refuses everything (EAGAIN) until the peer starts reading. A case is non-trivial if the accessor saw a non-empty backlog at the moment the peer started reading; distinct by case index. Half of the ET/ONESHOT cells run with AsyncReadInPoller (signatures and cells say <mode>-async): the reading job re-arms the one-shot event itself and data-callback writes run on its goroutine",
		Assumptions: append([]string{"'eventually' is decided as 'complete or provably stuck within the run'; a drain slower than the 120 s watchdog is inconclusive"}, commonAssumptions...),
		Phases: []phase{
			{Name: "real", Pkg: "./workers/c04", QuickShards: 12, ThorShards: 16, QuickTO: 6 * time.Minute},
			{Name: "shim", Pkg: "./workers/c04", Shim: true, QuickShards: 12, ThorShards: 16, QuickTO: 6 * time.Minute},
		},
	})
}
