package main

import (
	"regexp"
	"time"
)

type phase struct {
	Name         string
	Pkg          string
	Race         bool
	Shim         bool
	ThoroughOnly bool
	QuickShards  int
	ThorShards   int
	QuickTO      time.Duration
	ThorTO       time.Duration
	Args         []string
	Env          []string
}

func (p *phase) shards(tier string) int {
	n := p.QuickShards
	if tier == "thorough" {
		n = p.ThorShards
	}
	if n <= 0 {
		n = 1
	}
	return n
}

func (p *phase) timeout(tier string) time.Duration {
	t := p.QuickTO
	if tier == "thorough" {
		t = p.ThorTO
	}
	if t <= 0 {
		if tier == "thorough" {
			return 40 * time.Minute
		}
		return 8 * time.Minute
	}
	return t
}

type prop struct {
	ID          string
	Title       string
	Level       string
	Rule        string
	Assumptions []string
	Phases      []phase
	RaceFuncs   *regexp.Regexp
	RaceIgnore  *regexp.Regexp
}

func findProp(id string) *prop {
	for i := range props {
		if props[i].ID == id {
			return &props[i]
		}
	}
	return nil
}

var commonAssumptions = []string{
	"Linux/epoll build of nbio only; go toolchain, kernel TCP/unix/UDP sockets, net/http, compress/flate and unicode/utf8 are trusted",
	"verdicts cover only the executions this run produced (cases derived from VERIF_SEED); schedules are sampled, not enumerated",
}

var props = []prop{
	{
		ID: "C20", Title: "Allocator contracts", Level: "exploration",
		Rule: "random programs over Malloc/Append/AppendString/Realloc/Free per allocator (mempool.New variants, NewAligned, NewSTD, DefaultMemPool, TraceDebugger wrappers) checked after every operation against a shadow copy; every k ops all live buffers are compared with their shadows and their [base,base+cap) ranges checked pairwise disjoint. evaluations = programs; a program is non-trivial if it performed >=1 growth (Append/Realloc beyond capacity), >=1 free-then-malloc reuse and held >=2 buffers live at a full sweep; distinct by (allocator, mode, program seed)",
		Assumptions: commonAssumptions,
		Phases: []phase{
			{Name: "main", Pkg: "./workers/c20", QuickShards: 4, ThorShards: 12},
			{Name: "race", Pkg: "./workers/c20", Race: true, ThoroughOnly: true, ThorShards: 2, Args: []string{"--concurrent-only"}},
		},
		RaceFuncs: regexp.MustCompile(`^nbio/mempool\.`),
	},
}
