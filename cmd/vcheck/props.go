package main

import (
	"regexp"
	"time"
)

type phase struct {
	Name         string
	Pkg          string
	Race         bool
	Shim         bool
	ThoroughOnly bool
	QuickShards  int
	ThorShards   int
	QuickTO      time.Duration
	ThorTO       time.Duration
	Args         []string
	Env          []string
}

func (p *phase) shards(tier string) int {
	n := p.QuickShards
	if tier == "thorough" {
		n = p.ThorShards
	}
	if n <= 0 {
		n = 1
	}
	return n
}

func (p *phase) timeout(tier string) time.Duration {
	t := p.QuickTO
	if tier == "thorough" {
		t = p.ThorTO
	}
	if t <= 0 {
		if tier == "thorough" {
			return 40 * time.Minute
		}
		return 8 * time.Minute
	}
	return t
}

type prop struct {
	ID          string
	Title       string
	Level       string
	Rule        string
	Assumptions []string
	Phases      []phase
	RaceFuncs   *regexp.Regexp
	RaceIgnore  *regexp.Regexp
}

func findProp(id string) *prop {
	for i := range props {
		if props[i].ID == id {
			return &props[i]
		}
	}
	return nil
}

var commonAssumptions = []string{
	"Linux/epoll build of nbio only; go toolchain, kernel TCP/unix/UDP sockets, net/http, compress/flate and unicode/utf8 are trusted",
	"verdicts cover only the executions this run produced (cases derived from VERIF_SEED); schedules are sampled, not enumerated",
}

var props []prop
