package main

import (
	"regexp"
	"time"
)

func init() {
	props = append(props, prop{
		ID: "C01", Title: "Outbound stream integrity", Level: "fault_enumeration",
		Rule:        "case = (transport tcp|unix) x (LT|ET|ONESHOT) x socket buffer sizes x 1-2 connections, each with 1-4 writer goroutines (+ writes from OnData) running seeded programs of Write/Writev(1-8 buffers, empty ones included)/Sendfile(offset,length) with sizes 0..4 MiB and Sendfile of files with nothing left to send (empty, or positioned at their end), against a peer that reads eagerly / slowly / only after all calls returned / late / resets mid-stream. Every payload cell names (call, offset); the received stream must be an interleaving of whole calls respecting program order and real-time order, complete when the connection stayed open (CheckStream), a valid prefix after an error close; err==nil => n==len. Phase real: kernel chooses split points; phase shim: the package's write/writev/sendfile syscalls are routed through a policy that shortens transfers (real prefix transfer), returns EINTR, EAGAIN (LT/ONESHOT only) and injected ECONNRESET/EPIPE/ETIMEDOUT. A connection is non-trivial if the backlog path was really entered: the accessor saw queued bytes after a call, or the shim shortened/refused >=1 transfer, and bytes were verified; distinct by (case, connection)",
		Assumptions: append([]string{"shim phase: injected results are restricted to what a kernel may legally return at that point (no fabricated EAGAIN in plain ET)"}, commonAssumptions...),
		Phases: []phase{
			{Name: "real", Pkg: "./workers/c01", QuickShards: 8, ThorShards: 16, QuickTO: 6 * time.Minute},
			{Name: "shim", Pkg: "./workers/c01", Shim: true, QuickShards: 8, ThorShards: 16, QuickTO: 6 * time.Minute},
			{Name: "race", Pkg: "./workers/c01", Race: true, ThoroughOnly: true, ThorShards: 4, Env: []string{"VERIF_C01_N=120"}},
		},
		RaceFuncs: regexp.MustCompile(`^nbio\.\(\*Conn\)\.(Write|Writev|write|writev|flush|Sendfile|newToWriteBuf|newToWriteFile|releaseToWrite|doWrite|writeStream)$|^nbio\.writev$`),
	})
}
