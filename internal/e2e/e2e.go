// Package e2e holds what the end-to-end HTTP (C10) and WebSocket (C14)
// workers share: an event log stamped by one logical clock, the quiescence
// detector that turns "nothing more can happen" into a decidable state, the
// id-keyed body checker (any byte of another exchange is recognised) and the
// seeded delay functions installed at nbio's verif points.
package e2e

import (
	"bytes"
	"encoding/binary"
	"fmt"
	"runtime"
	"strings"
	"sync"
	"sync/atomic"
	"time"

	"verif/internal/h"
	"verif/internal/outb"
)

// ---------------------------------------------------------------- event log

// Event is one recorded observation.
type Event struct {
	Clk  int64
	At   time.Duration // wall time since the log was created (diagnostics only, never an oracle input)
	Kind string
	Key  string
	ID   int64
	Info string
}

// Log is a bounded event log with one logical clock.
type Log struct {
	clk int64
	mu  sync.Mutex
	ev  []Event
	max int
	t0  time.Time
}

// NewLog returns a log keeping at most max events (the clock keeps counting).
func NewLog(max int) *Log { return &Log{max: max, t0: time.Now()} }

// Tick advances and returns the logical clock.
func (l *Log) Tick() int64 { return atomic.AddInt64(&l.clk, 1) }

// Now returns the clock without advancing it.
func (l *Log) Now() int64 { return atomic.LoadInt64(&l.clk) }

// Add stamps and records an event.
func (l *Log) Add(kind, key string, id int64, info string) int64 {
	t := l.Tick()
	l.mu.Lock()
	if len(l.ev) < l.max {
		l.ev = append(l.ev, Event{t, time.Since(l.t0), kind, key, id, info})
	}
	l.mu.Unlock()
	return t
}

// keyMatch: keys are either a name, an address, or "address|name"; sub
// selects a whole component, never a prefix of one ("r2" must not match "r21").
func keyMatch(key, sub string) bool {
	if key == sub {
		return true
	}
	if i := strings.IndexByte(key, '|'); i >= 0 {
		return key[:i] == sub || key[i+1:] == sub
	}
	return false
}

// Find returns the info of the last event of the given kind whose key matches
// sub, and whether there is one.
func (l *Log) Find(kind, sub string) (string, bool) {
	l.mu.Lock()
	defer l.mu.Unlock()
	for i := len(l.ev) - 1; i >= 0; i-- {
		if l.ev[i].Kind == kind && keyMatch(l.ev[i].Key, sub) {
			return l.ev[i].Info, true
		}
	}
	return "", false
}

// Slice renders the last max events of the connection / client sub ("" = all).
func (l *Log) Slice(sub string, max int) string {
	l.mu.Lock()
	defer l.mu.Unlock()
	var sel []Event
	for _, e := range l.ev {
		if sub == "" || keyMatch(e.Key, sub) {
			sel = append(sel, e)
		}
	}
	if len(sel) > max {
		sel = sel[len(sel)-max:]
	}
	var sb strings.Builder
	for _, e := range sel {
		fmt.Fprintf(&sb, "  t=%d (+%.1fms) %s key=%s id=%d %s\n", e.Clk, float64(e.At)/1e6, e.Kind, e.Key, e.ID, e.Info)
	}
	return sb.String()
}

// ---------------------------------------------------------------- quiescence

// Sleeping counts harness goroutines that are in a deliberate sleep (part of
// the workload, e.g. a client that starts reading late). A history is not
// final while one of them is pending.
var Sleeping int64

// Sleep is a workload sleep that the quiescence detector knows about.
func Sleep(d time.Duration) {
	atomic.AddInt64(&Sleeping, 1)
	time.Sleep(d)
	atomic.AddInt64(&Sleeping, -1)
}

// WaitQuiet waits until done is closed ("done"), or until the history is
// final ("quiet"): over 30 consecutive samples spread over >= 3 s the progress
// counter did not move, no workload sleep was pending and the process used
// less than 2 % of a core - nothing is running and nothing is scheduled to
// run, so an event that is still missing will never happen. After max without
// either it returns "watchdog" (inconclusive).
func WaitQuiet(done <-chan struct{}, progress func() int64, max time.Duration) string {
	start := time.Now()
	tk := time.NewTicker(100 * time.Millisecond)
	defer tk.Stop()
	p0 := progress()
	c0 := h.CPUTime()
	t0 := time.Now()
	n := 0
	for {
		select {
		case <-done:
			return "done"
		case <-tk.C:
		}
		p := progress()
		if p != p0 || atomic.LoadInt64(&Sleeping) != 0 {
			p0, c0, t0, n = p, h.CPUTime(), time.Now(), 0
		} else {
			n++
			if n >= 30 && time.Since(t0) >= 3*time.Second {
				frac := float64(h.CPUTime()-c0) / float64(time.Since(t0))
				// low CPU time alone is also what a process looks like that is starved by
				// other load; only when no goroutine is runnable is nothing waiting to run
				if frac < 0.02 && noneRunnable() {
					select {
					case <-done:
						return "done"
					default:
					}
					return "quiet"
				}
				p0, c0, t0, n = p, h.CPUTime(), time.Now(), 0
			}
		}
		if time.Since(start) > max {
			return "watchdog"
		}
	}
}

// noneRunnable takes three goroutine dumps 20 ms apart and reports whether
// none of them shows a goroutine that is runnable or running (other than the
// one taking the dump): every goroutine is blocked on a channel, a lock, a
// timer or in a system call, so nothing can move without an outside event.
func noneRunnable() bool {
	for k := 0; k < 3; k++ {
		if k > 0 {
			time.Sleep(20 * time.Millisecond)
		}
		st := h.Stacks()
		first := true
		for _, blk := range strings.Split(st, "\n\n") {
			i := strings.Index(blk, "[")
			j := strings.Index(blk, "]")
			if !strings.HasPrefix(blk, "goroutine ") || i < 0 || j < i {
				continue
			}
			state := blk[i+1 : j]
			if first {
				// the first block is the goroutine that takes the dump
				first = false
				continue
			}
			if strings.HasPrefix(state, "runnable") || strings.HasPrefix(state, "running") {
				return false
			}
		}
	}
	return true
}

// ---------------------------------------------------------------- payloads

// BodyIssue describes how a received body differs from the id-keyed pattern.
type BodyIssue struct {
	Symptom string // body-truncated | body-too-long | foreign-bytes-in-body | body-corrupt
	Detail  string
	Foreign uint32 // id found in the body when Symptom is foreign-bytes-in-body
}

// findForeign looks for a well-formed payload cell of another id in b.
func findForeign(b []byte, own uint32) (uint32, int, bool) {
	var cell [16]byte
	for i := 0; i+16 <= len(b); i++ {
		if b[i] != 0xA5 || b[i+1] != 0x5A {
			continue
		}
		id := binary.BigEndian.Uint32(b[i+2 : i+6])
		if id == own {
			continue
		}
		j := uint64(b[i+6])<<40 | uint64(b[i+7])<<32 | uint64(binary.BigEndian.Uint32(b[i+8:i+12]))
		if j > 1<<28 {
			continue
		}
		outb.Fill(cell[:], id, int64(j)*16)
		if bytes.Equal(cell[:], b[i:i+16]) {
			return id, i, true
		}
	}
	return 0, 0, false
}

// CheckBody compares got with outb.Payload(id, n). nil means identical.
func CheckBody(got []byte, id uint32, n int) *BodyIssue {
	m := len(got)
	if m > n {
		m = n
	}
	const blk = 64 << 10
	want := make([]byte, 0, blk)
	for off := 0; off < m; off += blk {
		e := off + blk
		if e > m {
			e = m
		}
		want = want[:e-off]
		outb.Fill(want, id, int64(off))
		if bytes.Equal(want, got[off:e]) {
			continue
		}
		at := off
		for k := range want {
			if want[k] != got[off+k] {
				at = off + k
				break
			}
		}
		lo := at - 32
		if lo < 0 {
			lo = 0
		}
		hi := at + 8192
		if hi > len(got) {
			hi = len(got)
		}
		ctx := got[lo:hi]
		show := ctx
		if len(show) > 96 {
			show = show[:96]
		}
		if fid, pos, ok := findForeign(ctx, id); ok {
			return &BodyIssue{Symptom: "foreign-bytes-in-body", Foreign: fid,
				Detail: fmt.Sprintf("body of id %#x (%d bytes expected, %d received) first differs at offset %d; a well-formed payload cell of id %#x starts at offset %d; bytes from offset %d: %s", id, n, len(got), at, fid, lo+pos, lo, h.Hex(show, 96))}
		}
		return &BodyIssue{Symptom: "body-corrupt",
			Detail: fmt.Sprintf("body of id %#x (%d bytes expected, %d received) first differs at offset %d; bytes from offset %d: %s", id, n, len(got), at, lo, h.Hex(show, 96))}
	}
	if len(got) < n {
		return &BodyIssue{Symptom: "body-truncated", Detail: fmt.Sprintf("body of id %#x: %d of %d bytes received, the received prefix is correct", id, len(got), n)}
	}
	if len(got) > n {
		extra := got[n:]
		if fid, pos, ok := findForeign(extra, id); ok {
			return &BodyIssue{Symptom: "foreign-bytes-in-body", Foreign: fid, Detail: fmt.Sprintf("body of id %#x: %d bytes expected, %d received; the surplus contains a payload cell of id %#x at offset %d", id, n, len(got), fid, n+pos)}
		}
		if len(extra) > 64 {
			extra = extra[:64]
		}
		return &BodyIssue{Symptom: "body-too-long", Detail: fmt.Sprintf("body of id %#x: %d bytes expected, %d received; surplus starts %s", id, n, len(got), h.Hex(extra, 64))}
	}
	return nil
}

// ---------------------------------------------------------------- delays

// Delayer produces seeded Gosched storms / microsecond sleeps for the verif
// delay points. It is safe for concurrent use.
type Delayer struct {
	state int64
	// Every n-th call on average is delayed (n >= 1).
	Every uint64
	// MaxMicros bounds a sleep.
	MaxMicros uint64
}

// NewDelayer returns a delayer seeded with seed.
func NewDelayer(seed int64, every, maxMicros uint64) *Delayer {
	return &Delayer{state: seed | 1, Every: every, MaxMicros: maxMicros}
}

// Hit is called at a delay point.
func (d *Delayer) Hit() {
	x := atomic.AddInt64(&d.state, 0x1E3779B97F4A7C15)
	u := uint64(x)
	u ^= u >> 31
	u *= 0x94D049BB133111EB
	u ^= u >> 29
	if d.Every > 1 && u%d.Every != 0 {
		return
	}
	switch (u >> 8) % 3 {
	case 0:
		runtime.Gosched()
	case 1:
		for i := uint64(0); i < (u>>16)%8+1; i++ {
			runtime.Gosched()
		}
	default:
		if d.MaxMicros > 0 {
			time.Sleep(time.Duration((u>>16)%d.MaxMicros+1) * time.Microsecond)
		}
	}
}
