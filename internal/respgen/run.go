package respgen

import (
	"errors"
	"fmt"
	"io"
	"net"
	"net/http"
	"os"
	"strings"
	"time"

	"github.com/lesismal/nbio/logging"
	"github.com/lesismal/nbio/mempool"
	"github.com/lesismal/nbio/nbhttp"

	"verif/internal/guardalloc"
	"verif/internal/h"
)

// ScratchDir, when set before NewEnv, is where the files handed to ReadFrom
// live (it is wiped first); otherwise a fresh temporary directory is used. A
// worker sets it to a per-shard directory under its output directory so that
// a process killed in the middle of a case leaves nothing behind in $TMPDIR.
var ScratchDir string

// MaxTotal bounds the body of one program.
const MaxTotal = 1 << 20

var pat, reqPat []byte
var patStr string

func init() {
	pat = make([]byte, MaxTotal+1<<17)
	for i := range pat {
		pat[i] = PatByte(i)
	}
	patStr = string(pat)
	reqPat = make([]byte, 1<<18)
	for i := range reqPat {
		reqPat[i] = byte('a' + (i*5+i/26*3+i/4099)%26)
	}
}

// PatByte is byte i of every logical response body: printable, position
// dependent with a long period, so that a wrong byte can be located.
func PatByte(i int) byte { return byte(33 + (i*7+i/89*13+i/65536*31)%94) }

// Pat returns body bytes [off, off+n).
func Pat(off, n int) []byte { return pat[off : off+n : off+n] }

// ReqPat returns the first n bytes of every request body.
func ReqPat(n int) []byte { return reqPat[:n:n] }

// OpResult is what a body operation returned.
type OpResult struct {
	Op  int    `json:"op"`
	K   string `json:"k"`
	In  int    `json:"in"`
	N   int64  `json:"n"`
	Err string `json:"err,omitempty"`
}

// Outcome is everything observable about one run.
type Outcome struct {
	Wire        []byte
	WriteSizes  []int
	Results     []OpResult
	Panics      []string // recovered-panic log lines (nbio only logs them)
	ParseErr    error
	HandlerRan  bool
	HandlerDone bool
	Closed      int
	WritesAfter int // conn writes after Close
	Sendfiles   int
	ReqBodyRead int
	ReqBodyBad  string // request body bytes the handler saw differ from what was sent
	Guard       []guardalloc.Report
	Case        guardalloc.CaseStats
	ErrorLines  []string
}

// Env holds what all runs of a process share.
type Env struct {
	GA     *guardalloc.Allocator
	Engine *nbhttp.Engine
	Log    *h.CapLogger

	patPath string
	tmpDir  string
	cur     *runState
	guard   []guardalloc.Report
}

type runState struct {
	p     *Program
	out   *Outcome
	conn  *recConn
	files []*os.File
	tmp   []string
}

// NewEnv installs the guard allocator as mempool.DefaultMemPool and as the
// engine's BodyAllocator, installs the capturing logger and builds the (never
// started) engine. It must be called before any nbio object exists.
func NewEnv(opt guardalloc.Options) (*Env, error) {
	e := &Env{GA: guardalloc.New(opt), Log: &h.CapLogger{}}
	e.GA.OnReport(func(r guardalloc.Report) {
		if len(e.guard) < 64 {
			e.guard = append(e.guard, r)
		}
	})
	mempool.DefaultMemPool = e.GA
	logging.SetLogger(e.Log)
	inline := func(f func()) { f() }
	e.Engine = nbhttp.NewEngine(nbhttp.Config{
		Handler:        http.HandlerFunc(e.serve),
		BodyAllocator:  e.GA,
		ReadBufferPool: e.GA,
		ServerExecutor: inline,
		ClientExecutor: inline,
	})
	d := ScratchDir
	if d != "" {
		_ = os.RemoveAll(d)
		if err := os.MkdirAll(d, 0o755); err != nil {
			return nil, err
		}
	} else {
		var err error
		if d, err = os.MkdirTemp("", "verif-respgen-"); err != nil {
			return nil, err
		}
	}
	e.tmpDir = d
	e.patPath = d + "/pattern"
	if err := os.WriteFile(e.patPath, pat, 0o600); err != nil {
		return nil, err
	}
	return e, nil
}

// Close removes the scratch files.
func (e *Env) Close() {
	if e.tmpDir != "" {
		_ = os.RemoveAll(e.tmpDir)
	}
}

// TakeGuard returns and clears the guard allocator reports collected since
// the last call (reports are also attached to the Outcome of the run during
// which they arrived).
func (e *Env) TakeGuard() []guardalloc.Report {
	g := e.guard
	e.guard = nil
	return g
}

// ---------------------------------------------------------------- recording conn

type addr struct{}

func (addr) Network() string { return "tcp" }
func (addr) String() string  { return "192.0.2.7:40000" }

type recConn struct {
	e   *Env
	out *Outcome
}

func (c *recConn) Read(b []byte) (int, error) { return 0, io.EOF }
func (c *recConn) Write(b []byte) (int, error) {
	if !c.e.GA.CheckLive(b, "freed-buffer-handed-to-conn-write") && c.e.GA.FaultMode() {
		return len(b), nil // the bytes are inaccessible
	}
	if c.out.Closed > 0 {
		c.out.WritesAfter++
		return 0, net.ErrClosed
	}
	c.out.Wire = append(c.out.Wire, b...)
	c.out.WriteSizes = append(c.out.WriteSizes, len(b))
	return len(b), nil
}
func (c *recConn) Close() error                       { c.out.Closed++; return nil }
func (c *recConn) LocalAddr() net.Addr                { return addr{} }
func (c *recConn) RemoteAddr() net.Addr               { return addr{} }
func (c *recConn) SetDeadline(t time.Time) error      { return nil }
func (c *recConn) SetReadDeadline(t time.Time) error  { return nil }
func (c *recConn) SetWriteDeadline(t time.Time) error { return nil }

// sfConn additionally has nbio.Conn's Sendfile method with its semantics:
// send min(remain, size-offset) bytes from the file's current offset, all of
// the rest when remain <= 0.
type sfConn struct{ recConn }

func (c *sfConn) Sendfile(f *os.File, remain int64) (int64, error) {
	if f == nil {
		return 0, nil
	}
	if c.out.Closed > 0 {
		return 0, net.ErrClosed
	}
	off, err := f.Seek(0, io.SeekCurrent)
	if err != nil {
		return 0, err
	}
	st, err := f.Stat()
	if err != nil {
		return 0, err
	}
	if remain <= 0 || remain > st.Size()-off {
		remain = st.Size() - off
	}
	buf := make([]byte, remain)
	n, err := io.ReadFull(f, buf)
	c.out.Wire = append(c.out.Wire, buf[:n]...)
	c.out.WriteSizes = append(c.out.WriteSizes, n)
	c.out.Sendfiles++
	if err != nil {
		return int64(n), err
	}
	return int64(n), nil
}

// plainReader is an io.Reader and nothing else.
type plainReader struct {
	b    []byte
	step int
}

func (r *plainReader) Read(p []byte) (int, error) {
	if len(r.b) == 0 {
		return 0, io.EOF
	}
	n := len(p)
	if r.step > 0 && n > r.step {
		n = r.step
	}
	n = copy(p[:n], r.b)
	r.b = r.b[n:]
	return n, nil
}

// ---------------------------------------------------------------- handler

func (e *Env) reader(st *runState, op Op, off int) (io.Reader, error) {
	switch op.Src {
	case "plain":
		return &plainReader{b: Pat(off, op.N), step: 5000}, nil
	case "limited-plain":
		return &io.LimitedReader{R: &plainReader{b: Pat(off, op.N+op.Extra)}, N: int64(op.N)}, nil
	case "limited-file":
		f, err := os.Open(e.patPath)
		if err != nil {
			return nil, err
		}
		st.files = append(st.files, f)
		if _, err := f.Seek(int64(off), io.SeekStart); err != nil {
			return nil, err
		}
		return &io.LimitedReader{R: f, N: int64(op.N)}, nil
	case "file":
		name := fmt.Sprintf("%s/f%d", e.tmpDir, len(st.tmp))
		if err := os.WriteFile(name, pat[:off+op.N], 0o600); err != nil {
			return nil, err
		}
		st.tmp = append(st.tmp, name)
		f, err := os.Open(name)
		if err != nil {
			return nil, err
		}
		st.files = append(st.files, f)
		if _, err := f.Seek(int64(off), io.SeekStart); err != nil {
			return nil, err
		}
		return f, nil
	}
	return nil, errors.New("unknown reader kind " + op.Src)
}

func errStr(err error) string {
	if err == nil {
		return ""
	}
	return err.Error()
}

// HarnessPanic is what the handler panics with when the harness itself fails
// (never an nbio finding).
type HarnessPanic struct{ Err error }

func (e *Env) serve(w http.ResponseWriter, req *http.Request) {
	st := e.cur
	if st == nil {
		return
	}
	out := st.out
	out.HandlerRan = true
	p := st.p
	if p.Method == "POST" && req.Body != nil && p.ReadBody != "none" {
		want := p.ReqBody
		if p.ReadBody == "part" {
			want = p.ReqBody / 2
		}
		buf := make([]byte, 1500)
		for out.ReqBodyRead < want {
			lim := len(buf)
			if want-out.ReqBodyRead < lim {
				lim = want - out.ReqBodyRead
			}
			n, err := req.Body.Read(buf[:lim])
			if n > 0 {
				if out.ReqBodyBad == "" && string(buf[:n]) != string(reqPat[out.ReqBodyRead:out.ReqBodyRead+n]) {
					out.ReqBodyBad = fmt.Sprintf("request body bytes [%d,%d) differ from what was sent: got %s", out.ReqBodyRead, out.ReqBodyRead+n, h.Hex(buf[:n], 48))
				}
				out.ReqBodyRead += n
			}
			if err != nil || n == 0 {
				break
			}
		}
	}
	off := 0
	for i, op := range p.Ops {
		switch op.K {
		case "set", "trailer":
			w.Header().Set(op.Key, op.Val)
		case "add":
			w.Header().Add(op.Key, op.Val)
		case "del":
			w.Header().Del(op.Key)
		case "status":
			w.WriteHeader(op.Code)
		case "write":
			n, err := w.Write(Pat(off, op.N))
			out.Results = append(out.Results, OpResult{Op: i, K: op.K, In: op.N, N: int64(n), Err: errStr(err)})
			off += op.N
		case "writestring":
			n, err := w.(io.StringWriter).WriteString(patStr[off : off+op.N])
			out.Results = append(out.Results, OpResult{Op: i, K: op.K, In: op.N, N: int64(n), Err: errStr(err)})
			off += op.N
		case "readfrom":
			rd, err := e.reader(st, op, off)
			if err != nil {
				panic(HarnessPanic{err})
			}
			n, err := w.(io.ReaderFrom).ReadFrom(rd)
			out.Results = append(out.Results, OpResult{Op: i, K: op.K, In: op.N, N: n, Err: errStr(err)})
			off += op.N
		case "flush":
			w.(http.Flusher).Flush()
		}
	}
	out.HandlerDone = true
}

// Run executes one program: a fresh parser over a fresh recording conn, the
// request fed in one piece (the ServerProcessor calls the handler and
// flushResponse inline), then CloseAndClean like the engine does when the
// connection goes away, then the allocator's end-of-case sweep.
func (e *Env) Run(p *Program) *Outcome {
	out := &Outcome{}
	st := &runState{p: p, out: out}
	e.cur = st
	e.Log.Take()
	e.guard = nil
	rc := recConn{e: e, out: out}
	var conn net.Conn = &rc
	if p.Sendfile {
		conn = &sfConn{rc}
	}
	parser := nbhttp.NewParser(conn, e.Engine, nbhttp.NewServerProcessor(), false, nil)
	func() {
		defer func() {
			if x := recover(); x != nil {
				out.Panics = append(out.Panics, fmt.Sprintf("panic escaped Parser.Parse failed: %v\ngoroutine 0 [running]:\n%s", x, h.Stacks()))
			}
		}()
		out.ParseErr = parser.Parse(p.Request())
		if out.ParseErr != nil {
			parser.CloseAndClean(out.ParseErr)
		} else {
			parser.CloseAndClean(io.EOF)
		}
	}()
	e.cur = nil
	for _, f := range st.files {
		_ = f.Close()
	}
	for _, n := range st.tmp {
		_ = os.Remove(n)
	}
	out.Case = e.GA.EndCase()
	out.Guard = e.guard
	e.guard = nil
	lines := e.Log.Take()
	out.Panics = append(out.Panics, h.PanicLines(lines)...)
	for _, l := range lines {
		if len(out.ErrorLines) < 4 && !strings.Contains(l, "goroutine ") {
			out.ErrorLines = append(out.ErrorLines, l)
		}
	}
	return out
}

// PanicSite classifies a recovered-panic log line: the innermost nbio
// function below the panic, or harness=true when the panic was raised by
// harness code (a harness bug, never a finding).
func PanicSite(line string) (site string, harness bool) {
	const pfx = "github.com/lesismal/nbio/"
	afterPanic := false
	for _, l := range strings.Split(line, "\n") {
		if strings.HasPrefix(l, "\t") || l == "" {
			continue
		}
		if strings.HasPrefix(l, "panic(") {
			afterPanic = true
			continue
		}
		if !afterPanic {
			continue
		}
		if strings.HasPrefix(l, "verif/") || strings.HasPrefix(l, "main.") {
			return "", true
		}
		if strings.HasPrefix(l, pfx) {
			f := l[len(pfx):]
			if i := strings.LastIndex(f, "("); i > 0 {
				f = f[:i]
			}
			return f, false
		}
	}
	if !afterPanic {
		// no panic( frame (should not happen): fall back to the first nbio frame
		for _, l := range strings.Split(line, "\n") {
			if strings.HasPrefix(l, pfx) && !strings.Contains(l, ".Parse.func1") {
				f := l[len(pfx):]
				if i := strings.LastIndex(f, "("); i > 0 {
					f = f[:i]
				}
				return f, false
			}
		}
	}
	return "unknown", false
}
