package respgen

import (
	"bufio"
	"bytes"
	"fmt"
	"io"
	"net/http"
	"sort"
	"strconv"
	"strings"

	"verif/internal/h"
)

// Finding is one oracle failure. Symptom is the stable part that goes into the
// signature, Detail is for humans.
type Finding struct {
	Symptom string
	Detail  string
}

// Decoded is what the reference client made of the wire bytes.
type Decoded struct {
	OK        bool // head and body decoded, nothing left over
	Status    int
	Chunked   bool
	CL        int64
	BodyLen   int
	Framing   string // chunked | content-length | close-delimited | none
	HeadLen   int
	Trailers  int
	RespClose bool
}

func excerpt(b []byte, at, n int) string {
	lo := at - n/2
	if lo < 0 {
		lo = 0
	}
	hi := lo + n
	if hi > len(b) {
		hi = len(b)
	}
	return fmt.Sprintf("[%d:%d] %s", lo, hi, h.Hex(b[lo:hi], n))
}

func wireHead(w []byte, n int) string {
	if len(w) > n {
		return h.Hex(w[:n], n) + fmt.Sprintf("…(+%d)", len(w)-n)
	}
	return h.Hex(w, n)
}

func wireTail(w []byte, n int) string {
	if len(w) > n {
		return fmt.Sprintf("…(%d+)", len(w)-n) + h.Hex(w[len(w)-n:], n)
	}
	return h.Hex(w, n)
}

// rawHeader returns the values of key in the raw head (no parser involved
// beyond splitting lines at CRLF and at the first colon).
func rawHeader(wire []byte, key string) []string {
	end := bytes.Index(wire, []byte("\r\n\r\n"))
	if end < 0 {
		return nil
	}
	var out []string
	for i, l := range strings.Split(string(wire[:end]), "\r\n") {
		if i == 0 {
			continue
		}
		if c := strings.IndexByte(l, ':'); c > 0 && strings.EqualFold(l[:c], key) {
			out = append(out, strings.Trim(l[c+1:], " \t"))
		}
	}
	return out
}

func firstDiff(a, b []byte) int {
	n := len(a)
	if len(b) < n {
		n = len(b)
	}
	for i := 0; i < n; i++ {
		if a[i] != b[i] {
			return i
		}
	}
	return n
}

// Check compares the outcome of a run with the model. The first finding is
// the primary one (fixed order of checks); nothing is returned for programs
// the model does not cover (exp.Skip != "").
func Check(p *Program, exp *Expect, out *Outcome) ([]Finding, *Decoded) {
	var fs []Finding
	add := func(sym, format string, a ...interface{}) {
		fs = append(fs, Finding{Symptom: sym, Detail: fmt.Sprintf(format, a...)})
	}
	dec := &Decoded{}
	if exp.Skip != "" {
		return nil, dec
	}

	// (A) recovered panics: nothing else is looked at, the wire is whatever was out by then
	if len(out.Panics) > 0 {
		site, harness := PanicSite(out.Panics[0])
		if harness {
			add("harness-panic", "the harness itself panicked:\n%s", firstN(out.Panics[0], 1500))
			return fs, dec
		}
		first := out.Panics[0]
		if i := strings.Index(first, "\n"); i > 0 {
			first = first[:i]
		}
		add("panic-recovered:"+site, "nbio logged a recovered panic while the handler ran: %s\n%s", first, firstN(out.Panics[0], 1800))
		return fs, dec
	}
	if !out.HandlerRan || !out.HandlerDone || out.ParseErr != nil {
		add("harness-request-not-served", "handler ran=%v done=%v Parse error=%v", out.HandlerRan, out.HandlerDone, out.ParseErr)
		return fs, dec
	}

	// (B) return values of Write/WriteString
	for _, r := range out.Results {
		if r.K == "readfrom" {
			continue
		}
		if exp.Refused[r.Op] {
			if r.Err == "" || r.N != 0 {
				add("write-beyond-content-length-accepted", "op %d %s of %d bytes returned (%d, %q): the declared Content-Length %d had been written completely, a further write must fail and report 0 bytes", r.Op, p.Ops[r.Op], r.In, r.N, r.Err, exp.CL)
				break
			}
			continue
		}
		if r.Err != "" {
			add("write-returns-error", "op %d %s of %d bytes returned (%d, %q) although the connection accepted every byte and the declared Content-Length (if any) equals the bytes written", r.Op, p.Ops[r.Op], r.In, r.N, r.Err)
			break
		}
		if r.N != int64(r.In) {
			add("write-returns-wrong-count", "op %d %s returned n=%d with a nil error; it was given %d bytes", r.Op, p.Ops[r.Op], r.N, r.In)
			break
		}
	}

	// (C) head
	wire := out.Wire
	br := bufio.NewReaderSize(bytes.NewReader(wire), 4096)
	resp, err := http.ReadResponse(br, &http.Request{Method: p.Method})
	if err != nil {
		add("head-not-parseable", "net/http's ReadResponse fails on the bytes written to the connection: %v\nwire (%d bytes): %s", err, len(wire), wireHead(wire, 300))
		return fs, dec
	}
	dec.Status = resp.StatusCode
	dec.CL = resp.ContentLength
	dec.RespClose = resp.Close
	for _, te := range resp.TransferEncoding {
		if te == "chunked" {
			dec.Chunked = true
		}
	}
	dec.HeadLen = bytes.Index(wire, []byte("\r\n\r\n")) + 4
	switch {
	case dec.Chunked:
		dec.Framing = "chunked"
	case resp.ContentLength >= 0:
		dec.Framing = "content-length"
	default:
		dec.Framing = "close-delimited"
	}

	// (D) status
	if exp.StatusAsserted && resp.StatusCode != exp.Status {
		add("status-mismatch", "the handler's status is %d, the client decodes %q\nwire: %s", exp.Status, resp.Status, wireHead(wire, 200))
	}
	if resp.ProtoMajor != 1 {
		add("status-line-version", "status line carries %s", resp.Proto)
	}

	// (E) framing versus request version and handler headers
	switch exp.Framing {
	case "chunked":
		if !dec.Chunked {
			add("framing-not-chunked", "the handler asked for chunked framing (Transfer-Encoding: chunked or a declared trailer) on an HTTP/1.1 request; the response is framed as %s (Content-Length %d)\nwire: %s", dec.Framing, dec.CL, wireHead(wire, 300))
		}
	case "cl":
		if dec.Chunked || resp.ContentLength != int64(exp.CL) {
			add("framing-content-length-not-honoured", "the handler set Content-Length: %d and wrote exactly that many bytes; the response is framed as %s (Content-Length %d)\nwire: %s", exp.CL, dec.Framing, dec.CL, wireHead(wire, 300))
		}
	case "not-chunked":
		if dec.Chunked || len(rawHeader(wire, "Transfer-Encoding")) > 0 {
			add("framing-chunked-to-http10", "the request is HTTP/1.0 and the handler did not ask for chunking; the response carries Transfer-Encoding %q\nwire: %s", rawHeader(wire, "Transfer-Encoding"), wireHead(wire, 300))
		}
	}

	// (F) body
	body, berr := io.ReadAll(resp.Body)
	dec.BodyLen = len(body)
	want := Pat(0, exp.Total)
	bodyOK := false
	switch {
	case berr != nil && bytes.HasPrefix(want, body):
		add("body-not-decodable("+errClass(berr)+")", "reading the body fails after %d of %d bytes (all correct so far): %v\nwire around the failure: %s", len(body), exp.Total, berr, excerpt(wire, dec.HeadLen+len(body), 160))
	case berr != nil:
		d := firstDiff(body, want)
		add("body-not-decodable("+errClass(berr)+")", "reading the body fails after %d bytes: %v; the decoded bytes differ from the written ones from offset %d on (want %s, got %s)", len(body), berr, d, h.Hex(want[d:], 24), h.Hex(body[d:], 24))
	case bytes.Equal(body, want):
		bodyOK = true
	case len(body) < len(want) && bytes.HasPrefix(want, body):
		add("body-truncated", "the client decodes %d body bytes, the handler wrote %d (the decoded bytes are a correct prefix); framing %s, Content-Length %d\nwire head: %s", len(body), exp.Total, dec.Framing, dec.CL, wireHead(wire, 260))
	case len(body) > len(want) && bytes.HasPrefix(body, want):
		add("body-has-extra-bytes", "the client decodes %d body bytes, the handler wrote %d; the extra bytes start with %s", len(body), exp.Total, h.Hex(body[len(want):], 48))
	default:
		d := firstDiff(body, want)
		add("body-corrupted", "decoded body (%d bytes) differs from the written one (%d bytes) from offset %d on: want %s, got %s", len(body), exp.Total, d, h.Hex(want[d:], 32), h.Hex(body[d:], 32))
	}

	// (G) exactly one response
	if berr == nil {
		rest, _ := io.ReadAll(br)
		if len(rest) > 0 {
			add("bytes-after-response", "%d bytes follow the end of the response as framed (%s, Content-Length %d, body %d bytes): %s\nwire head: %s", len(rest), dec.Framing, dec.CL, len(body), h.Hex(rest, 80), wireHead(wire, 260))
		} else if bodyOK && dec.Framing == "close-delimited" && out.Closed == 0 {
			add("close-delimited-response-on-open-connection", "the response has neither Content-Length nor chunked framing and the connection was not closed after it")
		}
		if out.WritesAfter > 0 {
			add("writes-after-close", "%d writes to the connection after it had been closed by the server side", out.WritesAfter)
		}
	}

	// (H) trailers
	if berr == nil {
		decl := map[string]bool{}
		for _, k := range exp.TrailerDecl {
			decl[k] = true
			got, present := resp.Trailer[k]
			want, set := exp.Trailer[k]
			switch {
			case !set:
				// never given a value: absent or empty are both fine
				if present && !(len(got) == 0 || (len(got) == 1 && got[0] == "")) {
					add("trailer-value-mismatch", "trailer %s was declared and never set; the client decodes %q", k, got)
				}
			case !present || len(got) == 0:
				add("trailer-missing", "trailer %s was declared and set to %q; the client decodes no such trailer (trailers decoded: %v)\nwire tail: %s", k, want, resp.Trailer, wireTail(wire, 120))
			case len(got) == 1 && got[0] == "" && exp.TrailerLate[k]:
				add("trailer-late-value-sent-empty", "trailer %s was declared before and set to %q after the first body write (the way net/http documents trailers); the client decodes an empty value\nwire tail: %s", k, want, wireTail(wire, 120))
			case len(got) != 1 || got[0] != want:
				add("trailer-value-mismatch", "trailer %s: handler's final value %q, client decodes %q\nwire tail: %s", k, want, got, wireTail(wire, 120))
			default:
				dec.Trailers++
			}
		}
		var extra []string
		for k, v := range resp.Trailer {
			if !decl[k] && len(v) > 0 {
				extra = append(extra, k)
			}
		}
		if len(extra) > 0 {
			sort.Strings(extra)
			add("trailer-unexpected", "the client decodes trailers %v that the handler never declared\nwire tail: %s", extra, wireTail(wire, 120))
		}
	}

	// (I) headers
	var miss, diff, extra []string
	for k, vv := range exp.Header {
		got := resp.Header[k]
		if len(got) == 0 {
			miss = append(miss, k)
		} else if strings.Join(got, "\x00") != strings.Join(vv, "\x00") {
			diff = append(diff, fmt.Sprintf("%s: want %q got %q", k, vv, got))
		}
	}
	for k := range resp.Header {
		if _, ok := exp.Header[k]; ok || exp.Unasserted[k] {
			continue
		}
		switch k {
		case "Date", "Content-Type", "Content-Length", "Connection", "Trailer", "Transfer-Encoding":
			continue
		}
		isDecl := false
		for _, d := range exp.TrailerDecl {
			if d == k {
				isDecl = true
			}
		}
		if !isDecl {
			extra = append(extra, k)
		}
	}
	sort.Strings(miss)
	sort.Strings(diff)
	sort.Strings(extra)
	if len(miss) > 0 {
		add("header-missing", "header(s) %v set before the head was committed are not in the decoded response\nwire: %s", miss, wireHead(wire, 400))
	}
	if len(diff) > 0 {
		add("header-value-mismatch", "%s\nwire: %s", strings.Join(diff, "; "), wireHead(wire, 400))
	}
	if len(extra) > 0 {
		add("header-unexpected", "the decoded response has header(s) %v the handler never set\nwire: %s", extra, wireHead(wire, 400))
	}
	if exp.ConnHeader != nil {
		if got := rawHeader(wire, "Connection"); strings.Join(got, "\x00") != strings.Join(exp.ConnHeader, "\x00") {
			add("header-value-mismatch", "Connection: handler set %q, wire carries %q", exp.ConnHeader, got)
		}
	}
	if exp.Framing == "cl" && !dec.Chunked {
		if got := rawHeader(wire, "Content-Length"); len(got) != 1 || got[0] != strconv.Itoa(exp.CL) {
			add("header-value-mismatch", "Content-Length: handler set %d, wire carries %q", exp.CL, got)
		}
	}
	dec.OK = len(fs) == 0
	return fs, dec
}

// errClass maps the reference decoder's error to a data-free class, so that
// different ways of breaking the body framing get different signatures.
func errClass(err error) string {
	s := err.Error()
	for _, c := range []struct{ has, class string }{
		{"invalid byte in chunk length", "invalid-byte-in-chunk-length"},
		{"malformed MIME header", "malformed-trailer-line"},
		{"malformed chunked encoding", "malformed-chunked-encoding"},
		{"chunk length too large", "chunk-length-too-large"},
		{"too long", "line-too-long"},
		{"reading trailer", "eof-in-trailer"},
		{"unexpected EOF", "unexpected-eof"},
		{"EOF", "unexpected-eof"},
	} {
		if strings.Contains(s, c.has) {
			return c.class
		}
	}
	return "other"
}

func firstN(s string, n int) string {
	if len(s) > n {
		return s[:n]
	}
	return s
}
