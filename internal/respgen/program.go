// Package respgen is the handler-program workload shared by C09 (response
// framing) and C11 (pooled-buffer ownership): a seeded generator of handler
// programs, a model that says what a client must decode, a runner that
// executes a program against the real nbhttp ServerProcessor/Response over a
// recording net.Conn with the guard allocator installed, the oracle that
// compares the recorded wire bytes (decoded by net/http's client-side parser)
// with the model, and a program minimiser.
package respgen

import (
	"fmt"
	"net/http"
	"net/textproto"
	"sort"
	"strconv"
	"strings"
)

// Op is one handler operation.
type Op struct {
	// K: set | add | del (header), status (WriteHeader), write, writestring,
	// readfrom, flush, trailer (Header().Set of a declared trailer key after
	// the head has been committed).
	K    string `json:"k"`
	Key  string `json:"key,omitempty"`
	Val  string `json:"val,omitempty"`
	Code int    `json:"code,omitempty"`
	N    int    `json:"n,omitempty"` // bytes this op contributes to the body
	// Src (readfrom): plain (an io.Reader of N bytes) | limited-plain
	// (io.LimitedReader{N} over a plain reader holding N+Extra bytes, what
	// io.CopyN hands to ReadFrom) | limited-file (io.LimitedReader{N} over an
	// *os.File with more bytes behind the limit, what http.ServeContent does)
	// | file (a bare *os.File with exactly N bytes left).
	Src   string `json:"src,omitempty"`
	Extra int    `json:"extra,omitempty"`
}

func (o Op) String() string {
	switch o.K {
	case "set", "add", "trailer":
		return fmt.Sprintf("%s(%s: %s)", o.K, o.Key, o.Val)
	case "del":
		return "del(" + o.Key + ")"
	case "status":
		return fmt.Sprintf("WriteHeader(%d)", o.Code)
	case "write":
		return fmt.Sprintf("Write(%d)", o.N)
	case "writestring":
		return fmt.Sprintf("WriteString(%d)", o.N)
	case "readfrom":
		if o.Extra > 0 {
			return fmt.Sprintf("ReadFrom(%s %d of %d)", o.Src, o.N, o.N+o.Extra)
		}
		return fmt.Sprintf("ReadFrom(%s %d)", o.Src, o.N)
	case "flush":
		return "Flush()"
	}
	return o.K
}

// Program is one case: a request and what the handler does with it.
type Program struct {
	Proto    string `json:"proto"`                // HTTP/1.0 | HTTP/1.1
	Conn     string `json:"connection,omitempty"` // request Connection header: "" | close | keep-alive
	Method   string `json:"method"`               // GET | POST
	ReqBody  int    `json:"req_body,omitempty"`   // POST body bytes
	ReadBody string `json:"read_body,omitempty"`  // POST: all | part | none (what the handler reads)
	// Sendfile: the net.Conn under the response has a
	// Sendfile(*os.File, int64) method like nbio.Conn (false: like a TLS conn).
	Sendfile bool   `json:"conn_has_sendfile,omitempty"`
	Ops      []Op   `json:"ops"`
	Mode     string `json:"size_mode,omitempty"`
}

func (p *Program) String() string {
	var s []string
	for _, o := range p.Ops {
		s = append(s, o.String())
	}
	c := p.Conn
	if c == "" {
		c = "-"
	}
	sf := ""
	if p.Sendfile {
		sf = " conn-with-Sendfile"
	}
	return fmt.Sprintf("%s %s Connection:%s%s | %s", p.Method, p.Proto, c, sf, strings.Join(s, "; "))
}

// Clone copies a program.
func (p *Program) Clone() *Program {
	q := *p
	q.Ops = append([]Op(nil), p.Ops...)
	return &q
}

// Request returns the request bytes.
func (p *Program) Request() []byte {
	var sb strings.Builder
	fmt.Fprintf(&sb, "%s /c09 %s\r\nHost: verif\r\n", p.Method, p.Proto)
	if p.Conn != "" {
		fmt.Fprintf(&sb, "Connection: %s\r\n", p.Conn)
	}
	if p.Method == "POST" {
		fmt.Fprintf(&sb, "Content-Length: %d\r\n", p.ReqBody)
	}
	sb.WriteString("\r\n")
	b := []byte(sb.String())
	if p.Method == "POST" {
		b = append(b, ReqPat(p.ReqBody)...)
	}
	return b
}

// ReqClose says whether the request dictates closing the connection.
func (p *Program) ReqClose() bool {
	if p.Proto == "HTTP/1.0" {
		return p.Conn != "keep-alive"
	}
	return p.Conn == "close"
}

// ---------------------------------------------------------------- model

// Expect is what the model says a client must decode.
type Expect struct {
	Skip string // non-empty: the model is ill-defined for this program, nothing is asserted

	Status         int
	StatusAsserted bool
	Header         http.Header     // asserted header fields (set before the head was committed)
	Unasserted     map[string]bool // header keys excluded from the comparison
	ConnHeader     []string        // handler-set Connection values (checked on the raw head), nil = not set
	Total          int             // body = Pat[0:Total]
	TrailerDecl    []string        // declared trailer keys (canonical)
	Trailer        map[string]string
	TrailerLate    map[string]bool // value was set after the head had been committed
	Framing        string          // "" any | cl | chunked | not-chunked
	CL             int
	ExplicitCL     bool
	ExplicitTE     bool
	TrailerList    bool // a Trailer value was a comma-separated list
	TrailerLower   bool // a Trailer value was not in canonical header-key form
	Committed      bool
	Refused        map[int]bool // ops that exceed the declared Content-Length: must fail, write nothing
}

// overrun says whether the body writes of p fill a declared length cl > 0 exactly and only then
// exceed it; it returns the indexes of the exceeding writes.
func overrun(p *Program, cl int) (map[int]bool, bool) {
	if cl <= 0 {
		return nil, false
	}
	cum := 0
	ref := map[int]bool{}
	for i, op := range p.Ops {
		switch op.K {
		case "readfrom":
			return nil, false
		case "write", "writestring":
			if op.N == 0 {
				continue
			}
			if cum+op.N <= cl && len(ref) == 0 {
				cum += op.N
			} else if cum == cl {
				ref[i] = true
			} else {
				return nil, false
			}
		}
	}
	return ref, len(ref) > 0 && cum == cl
}

func canon(k string) string { return http.CanonicalHeaderKey(textproto.TrimString(k)) }

// Model runs the program against the net/http ResponseWriter contract.
func Model(p *Program) *Expect {
	e := &Expect{Header: http.Header{}, Unasserted: map[string]bool{}, Trailer: map[string]string{}, TrailerLate: map[string]bool{}}
	hdr := http.Header{}
	committed, softOnly := false, false
	declared := map[string]bool{}
	status := 0
	statusAsserted := true
	var snapshot http.Header
	commit := func(soft bool) {
		if !committed {
			committed = true
			softOnly = soft
			snapshot = hdr.Clone()
			for _, v := range hdr["Trailer"] {
				if strings.Contains(v, ",") {
					e.TrailerList = true
				}
				for _, k := range strings.Split(v, ",") {
					if t := textproto.TrimString(k); t != canon(t) {
						e.TrailerLower = true
					}
					if k = canon(k); k != "" && !declared[k] {
						declared[k] = true
						e.TrailerDecl = append(e.TrailerDecl, k)
					}
				}
			}
			for k := range declared {
				if vv := hdr[k]; len(vv) > 0 {
					e.Trailer[k] = vv[0]
				}
			}
		} else if !soft {
			softOnly = false
		}
	}
	for _, op := range p.Ops {
		switch op.K {
		case "set", "add", "del", "trailer":
			k := canon(op.Key)
			if !committed {
				switch op.K {
				case "add":
					hdr.Add(k, op.Val)
				case "del":
					hdr.Del(k)
				default:
					hdr.Set(k, op.Val)
				}
				continue
			}
			if declared[k] {
				switch op.K {
				case "del":
					delete(e.Trailer, k)
				case "add":
					if _, ok := e.Trailer[k]; !ok {
						e.Trailer[k] = op.Val
						e.TrailerLate[k] = true
					}
				default:
					e.Trailer[k] = op.Val
					e.TrailerLate[k] = true
				}
			} else {
				e.Unasserted[k] = true
			}
		case "status":
			if !committed {
				status = op.Code
				commit(false)
			} else if softOnly && status == 0 {
				// WriteHeader after nothing but zero-length writes: net/http has
				// answered 200 already, the interface text leaves it open
				statusAsserted = false
			}
		case "write", "writestring":
			commit(op.N == 0)
			e.Total += op.N
		case "readfrom":
			commit(false)
			e.Total += op.N
		case "flush":
			commit(false)
		}
	}
	if !committed {
		commit(false)
		committed = false
	}
	e.Committed = committed
	if status == 0 {
		status = 200
	}
	e.Status, e.StatusAsserted = status, statusAsserted

	for _, v := range snapshot["Transfer-Encoding"] {
		if v == "chunked" {
			e.ExplicitTE = true
		}
	}
	if v := snapshot.Get("Content-Length"); v != "" {
		e.ExplicitCL = true
		e.CL, _ = strconv.Atoi(v)
	}
	if vv, ok := snapshot["Connection"]; ok {
		e.ConnHeader = append([]string{}, vv...)
	}
	hasTrailer := len(e.TrailerDecl) > 0

	// programs for which the model itself is ill-defined
	switch {
	case !statusAsserted:
		e.Skip = "writeheader-after-zero-length-write"
	case status < 200:
		e.Skip = "1xx-status"
	case (status == 204 || status == 304) && (e.Total > 0 || hasTrailer || e.ExplicitTE || e.ExplicitCL):
		e.Skip = "bodiless-status-with-body-or-framing-headers"
	case p.Proto == "HTTP/1.0" && (e.ExplicitTE || hasTrailer):
		e.Skip = "http10-handler-asked-for-chunked-or-trailer"
	case e.ExplicitCL && hasTrailer && !e.ExplicitTE:
		e.Skip = "content-length-with-trailer"
	case e.ExplicitCL && !e.ExplicitTE && e.CL != e.Total:
		e.Skip = "content-length-differs-from-bytes-written"
		// one part of that is well defined: writes that fill the declared length exactly,
		// followed by writes that would exceed it - those must be refused with an error and put
		// nothing on the wire (net/http: ErrContentLength), the response is the declared one
		if ref, ok := overrun(p, e.CL); ok {
			e.Skip = ""
			e.Refused = ref
			e.Total = e.CL
		}
	}

	switch {
	case e.ExplicitTE, hasTrailer:
		e.Framing = "chunked"
	case e.ExplicitCL:
		e.Framing = "cl"
	case p.Proto == "HTTP/1.0":
		e.Framing = "not-chunked"
	}

	for k, vv := range snapshot {
		switch k {
		case "Content-Length", "Transfer-Encoding", "Trailer", "Connection":
			continue
		}
		if declared[k] || e.Unasserted[k] {
			continue
		}
		e.Header[k] = append([]string{}, vv...)
	}
	return e
}

// Features lists what a program uses, for classification and coverage cells.
func Features(p *Program, e *Expect) []string {
	f := map[string]bool{}
	for _, op := range p.Ops {
		switch op.K {
		case "readfrom":
			switch {
			case (op.Src == "file" || op.Src == "limited-file") && p.Sendfile:
				f["readfrom-sendfile"] = true
			case op.Src == "limited-plain" || op.Src == "limited-file":
				f["readfrom-limited"] = true
			default:
				f["readfrom"] = true
			}
		case "flush":
			f["flush"] = true
		case "status":
			if http.StatusText(op.Code) == "" {
				f["unregistered-status"] = true
			}
		}
	}
	if len(e.TrailerDecl) > 0 {
		f["trailer"] = true
	}
	if e.TrailerLower {
		f["trailer-noncanonical-declaration"] = true
		delete(f, "trailer")
	}
	if e.TrailerList {
		f["trailer-list"] = true
		delete(f, "trailer")
	}
	var out []string
	for k := range f {
		out = append(out, k)
	}
	sort.Strings(out)
	return out
}

// Class names the framing situation of a program plus the features it uses:
// what a signature is built from (computed on the minimised program).
func Class(p *Program, e *Expect) string {
	var fr string
	switch {
	case p.Proto == "HTTP/1.0" && e.Framing != "cl":
		fr = "http10"
	case e.Framing == "cl":
		fr = "content-length"
	default:
		fr = "chunked"
	}
	if f := Features(p, e); len(f) > 0 {
		return fr + "+" + strings.Join(f, "+")
	}
	return fr
}
