package respgen

import (
	"bytes"
	"math/rand"
	"net/http"
	"strconv"
	"strings"
)

// Sizes every generator mode may pick for a single body operation.
var ListSizes = []int{0, 1, 10, 6000, 35444, 60000, 65535, 65536, 65537, 70000, 131072}

const threshold = 65536

var statusCodes = []struct{ code, w int }{{200, 30}, {201, 10}, {404, 15}, {500, 10}, {204, 6}, {304, 4}, {299, 10}, {599, 8}, {418, 4}, {451, 3}}

var headerNames = []string{"X-Request-Id", "X-Foo", "Cache-Control", "X-Verif", "Etag", "Server", "Set-Cookie", "Vary"}
var headerValues = []string{"1", "abc", "no-cache, max-age=0", "W/\"67ab43\"", "a=b; Path=/", "x y z", "verif/1.0", "0123456789012345678901234567890123456789"}

func hexLen(n int) int { return len(strconv.FormatInt(int64(n), 16)) }

// HeadLen measures the head nbio produces for the program's header set: the
// program is run once with every body size replaced by a tiny one. 0 when
// the dry run produced no parseable head.
func (e *Env) HeadLen(p *Program) int {
	q := p.Clone()
	total := 0
	for i := range q.Ops {
		switch q.Ops[i].K {
		case "write", "writestring", "readfrom":
			if q.Ops[i].N > 0 {
				q.Ops[i].N = 3
			}
			if q.Ops[i].Extra > 0 {
				q.Ops[i].Extra = 1
			}
			total += q.Ops[i].N
		}
	}
	clDigits := 0
	for i := range q.Ops {
		if q.Ops[i].K == "set" && q.Ops[i].Key == "Content-Length" && q.Ops[i].Val == "=total" {
			q.Ops[i].Val = strconv.Itoa(total)
			clDigits = len(q.Ops[i].Val)
		}
	}
	q.ReqBody = 0
	if q.Method == "POST" {
		q.ReadBody = "none"
	}
	out := e.Run(q)
	i := bytes.Index(out.Wire, []byte("\r\n\r\n"))
	if i < 0 {
		return 0
	}
	hl := i + 4
	if clDigits > 0 {
		hl += 5 - clDigits // sizes near the threshold have five digits
	}
	return hl
}

// Gen draws one program. The dry run that measures the head length makes the
// generator depend on the tree under test only through that one number.
func Gen(rng *rand.Rand, e *Env) *Program {
	p := &Program{Proto: "HTTP/1.1", Method: "GET"}
	if rng.Intn(100) < 30 {
		p.Proto = "HTTP/1.0"
	}
	switch rng.Intn(4) {
	case 0:
		p.Conn = "close"
	case 1:
		p.Conn = "keep-alive"
	}
	if rng.Intn(100) < 20 {
		p.Method = "POST"
		switch rng.Intn(10) {
		case 0:
			p.ReqBody = 0
		case 1:
			p.ReqBody = 60000 + rng.Intn(80000)
		default:
			p.ReqBody = 1 + rng.Intn(3000)
		}
		p.ReadBody = []string{"all", "all", "part", "none"}[rng.Intn(4)]
	}
	p.Sendfile = rng.Intn(2) == 0

	// ---- framing intent
	intent := "none"
	switch x := rng.Intn(100); {
	case x < 42:
	case x < 72:
		intent = "cl"
	case x < 80:
		intent = "te"
	case x < 97:
		intent = "trailer"
	default:
		intent = "cl-mismatch"
	}
	var pre []Op
	var trailerKeys []string
	trailerWhen := map[string]string{}
	switch intent {
	case "cl", "cl-mismatch":
		pre = append(pre, Op{K: "set", Key: "Content-Length", Val: "=total"})
	case "te":
		pre = append(pre, Op{K: "set", Key: "Transfer-Encoding", Val: "chunked"})
		if rng.Intn(4) == 0 {
			pre = append(pre, Op{K: "set", Key: "Content-Length", Val: "=total"})
		}
	case "trailer":
		trailerKeys = []string{"X-A"}
		if rng.Intn(2) == 0 {
			trailerKeys = append(trailerKeys, "X-Checksum")
		}
		lower := rng.Intn(100) < 12 // header names are case-insensitive: "Trailer: x-a" declares X-A
		if len(trailerKeys) == 2 && rng.Intn(2) == 0 {
			pre = append(pre, Op{K: "set", Key: "Trailer", Val: "X-A, X-Checksum"})
		} else {
			for _, k := range trailerKeys {
				if lower {
					pre = append(pre, Op{K: "add", Key: "Trailer", Val: strings.ToLower(k)})
				} else {
					pre = append(pre, Op{K: "add", Key: "Trailer", Val: k})
				}
			}
		}
		for _, k := range trailerKeys {
			switch x := rng.Intn(100); {
			case x < 60:
				trailerWhen[k] = "late"
			case x < 85:
				trailerWhen[k] = "early"
			default:
				trailerWhen[k] = "never"
			}
			if trailerWhen[k] == "early" {
				pre = append(pre, Op{K: "set", Key: k, Val: "early-" + k})
			}
		}
	}
	// ---- other headers before the head is committed
	for n := rng.Intn(4); n > 0; n-- {
		k := headerNames[rng.Intn(len(headerNames))]
		v := headerValues[rng.Intn(len(headerValues))]
		switch rng.Intn(6) {
		case 0:
			pre = append(pre, Op{K: "add", Key: k, Val: v}, Op{K: "add", Key: k, Val: v + "-2"})
		case 1:
			pre = append(pre, Op{K: "set", Key: k, Val: v}, Op{K: "del", Key: k})
		default:
			pre = append(pre, Op{K: "set", Key: k, Val: v})
		}
	}
	if rng.Intn(100) < 30 {
		pre = append(pre, Op{K: "set", Key: "Content-Type", Val: []string{"application/json", "text/html; charset=utf-8", "application/octet-stream"}[rng.Intn(3)]})
	}
	if rng.Intn(100) < 8 {
		pre = append(pre, Op{K: "set", Key: "Connection", Val: []string{"close", "keep-alive"}[rng.Intn(2)]})
	}
	if rng.Intn(100) < 3 {
		pre = append(pre, Op{K: "set", Key: "Date", Val: "Mon, 02 Jan 2006 15:04:05 GMT"})
	}
	rng.Shuffle(len(pre), func(i, j int) {
		// keep set-then-del and add-add pairs in order: only swap ops on different keys
		if pre[i].Key != pre[j].Key {
			pre[i], pre[j] = pre[j], pre[i]
		}
	})
	pickStatus := func() int {
		t := 0
		for _, s := range statusCodes {
			t += s.w
		}
		x := rng.Intn(t)
		for _, s := range statusCodes {
			if x < s.w {
				return s.code
			}
			x -= s.w
		}
		return 200
	}
	statusPos := "none"
	if rng.Intn(100) < 38 {
		statusPos = "before"
		if rng.Intn(10) == 0 {
			statusPos = "after-first"
		}
	}
	if statusPos == "before" {
		pre = append(pre, Op{K: "status", Code: pickStatus()})
		if rng.Intn(12) == 0 {
			pre = append(pre, Op{K: "status", Code: pickStatus()}) // superfluous second call
		}
		if rng.Intn(12) == 0 {
			pre = append(pre, Op{K: "set", Key: "X-After-Writeheader", Val: "1"}) // no effect per the interface: unasserted
		}
	}

	// ---- body operations (sizes filled in below)
	var nBody int
	switch x := rng.Intn(100); {
	case x < 7:
		nBody = 0
	case x < 35:
		nBody = 1
	case x < 65:
		nBody = 2
	case x < 83:
		nBody = 3
	default:
		nBody = 4 + rng.Intn(4)
	}
	var body []Op
	for i := 0; i < nBody; i++ {
		switch x := rng.Intn(100); {
		case x < 64:
			body = append(body, Op{K: "write", N: -1})
		case x < 87:
			body = append(body, Op{K: "writestring", N: -1})
		default:
			op := Op{K: "readfrom", N: -1, Src: []string{"plain", "limited-plain", "limited-file", "file"}[rng.Intn(4)]}
			if op.Src == "limited-plain" || op.Src == "limited-file" {
				if rng.Intn(3) > 0 {
					op.Extra = 1 + rng.Intn(5000)
				}
			}
			body = append(body, op)
		}
		if rng.Intn(100) < 18 {
			body = append(body, Op{K: "flush"})
		}
		if i == 0 && statusPos == "after-first" {
			body = append(body, Op{K: "status", Code: pickStatus()})
		}
		if rng.Intn(100) < 4 {
			body = append(body, Op{K: "set", Key: "X-Late", Val: "ignored"})
		}
		if i == 0 {
			for _, k := range trailerKeys {
				if trailerWhen[k] == "late" && rng.Intn(2) == 0 {
					body = append(body, Op{K: "trailer", Key: k, Val: "late-" + k})
					trailerWhen[k] = "done"
				}
			}
		}
	}
	if nBody == 0 && rng.Intn(4) == 0 {
		body = append(body, Op{K: "flush"})
	}
	for _, k := range trailerKeys {
		if trailerWhen[k] == "late" {
			body = append(body, Op{K: "trailer", Key: k, Val: "late-" + k})
		}
	}
	p.Ops = append(pre, body...)

	// ---- sizes
	hl := e.HeadLen(p)
	if hl <= 0 {
		hl = 130
	}
	p.Mode = []string{"list", "list", "list", "threshold", "threshold", "threshold", "threshold", "small", "small", "uniform"}[rng.Intn(10)]
	exp := Model(p)
	chunked := exp.Framing == "chunked" || (exp.Framing == "" && p.Proto == "HTTP/1.1")
	pend := hl // estimate of nbio's pending buffer
	total := 0
	uniformTotal := rng.Intn(300 * 1024)
	bodyIdx := 0
	for i := range p.Ops {
		op := &p.Ops[i]
		if op.K == "flush" {
			pend = 0
			continue
		}
		if op.N != -1 {
			continue
		}
		bodyIdx++
		var n int
		switch p.Mode {
		case "list":
			n = ListSizes[rng.Intn(len(ListSizes))]
		case "small":
			n = rng.Intn(300)
			if rng.Intn(6) == 0 {
				n = 0
			}
		case "uniform":
			if bodyIdx == nBody {
				n = uniformTotal
			} else {
				n = rng.Intn(uniformTotal + 1)
			}
			uniformTotal -= n
		default: // threshold
			d := rng.Intn(7) - 3
			over := 0
			if chunked {
				over = 4 + 4 // "\r\n" twice plus a four-digit hex length
			}
			switch x := rng.Intn(10); {
			case x < 5: // land the pending buffer on the threshold
				n = threshold + d - pend - over
				if chunked && n > 0 {
					n += 4 - hexLen(n)
				}
			case x < 6:
				n = 2*threshold + d - pend - over
			case x < 7:
				n = threshold + d
			case x < 8:
				n = 2*threshold + d
			default: // a filler that leaves room for the next op to hit the boundary
				n = 1 + rng.Intn(60000)
			}
			if n < 0 {
				n = rng.Intn(50)
			}
		}
		if total+n > MaxTotal-8192 {
			n = 0
		}
		op.N = n
		total += n
		// rough model of the pending buffer, only used to aim sizes
		add := n
		if chunked && n > 0 {
			add += hexLen(n) + 4
		}
		if op.K == "readfrom" || pend+add >= threshold {
			pend = 0
		} else {
			pend += add
		}
	}
	for i := range p.Ops {
		if p.Ops[i].K == "set" && p.Ops[i].Key == "Content-Length" && p.Ops[i].Val == "=total" {
			t := total
			if intent == "cl-mismatch" {
				// half of them: the declared length is what the first k body writes amount to, the
				// later writes exceed it (the one well-defined kind of mismatch)
				var sizes []int
				rf := false
				for _, o := range p.Ops {
					switch o.K {
					case "readfrom":
						rf = true
					case "write", "writestring":
						if o.N > 0 {
							sizes = append(sizes, o.N)
						}
					}
				}
				if !rf && len(sizes) >= 2 && rng.Intn(2) == 0 {
					k := 1 + rng.Intn(len(sizes)-1)
					t = 0
					for _, n := range sizes[:k] {
						t += n
					}
					p.Ops[i].Val = strconv.Itoa(t)
					continue
				}
				if rng.Intn(2) == 0 || t == 0 {
					t += 1 + rng.Intn(10)
				} else {
					t -= 1 + rng.Intn(t)
				}
			}
			p.Ops[i].Val = strconv.Itoa(t)
		}
	}
	return p
}

// SizeClass buckets a body total for the coverage cells.
func SizeClass(total int) string {
	switch {
	case total == 0:
		return "0"
	case total < 1024:
		return "<1K"
	case total < threshold-1024:
		return "<64K"
	case total <= threshold+1024:
		return "~64K"
	case total < 2*threshold-1024:
		return "<128K"
	case total <= 2*threshold+1024:
		return "~128K"
	}
	return ">128K"
}

// Minimize shrinks a failing program while fails(candidate) stays true:
// operations are dropped, sizes lowered, request attributes reset. budget
// bounds the number of candidate runs.
func Minimize(p *Program, budget int, fails func(*Program) bool) *Program {
	cur := p.Clone()
	try := func(q *Program) bool {
		if budget <= 0 {
			return false
		}
		budget--
		fixCL(q)
		if fails(q) {
			cur = q
			return true
		}
		return false
	}
	for changed := true; changed && budget > 0; {
		changed = false
		// drop single ops (from the end, so that indices stay valid)
		for i := len(cur.Ops) - 1; i >= 0 && i < len(cur.Ops); i-- {
			q := cur.Clone()
			q.Ops = append(q.Ops[:i:i], q.Ops[i+1:]...)
			if try(q) {
				changed = true
			}
		}
		// request attributes
		if cur.Method != "GET" {
			q := cur.Clone()
			q.Method, q.ReqBody, q.ReadBody = "GET", 0, ""
			changed = try(q) || changed
		}
		if cur.Conn != "" {
			q := cur.Clone()
			q.Conn = ""
			changed = try(q) || changed
		}
		if cur.Sendfile {
			q := cur.Clone()
			q.Sendfile = false
			changed = try(q) || changed
		}
		if cur.Proto != "HTTP/1.1" {
			q := cur.Clone()
			q.Proto = "HTTP/1.1"
			changed = try(q) || changed
		}
		// canonical forms: a Flush that only commits the head becomes Write(1),
		// a comma-separated Trailer declaration becomes a single key, a file
		// behind a LimitedReader becomes a plain reader
		for i := range cur.Ops {
			switch {
			case cur.Ops[i].K == "flush":
				q := cur.Clone()
				q.Ops[i] = Op{K: "write", N: 1}
				changed = try(q) || changed
			case cur.Ops[i].Key == "Trailer" && cur.Ops[i].K != "del" && strings.Contains(cur.Ops[i].Val, ","):
				q := cur.Clone()
				q.Ops[i].Val = strings.TrimSpace(strings.Split(q.Ops[i].Val, ",")[0])
				changed = try(q) || changed
			case cur.Ops[i].K == "readfrom" && cur.Ops[i].Src == "limited-file":
				q := cur.Clone()
				q.Ops[i].Src = "limited-plain"
				changed = try(q) || changed
			case cur.Ops[i].Key == "Trailer" && cur.Ops[i].K != "del" && cur.Ops[i].Val != http.CanonicalHeaderKey(cur.Ops[i].Val):
				q := cur.Clone()
				q.Ops[i].Val = http.CanonicalHeaderKey(q.Ops[i].Val)
				changed = try(q) || changed
			}
			if cur.Ops[i].K == "readfrom" {
				// a ReadFrom that behaves like a Write is not what the failure is about
				q := cur.Clone()
				q.Ops[i] = Op{K: "write", N: cur.Ops[i].N}
				changed = try(q) || changed
			}
		}
		// reader kinds and WriteString
		for i := range cur.Ops {
			if cur.Ops[i].K == "writestring" || (cur.Ops[i].K == "readfrom" && cur.Ops[i].Src != "plain") {
				q := cur.Clone()
				if q.Ops[i].K == "writestring" {
					q.Ops[i].K = "write"
				} else {
					q.Ops[i].Src, q.Ops[i].Extra = "plain", 0
				}
				changed = try(q) || changed
			}
		}
		// sizes
		sized := func(o Op) bool { return o.K == "write" || o.K == "writestring" || o.K == "readfrom" }
		for i := range cur.Ops {
			if cur.Ops[i].Extra > 1 {
				q := cur.Clone()
				q.Ops[i].Extra = 1
				changed = try(q) || changed
			}
			n := cur.Ops[i].N
			if n <= 1 || !sized(cur.Ops[i]) {
				continue
			}
			for _, c := range []int{1, 10, n / 2, n - n/8, n - 1} {
				if c >= n || c < 1 {
					continue
				}
				q := cur.Clone()
				q.Ops[i].N = c
				if try(q) {
					changed = true
					break
				}
			}
		}
		// move bytes between operations (keeps totals that matter intact)
		for i := range cur.Ops {
			for j := range cur.Ops {
				if i == j || !sized(cur.Ops[i]) || !sized(cur.Ops[j]) || cur.Ops[i].N <= 1 {
					continue
				}
				q := cur.Clone()
				q.Ops[j].N += q.Ops[i].N - 1
				q.Ops[i].N = 1
				changed = try(q) || changed
			}
		}
	}
	cur.Mode = "minimized"
	return cur
}

// fixCL keeps an explicit Content-Length equal to the bytes written when the
// original program had it so (a candidate must stay inside the asserted
// domain for the right reason).
func fixCL(q *Program) {
	total := 0
	for _, op := range q.Ops {
		switch op.K {
		case "write", "writestring", "readfrom":
			total += op.N
		}
	}
	for i := range q.Ops {
		if q.Ops[i].K == "set" && q.Ops[i].Key == "Content-Length" {
			q.Ops[i].Val = strconv.Itoa(total)
		}
	}
}
