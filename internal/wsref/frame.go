// Package wsref is an independent WebSocket reference: an RFC 6455 frame codec,
// a permessage-deflate (RFC 7692, no_context_takeover) codec built on
// compress/flate, a fragmenter and a frame-sequence validator. It is written
// from the RFCs and shares no code with the implementation under test; the
// workers of C12, C13 and C15 use it as their oracle.
package wsref

import (
	"encoding/binary"
	"errors"
)

// Opcodes of RFC 6455 section 5.2.
const (
	OpCont   = 0x0
	OpText   = 0x1
	OpBinary = 0x2
	OpClose  = 0x8
	OpPing   = 0x9
	OpPong   = 0xA
)

// Frame is one WebSocket frame. Payload always holds the application bytes
// (i.e. after unmasking).
type Frame struct {
	Fin     bool
	Rsv1    bool
	Rsv2    bool
	Rsv3    bool
	Opcode  byte
	Masked  bool
	Key     [4]byte
	Payload []byte

	// LenBits is the width of the length field: 7, 16 or 64. Decode fills it
	// in; Encode treats 0 as "shortest legal form" and 16/64 as a request for
	// that (possibly non-minimal) form.
	LenBits int
	// DeclLen is the payload length declared in the header. Decode fills it
	// in. Encode uses it instead of len(Payload) only when DeclOverride is
	// set (used to build headers whose announced length has the top bit set).
	DeclLen      uint64
	DeclOverride bool
}

// IsControl reports whether the opcode is in the control range 8-15.
func (f *Frame) IsControl() bool { return f.Opcode&0x8 != 0 }

// IsData reports whether the frame is a text, binary or continuation frame.
func (f *Frame) IsData() bool { return f.Opcode <= OpBinary }

// Minimal reports whether the length is encoded in the shortest form, as
// RFC 6455 section 5.2 requires.
func (f *Frame) Minimal() bool {
	switch f.LenBits {
	case 16:
		return f.DeclLen >= 126
	case 64:
		return f.DeclLen >= 65536
	}
	return true
}

// Mask XORs data in place with the 4-byte key, starting at key offset 0
// (RFC 6455 section 5.3: octet i is XORed with key octet i mod 4).
func Mask(key [4]byte, data []byte) {
	for i := range data {
		data[i] ^= key[i%4]
	}
}

// AppendFrame appends the wire image of f to dst.
func AppendFrame(dst []byte, f *Frame) []byte {
	var b0 byte
	if f.Fin {
		b0 |= 0x80
	}
	if f.Rsv1 {
		b0 |= 0x40
	}
	if f.Rsv2 {
		b0 |= 0x20
	}
	if f.Rsv3 {
		b0 |= 0x10
	}
	b0 |= f.Opcode & 0x0F
	n := uint64(len(f.Payload))
	if f.DeclOverride {
		n = f.DeclLen
	}
	bits := f.LenBits
	switch {
	case bits == 64 || n > 65535:
		bits = 64
	case bits == 16 || n > 125:
		bits = 16
	default:
		bits = 7
	}
	var b1 byte
	if f.Masked {
		b1 = 0x80
	}
	switch bits {
	case 7:
		dst = append(dst, b0, b1|byte(n))
	case 16:
		dst = append(dst, b0, b1|126, byte(n>>8), byte(n))
	default:
		var l [8]byte
		binary.BigEndian.PutUint64(l[:], n)
		dst = append(dst, b0, b1|127)
		dst = append(dst, l[:]...)
	}
	if f.Masked {
		dst = append(dst, f.Key[:]...)
		at := len(dst)
		dst = append(dst, f.Payload...)
		Mask(f.Key, dst[at:])
		return dst
	}
	return append(dst, f.Payload...)
}

// Encode returns the wire image of a frame sequence.
func Encode(frames []Frame) []byte {
	n := 0
	for i := range frames {
		n += 14 + len(frames[i].Payload)
	}
	out := make([]byte, 0, n)
	for i := range frames {
		out = AppendFrame(out, &frames[i])
	}
	return out
}

// Errors returned by Decode.
var (
	// ErrShort: b holds only a prefix of a frame.
	ErrShort = errors.New("wsref: incomplete frame")
	// ErrLenTopBit: 64-bit length whose most significant bit is set
	// (RFC 6455 section 5.2: "the most significant bit MUST be 0").
	ErrLenTopBit = errors.New("wsref: 64-bit payload length with the most significant bit set")
)

// Decode reads one frame from the front of b. It returns the frame and the
// number of bytes it occupies. With ErrShort nothing can be said yet. With
// ErrLenTopBit the returned frame carries the header fields only and n is the
// header length. The payload is copied (and unmasked).
func Decode(b []byte) (f Frame, n int, err error) {
	if len(b) < 2 {
		return f, 0, ErrShort
	}
	f.Fin = b[0]&0x80 != 0
	f.Rsv1 = b[0]&0x40 != 0
	f.Rsv2 = b[0]&0x20 != 0
	f.Rsv3 = b[0]&0x10 != 0
	f.Opcode = b[0] & 0x0F
	f.Masked = b[1]&0x80 != 0
	l7 := b[1] & 0x7F
	pos := 2
	switch l7 {
	case 126:
		if len(b) < 4 {
			return f, 0, ErrShort
		}
		f.LenBits = 16
		f.DeclLen = uint64(binary.BigEndian.Uint16(b[2:4]))
		pos = 4
	case 127:
		if len(b) < 10 {
			return f, 0, ErrShort
		}
		f.LenBits = 64
		f.DeclLen = binary.BigEndian.Uint64(b[2:10])
		pos = 10
	default:
		f.LenBits = 7
		f.DeclLen = uint64(l7)
	}
	if f.LenBits == 64 && f.DeclLen>>63 != 0 {
		if f.Masked {
			if len(b) >= pos+4 {
				copy(f.Key[:], b[pos:pos+4])
				pos += 4
			}
		}
		return f, pos, ErrLenTopBit
	}
	if f.Masked {
		if len(b) < pos+4 {
			return f, 0, ErrShort
		}
		copy(f.Key[:], b[pos:pos+4])
		pos += 4
	}
	if uint64(len(b)-pos) < f.DeclLen {
		return f, 0, ErrShort
	}
	end := pos + int(f.DeclLen)
	f.Payload = append([]byte(nil), b[pos:end]...)
	if f.Masked {
		Mask(f.Key, f.Payload)
	}
	return f, end, nil
}

// DecodeAll decodes as many complete frames as b holds. rest is the number of
// trailing bytes that do not form a complete frame. err is ErrLenTopBit when
// decoding stopped at such a header (that frame is the last one returned).
func DecodeAll(b []byte) (frames []Frame, rest int, err error) {
	for len(b) > 0 {
		f, n, e := Decode(b)
		if e == ErrShort {
			return frames, len(b), nil
		}
		frames = append(frames, f)
		b = b[n:]
		if e != nil {
			return frames, len(b), e
		}
	}
	return frames, 0, nil
}

// Boundaries returns the end offset of every frame of the wire image (used to
// know how much of a prefix is unparsed input).
func Boundaries(b []byte) []int {
	var out []int
	off := 0
	for off < len(b) {
		_, n, e := Decode(b[off:])
		if e != nil {
			break
		}
		off += n
		out = append(out, off)
	}
	return out
}
