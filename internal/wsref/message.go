package wsref

import (
	"bytes"
	"compress/flate"
	"errors"
	"io"
)

// Message is one application message.
type Message struct {
	Type    byte // OpText or OpBinary
	Payload []byte
}

// deflateTail is what a sync flush leaves at the end of a DEFLATE stream and
// what RFC 7692 section 7.2.1 removes from every compressed message.
var deflateTail = []byte{0x00, 0x00, 0xff, 0xff}

// Deflate compresses one message the permessage-deflate way without context
// takeover: a fresh DEFLATE stream, sync-flushed, with the trailing
// 00 00 ff ff removed.
func Deflate(payload []byte, level int) []byte {
	var buf bytes.Buffer
	w, err := flate.NewWriter(&buf, level)
	if err != nil {
		panic(err)
	}
	_, _ = w.Write(payload)
	_ = w.Flush()
	out := buf.Bytes()
	if bytes.HasSuffix(out, deflateTail) {
		out = out[:len(out)-4]
	}
	return append([]byte(nil), out...)
}

// DeflateFinal compresses one message and ends the DEFLATE stream with a
// block whose BFINAL bit is set, which RFC 7692 section 7.2.3.4 allows: the
// stream as closed by the compressor followed by one 0x00 octet (the RFC's
// example: f3 48 cd c9 c9 07 00 | 00 for "Hello"). A decompressor returns the
// last bytes of such a stream together with its end-of-stream indication.
func DeflateFinal(payload []byte, level int) []byte {
	var buf bytes.Buffer
	w, err := flate.NewWriter(&buf, level)
	if err != nil {
		panic(err)
	}
	_, _ = w.Write(payload)
	_ = w.Close()
	return append(append([]byte(nil), buf.Bytes()...), 0x00)
}

// ErrInflateLimit is returned by Inflate when the output would exceed max.
var ErrInflateLimit = errors.New("wsref: inflated size exceeds the given maximum")

// Inflate reverses Deflate (RFC 7692 section 7.2.2): append 00 00 ff ff, then
// a final empty stored block so that the reader sees a clean end of stream,
// and inflate. max < 0 means unbounded.
func Inflate(data []byte, max int) ([]byte, error) {
	r := flate.NewReader(io.MultiReader(bytes.NewReader(data), bytes.NewReader(deflateTail), bytes.NewReader([]byte{0x01, 0x00, 0x00, 0xff, 0xff})))
	defer r.Close()
	var out bytes.Buffer
	if max < 0 {
		if _, err := io.Copy(&out, r); err != nil {
			return nil, err
		}
		return out.Bytes(), nil
	}
	n, err := io.Copy(&out, io.LimitReader(r, int64(max)+1))
	if err != nil {
		return nil, err
	}
	if n > int64(max) {
		return nil, ErrInflateLimit
	}
	return out.Bytes(), nil
}

// FragmentOpts controls how a message is turned into frames.
type FragmentOpts struct {
	// Cuts are payload offsets (strictly increasing, each in [0,len]) at
	// which a new frame starts. A cut at 0 or len(payload), or two equal
	// cuts, produce empty frames - which RFC 6455 allows.
	Cuts []int
	// Compressed: the wire payload is Deflate(msg.Payload) and RSV1 is set
	// on the first frame.
	Compressed bool
	Level      int
	// Masked: every frame is masked; NextKey supplies the keys.
	Masked  bool
	NextKey func() [4]byte
}

// Fragment turns a message into data frames.
func Fragment(m Message, o FragmentOpts) []Frame {
	p := m.Payload
	if o.Compressed {
		p = Deflate(m.Payload, o.Level)
	}
	var frames []Frame
	prev := 0
	pieces := make([][]byte, 0, len(o.Cuts)+1)
	for _, c := range o.Cuts {
		if c < prev {
			c = prev
		}
		if c > len(p) {
			c = len(p)
		}
		pieces = append(pieces, p[prev:c])
		prev = c
	}
	pieces = append(pieces, p[prev:])
	for i, pc := range pieces {
		f := Frame{Payload: pc, Masked: o.Masked}
		if i == 0 {
			f.Opcode = m.Type
			f.Rsv1 = o.Compressed
		} else {
			f.Opcode = OpCont
		}
		f.Fin = i == len(pieces)-1
		if o.Masked && o.NextKey != nil {
			f.Key = o.NextKey()
		}
		frames = append(frames, f)
	}
	return frames
}

// ClosePayload builds the body of a close frame.
func ClosePayload(code int, reason string) []byte {
	b := make([]byte, 2+len(reason))
	b[0] = byte(code >> 8)
	b[1] = byte(code)
	copy(b[2:], reason)
	return b
}

// StoredDeflate builds a permessage-deflate payload for content out of stored
// (BTYPE 00) blocks only, so that its length is exactly
// len(content) + 5*ceil(len/65535) + 1: the blocks followed by the header octet
// of the empty stored block whose 00 00 ff ff the sender removes.
func StoredDeflate(content []byte) []byte {
	var out []byte
	for len(content) > 0 {
		n := len(content)
		if n > 65535 {
			n = 65535
		}
		out = append(out, 0x00, byte(n), byte(n>>8), ^byte(n), ^byte(n>>8))
		out = append(out, content[:n]...)
		content = content[n:]
	}
	return append(out, 0x00)
}
