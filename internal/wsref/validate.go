package wsref

// FirstInvalidUTF8 returns the offset of the first byte that starts an
// ill-formed sequence (RFC 3629 table: no overlongs, no surrogates, nothing
// above U+10FFFF, no truncated sequences), or -1 when p is well-formed.
// Written out by hand so that it does not depend on unicode/utf8, which the
// implementation under test uses.
func FirstInvalidUTF8(p []byte) int {
	i := 0
	n := len(p)
	cont := func(j int) bool { return j < n && p[j] >= 0x80 && p[j] <= 0xBF }
	for i < n {
		b := p[i]
		switch {
		case b < 0x80:
			i++
		case b >= 0xC2 && b <= 0xDF:
			if !cont(i + 1) {
				return i
			}
			i += 2
		case b == 0xE0:
			if !(i+1 < n && p[i+1] >= 0xA0 && p[i+1] <= 0xBF) || !cont(i+2) {
				return i
			}
			i += 3
		case (b >= 0xE1 && b <= 0xEC) || b == 0xEE || b == 0xEF:
			if !cont(i+1) || !cont(i+2) {
				return i
			}
			i += 3
		case b == 0xED:
			if !(i+1 < n && p[i+1] >= 0x80 && p[i+1] <= 0x9F) || !cont(i+2) {
				return i
			}
			i += 3
		case b == 0xF0:
			if !(i+1 < n && p[i+1] >= 0x90 && p[i+1] <= 0xBF) || !cont(i+2) || !cont(i+3) {
				return i
			}
			i += 4
		case b >= 0xF1 && b <= 0xF3:
			if !cont(i+1) || !cont(i+2) || !cont(i+3) {
				return i
			}
			i += 4
		case b == 0xF4:
			if !(i+1 < n && p[i+1] >= 0x80 && p[i+1] <= 0x8F) || !cont(i+2) || !cont(i+3) {
				return i
			}
			i += 4
		default: // 80..C1, F5..FF
			return i
		}
	}
	return -1
}

// CloseCodeClass classifies a close status code.
type CloseCodeClass int

const (
	// CloseLegal: may appear in a close frame (1000-1003, 1007-1011, 3000-4999).
	CloseLegal CloseCodeClass = iota
	// CloseIllegal: must not appear on the wire (<1000, 1004-1006, 1015,
	// 1016-2999, >=5000).
	CloseIllegal
	// CloseLater: 1012-1014, registered after RFC 6455; no verdict.
	CloseLater
)

// ClassifyCloseCode implements RFC 6455 sections 7.4.1 and 7.4.2.
func ClassifyCloseCode(code int) CloseCodeClass {
	switch {
	case code < 1000:
		return CloseIllegal
	case code <= 1003:
		return CloseLegal
	case code <= 1006:
		return CloseIllegal
	case code <= 1011:
		return CloseLegal
	case code <= 1014:
		return CloseLater
	case code <= 2999:
		return CloseIllegal
	case code <= 4999:
		return CloseLegal
	}
	return CloseIllegal
}

// EventKind names what a receiver has to do with a (completed) frame group.
type EventKind int

const (
	EvMessage EventKind = iota // a complete data message: deliver it
	EvPing                     // answer with a pong carrying Payload
	EvPong                     // hand to the pong handler
	EvClose                    // answer with a close frame
)

func (k EventKind) String() string {
	return [...]string{"message", "ping", "pong", "close"}[k]
}

// Event is one thing the reference receiver does.
type Event struct {
	Kind       EventKind
	Type       byte   // EvMessage: OpText / OpBinary
	Payload    []byte // message payload (inflated), ping/pong body, close reason
	HasCode    bool   // EvClose: a status code was present
	Code       int
	Compressed bool
	First      int // index of the first frame of the group
	Last       int // index of the frame that completed it
}

// Options describe what was negotiated.
type Options struct {
	// Compression: permessage-deflate is in use, RSV1 on the first frame of
	// a data message is legal and marks the message as compressed.
	Compression bool
}

// Failure reasons (stable strings, used in signatures).
const (
	ReasonLenTopBit       = "len64-top-bit"
	ReasonRsv             = "reserved-bit"
	ReasonReservedOpcode  = "reserved-opcode"
	ReasonCtlFragmented   = "control-fragmented"
	ReasonCtlTooLong      = "control-over-125"
	ReasonStrayCont       = "continuation-without-start"
	ReasonDataInsideFrag  = "data-frame-inside-fragmented-message"
	ReasonUTF8Text        = "invalid-utf8-text"
	ReasonUTF8CloseReason = "invalid-utf8-close-reason"
	ReasonCloseCode       = "illegal-close-code"
	ReasonCloseLen1       = "close-payload-length-1"
)

// Verdict is the reference's judgement of a frame sequence as seen by a
// receiver.
type Verdict struct {
	// Valid: RFC 6455 allows the whole sequence.
	Valid bool
	// FailAt is the index k of the first frame at which the sequence stops
	// being acceptable (-1 when valid). For invalid UTF-8 in a text message k
	// is the frame holding the first byte of the first ill-formed sequence
	// (the first frame of the message when it is compressed).
	FailAt int
	// FailEnd is the index of the frame that ends the message containing
	// frame k: k itself unless k is a non-final data frame, in which case it
	// is the next final data frame, or -1 when the sequence has none. The
	// receiver must have failed the connection once frame FailEnd is in.
	FailEnd int
	Reason  string
	// Events are what the receiver must do, in order, for frames before
	// FailAt (all frames when valid, up to and including a valid close).
	Events []Event
	// Optional are well-formed ping/pong frames in (FailAt, FailEnd]: a
	// receiver that has not failed yet may still process them.
	Optional []Event
	// Unasserted lists classes the sequence touches for which no verdict is
	// defined (see the design): "rsv1-nonfirst", "nonminimal-length",
	// "close-code-1012-1014", "bad-deflate". When non-empty the caller
	// must not alarm on accept-versus-fail.
	Unasserted []string
	// UnassertedAt is the index of the first frame that touches such a
	// class (-1 if none).
	UnassertedAt int
	// ClosedAt is the index of the valid close frame that ended the
	// sequence (-1 if none); later frames were not looked at.
	ClosedAt int
	// OpenMessage: the sequence ends inside a fragmented message.
	OpenMessage bool
}

func (v *Verdict) unasserted(s string, at int) {
	if v.UnassertedAt < 0 || at < v.UnassertedAt {
		v.UnassertedAt = at
	}
	for _, x := range v.Unasserted {
		if x == s {
			return
		}
	}
	v.Unasserted = append(v.Unasserted, s)
}

func declaredLen(f *Frame) uint64 {
	if f.DeclOverride || (f.Payload == nil && f.DeclLen != 0) {
		return f.DeclLen
	}
	return uint64(len(f.Payload))
}

// Validate judges a frame sequence.
func Validate(frames []Frame, opt Options) Verdict {
	v := Verdict{Valid: true, FailAt: -1, FailEnd: -1, ClosedAt: -1, UnassertedAt: -1}
	var (
		inMsg      bool
		msgType    byte
		msgComp    bool
		msgFirst   int
		msgBuf     []byte
		partFrame  []int // frame index of every piece
		partOffset []int // payload offset at which that piece starts
	)
	fail := func(k int, reason string) {
		v.Valid = false
		v.FailAt = k
		v.Reason = reason
		// end of the message containing frame k
		fk := &frames[k]
		if fk.Opcode <= OpBinary && !fk.Fin && reason != ReasonLenTopBit {
			v.FailEnd = -1
			for j := k + 1; j < len(frames); j++ {
				fj := &frames[j]
				if fj.Opcode <= OpBinary && fj.Fin {
					v.FailEnd = j
					break
				}
			}
		} else {
			v.FailEnd = k
		}
		end := v.FailEnd
		if end < 0 {
			end = len(frames) - 1
		}
		for j := k + 1; j <= end; j++ {
			fj := &frames[j]
			if (fj.Opcode == OpPing || fj.Opcode == OpPong) && fj.Fin && !fj.Rsv1 && !fj.Rsv2 && !fj.Rsv3 && declaredLen(fj) <= 125 && !fj.DeclOverride {
				kind := EvPing
				if fj.Opcode == OpPong {
					kind = EvPong
				}
				v.Optional = append(v.Optional, Event{Kind: kind, Payload: fj.Payload, First: j, Last: j})
			}
		}
	}
	for i := range frames {
		f := &frames[i]
		dl := declaredLen(f)
		if f.LenBits == 64 && dl>>63 != 0 {
			fail(i, ReasonLenTopBit)
			return v
		}
		if f.Rsv2 || f.Rsv3 {
			fail(i, ReasonRsv)
			return v
		}
		compressedStart := false
		if f.Rsv1 {
			if !opt.Compression {
				fail(i, ReasonRsv)
				return v
			}
			if (f.Opcode == OpText || f.Opcode == OpBinary) && !inMsg {
				compressedStart = true
			} else {
				v.unasserted("rsv1-nonfirst", i)
			}
		}
		if (f.Opcode >= 3 && f.Opcode <= 7) || f.Opcode >= 0xB {
			fail(i, ReasonReservedOpcode)
			return v
		}
		if !(&Frame{LenBits: f.LenBits, DeclLen: dl}).Minimal() {
			v.unasserted("nonminimal-length", i)
		}
		if f.IsControl() {
			if !f.Fin {
				fail(i, ReasonCtlFragmented)
				return v
			}
			if dl > 125 {
				fail(i, ReasonCtlTooLong)
				return v
			}
			switch f.Opcode {
			case OpPing:
				v.Events = append(v.Events, Event{Kind: EvPing, Payload: f.Payload, First: i, Last: i})
			case OpPong:
				v.Events = append(v.Events, Event{Kind: EvPong, Payload: f.Payload, First: i, Last: i})
			case OpClose:
				p := f.Payload
				ev := Event{Kind: EvClose, First: i, Last: i}
				switch {
				case len(p) == 0:
				case len(p) == 1:
					fail(i, ReasonCloseLen1)
					return v
				default:
					ev.HasCode = true
					ev.Code = int(p[0])<<8 | int(p[1])
					ev.Payload = p[2:]
					switch ClassifyCloseCode(ev.Code) {
					case CloseIllegal:
						fail(i, ReasonCloseCode)
						return v
					case CloseLater:
						v.unasserted("close-code-1012-1014", i)
					}
					if FirstInvalidUTF8(p[2:]) >= 0 {
						fail(i, ReasonUTF8CloseReason)
						return v
					}
				}
				v.Events = append(v.Events, ev)
				v.ClosedAt = i
				v.OpenMessage = inMsg
				return v
			}
			continue
		}
		// data frame
		if f.Opcode == OpCont {
			if !inMsg {
				fail(i, ReasonStrayCont)
				return v
			}
		} else {
			if inMsg {
				fail(i, ReasonDataInsideFrag)
				return v
			}
			inMsg = true
			msgType = f.Opcode
			msgComp = compressedStart
			msgFirst = i
			msgBuf = msgBuf[:0]
			partFrame = partFrame[:0]
			partOffset = partOffset[:0]
		}
		partFrame = append(partFrame, i)
		partOffset = append(partOffset, len(msgBuf))
		msgBuf = append(msgBuf, f.Payload...)
		if !f.Fin {
			continue
		}
		inMsg = false
		payload := append([]byte(nil), msgBuf...)
		if msgComp {
			out, err := Inflate(payload, -1)
			if err != nil {
				// not a DEFLATE stream: RFC 7692 does not say which frame is
				// at fault and the property does not list it
				v.unasserted("bad-deflate", msgFirst)
				v.Valid = false
				v.FailAt = msgFirst
				v.FailEnd = i
				v.Reason = "bad-deflate"
				return v
			}
			payload = out
		}
		if msgType == OpText {
			if at := FirstInvalidUTF8(payload); at >= 0 {
				k := msgFirst
				if !msgComp {
					for pi := range partFrame {
						if partOffset[pi] <= at {
							k = partFrame[pi]
						}
					}
					// an empty piece starting at the same offset does not hold
					// the byte; pick the piece that really contains it
					for pi := range partFrame {
						endOff := len(msgBuf)
						if pi+1 < len(partOffset) {
							endOff = partOffset[pi+1]
						}
						if partOffset[pi] <= at && at < endOff {
							k = partFrame[pi]
							break
						}
					}
				}
				fail(k, ReasonUTF8Text)
				// the message ends here, whatever frame k was
				v.FailEnd = i
				// optional control frames between k and the end
				v.Optional = nil
				for j := k + 1; j <= i; j++ {
					fj := &frames[j]
					if fj.Opcode == OpPing || fj.Opcode == OpPong {
						kind := EvPing
						if fj.Opcode == OpPong {
							kind = EvPong
						}
						v.Optional = append(v.Optional, Event{Kind: kind, Payload: fj.Payload, First: j, Last: j})
					}
				}
				// events recorded for control frames at or after k are not mandatory
				keep := v.Events[:0]
				for _, e := range v.Events {
					if e.Last < k {
						keep = append(keep, e)
					}
				}
				v.Events = keep
				return v
			}
		}
		v.Events = append(v.Events, Event{Kind: EvMessage, Type: msgType, Payload: payload, Compressed: msgComp, First: msgFirst, Last: i})
	}
	v.OpenMessage = inMsg
	return v
}
