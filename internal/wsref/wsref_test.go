package wsref

import (
	"bytes"
	"math/rand"
	"testing"
	"unicode/utf8"
)

func TestFrameRoundTrip(t *testing.T) {
	rng := rand.New(rand.NewSource(1))
	for _, n := range []int{0, 1, 125, 126, 127, 65535, 65536, 70000} {
		for _, masked := range []bool{false, true} {
			for _, bits := range []int{0, 16, 64} {
				if bits == 16 && n > 65535 {
					continue
				}
				p := make([]byte, n)
				rng.Read(p)
				f := Frame{Fin: true, Opcode: OpBinary, Masked: masked, Key: [4]byte{1, 2, 3, 4}, Payload: p, LenBits: bits}
				w := Encode([]Frame{f})
				g, used, err := Decode(w)
				if err != nil || used != len(w) || !bytes.Equal(g.Payload, p) || g.Masked != masked || !g.Fin || g.Opcode != OpBinary {
					t.Fatalf("n=%d masked=%v bits=%d: err=%v used=%d/%d", n, masked, bits, err, used, len(w))
				}
				if _, _, err := Decode(w[:len(w)-1]); len(w) > 0 && err != ErrShort {
					t.Fatalf("short: %v", err)
				}
			}
		}
	}
	f := Frame{Fin: true, Opcode: OpBinary, LenBits: 64, DeclLen: 1 << 63, DeclOverride: true}
	if _, _, err := Decode(Encode([]Frame{f})); err != ErrLenTopBit {
		t.Fatalf("top bit: %v", err)
	}
}

func TestDeflateRoundTrip(t *testing.T) {
	rng := rand.New(rand.NewSource(2))
	for _, n := range []int{0, 1, 5, 1000, 70000, 1 << 20} {
		for lvl := -2; lvl <= 9; lvl++ {
			p := make([]byte, n)
			if lvl%2 == 0 {
				rng.Read(p)
			}
			c := Deflate(p, lvl)
			q, err := Inflate(c, -1)
			if err != nil || !bytes.Equal(p, q) {
				t.Fatalf("n=%d lvl=%d err=%v", n, lvl, err)
			}
			if n > 0 {
				if _, err := Inflate(c, n-1); err != ErrInflateLimit {
					t.Fatalf("limit: n=%d err=%v", n, err)
				}
			}
		}
	}
}

func TestUTF8AgainstStdlib(t *testing.T) {
	// exhaustive over all 1- and 2-byte strings, sampled 3- and 4-byte ones
	var b [4]byte
	for x := 0; x < 1<<16; x++ {
		b[0], b[1] = byte(x>>8), byte(x)
		for n := 1; n <= 2; n++ {
			if (FirstInvalidUTF8(b[:n]) < 0) != utf8.Valid(b[:n]) {
				t.Fatalf("% x", b[:n])
			}
		}
	}
	rng := rand.New(rand.NewSource(3))
	lead := []byte{0xE0, 0xE1, 0xEC, 0xED, 0xEE, 0xEF, 0xF0, 0xF1, 0xF3, 0xF4, 0xF5, 0xC0, 0xC1, 0xC2, 0xDF, 0x7F, 0x80, 0xBF}
	edge := []byte{0x7F, 0x80, 0x8F, 0x90, 0x9F, 0xA0, 0xBF, 0xC0}
	for i := 0; i < 2000000; i++ {
		n := 1 + rng.Intn(8)
		p := make([]byte, n)
		for j := range p {
			switch rng.Intn(3) {
			case 0:
				p[j] = lead[rng.Intn(len(lead))]
			case 1:
				p[j] = edge[rng.Intn(len(edge))]
			default:
				p[j] = byte(rng.Intn(256))
			}
		}
		at := FirstInvalidUTF8(p)
		if (at < 0) != utf8.Valid(p) {
			t.Fatalf("% x: ref=%d std=%v", p, at, utf8.Valid(p))
		}
		if at >= 0 && (!utf8.Valid(p[:at]) || FirstInvalidUTF8(p[:at]) >= 0) {
			t.Fatalf("% x: prefix before %d not valid", p, at)
		}
	}
}

func TestValidateBasics(t *testing.T) {
	txt := func(fin bool, op byte, s string) Frame { return Frame{Fin: fin, Opcode: op, Payload: []byte(s)} }
	v := Validate([]Frame{txt(false, OpText, "he"), {Fin: true, Opcode: OpPing, Payload: []byte("p")}, txt(true, OpCont, "llo")}, Options{})
	if !v.Valid || len(v.Events) != 2 || v.Events[0].Kind != EvPing || string(v.Events[1].Payload) != "hello" {
		t.Fatalf("%+v", v)
	}
	v = Validate([]Frame{txt(true, OpCont, "")}, Options{})
	if v.Valid || v.Reason != ReasonStrayCont || v.FailAt != 0 || v.FailEnd != 0 {
		t.Fatalf("%+v", v)
	}
	v = Validate([]Frame{txt(false, OpText, "a\xf4"), txt(false, OpCont, "\x90"), txt(true, OpCont, "\x80\x80")}, Options{})
	if v.Valid || v.Reason != ReasonUTF8Text || v.FailAt != 0 || v.FailEnd != 2 {
		t.Fatalf("%+v", v)
	}
	v = Validate([]Frame{{Fin: true, Opcode: OpClose, Payload: ClosePayload(1015, "")}}, Options{})
	if v.Valid || v.Reason != ReasonCloseCode {
		t.Fatalf("%+v", v)
	}
	v = Validate([]Frame{{Fin: true, Rsv1: true, Opcode: OpText, Payload: Deflate([]byte("hi"), 1)}}, Options{Compression: true})
	if !v.Valid || string(v.Events[0].Payload) != "hi" {
		t.Fatalf("%+v", v)
	}
}

func TestStoredDeflate(t *testing.T) {
	for _, n := range []int{0, 1, 119, 65529, 65530, 65535, 65536, 140000} {
		p := bytes.Repeat([]byte("x"), n)
		q, err := Inflate(StoredDeflate(p), -1)
		if err != nil || !bytes.Equal(p, q) {
			t.Fatalf("n=%d err=%v got %d", n, err, len(q))
		}
	}
	if _, err := Inflate(nil, -1); err == nil {
		t.Fatalf("an empty compressed payload must not inflate")
	}
}
