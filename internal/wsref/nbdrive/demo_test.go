package nbdrive

import (
	"encoding/hex"
	"testing"

	"github.com/lesismal/nbio/mempool"

	"verif/internal/h"
)

// TestDemoFindings feeds the minimal wire images behind the findings of
// C12/C13/C15 and logs what nbio does with them. It asserts nothing (it must
// keep passing once the defects are repaired); run it with
//
//	go test -tags verif -run DemoFindings -v ./internal/wsref/nbdrive
func TestDemoFindings(t *testing.T) {
	lg := InstallLogger()
	show := func(name string, cfg Config, wireHex string) {
		wire, _ := hex.DecodeString(wireHex)
		e := New(cfg)
		_ = e.Feed(wire)
		t.Logf("%s\n   cfg=%+v wire=%s", name, cfg, wireHex)
		t.Logf("   Parse error: %v; underlying Close calls: %d; OnClose err: %v", e.ParseErr, e.ConnClosed, e.OnCloseErr)
		for _, o := range e.Obs {
			switch o.Kind {
			case ObsMessage:
				t.Logf("   OnMessage(type %d, %d bytes)", o.Type, len(o.Data))
			case ObsFrameOut:
				t.Logf("   nbio wrote frame opcode=%d payload=%x", o.Frame.Opcode, o.Frame.Payload)
			}
		}
		if p := h.PanicLines(lg.Take()); len(p) > 0 {
			t.Logf("   recovered panic logged: %.120s", p[0])
		}
		e.Finish()
	}
	// C12: a zero-length text message is never delivered (expected: one OnMessage with 0 bytes)
	show("C12 empty text message to a client conn", Config{Client: true, MsgLimit: -1}, "8100")
	show("C12 empty binary message to a server conn (masked)", Config{MsgLimit: -1}, "828000000000")
	// C13: continuation without a start, FIN, empty payload (expected: connection failed)
	show("C13 stray empty continuation, then a text message 'A'", Config{Client: true, MsgLimit: -1}, "8000"+"810141")
	show("C13 stray empty continuation without FIN + empty FIN continuation, then 'A'", Config{Client: true, MsgLimit: -1}, "00008000"+"810141")
	// C13: close code 1015 must not appear on the wire (expected: failed, not echoed)
	show("C13 close frame with status 1015", Config{Client: true, MsgLimit: -1}, "880203f7")
	show("C13 close frame with status 1005 (control)", Config{Client: true, MsgLimit: -1}, "880203ed")
	// C13: RSV1 + FIN + empty payload under negotiated compression: nil dereference in Parse
	show("C13 compressed empty text frame", Config{Client: true, Compression: true, MsgLimit: -1}, "c100")
	// C15: limit 125, a 5-byte compressed payload inflating to 126 zero bytes is delivered
	show("C15 L=125, frame inflating to 126 bytes, aligned allocator", Config{Client: true, Compression: true, MsgLimit: 125, Allocator: mempool.NewAligned()}, "c2056218500000")
	// C15: limit 1024, a compressed payload inflating to exactly 1024 zero bytes is refused with 1009
	show("C15 L=1024, frame inflating to exactly 1024 bytes, mempool.New(1024,1<<30)", Config{Client: true, Compression: true, MsgLimit: 1024, Allocator: mempool.New(1024, 1<<30)}, "c10a621805a360148c580000")
	// C15 observation: limit 10, 9-byte message in two fragments with a 3-byte ping in between is refused with 1009
	show("C15 observation: L=10, 'abcdefgh' + ping 'xyz' + 'i'", Config{Client: true, MsgLimit: 10}, "02086162636465666768"+"890378797a"+"800169")
}
