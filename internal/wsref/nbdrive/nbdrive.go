// Package nbdrive builds an nbio WebSocket endpoint in memory (no sockets,
// engine never started) the way the design describes - nbhttp.NewEngine,
// websocket.NewUpgrader, websocket.NewServerConn/NewClientConn over a recording
// net.Conn, public Engine/Execute fields - and records everything observable:
// OnMessage calls, pong handler calls, the frames nbio writes, Parse errors,
// Close of the underlying connection and the OnClose error.
//
// Executor model. The real engine runs message handlers as jobs on the
// connection's serialized executor (nbio.Conn.Execute) and turns a Close of
// the underlying connection into one more job on that queue
// (Engine.OnClose -> MustExecute -> ParserCloser.CloseAndClean). Here jobs run
// from a FIFO that is drained as soon as a job is queued, so the close job runs
// right after the handler that closed the connection: the schedule in which
// the executor is always faster than the reader. It is one of the schedules
// the real engine can produce and the one most favourable to nbio (the fewest
// frames are looked at after a failure).
package nbdrive

import (
	"errors"
	"fmt"
	"io"
	"math/rand"
	"net"
	"os"
	"runtime"
	"sort"
	"strings"
	"sync"
	"time"

	"github.com/lesismal/nbio/logging"
	"github.com/lesismal/nbio/mempool"
	"github.com/lesismal/nbio/nbhttp"
	"github.com/lesismal/nbio/nbhttp/websocket"

	"verif/internal/h"
	"verif/internal/wsref"
)

// Config describes one endpoint.
type Config struct {
	Client      bool `json:"client"`                // role of the nbio endpoint
	Compression bool `json:"compression,omitempty"` // Upgrader.EnableCompression(true) + remoteCompressionEnabled
	Level       int  `json:"level,omitempty"`       // compression level, used when LevelSet
	LevelSet    bool `json:"level_set,omitempty"`
	MaxFrame    int  `json:"max_frame,omitempty"`  // Config.MaxWebsocketFramePayloadSize (0 = nbio default 32768)
	ReadLimit   int  `json:"read_limit,omitempty"` // Config.ReadLimit (0 = nbio default 64 MiB)
	// MsgLimit: MessageLengthLimit. <0 keeps the upgrader default (4 MiB),
	// 0 means unlimited, >0 is the limit.
	MsgLimit int `json:"msg_limit"`
	// DeferClose changes the executor model: when nbio closes the underlying
	// connection the CloseAndClean job is not run right after the current
	// handler but only after the current Parse call has returned - the
	// schedule in which the reader is faster than the executor and every
	// frame of the current read is parsed and its handler queued before the
	// close job. Used for observation only.
	DeferClose bool `json:"defer_close,omitempty"`
	// NoOutObs: do not turn written frames into observations (huge frame
	// counts); Out still has the bytes.
	NoOutObs bool `json:"-"`
	// Allocator becomes Config.BodyAllocator (nil = nbio default).
	Allocator mempool.Allocator `json:"-"`
	// AfterMessage, when set, makes the endpoint register its message
	// callback with OnMessagePtr instead of OnMessage and is called with the
	// delivered buffer after the message has been recorded (the application
	// owns the buffer from then on; C15 returns it to its allocator).
	AfterMessage func(p *[]byte) `json:"-"`
	// FramesOnly registers only a data-frame callback (Upgrader.OnDataFrame), no
	// message callback: the endpoint puts the frames it is handed together
	// itself (type of the frames as nbio reports it, payloads concatenated
	// until FIN) and records the result as ObsMessage.
	FramesOnly bool `json:"frames_only,omitempty"`
	// ObserveClose installs a close handler that records what nbio hands it
	// (ObsCloseRecv) and then does exactly what nbio's default handler does
	// (echo the code and reason in a close frame).
	ObserveClose bool `json:"observe_close,omitempty"`
}

// ObsKind says what was observed.
type ObsKind int

const (
	ObsMessage   ObsKind = iota // OnMessage(type, payload)
	ObsPongRecv                 // pong handler(payload)
	ObsFrameOut                 // nbio wrote this frame
	ObsCloseRecv                // close handler(code, reason): Type = code, Data = reason
)

// Obs is one observation, in order of occurrence.
type Obs struct {
	Kind  ObsKind
	Type  int    // message type (ObsMessage)
	Data  []byte // message payload / pong payload
	Frame wsref.Frame
	// AfterFail: seen after the endpoint had failed (Parse error returned or
	// underlying connection closed).
	AfterFail bool
}

// ErrConnClosed is what CloseAndClean gets when nbio itself closed the
// underlying connection.
var ErrConnClosed = errors.New("nbdrive: underlying connection closed by nbio")

// Endpoint is one in-memory nbio WebSocket connection with its recorder.
type Endpoint struct {
	Cfg    Config
	Engine *nbhttp.Engine
	U      *websocket.Upgrader
	Conn   *websocket.Conn

	Obs []Obs
	Out []byte // everything nbio wrote
	// OutBad is set when the written bytes stop decoding as frames.
	OutBad     error
	outDecoded int

	ParseErr         error // first non-nil error returned by Parse
	ParseCalls       int
	ConnClosed       int // Close() calls on the underlying connection
	OnCloseCalls     int
	OnCloseErr       error
	WritesAfterClose int
	DeadlineCalls    int
	JobPanics        []string
	Fed              int // bytes handed to Parse so far
	FailFed          int // Fed when the failure was first seen (-1: not failed)

	queue    []func()
	draining bool
	closing  bool
	closeQ   bool
	// DeferClose model: close requested, to be run after the current call
	closeLater bool
}

type addr struct{}

func (addr) Network() string { return "mem" }
func (addr) String() string  { return "mem" }

type fakeConn struct{ e *Endpoint }

func (c *fakeConn) Read(b []byte) (int, error) { return 0, io.EOF }
func (c *fakeConn) Write(b []byte) (int, error) {
	e := c.e
	if e.ConnClosed > 0 {
		e.WritesAfterClose++
		return 0, net.ErrClosed
	}
	e.Out = append(e.Out, b...)
	if !e.Cfg.NoOutObs {
		e.decodeOut()
	}
	return len(b), nil
}
func (c *fakeConn) Close() error {
	e := c.e
	e.ConnClosed++
	e.noteFail()
	if e.Cfg.DeferClose {
		e.closeLater = true
		return nil
	}
	if !e.closing && !e.closeQ {
		// Engine.OnClose -> c.MustExecute(CloseAndClean): one more job on the
		// connection's queue. Never run from here: CloseAndClean itself calls
		// Close while holding the connection mutex.
		e.closeQ = true
		e.queue = append(e.queue, func() { e.doClose(ErrConnClosed) })
	}
	return nil
}
func (c *fakeConn) LocalAddr() net.Addr                { return addr{} }
func (c *fakeConn) RemoteAddr() net.Addr               { return addr{} }
func (c *fakeConn) SetDeadline(t time.Time) error      { c.e.DeadlineCalls++; return nil }
func (c *fakeConn) SetReadDeadline(t time.Time) error  { c.e.DeadlineCalls++; return nil }
func (c *fakeConn) SetWriteDeadline(t time.Time) error { c.e.DeadlineCalls++; return nil }

func (e *Endpoint) noteFail() {
	if e.FailFed < 0 {
		e.FailFed = e.Fed
	}
}

// Failed reports whether the connection has been failed/closed by nbio.
func (e *Endpoint) Failed() bool { return e.ParseErr != nil || e.ConnClosed > 0 }

func (e *Endpoint) decodeOut() {
	for e.OutBad == nil && e.outDecoded < len(e.Out) {
		f, n, err := wsref.Decode(e.Out[e.outDecoded:])
		if err == wsref.ErrShort {
			return
		}
		if err != nil {
			e.OutBad = err
			return
		}
		e.outDecoded += n
		e.Obs = append(e.Obs, Obs{Kind: ObsFrameOut, Frame: f, AfterFail: e.closing})
	}
}

// OutFrames decodes everything nbio wrote. rest is the number of trailing
// bytes that are not a complete frame.
func (e *Endpoint) OutFrames() (frames []wsref.Frame, rest int, err error) {
	return wsref.DecodeAll(e.Out)
}

func (e *Endpoint) execute(f func()) bool {
	e.queue = append(e.queue, f)
	e.drain()
	return true
}

func (e *Endpoint) drain() {
	if e.draining {
		return
	}
	e.draining = true
	defer func() { e.draining = false }()
	for len(e.queue) > 0 {
		f := e.queue[0]
		e.queue = e.queue[1:]
		func() {
			// nbio.Conn.execute recovers and logs; same here, but kept as an observation
			defer func() {
				if err := recover(); err != nil {
					buf := make([]byte, 16<<10)
					buf = buf[:runtime.Stack(buf, false)]
					if len(e.JobPanics) < 4 {
						e.JobPanics = append(e.JobPanics, fmt.Sprintf("%v\n%s", err, buf))
					}
				}
			}()
			f()
		}()
	}
}

func (e *Endpoint) doClose(err error) {
	if e.closing {
		return
	}
	e.closing = true
	e.noteFail()
	e.Conn.CloseAndClean(err)
}

// New builds an endpoint.
func New(cfg Config) *Endpoint {
	e := &Endpoint{Cfg: cfg, FailFed: -1}
	inline := func(f func()) { f() }
	e.Engine = nbhttp.NewEngine(nbhttp.Config{
		MaxWebsocketFramePayloadSize: cfg.MaxFrame,
		ReadLimit:                    cfg.ReadLimit,
		BodyAllocator:                cfg.Allocator,
		// no task pools: the engine is never started and every callback is run inline
		ServerExecutor: inline,
		ClientExecutor: inline,
	})
	u := websocket.NewUpgrader()
	u.Engine = e.Engine
	if cfg.MsgLimit >= 0 {
		u.MessageLengthLimit = cfg.MsgLimit
	}
	if cfg.Compression {
		u.EnableCompression(true)
		if cfg.LevelSet {
			if err := u.SetCompressionLevel(cfg.Level); err != nil {
				panic(err)
			}
		}
	}
	if cfg.FramesOnly {
		var cur []byte
		u.OnDataFrame(func(c *websocket.Conn, mt websocket.MessageType, fin bool, data []byte) {
			cur = append(cur, data...)
			if fin {
				e.Obs = append(e.Obs, Obs{Kind: ObsMessage, Type: int(mt), Data: append([]byte{}, cur...), AfterFail: e.Failed()})
				cur = nil
			}
		})
	} else if cfg.AfterMessage != nil {
		u.OnMessagePtr(func(c *websocket.Conn, mt websocket.MessageType, p *[]byte) {
			var data []byte
			if p != nil {
				data = *p
			}
			e.Obs = append(e.Obs, Obs{Kind: ObsMessage, Type: int(mt), Data: append([]byte{}, data...), AfterFail: e.Failed()})
			cfg.AfterMessage(p)
		})
	} else {
		u.OnMessage(func(c *websocket.Conn, mt websocket.MessageType, data []byte) {
			e.Obs = append(e.Obs, Obs{Kind: ObsMessage, Type: int(mt), Data: append([]byte{}, data...), AfterFail: e.Failed()})
		})
	}
	u.SetPongHandler(func(c *websocket.Conn, s string) {
		e.Obs = append(e.Obs, Obs{Kind: ObsPongRecv, Data: []byte(s), AfterFail: e.Failed()})
	})
	if cfg.ObserveClose {
		u.SetCloseHandler(func(c *websocket.Conn, code int, text string) {
			e.Obs = append(e.Obs, Obs{Kind: ObsCloseRecv, Type: code, Data: []byte(text), AfterFail: e.Failed()})
			if code == 1005 {
				_ = c.WriteMessage(websocket.CloseMessage, nil)
				return
			}
			buf := make([]byte, len(text)+2)
			buf[0], buf[1] = byte(code>>8), byte(code)
			copy(buf[2:], text)
			_ = c.WriteMessage(websocket.CloseMessage, buf)
		})
	}
	u.OnClose(func(c *websocket.Conn, err error) {
		e.OnCloseCalls++
		e.OnCloseErr = err
	})
	e.U = u
	fc := &fakeConn{e: e}
	if cfg.Client {
		e.Conn = websocket.NewClientConn(u, fc, "", cfg.Compression, false)
	} else {
		e.Conn = websocket.NewServerConn(u, fc, "", cfg.Compression, false)
	}
	e.Conn.Engine = e.Engine
	e.Conn.Execute = e.execute
	return e
}

// Feed hands one read's worth of bytes to Parse. When Parse fails the
// connection is closed the way Engine.DataHandler does it
// (CloseWithError -> OnClose -> CloseAndClean(err)).
func (e *Endpoint) Feed(seg []byte) error {
	e.Fed += len(seg)
	e.ParseCalls++
	err := e.Conn.Parse(seg)
	if err != nil {
		if e.ParseErr == nil && !(e.closing && errors.Is(err, net.ErrClosed)) {
			e.ParseErr = err
			e.noteFail()
		}
		e.doClose(err)
	}
	e.drain()
	if e.closeLater {
		e.closeLater = false
		e.doClose(ErrConnClosed)
		e.drain()
	}
	return err
}

// FeedAll feeds wire cut at the given offsets (sorted, within (0,len)).
func (e *Endpoint) FeedAll(wire []byte, cuts []int) {
	prev := 0
	for _, c := range cuts {
		if c <= prev || c >= len(wire) {
			continue
		}
		_ = e.Feed(wire[prev:c])
		prev = c
	}
	if prev < len(wire) {
		_ = e.Feed(wire[prev:])
	}
}

// Write calls WriteMessage and then lets queued jobs run.
func (e *Endpoint) Write(mt int, data []byte) error {
	err := e.Conn.WriteMessage(websocket.MessageType(mt), data)
	e.drain()
	if e.closeLater {
		e.closeLater = false
		e.doClose(ErrConnClosed)
		e.drain()
	}
	return err
}

// Finish closes the connection from the harness side (end of case) so that
// pooled buffers are returned.
func (e *Endpoint) Finish() {
	e.doClose(io.EOF)
	e.drain()
}

// Messages returns the delivered messages in order.
func (e *Endpoint) Messages() []wsref.Message {
	var out []wsref.Message
	for _, o := range e.Obs {
		if o.Kind == ObsMessage {
			out = append(out, wsref.Message{Type: byte(o.Type), Payload: o.Data})
		}
	}
	return out
}

// ---------------------------------------------------------------- logging

// InstallLogger routes nbio's log output into a capturing logger.
func InstallLogger() *h.CapLogger {
	l := &h.CapLogger{}
	logging.SetLogger(l)
	return l
}

// ---------------------------------------------------------------- segmentation

// Seg describes how a wire image is cut into reads. Kinds: "whole", "single"
// (one cut at At), "bytes" (one byte per read), "random" (N cuts drawn from
// Seed), "chunks" (fixed size N).
type Seg struct {
	Kind string `json:"kind"`
	At   int    `json:"at,omitempty"`
	N    int    `json:"n,omitempty"`
	Seed int64  `json:"seed,omitempty"`
}

// Cuts returns the cut offsets for a wire image of n bytes.
func (s Seg) Cuts(n int) []int {
	switch s.Kind {
	case "single":
		if s.At > 0 && s.At < n {
			return []int{s.At}
		}
	case "bytes":
		out := make([]int, 0, n)
		for i := 1; i < n; i++ {
			out = append(out, i)
		}
		return out
	case "chunks":
		if s.N <= 0 {
			return nil
		}
		var out []int
		for i := s.N; i < n; i += s.N {
			out = append(out, i)
		}
		return out
	case "random":
		if n < 2 {
			return nil
		}
		rng := rand.New(rand.NewSource(s.Seed))
		m := map[int]struct{}{}
		for i := 0; i < s.N; i++ {
			var c int
			if rng.Intn(3) == 0 && n > 20 {
				// cluster cuts near the front and the back, where headers live
				if rng.Intn(2) == 0 {
					c = 1 + rng.Intn(16)
				} else {
					c = n - 1 - rng.Intn(16)
				}
			} else {
				c = 1 + rng.Intn(n-1)
			}
			if c > 0 && c < n {
				m[c] = struct{}{}
			}
		}
		out := make([]int, 0, len(m))
		for c := range m {
			out = append(out, c)
		}
		sort.Ints(out)
		return out
	}
	return nil
}

// MaxSegment returns the longest read the cuts produce.
func MaxSegment(n int, cuts []int) int {
	prev, mx := 0, 0
	for _, c := range cuts {
		if c <= prev || c >= n {
			continue
		}
		if c-prev > mx {
			mx = c - prev
		}
		prev = c
	}
	if n-prev > mx {
		mx = n - prev
	}
	return mx
}

// ---------------------------------------------------------------- payloads

// Payload kinds for generated content.
const (
	PayRandom       = "random"       // uniformly random bytes (binary only)
	PayCompressible = "compressible" // long runs and repeated phrases (valid UTF-8)
	PayText         = "utf8"         // random valid UTF-8 with 1-4 byte runes
	PayZero         = "zero"         // all zero bytes (valid UTF-8, inflates enormously)
)

// GenPayload builds a payload of exactly n bytes of the given kind from seed.
// Every kind except PayRandom is valid UTF-8.
func GenPayload(kind string, n int, seed int64) []byte {
	rng := rand.New(rand.NewSource(seed))
	out := make([]byte, 0, n)
	switch kind {
	case PayRandom:
		out = out[:n]
		rng.Read(out)
		return out
	case PayZero:
		return out[:n]
	case PayCompressible:
		phrases := []string{"the quick brown fox ", "jumps over ", "WebSocket ", "0123456789", "\n", "αβγδε ", "aaaaaaaaaaaaaaaa"}
		for len(out) < n {
			p := phrases[rng.Intn(len(phrases))]
			rep := 1 + rng.Intn(8)
			for i := 0; i < rep && len(out) < n; i++ {
				out = append(out, p...)
			}
		}
	default: // PayText
		for len(out) < n {
			var r rune
			switch rng.Intn(4) {
			case 0:
				r = rune(0x20 + rng.Intn(0x5f))
			case 1:
				r = rune(0x80 + rng.Intn(0x780))
			case 2:
				r = rune(0x800 + rng.Intn(0xD000-0x800))
			default:
				r = rune(0x10000 + rng.Intn(0x100000))
			}
			out = append(out, string(r)...)
		}
	}
	// trim to n bytes without splitting a rune: cut, then pad with ASCII
	if len(out) > n {
		out = out[:n]
		for len(out) > 0 && wsref.FirstInvalidUTF8(out) >= 0 {
			out = out[:len(out)-1]
		}
		for len(out) < n {
			out = append(out, '.')
		}
	}
	return out
}

// ---------------------------------------------------------------- per-case watchdog

// Watchdog decides, for in-memory workers, that a call into nbio never
// returns. Everything in these workers happens on the main goroutine and
// nothing waits for I/O, so two stable predicates exist:
//
//	spin:  the case has been active while the process burnt more than
//	       SpinCPU of CPU time (CPU time, not wall time - it does not grow
//	       with machine load; the heaviest legitimate case needs ~2 s);
//	block: the case has been active over >= 20 samples spanning >= 10 s with
//	       flat process CPU time and the main goroutine sits, with an
//	       identical stack at the first and the last sample, in a blocked
//	       state (mutex/semaphore/channel) - a starved goroutine would show
//	       as runnable instead, and no other goroutine exists that could
//	       release it.
//
// Either way the violation is recorded, the result file is written and the
// process ends (the stuck goroutine cannot be cancelled).
type Watchdog struct {
	r       *h.Run
	prefix  string
	SpinCPU time.Duration

	mu     sync.Mutex
	active bool
	gen    uint64
	cur    interface{}
	cpu0   time.Duration
}

// StartWatchdog starts the sampler. prefix is the signature prefix ("c15").
func StartWatchdog(r *h.Run, prefix string) *Watchdog {
	w := &Watchdog{r: r, prefix: prefix, SpinCPU: 90 * time.Second}
	go w.loop()
	return w
}

// Enter marks the start of a case.
func (w *Watchdog) Enter(c interface{}) {
	w.mu.Lock()
	w.active = true
	w.gen++
	w.cur = c
	w.cpu0 = h.CPUTime()
	w.mu.Unlock()
}

// Leave marks its end.
func (w *Watchdog) Leave() {
	w.mu.Lock()
	w.active = false
	w.cur = nil
	w.mu.Unlock()
}

func mainStack() (state, stack string) {
	s := h.Stacks()
	i := strings.Index(s, "goroutine 1 [")
	if i < 0 {
		return "", ""
	}
	s = s[i:]
	if j := strings.Index(s, "\n\n"); j > 0 {
		s = s[:j]
	}
	state = s[len("goroutine 1 ["):]
	if j := strings.IndexAny(state, ",]"); j > 0 {
		state = state[:j]
	}
	if j := strings.Index(s, "\n"); j > 0 {
		stack = s[j+1:]
	}
	return state, stack
}

func (w *Watchdog) fire(sig, detail string, c interface{}) {
	w.r.Violate(w.prefix+":"+sig, detail, c)
	w.r.Finish()
	os.Exit(0)
}

func (w *Watchdog) loop() {
	var (
		gen       uint64
		samples   int
		firstAt   time.Time
		firstCPU  time.Duration
		firstStk  string
		lastCPU   time.Duration
		flatSince int
	)
	for {
		time.Sleep(500 * time.Millisecond)
		w.mu.Lock()
		active, g, c, cpu0 := w.active, w.gen, w.cur, w.cpu0
		w.mu.Unlock()
		if !active {
			gen = 0
			continue
		}
		cpu := h.CPUTime()
		if g != gen {
			gen, samples, firstAt, firstCPU, flatSince = g, 0, time.Now(), cpu, 0
			_, firstStk = mainStack()
			lastCPU = cpu
			continue
		}
		samples++
		if cpu-cpu0 > w.SpinCPU {
			_, stk := mainStack()
			w.fire("call-into-nbio-does-not-return:spin", fmt.Sprintf("the case has been running for %v of process CPU time (the heaviest legitimate case needs about 2 s); main goroutine:\n%s", cpu-cpu0, stk), c)
		}
		if cpu-lastCPU < 5*time.Millisecond {
			flatSince++
		} else {
			flatSince = 0
			firstAt, firstCPU = time.Now(), cpu
			_, firstStk = mainStack()
		}
		lastCPU = cpu
		if flatSince >= 20 && time.Since(firstAt) >= 10*time.Second && cpu-firstCPU < 50*time.Millisecond {
			state, stk := mainStack()
			blocked := strings.Contains(state, "semacquire") || strings.Contains(state, "Mutex") || strings.Contains(state, "chan ") || strings.Contains(state, "select") || strings.Contains(state, "sync.")
			if blocked && stk == firstStk {
				w.fire("call-into-nbio-does-not-return:blocked", fmt.Sprintf("main goroutine blocked [%s] with an identical stack for %v while the process used no CPU:\n%s", state, time.Since(firstAt).Round(time.Second), stk), c)
			}
		}
		_ = samples
	}
}
