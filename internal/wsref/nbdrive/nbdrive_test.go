package nbdrive

import (
	"bytes"
	"testing"

	"verif/internal/wsref"
)

// Smoke test of the harness itself: a ping is answered, a message is
// delivered, a close is answered and the connection is torn down once.
func TestSmoke(t *testing.T) {
	InstallLogger()
	e := New(Config{MsgLimit: -1})
	frames := []wsref.Frame{
		{Fin: true, Opcode: wsref.OpPing, Masked: true, Key: [4]byte{1, 2, 3, 4}, Payload: []byte("hi")},
		{Fin: false, Opcode: wsref.OpText, Masked: true, Key: [4]byte{9, 8, 7, 6}, Payload: []byte("hel")},
		{Fin: true, Opcode: wsref.OpCont, Masked: true, Key: [4]byte{5, 5, 5, 5}, Payload: []byte("lo")},
		{Fin: true, Opcode: wsref.OpClose, Masked: true, Key: [4]byte{1, 1, 1, 1}, Payload: wsref.ClosePayload(1000, "bye")},
	}
	wire := wsref.Encode(frames)
	e.FeedAll(wire, Seg{Kind: "bytes"}.Cuts(len(wire)))
	if e.ParseErr != nil {
		t.Fatal(e.ParseErr)
	}
	var kinds []ObsKind
	for _, o := range e.Obs {
		kinds = append(kinds, o.Kind)
	}
	if len(e.Obs) != 3 || e.Obs[0].Kind != ObsFrameOut || e.Obs[0].Frame.Opcode != wsref.OpPong || !bytes.Equal(e.Obs[0].Frame.Payload, []byte("hi")) ||
		e.Obs[1].Kind != ObsMessage || string(e.Obs[1].Data) != "hello" ||
		e.Obs[2].Kind != ObsFrameOut || e.Obs[2].Frame.Opcode != wsref.OpClose {
		t.Fatalf("observations: %v %+v", kinds, e.Obs)
	}
	if e.ConnClosed == 0 || e.OnCloseCalls != 1 {
		t.Fatalf("closed=%d onclose=%d", e.ConnClosed, e.OnCloseCalls)
	}
	// sender side
	s := New(Config{Client: true, MsgLimit: -1, MaxFrame: 4})
	if err := s.Write(wsref.OpBinary, []byte("0123456789")); err != nil {
		t.Fatal(err)
	}
	fr, rest, err := s.OutFrames()
	if err != nil || rest != 0 || len(fr) != 3 || !fr[0].Masked || fr[0].Opcode != wsref.OpBinary || fr[2].Opcode != wsref.OpCont || !fr[2].Fin {
		t.Fatalf("%v %d %+v", err, rest, fr)
	}
}
