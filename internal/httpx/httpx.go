// Package httpx holds plumbing shared by the end-to-end HTTP/WebSocket workers:
// a run-time generated certificate, engine builders for the I/O-mode x TLS x
// epoll-mode cells and process-level resource snapshots.
package httpx

import (
	"crypto/ecdsa"
	"crypto/elliptic"
	"crypto/rand"
	stdtls "crypto/tls"
	"crypto/x509"
	"crypto/x509/pkix"
	"encoding/pem"
	"fmt"
	"math/big"
	"net"
	"net/http"
	"os"
	"regexp"
	"sort"
	"strings"
	"sync"
	"time"

	lltls "github.com/lesismal/llib/std/crypto/tls"
	"github.com/lesismal/nbio"
	"github.com/lesismal/nbio/nbhttp"

	"verif/internal/h"
)

var (
	certOnce sync.Once
	certPEM  []byte
	keyPEM   []byte
)

// Cert returns a self-signed certificate for 127.0.0.1 generated at run time.
func Cert() ([]byte, []byte) {
	certOnce.Do(func() {
		priv, err := ecdsa.GenerateKey(elliptic.P256(), rand.Reader)
		if err != nil {
			panic(err)
		}
		tmpl := x509.Certificate{
			SerialNumber: big.NewInt(1), Subject: pkix.Name{CommonName: "verif"},
			NotBefore: time.Now().Add(-time.Hour), NotAfter: time.Now().Add(24 * time.Hour),
			KeyUsage: x509.KeyUsageDigitalSignature | x509.KeyUsageKeyEncipherment, ExtKeyUsage: []x509.ExtKeyUsage{x509.ExtKeyUsageServerAuth},
			IPAddresses: []net.IP{net.IPv4(127, 0, 0, 1)}, DNSNames: []string{"localhost"}, BasicConstraintsValid: true,
		}
		der, err := x509.CreateCertificate(rand.Reader, &tmpl, &tmpl, &priv.PublicKey, priv)
		if err != nil {
			panic(err)
		}
		kb, err := x509.MarshalECPrivateKey(priv)
		if err != nil {
			panic(err)
		}
		certPEM = pem.EncodeToMemory(&pem.Block{Type: "CERTIFICATE", Bytes: der})
		keyPEM = pem.EncodeToMemory(&pem.Block{Type: "EC PRIVATE KEY", Bytes: kb})
	})
	return certPEM, keyPEM
}

// ServerTLS returns the llib tls config for nbhttp servers.
func ServerTLS() *lltls.Config {
	c, k := Cert()
	cert, err := lltls.X509KeyPair(c, k)
	if err != nil {
		panic(err)
	}
	return &lltls.Config{Certificates: []lltls.Certificate{cert}}
}

// ClientTLS returns a std tls config for independent clients.
func ClientTLS() *stdtls.Config { return &stdtls.Config{InsecureSkipVerify: true} }

// Cell is one end-to-end configuration.
type Cell struct {
	IOMod int    `json:"iomod"` // nbhttp.IOModNonBlocking | IOModBlocking | IOModMixed
	TLS   bool   `json:"tls"`
	Mode  string `json:"mode"` // LT | ET | ONESHOT
}

func (c Cell) String() string {
	m := map[int]string{nbhttp.IOModNonBlocking: "nonblocking", nbhttp.IOModBlocking: "blocking", nbhttp.IOModMixed: "mixed"}[c.IOMod]
	t := "plain"
	if c.TLS {
		t = "tls"
	}
	return m + "/" + t + "/" + c.Mode
}

// Config fills an nbhttp.Config for the cell (one listener on a free port).
func (c Cell) Config(handler http.Handler) nbhttp.Config {
	conf := nbhttp.Config{Network: "tcp", Handler: handler, IOMod: c.IOMod, NPoller: 2}
	if c.IOMod == nbhttp.IOModMixed {
		conf.MaxBlockingOnline = 2
	}
	switch c.Mode {
	case "ET":
		conf.EpollMod = nbio.EPOLLET
	case "ONESHOT":
		conf.EpollMod = nbio.EPOLLET
		conf.EPOLLONESHOT = nbio.EPOLLONESHOT
	}
	if c.TLS {
		conf.AddrsTLS = []string{"127.0.0.1:0"}
		conf.TLSConfig = ServerTLS()
	} else {
		conf.Addrs = []string{"127.0.0.1:0"}
	}
	return conf
}

// Addr returns the bound address of a started engine built from Cell.Config.
func Addr(e *nbhttp.Engine, c Cell) string {
	if c.TLS {
		return e.AddrsTLS[0]
	}
	return e.Addrs[0]
}

// Dial connects an independent client (std net / std crypto/tls).
func (c Cell) Dial(addr string) (net.Conn, error) {
	d := net.Dialer{Timeout: 5 * time.Second}
	if c.TLS {
		return stdtls.DialWithDialer(&d, "tcp", addr, ClientTLS())
	}
	return d.Dial("tcp", addr)
}

func init() {
	if nbio.MaxOpenFiles > 1<<16 {
		nbio.MaxOpenFiles = 1 << 16
	}
}

// ---------------------------------------------------------------- resources

var reG = regexp.MustCompile(`(?m)^goroutine (\d+) \[`)

// NbioGoroutines returns id -> first lines of every goroutine whose stack
// mentions nbio (running in it or created by it).
func NbioGoroutines() map[string]string {
	out := map[string]string{}
	for _, p := range strings.Split(h.Stacks(), "\n\n") {
		m := reG.FindStringSubmatch(p)
		if m == nil || !strings.Contains(p, "github.com/lesismal/nbio") {
			continue
		}
		if len(p) > 900 {
			p = p[:900]
		}
		out[m[1]] = p
	}
	return out
}

// Fds returns fd -> link target of every open descriptor.
func Fds() map[string]string {
	out := map[string]string{}
	ents, err := os.ReadDir("/proc/self/fd")
	if err != nil {
		return out
	}
	for _, e := range ents {
		t, err := os.Readlink("/proc/self/fd/" + e.Name())
		if err != nil {
			continue // the directory handle itself
		}
		out[e.Name()] = t
	}
	return out
}

// Diff returns the keys of b that are not in a (sorted, with values).
func Diff(a, b map[string]string) []string {
	var d []string
	for k, v := range b {
		if _, ok := a[k]; !ok {
			d = append(d, fmt.Sprintf("%s=%s", k, v))
		}
	}
	sort.Strings(d)
	return d
}
