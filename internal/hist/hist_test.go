package hist

import (
	"math/rand"
	"testing"
	"time"
)

func TestSelf(t *testing.T) {
	agreed, illegal, unknown, dis := SelfTest(rand.New(rand.NewSource(7)), 1500, 10, 200*time.Millisecond)
	if dis != "" {
		t.Fatal(dis)
	}
	if illegal < 100 || agreed-illegal < 100 {
		t.Fatalf("self test is lopsided: agreed=%d illegal=%d unknown=%d", agreed, illegal, unknown)
	}
	t.Logf("agreed=%d illegal=%d unknown=%d", agreed, illegal, unknown)
}

func TestKnown(t *testing.T) {
	// B submitted strictly after A returned but ran first
	bad := []Op{{ID: 0, Call: 1, Ret: 2, Start: 7, End: 8}, {ID: 1, Call: 3, Ret: 4, Start: 5, End: 6}}
	if FIFOSweep(bad) == nil || FIFOBrute(bad) == nil || Porcupine(bad, time.Second) != Illegal {
		t.Fatal("reordered history accepted")
	}
	// overlapping submits may run in either order
	ok := []Op{{ID: 0, Call: 1, Ret: 3, Start: 7, End: 8}, {ID: 1, Call: 2, Ret: 4, Start: 5, End: 6}}
	if FIFOSweep(ok) != nil || FIFOBrute(ok) != nil || Porcupine(ok, time.Second) != Ok {
		t.Fatal("legal history rejected")
	}
	// inline executor: the head job runs inside its own submit call
	inl := []Op{{ID: 0, Call: 1, Ret: 8, Start: 2, End: 3}, {ID: 1, Call: 4, Ret: 5, Start: 6, End: 7}}
	if FIFOSweep(inl) != nil || Porcupine(inl, time.Second) != Ok || Overlap(inl) != nil {
		t.Fatal("inline history rejected")
	}
	ov := []Op{{ID: 0, Call: 1, Ret: 2, Start: 3, End: 6}, {ID: 1, Call: 4, Ret: 5, Start: 5, End: 7}}
	if Overlap(ov) == nil {
		t.Fatal("overlap missed")
	}
}
