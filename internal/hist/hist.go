// Package hist holds the offline checkers for histories of a *serial FIFO
// executor* (nbio's per-connection job list, timer.Async): every submitted
// function is one Op with four ticks of a single atomic logical clock -
// Call/Ret around the submitting call, Start/End inside the function.
//
// The property decided is real-time FIFO: if A's submit returned before B's
// submit was invoked (A.Ret < B.Call) then A starts before B. With unique ids
// this is linearizability of a FIFO queue whose dequeue order is observed; it
// is decided by a sweep (FIFOSweep) and, for small histories, cross-checked
// with porcupine against a queue model (Porcupine) so that the hand-written
// sweep is itself checked. SelfTest compares sweep, an O(n^2) reference and
// porcupine on synthetic histories (legal ones and ones with swapped starts).
package hist

import (
	"fmt"
	"math/rand"
	"sort"
	"time"

	"github.com/anishathalye/porcupine"
)

// Op is one function that was accepted by the executor and ran exactly once.
type Op struct {
	ID    int
	Call  int64 // tick taken before the submitting call
	Ret   int64 // tick taken after the submitting call returned
	Start int64 // tick taken when the function began to run
	End   int64 // tick taken when it finished
}

func (o Op) String() string {
	return fmt.Sprintf("job %d{submit [%d,%d] run [%d,%d]}", o.ID, o.Call, o.Ret, o.Start, o.End)
}

// Pair is a witness: two ops that contradict the checked clause.
type Pair struct{ A, B Op }

func (p *Pair) String() string { return p.A.String() + " vs " + p.B.String() }

// StartBeforeCall returns an op that began to run before it was submitted
// (impossible for a real harness; kept so that sweep and model agree on
// synthetic inputs).
func StartBeforeCall(ops []Op) *Op {
	for i := range ops {
		if ops[i].Start < ops[i].Call {
			return &ops[i]
		}
	}
	return nil
}

// FIFOSweep decides: for all A, B with A.Ret < B.Call, A.Start < B.Start.
// O(n log n): walk B in order of Call while advancing over the ops ordered by
// Ret and keeping the latest Start among the ops that had already returned.
func FIFOSweep(ops []Op) *Pair {
	n := len(ops)
	if n < 2 {
		return nil
	}
	byCall := make([]int, n)
	byRet := make([]int, n)
	for i := range ops {
		byCall[i], byRet[i] = i, i
	}
	sort.Slice(byCall, func(i, j int) bool { return ops[byCall[i]].Call < ops[byCall[j]].Call })
	sort.Slice(byRet, func(i, j int) bool { return ops[byRet[i]].Ret < ops[byRet[j]].Ret })
	k := 0
	best := -1 // index of the op with the latest Start among those with Ret < current Call
	for _, bi := range byCall {
		b := ops[bi]
		for k < n && ops[byRet[k]].Ret < b.Call {
			if best < 0 || ops[byRet[k]].Start > ops[best].Start {
				best = byRet[k]
			}
			k++
		}
		if best >= 0 && best != bi && ops[best].Start > b.Start {
			return &Pair{A: ops[best], B: b}
		}
	}
	return nil
}

// FIFOBrute is the O(n^2) statement of the same clause (reference for the
// self test).
func FIFOBrute(ops []Op) *Pair {
	for i := range ops {
		for j := range ops {
			if i != j && ops[i].Ret < ops[j].Call && !(ops[i].Start < ops[j].Start) {
				return &Pair{A: ops[i], B: ops[j]}
			}
		}
	}
	return nil
}

// Overlap returns two ops whose [Start, End] intervals intersect.
func Overlap(ops []Op) *Pair {
	n := len(ops)
	if n < 2 {
		return nil
	}
	idx := make([]int, n)
	for i := range idx {
		idx[i] = i
	}
	sort.Slice(idx, func(i, j int) bool { return ops[idx[i]].Start < ops[idx[j]].Start })
	far := idx[0] // op with the largest End so far
	for _, i := range idx[1:] {
		if ops[i].Start < ops[far].End {
			return &Pair{A: ops[far], B: ops[i]}
		}
		if ops[i].End > ops[far].End {
			far = i
		}
	}
	return nil
}

// Verdict of the model check.
type Verdict int

const (
	Ok Verdict = iota
	Illegal
	Unknown // checker timed out: inconclusive, never a violation
)

func (v Verdict) String() string { return [...]string{"ok", "illegal", "unknown"}[v] }

type qIn struct {
	enq bool
	id  int
}

// queueModel: Enqueue(id) appends, Dequeue()->id requires id at the head.
var queueModel = porcupine.Model{
	Init: func() interface{} { return "" },
	Step: func(state, input, output interface{}) (bool, interface{}) {
		q := state.(string) // ids encoded as 2 bytes each; strings are immutable => pure
		in := input.(qIn)
		key := string([]byte{byte(in.id >> 8), byte(in.id)})
		if in.enq {
			return true, q + key
		}
		if len(q) < 2 || q[:2] != key {
			return false, q
		}
		return true, q[2:]
	},
	Equal: func(a, b interface{}) bool { return a.(string) == b.(string) },
}

// Porcupine checks the history against the FIFO queue model: Enqueue(id) over
// the submit interval [Call, Ret], Dequeue()->id as a point operation at
// Start (the starts are totally ordered by the clock, so the dequeue order is
// the observed one). Equivalent to FIFOSweep plus Start > Call.
func Porcupine(ops []Op, timeout time.Duration) Verdict {
	if len(ops) > 60000 {
		return Unknown
	}
	h := make([]porcupine.Operation, 0, 2*len(ops))
	for i, o := range ops {
		h = append(h, porcupine.Operation{ClientId: 0, Input: qIn{true, i}, Call: o.Call, Output: nil, Return: o.Ret})
		h = append(h, porcupine.Operation{ClientId: 1, Input: qIn{false, i}, Call: o.Start, Output: nil, Return: o.Start})
	}
	switch porcupine.CheckOperationsTimeout(queueModel, h, timeout) {
	case porcupine.Ok:
		return Ok
	case porcupine.Illegal:
		return Illegal
	}
	return Unknown
}

// Synth builds a synthetic history of n ops of a correct serial FIFO executor
// with overlapping submits; if mutate, the run intervals of two ops are
// swapped afterwards (which may or may not break real-time FIFO - concurrent
// submits may legally run in either order).
func Synth(rng *rand.Rand, n int, mutate bool) []Op {
	type ev struct {
		t    float64
		op   int
		kind int
	}
	var evs []ev
	lin := 0.0
	endPrev := 0.0
	spread := []float64{0.2, 1, 3, 8}[rng.Intn(4)]
	for i := 0; i < n; i++ {
		lin += rng.Float64()
		call := lin - rng.Float64()*spread
		ret := lin + rng.Float64()*spread
		start := lin
		if endPrev > start {
			start = endPrev
		}
		start += rng.Float64() * 0.3
		end := start + rng.Float64()*[]float64{0.1, 1, 4}[rng.Intn(3)]
		endPrev = end
		evs = append(evs, ev{call, i, 0}, ev{ret, i, 1}, ev{start, i, 2}, ev{end, i, 3})
	}
	sort.Slice(evs, func(i, j int) bool {
		if evs[i].t != evs[j].t {
			return evs[i].t < evs[j].t
		}
		if evs[i].op != evs[j].op {
			return evs[i].op < evs[j].op
		}
		return evs[i].kind < evs[j].kind
	})
	ops := make([]Op, n)
	for tick, e := range evs {
		o := &ops[e.op]
		o.ID = e.op
		switch e.kind {
		case 0:
			o.Call = int64(tick + 1)
		case 1:
			o.Ret = int64(tick + 1)
		case 2:
			o.Start = int64(tick + 1)
		case 3:
			o.End = int64(tick + 1)
		}
	}
	for i := range ops {
		// an inline executor may run the function inside the submit call; keep
		// Call < Start but let Ret fall anywhere after Call
		if ops[i].Ret < ops[i].Call {
			ops[i].Call, ops[i].Ret = ops[i].Ret, ops[i].Call
		}
	}
	if mutate && n >= 2 {
		a := rng.Intn(n)
		b := rng.Intn(n)
		if rng.Intn(2) == 0 && a+1 < n {
			b = a + 1 // neighbours: the hard case (legal iff their submits overlap)
		}
		ops[a].Start, ops[b].Start = ops[b].Start, ops[a].Start
		ops[a].End, ops[b].End = ops[b].End, ops[a].End
	}
	return ops
}

// SelfTest compares FIFOSweep, FIFOBrute and the porcupine model on cases
// synthetic histories of 2..maxN ops (timeout per model check). It returns the number of histories on which all three
// agreed, how many of those were illegal, the porcupine timeouts and a
// description of the first disagreement ("" if none).
func SelfTest(rng *rand.Rand, cases, maxN int, timeout time.Duration) (agreed, illegal, unknown int, disagreement string) {
	if maxN < 3 {
		maxN = 3
	}
	for c := 0; c < cases; c++ {
		n := 2 + rng.Intn(maxN-1)
		ops := Synth(rng, n, rng.Intn(3) != 0)
		bad := StartBeforeCall(ops) != nil
		sw := bad || FIFOSweep(ops) != nil
		br := bad || FIFOBrute(ops) != nil
		pv := Porcupine(ops, timeout)
		if pv == Unknown {
			unknown++
			if sw == br {
				continue
			}
		}
		if sw != br || (pv != Unknown && sw != (pv == Illegal)) {
			if disagreement == "" {
				disagreement = fmt.Sprintf("sweep=%v brute=%v porcupine=%v on %v", sw, br, pv, ops)
			}
			continue
		}
		agreed++
		if sw {
			illegal++
		}
	}
	return
}

// Debug, when set, receives diagnostic lines (why a window was rejected).
var Debug func(string)

// StuckState decides a stall without a wall-clock verdict. stuck must be a
// predicate that, once true, can only become false through progress;
// progress returns a counter of progress events. The state is confirmed when
// the predicate held and the counter did not move on >= 20 consecutive samples
// spanning >= 2 s during which the process used < 2% of a core (cpu is the
// process CPU clock). It returns (false, true) as soon as the predicate is
// false (progress happened) and (false, false) when the process never became
// idle before the watchdog - inconclusive.
func StuckState(stuck func() bool, progress func() int64, cpu func() time.Duration, watchdog time.Duration) (confirmed, decided bool) {
	deadline := time.Now().Add(watchdog)
	samples := 0
	t0, c0, p0 := time.Now(), cpu(), progress()
	for {
		time.Sleep(100 * time.Millisecond)
		if !stuck() {
			return false, true
		}
		if p := progress(); p != p0 {
			samples, t0, c0, p0 = 0, time.Now(), cpu(), p
			continue
		}
		samples++
		if el := time.Since(t0); samples >= 20 && el >= 2*time.Second {
			used := cpu() - c0
			if float64(used) <= 0.02*float64(el) {
				return true, true
			}
			if Debug != nil {
				Debug(fmt.Sprintf("StuckState: window of %v used %v CPU (not idle)", el, used))
			}
			samples, t0, c0 = 0, time.Now(), cpu()
		}
		if time.Now().After(deadline) {
			return false, false
		}
	}
}
