// Package httpgen is the seeded HTTP/1.x byte-stream generator shared by the
// parser checks (C06, C07, C08): a grammar-based generator of request and
// response streams, the "malformed neighbour" mutations, segmentation helpers
// and a do-nothing net.Conn for driving nbhttp.Parser in memory.
//
// Two dialects are produced. Strict stays inside the domain on which nbio and
// net/http are expected to agree (C07): single spaces in the start line, token
// field names, "Name:" OWS value OWS, visible-ASCII values with inner SP/HTAB,
// exactly one framing mechanism, trailers declared and present exactly once.
// Lenient (C06, C08) adds the spellings nbio's own test-suite pins down:
// leading blanks before a field name, blanks before the colon, trailing
// blanks after values, chunk sizes and trailer values, repeated blanks in the
// start line, lower-case methods, obs-text in values.
package httpgen

import (
	"fmt"
	"math/rand"
	"strings"
)

// Opts controls one generated stream.
type Opts struct {
	Response bool // response stream (client-side parser) instead of requests
	Strict   bool // stay inside the C07 domain
	MinMsgs  int  // default 1
	MaxMsgs  int  // default 5
	MaxBody  int  // default 300
	// AlphaBody restricts body bytes to letters (no CR/LF/digits inside a
	// body), so that every CR/LF in the stream is a framing byte.
	AlphaBody bool
	// Damage lets the generator produce structurally ill-formed messages
	// (feature names starting with "damage:"): the message is then not part
	// of any domain of valid inputs, only "same outcome for every
	// segmentation" can be asked of it.
	Damage bool
}

// Pos is the position of one framing CRLF (offset of its CR in the stream).
type Pos struct {
	Off  int    `json:"off"`
	Kind string `json:"kind"`
}

// Msg describes one generated message inside a stream.
type Msg struct {
	Start, End int // [Start,End) in the stream
	Chunked    bool
	HasCL      bool
	BodyLen    int
	NChunks    int
	NTrailers  int
	CRLF       []Pos    // every framing CRLF of the message
	Feat       []string // generator features used (coverage accounting)
}

// Has reports whether the message used a feature.
func (m *Msg) Has(f string) bool {
	for _, x := range m.Feat {
		if x == f {
			return true
		}
	}
	return false
}

// Methods is nbio's method table.
var Methods = []string{"OPTIONS", "GET", "HEAD", "POST", "PUT", "DELETE", "TRACE", "CONNECT", "PATCH", "PRI"}

type status struct {
	code   int
	reason string
}

var statuses = []status{
	{200, "OK"}, {200, "OK"}, {200, "OK"}, {201, "Created"}, {202, "Accepted"}, {204, "No Content"},
	{206, "Partial Content"}, {301, "Moved Permanently"}, {302, "Found"}, {304, "Not Modified"},
	{400, "Bad Request"}, {403, "Forbidden"}, {404, "Not Found"}, {418, "I'm a teapot"},
	{500, "Internal Server Error"}, {503, "Service Unavailable"}, {100, "Continue"}, {101, "Switching Protocols"},
	{299, "Fine"}, {599, "x"},
}

func bodyAllowed(code int) bool {
	return !(code >= 100 && code <= 199) && code != 204 && code != 304
}

// field names that carry no special meaning for either parser
var plainNames = []string{
	"Accept", "Accept-Encoding", "Accept-Language", "User-Agent", "Content-Type", "Cookie", "Set-Cookie",
	"X-Forwarded-For", "Referer", "Cache-Control", "ETag", "Date", "Server", "Via", "X-Request-Id", "Authorization",
	"If-None-Match", "Origin", "DNT", "Vary",
}

const tokenExtra = "!#$%&'*+-.^_`|~"
const alnum = "abcdefghijklmnopqrstuvwxyzABCDEFGHIJKLMNOPQRSTUVWXYZ0123456789"
const letters = "abcdefghijklmnopqrstuvwxyzABCDEFGHIJKLMNOPQRSTUVWXYZ"

type gen struct {
	rng *rand.Rand
	o   Opts
	buf []byte
	m   *Msg
}

func (g *gen) feat(f string) {
	if !g.m.Has(f) {
		g.m.Feat = append(g.m.Feat, f)
	}
}

func (g *gen) s(x string) { g.buf = append(g.buf, x...) }

func (g *gen) crlf(kind string) {
	g.m.CRLF = append(g.m.CRLF, Pos{Off: len(g.buf), Kind: kind})
	g.buf = append(g.buf, '\r', '\n')
}

func (g *gen) p(n int) bool { return g.rng.Intn(100) < n }

func (g *gen) pick(l []string) string { return l[g.rng.Intn(len(l))] }

func (g *gen) chars(set string, n int) string {
	b := make([]byte, n)
	for i := range b {
		b[i] = set[g.rng.Intn(len(set))]
	}
	return string(b)
}

func (g *gen) blanks(max int) string {
	return strings.Repeat(" ", g.rng.Intn(max+1))
}

// ows is optional whitespace around a field value: SP and (sometimes) HTAB.
func (g *gen) ows() string {
	switch g.rng.Intn(10) {
	case 0:
		return ""
	case 1:
		g.feat("ows-multi")
		return "  "
	case 2:
		g.feat("ows-htab")
		return "\t"
	case 3:
		g.feat("ows-htab")
		return " \t "
	default:
		return " "
	}
}

func (g *gen) tokenName() string {
	n := 1 + g.rng.Intn(10)
	if g.p(25) {
		g.feat("name-token-punct")
		return "X-" + g.chars(alnum+tokenExtra, n)
	}
	return "X-" + g.chars(alnum+"-", n)
}

func (g *gen) fieldName() string {
	if g.p(60) {
		n := g.pick(plainNames)
		switch g.rng.Intn(4) {
		case 0:
			return strings.ToLower(n)
		case 1:
			return strings.ToUpper(n)
		}
		return n
	}
	return g.tokenName()
}

// value is a field value: visible ASCII with inner SP/HTAB; never starts or
// ends with whitespace (that is added by the caller as OWS).
func (g *gen) value() string {
	switch g.rng.Intn(12) {
	case 0:
		g.feat("empty-value")
		return ""
	case 1:
		return g.chars(alnum, 1)
	case 2, 3:
		g.feat("value-inner-space")
		return g.chars(alnum, 1+g.rng.Intn(8)) + " " + g.chars(alnum+"/;=,.", 1+g.rng.Intn(12))
	case 4:
		g.feat("value-inner-htab")
		return g.chars(alnum, 1+g.rng.Intn(5)) + "\t" + g.chars(alnum, 1+g.rng.Intn(5))
	case 5:
		// every visible ASCII character, including ':' and '"'
		n := 1 + g.rng.Intn(30)
		b := make([]byte, n)
		for i := range b {
			b[i] = byte(0x21 + g.rng.Intn(0x7e-0x21+1))
		}
		g.feat("value-any-vchar")
		return string(b)
	case 6:
		if !g.o.Strict {
			g.feat("value-obs-text")
			return g.chars(alnum, 1+g.rng.Intn(4)) + string([]byte{byte(0x80 + g.rng.Intn(0x80))}) + g.chars(alnum, 1+g.rng.Intn(4))
		}
		return g.chars(alnum+"/;=,.-_", 1+g.rng.Intn(80))
	case 7:
		g.feat("value-long")
		return g.chars(alnum+" ,;=", 60+g.rng.Intn(200)) + "z"
	default:
		return g.chars(alnum+"/;=,.-_", 1+g.rng.Intn(24))
	}
}

// owsSpecial is the optional whitespace around the values of the fields the
// parsers interpret themselves (Content-Length, Transfer-Encoding, Trailer,
// Connection, Host): HTAB is legal there too but is kept rare, so that one
// HTAB-related disagreement does not dominate a run.
func (g *gen) owsSpecial() string {
	if g.p(2) {
		g.feat("ows-htab-on-interpreted-field")
		return "\t"
	}
	switch g.rng.Intn(6) {
	case 0:
		return ""
	case 1:
		return "  "
	}
	return " "
}

func interpreted(name string) bool {
	switch strings.ToLower(name) {
	case "content-length", "transfer-encoding", "trailer", "connection", "host":
		return true
	}
	return false
}

// headerLine writes one field line in the dialect's spelling.
func (g *gen) headerLine(name, val string, first bool, kind string) {
	if g.o.Strict {
		g.s(name)
		g.s(":")
		if val == "" && g.p(50) {
			// "Name:" CRLF
		} else if interpreted(name) {
			g.s(g.owsSpecial())
			g.s(val)
			g.s(g.owsSpecial())
		} else {
			g.s(g.ows())
			g.s(val)
			g.s(g.ows())
		}
		g.crlf(kind)
		return
	}
	if !first && g.p(15) {
		g.feat("lead-space")
		g.s(strings.Repeat(" ", 1+g.rng.Intn(2)))
	}
	g.s(name)
	if g.p(15) {
		g.feat("space-before-colon")
		g.s(strings.Repeat(" ", 1+g.rng.Intn(2)))
	}
	g.s(":")
	switch g.rng.Intn(8) {
	case 0:
	case 1:
		g.s("   ")
	case 2:
		if interpreted(name) {
			// nbio accepts only blanks before the values it interprets
			g.s(" ")
		} else {
			g.feat("ows-htab")
			g.s("\t")
		}
	default:
		g.s(" ")
	}
	g.s(val)
	if g.p(20) {
		g.feat("trailing-space")
		g.s(strings.Repeat(" ", 1+g.rng.Intn(3)))
	}
	g.crlf(kind)
}

func (g *gen) target() string {
	var sb strings.Builder
	nseg := g.rng.Intn(4)
	if nseg == 0 {
		sb.WriteString("/")
	}
	for i := 0; i < nseg; i++ {
		sb.WriteString("/")
		switch g.rng.Intn(6) {
		case 0:
			sb.WriteString(g.chars(alnum, 1+g.rng.Intn(6)) + "%" + g.chars("0123456789abcdefABCDEF", 2))
		case 1:
			sb.WriteString(g.chars(alnum+"-._~!$&'()*+,;=:@", 1+g.rng.Intn(10)))
		default:
			sb.WriteString(g.chars(alnum, 1+g.rng.Intn(10)))
		}
	}
	if g.p(35) {
		sb.WriteString("?")
		nq := 1 + g.rng.Intn(3)
		for i := 0; i < nq; i++ {
			if i > 0 {
				sb.WriteString("&")
			}
			sb.WriteString(g.chars(alnum, 1+g.rng.Intn(5)))
			if g.p(80) {
				sb.WriteString("=")
				sb.WriteString(g.chars(alnum+"%20+-._", g.rng.Intn(8)))
			}
		}
	}
	t := sb.String()
	if g.p(6) {
		// an empty first segment: still a path for a request target, a
		// network-path reference under the generic URI rules
		g.feat("target-empty-first-segment")
		t = "/" + t
	}
	// a stray '%' not followed by two hex digits would make the target
	// ill-formed for url.ParseRequestURI on both sides; keep targets valid
	t = fixPercent(t)
	return t
}

func isHexByte(c byte) bool {
	return c >= '0' && c <= '9' || c >= 'a' && c <= 'f' || c >= 'A' && c <= 'F'
}

func fixPercent(t string) string {
	b := []byte(t)
	for i := 0; i < len(b); i++ {
		if b[i] == '%' {
			if i+2 < len(b) && isHexByte(b[i+1]) && isHexByte(b[i+2]) {
				i += 2
				continue
			}
			b[i] = 'p'
		}
	}
	return string(b)
}

func (g *gen) body(n int) []byte {
	b := make([]byte, n)
	if g.o.AlphaBody {
		for i := range b {
			b[i] = letters[g.rng.Intn(len(letters))]
		}
		return b
	}
	switch g.rng.Intn(3) {
	case 0:
		for i := range b {
			b[i] = byte(g.rng.Intn(256))
		}
	case 1:
		// text that looks like protocol: digits, CR, LF, colons
		const set = "0123456789abcdef\r\n: ;GETHP/1."
		for i := range b {
			b[i] = set[g.rng.Intn(len(set))]
		}
	default:
		for i := range b {
			b[i] = alnum[g.rng.Intn(len(alnum))]
		}
	}
	return b
}

func (g *gen) bodyLen() int {
	mx := g.o.MaxBody
	switch g.rng.Intn(8) {
	case 0:
		return 0
	case 1:
		return 1
	case 2:
		return 1 + g.rng.Intn(mx)
	default:
		n := 1 + g.rng.Intn(40)
		if n > mx {
			n = mx
		}
		return n
	}
}

type hdr struct {
	name, val string
}

func (g *gen) hexSize(n int) string {
	s := fmt.Sprintf("%x", n)
	if g.p(40) {
		s = strings.ToUpper(s)
	}
	if g.p(8) {
		g.feat("chunk-size-leading-zero")
		s = strings.Repeat("0", 1+g.rng.Intn(2)) + s
	}
	return s
}

func (g *gen) chunkExt() string {
	if !g.p(25) {
		return ""
	}
	g.feat("chunk-ext")
	switch g.rng.Intn(4) {
	case 0:
		return ";" + g.chars(letters, 1+g.rng.Intn(4))
	case 1:
		return ";" + g.chars(letters, 1+g.rng.Intn(3)) + "=" + g.chars(alnum, 1+g.rng.Intn(4))
	case 2:
		return ";" + g.chars(letters, 1+g.rng.Intn(3)) + "=\"" + g.chars(alnum, 1+g.rng.Intn(3)) + "\""
	default:
		return ";a=1;b=2"
	}
}

// message appends one message to g.buf.
func (g *gen) message() {
	o := g.o
	m := &Msg{Start: len(g.buf)}
	g.m = m
	http10 := g.p(22)
	proto := "HTTP/1.1"
	if http10 {
		proto = "HTTP/1.0"
		g.feat("http/1.0")
	}
	noBody := false
	if !o.Response {
		method := g.pick(Methods)
		if g.p(50) {
			method = g.pick([]string{"GET", "POST", "PUT"})
		}
		if !o.Strict && g.p(5) {
			g.feat("lower-case-method")
			method = strings.ToLower(method)
		}
		sp := func() string {
			if !o.Strict && g.p(12) {
				g.feat("start-line-blanks")
				return strings.Repeat(" ", 2+g.rng.Intn(2))
			}
			return " "
		}
		g.s(method)
		g.s(sp())
		g.s(g.target())
		g.s(sp())
		g.s(proto)
		if !o.Strict && g.p(5) {
			g.feat("proto-trailing-blank")
			g.s(" ")
		}
		g.crlf("request-line")
	} else {
		st := statuses[g.rng.Intn(len(statuses))]
		reason := st.reason
		if g.p(3) {
			g.feat("empty-reason")
			reason = ""
		}
		if strings.Contains(reason, " ") {
			g.feat("reason-with-space")
		}
		if !bodyAllowed(st.code) {
			noBody = true
			g.feat("status-without-body")
		}
		g.s(proto)
		g.s(" ")
		g.s(fmt.Sprintf("%03d", st.code))
		g.s(" ")
		g.s(reason)
		if !o.Strict && reason != "" && g.p(5) {
			g.feat("reason-trailing-blank")
			g.s(" ")
		}
		g.crlf("status-line")
	}

	// framing
	const (
		frNone = iota
		frCL
		frChunked
	)
	framing := frNone
	if !noBody {
		switch {
		case http10 && o.Strict:
			if g.p(60) || o.Response {
				framing = frCL
			}
		default:
			switch g.rng.Intn(10) {
			case 0, 1:
				framing = frNone
			case 2, 3, 4, 5:
				framing = frCL
			default:
				framing = frChunked
			}
		}
		if o.Response && framing == frNone {
			// a response without framing is close-delimited for net/http and
			// empty for nbio: outside the agreed domain, not generated at all
			framing = frCL
		}
	}

	var hs []hdr
	if !o.Response {
		if !http10 || g.p(60) {
			host := g.chars(alnum, 1+g.rng.Intn(8)) + "." + g.pick([]string{"com", "org", "test"})
			if g.p(40) {
				host += fmt.Sprintf(":%d", 1+g.rng.Intn(65535))
			}
			hs = append(hs, hdr{"Host", host})
		}
	}
	nExtra := g.rng.Intn(6)
	for i := 0; i < nExtra; i++ {
		h := hdr{g.fieldName(), g.value()}
		hs = append(hs, h)
		if g.p(15) {
			g.feat("repeated-field")
			hs = append(hs, hdr{h.name, g.value()})
		}
	}
	if g.p(45) {
		tok := func() string {
			t := g.pick([]string{"close", "keep-alive"})
			switch g.rng.Intn(4) {
			case 0:
				t = strings.ToUpper(t)
			case 1:
				t = strings.ToUpper(t[:1]) + t[1:]
			}
			return t
		}
		v := tok()
		if g.p(30) {
			g.feat("connection-list")
			sep := g.pick([]string{",", ", ", " , "})
			v = v + sep + tok()
		}
		g.feat("connection")
		hs = append(hs, hdr{"Connection", v})
	}
	bodyLen := 0
	var trailers []hdr
	switch framing {
	case frCL:
		bodyLen = g.bodyLen()
		m.HasCL = true
		g.feat("content-length")
		cl := fmt.Sprint(bodyLen)
		if g.p(8) {
			// 1*DIGIT, always decimal: leading zeros are legal
			g.feat("content-length-leading-zero")
			cl = strings.Repeat("0", 1+g.rng.Intn(3)) + cl
		}
		hs = append(hs, hdr{"Content-Length", cl})
	case frChunked:
		bodyLen = g.bodyLen()
		m.Chunked = true
		g.feat("chunked")
		te := "chunked"
		if g.p(15) {
			te = g.pick([]string{"Chunked", "CHUNKED"})
		}
		hs = append(hs, hdr{"Transfer-Encoding", te})
		if g.p(35) {
			nt := 1 + g.rng.Intn(3)
			seen := map[string]bool{}
			for i := 0; i < nt; i++ {
				n := g.pick([]string{"Md5", "Size", "X-Checksum", "Expires", "x-t"})
				if g.p(30) {
					n = g.tokenName()
				}
				cn := strings.ToLower(n)
				if seen[cn] {
					continue
				}
				seen[cn] = true
				v := g.value()
				for v == "" {
					v = g.value()
				}
				trailers = append(trailers, hdr{n, v})
			}
			var names []string
			for _, t := range trailers {
				names = append(names, t.name)
			}
			g.feat("trailers")
			if len(names) > 1 && g.p(25) {
				// declared in two Trailer fields
				hs = append(hs, hdr{"Trailer", names[0]})
				hs = append(hs, hdr{"Trailer", strings.Join(names[1:], ", ")})
			} else {
				hs = append(hs, hdr{"Trailer", strings.Join(names, g.pick([]string{",", ", "}))})
			}
		}
	}
	g.rng.Shuffle(len(hs), func(i, j int) { hs[i], hs[j] = hs[j], hs[i] })
	for i, h := range hs {
		g.headerLine(h.name, h.val, i == 0, "header-line")
	}
	g.crlf("header-end")

	m.BodyLen = bodyLen
	body := g.body(bodyLen)
	switch framing {
	case frCL:
		g.buf = append(g.buf, body...)
	case frChunked:
		rest := body
		for len(rest) > 0 {
			n := len(rest)
			if g.p(70) {
				n = 1 + g.rng.Intn(len(rest))
			}
			g.s(g.hexSize(n))
			if !o.Strict && g.p(10) {
				g.feat("chunk-size-trailing-blank")
				g.s(strings.Repeat(" ", 1+g.rng.Intn(3)))
			}
			g.s(g.chunkExt())
			g.crlf("chunk-size-line")
			g.buf = append(g.buf, rest[:n]...)
			g.crlf("chunk-data-end")
			rest = rest[n:]
			m.NChunks++
		}
		g.s("0")
		if g.p(5) {
			g.s("00")
		}
		if !o.Strict && g.p(10) {
			g.feat("chunk-size-trailing-blank")
			g.s("  ")
		}
		g.s(g.chunkExt())
		g.crlf("last-chunk-line")
		if o.Damage && len(trailers) > 0 && g.p(15) {
			// announced, never sent: the message ends with the plain last chunk
			g.feat("damage:announced-trailer-omitted")
			trailers = nil
		}
		if len(trailers) > 0 && g.p(20) {
			// a declared field sent a second time, anywhere behind its first line (also behind the
			// last outstanding declared field): net/http collects both values
			k := g.rng.Intn(len(trailers))
			v := g.value()
			for v == "" {
				v = g.value()
			}
			pos := k + 1 + g.rng.Intn(len(trailers)-k)
			trailers = append(trailers, hdr{})
			copy(trailers[pos+1:], trailers[pos:])
			trailers[pos] = hdr{trailers[k].name, v}
			if pos == len(trailers)-1 {
				g.feat("trailer-field-repeated-behind-the-last-declared")
			} else {
				g.feat("trailer-field-repeated")
			}
		}
		for _, t := range trailers {
			if o.Strict {
				g.s(t.name)
				g.s(":")
				g.s(g.ows())
				g.s(t.val)
				g.s(g.ows())
			} else {
				if g.p(20) {
					g.feat("trailer-lead-space")
					g.s(strings.Repeat(" ", 1+g.rng.Intn(2)))
				}
				g.s(t.name)
				if g.p(20) {
					g.feat("trailer-space-before-colon")
					g.s(strings.Repeat(" ", 1+g.rng.Intn(2)))
				}
				g.s(":")
				g.s(g.blanks(2))
				g.s(t.val)
				if g.p(25) {
					g.feat("trailer-trailing-space")
					g.s(strings.Repeat(" ", 1+g.rng.Intn(2)))
				}
			}
			g.crlf("trailer-line")
			if strings.ContainsAny(t.val, " \t") {
				g.feat("trailer-value-inner-space")
			}
		}
		m.NTrailers = len(trailers)
		g.crlf("final-crlf")
	}
	m.End = len(g.buf)
}

func (o *Opts) defaults() {
	if o.MinMsgs <= 0 {
		o.MinMsgs = 1
	}
	if o.MaxMsgs < o.MinMsgs {
		o.MaxMsgs = 5
		if o.MaxMsgs < o.MinMsgs {
			o.MaxMsgs = o.MinMsgs
		}
	}
	if o.MaxBody <= 0 {
		o.MaxBody = 300
	}
}

// Stream generates MinMsgs..MaxMsgs pipelined messages.
func Stream(rng *rand.Rand, o Opts) ([]byte, []Msg) {
	o.defaults()
	g := &gen{rng: rng, o: o}
	n := o.MinMsgs + rng.Intn(o.MaxMsgs-o.MinMsgs+1)
	// most streams are short so that exhaustive segmentation stays cheap
	if n > 2 && rng.Intn(100) < 50 {
		n = o.MinMsgs + rng.Intn(2)
		if n > o.MaxMsgs {
			n = o.MaxMsgs
		}
	}
	var msgs []Msg
	for i := 0; i < n; i++ {
		g.message()
		msgs = append(msgs, *g.m)
	}
	return g.buf, msgs
}
