package httpgen

import (
	"math/rand"
	"net"
	"sort"
	"time"
)

// interesting bytes for substitutions and insertions
var hot = []byte("\r\n :;,0159afAFxX-+/HTP\t\x00\x7f\x80\xff")

// Mutate returns a malformed neighbour of b (b is not modified) and the kind
// of damage: flip, replace, insert, delete, drop-cr, drop-lf, truncate.
func Mutate(rng *rand.Rand, b []byte) ([]byte, string) {
	if len(b) == 0 {
		return []byte{hot[rng.Intn(len(hot))]}, "insert"
	}
	out := append([]byte(nil), b...)
	switch rng.Intn(8) {
	case 0:
		i := rng.Intn(len(out))
		out[i] ^= 1 << uint(rng.Intn(8))
		return out, "flip"
	case 1:
		i := rng.Intn(len(out))
		c := hot[rng.Intn(len(hot))]
		if rng.Intn(3) == 0 {
			c = byte(rng.Intn(256))
		}
		if out[i] == c {
			c ^= 0x20
		}
		out[i] = c
		return out, "replace"
	case 2:
		i := rng.Intn(len(out) + 1)
		c := hot[rng.Intn(len(hot))]
		if rng.Intn(3) == 0 {
			c = byte(rng.Intn(256))
		}
		out = append(out[:i], append([]byte{c}, out[i:]...)...)
		return out, "insert"
	case 3:
		i := rng.Intn(len(out))
		out = append(out[:i], out[i+1:]...)
		return out, "delete"
	case 4, 5:
		// drop one CR or one LF
		want := byte('\r')
		kind := "drop-cr"
		if rng.Intn(2) == 0 {
			want, kind = '\n', "drop-lf"
		}
		var idx []int
		for i, c := range out {
			if c == want {
				idx = append(idx, i)
			}
		}
		if len(idx) == 0 {
			i := rng.Intn(len(out))
			out = append(out[:i], out[i+1:]...)
			return out, "delete"
		}
		i := idx[rng.Intn(len(idx))]
		out = append(out[:i], out[i+1:]...)
		return out, kind
	case 6:
		n := rng.Intn(len(out))
		return out[:n], "truncate"
	default:
		// truncate close to the end: the interesting tails are the last
		// few bytes of the last message
		n := len(out) - 1 - rng.Intn(min(len(out), 8))
		if n < 0 {
			n = 0
		}
		return out[:n], "truncate"
	}
}

func min(a, b int) int {
	if a < b {
		return a
	}
	return b
}

// Split cuts b at the given offsets (0 < cut < len(b); duplicates and
// out-of-range values are ignored) and returns the segments. The segments
// alias b.
func Split(b []byte, cuts []int) [][]byte {
	c := append([]int(nil), cuts...)
	sort.Ints(c)
	var segs [][]byte
	last := 0
	for _, x := range c {
		if x <= last || x >= len(b) {
			continue
		}
		segs = append(segs, b[last:x])
		last = x
	}
	if last < len(b) || len(b) == 0 {
		segs = append(segs, b[last:])
	}
	return segs
}

// RandomCuts returns k distinct random cut positions for a stream of n bytes.
func RandomCuts(rng *rand.Rand, n, k int) []int {
	if n < 2 {
		return nil
	}
	if k > n-1 {
		k = n - 1
	}
	seen := map[int]bool{}
	var out []int
	for len(out) < k {
		c := 1 + rng.Intn(n-1)
		if !seen[c] {
			seen[c] = true
			out = append(out, c)
		}
	}
	sort.Ints(out)
	return out
}

// EveryByte returns the cuts of byte-at-a-time delivery.
func EveryByte(n int) []int {
	var out []int
	for i := 1; i < n; i++ {
		out = append(out, i)
	}
	return out
}

// NopConn is a net.Conn that accepts and discards everything; the parser and
// the processors only need it for Write, Close, RemoteAddr and deadlines.
type NopConn struct {
	Written int
	Closed  int
}

type nopAddr struct{}

func (nopAddr) Network() string { return "tcp" }
func (nopAddr) String() string  { return "192.0.2.1:1234" }

func (c *NopConn) Read(b []byte) (int, error)         { return 0, net.ErrClosed }
func (c *NopConn) Write(b []byte) (int, error)        { c.Written += len(b); return len(b), nil }
func (c *NopConn) Close() error                       { c.Closed++; return nil }
func (c *NopConn) LocalAddr() net.Addr                { return nopAddr{} }
func (c *NopConn) RemoteAddr() net.Addr               { return nopAddr{} }
func (c *NopConn) SetDeadline(t time.Time) error      { return nil }
func (c *NopConn) SetReadDeadline(t time.Time) error  { return nil }
func (c *NopConn) SetWriteDeadline(t time.Time) error { return nil }
