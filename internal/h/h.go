// Package h is the small runtime every worker links: it parses the run
// parameters handed over by cmd/vcheck, counts what the monitors observed,
// collects violations with their replay cases and writes the result file the
// driver merges into evidence/<id>.json.
package h

import (
	"encoding/json"
	"flag"
	"fmt"
	"math/rand"
	"os"
	"path/filepath"
	"runtime"
	"sort"
	"strconv"
	"strings"
	"sync"
	"sync/atomic"
	"time"
)

// Violation is one oracle failure. Sig is the stable, specific signature the
// known-findings file is matched against; Detail is for humans; Case is what a
// replay needs.
type Violation struct {
	Sig    string      `json:"sig"`
	Detail string      `json:"detail"`
	Case   interface{} `json:"case,omitempty"`
}

// Result is what one worker process reports.
type Result struct {
	Property     string              `json:"property"`
	Phase        string              `json:"phase"`
	Tier         string              `json:"tier"`
	Seed         int64               `json:"seed"`
	Shard        int                 `json:"shard"`
	Shards       int                 `json:"shards"`
	Evaluations  int64               `json:"evaluations"`
	Nontrivial   []string            `json:"nontrivial"`
	Samples      []interface{}       `json:"samples"`
	Violations   []Violation         `json:"violations"`
	Inconclusive []string            `json:"inconclusive"`
	Counters     map[string]int64    `json:"counters"`
	Sets         map[string][]string `json:"sets"`
	Done         bool                `json:"done"`
	WallS        float64             `json:"wall_s"`
}

// Run is the per-process handle.
type Run struct {
	ID     string
	Phase  string
	Tier   string
	Seed   int64
	Shard  int
	Shards int
	Out    string
	Replay string // path of a replay file, "" for a normal run

	start time.Time
	mu    sync.Mutex
	evals int64
	nt    map[string]struct{}
	samp  []interface{}
	viol  []Violation
	inc   []string
	ctr   map[string]*int64
	sets  map[string]map[string]struct{}

	curMu   sync.Mutex
	curPath string
	maxViol int
}

// Start parses flags/environment. Flags (all optional): --phase, --shard i/n,
// --out dir, --replay file. VERIF_SEED and VERIF_TIER come from the
// environment (set by the driver).
func Start(id string) *Run {
	r := &Run{ID: id, start: time.Now(), nt: map[string]struct{}{}, ctr: map[string]*int64{}, sets: map[string]map[string]struct{}{}, maxViol: 20}
	var shard string
	flag.StringVar(&r.Phase, "phase", "main", "phase name")
	flag.StringVar(&shard, "shard", "0/1", "shard i/n")
	flag.StringVar(&r.Out, "out", "", "output directory")
	flag.StringVar(&r.Replay, "replay", "", "replay file")
	flag.Parse()
	r.Tier = os.Getenv("VERIF_TIER")
	if r.Tier != "thorough" {
		r.Tier = "quick"
	}
	r.Seed = 1
	if s := os.Getenv("VERIF_SEED"); s != "" {
		if v, err := strconv.ParseInt(s, 10, 64); err == nil {
			r.Seed = v
		}
	}
	fmt.Sscanf(shard, "%d/%d", &r.Shard, &r.Shards)
	if r.Shards <= 0 {
		r.Shards = 1
	}
	if r.Out == "" {
		r.Out = filepath.Join("out", id)
	}
	_ = os.MkdirAll(r.Out, 0o755)
	r.curPath = filepath.Join(r.Out, fmt.Sprintf("current-%s-%d.json", r.Phase, r.Shard))
	return r
}

// Thorough reports the tier.
func (r *Run) Thorough() bool { return r.Tier == "thorough" }

// N picks the case count for the tier.
func (r *Run) N(quick, thorough int) int {
	if r.Thorough() {
		return thorough
	}
	return quick
}

// Mine reports whether case index i belongs to this shard. VERIF_ONLY=<i>
// (debugging) restricts the run to one case index.
func (r *Run) Mine(i int) bool {
	if s := os.Getenv("VERIF_ONLY"); s != "" {
		if v, err := strconv.Atoi(s); err == nil {
			return i == v && r.Shard == 0
		}
	}
	return i%r.Shards == r.Shard
}

// Rand returns a PRNG for (seed, stream, index): every case has its own
// generator so a replay needs only the three numbers.
func (r *Run) Rand(stream string, i int) *rand.Rand {
	var hsh uint64 = 1469598103934665603
	for _, b := range []byte(stream) {
		hsh ^= uint64(b)
		hsh *= 1099511628211
	}
	hsh ^= uint64(r.Seed) * 0x9E3779B97F4A7C15
	hsh ^= uint64(i+1) * 0xBF58476D1CE4E5B9
	hsh ^= hsh >> 31
	hsh *= 0x94D049BB133111EB
	hsh ^= hsh >> 29
	return rand.New(rand.NewSource(int64(hsh)))
}

// Begin records the case about to run, so that a process-fatal report can be
// attributed by the driver. Cheap enough for socket cases; in-memory workers
// call it once per batch.
func (r *Run) Begin(c interface{}) {
	b, _ := json.Marshal(map[string]interface{}{"property": r.ID, "phase": r.Phase, "seed": r.Seed, "tier": r.Tier, "case": c})
	r.curMu.Lock()
	_ = os.WriteFile(r.curPath, b, 0o644)
	r.curMu.Unlock()
}

// Eval counts executed cases.
func (r *Run) Eval(n int) { atomic.AddInt64(&r.evals, int64(n)) }

// Nontrivial records a distinct non-trivial case key.
func (r *Run) Nontrivial(key string) {
	r.mu.Lock()
	if len(r.nt) < 200000 {
		r.nt[key] = struct{}{}
	}
	r.mu.Unlock()
}

// Sample keeps up to a handful of literal cases for the evidence file.
func (r *Run) Sample(s interface{}) {
	r.mu.Lock()
	if len(r.samp) < 4 {
		r.samp = append(r.samp, s)
	}
	r.mu.Unlock()
}

// Count adds to a named observation counter.
func (r *Run) Count(name string, n int64) {
	r.mu.Lock()
	p := r.ctr[name]
	if p == nil {
		p = new(int64)
		r.ctr[name] = p
	}
	r.mu.Unlock()
	atomic.AddInt64(p, n)
}

// Max keeps the maximum of a named observation.
func (r *Run) Max(name string, v int64) {
	r.mu.Lock()
	p := r.ctr[name]
	if p == nil {
		p = new(int64)
		r.ctr[name] = p
	}
	if v > *p {
		*p = v
	}
	r.mu.Unlock()
}

// Seen adds a member to a named set of distinct observations (interleaving
// signatures, configuration cells, ...).
func (r *Run) Seen(set, member string) {
	r.mu.Lock()
	m := r.sets[set]
	if m == nil {
		m = map[string]struct{}{}
		r.sets[set] = m
	}
	if len(m) < 5000 {
		m[member] = struct{}{}
	}
	r.mu.Unlock()
}

// Violate records an oracle failure.
func (r *Run) Violate(sig, detail string, c interface{}) {
	r.mu.Lock()
	defer r.mu.Unlock()
	if len(detail) > 4000 {
		detail = detail[:4000] + "…"
	}
	n := 0
	for _, v := range r.viol {
		if v.Sig == sig {
			n++
		}
	}
	if n >= 3 || len(r.viol) >= r.maxViol {
		p := r.ctr["violations_suppressed"]
		if p == nil {
			p = new(int64)
			r.ctr["violations_suppressed"] = p
		}
		*p++
		return
	}
	r.viol = append(r.viol, Violation{Sig: sig, Detail: detail, Case: c})
	// a shard that is ended from outside (phase watchdog, fatal signal) never reaches
	// Finish: what it has found so far must not be lost with it
	if r.Replay == "" {
		if b, err := json.Marshal(Result{Property: r.ID, Phase: r.Phase, Tier: r.Tier, Seed: r.Seed, Shard: r.Shard, Shards: r.Shards,
			Evaluations: atomic.LoadInt64(&r.evals), Violations: r.viol}); err == nil {
			name := filepath.Join(r.Out, fmt.Sprintf("partial-%s-%d.json", r.Phase, r.Shard))
			if os.WriteFile(name+".tmp", b, 0o644) == nil {
				_ = os.Rename(name+".tmp", name)
			}
		}
	}
}

// Violations returns how many violations have been recorded so far.
func (r *Run) Violations() int {
	r.mu.Lock()
	defer r.mu.Unlock()
	return len(r.viol)
}

// Inconclusive records a case that could not be decided.
func (r *Run) Inconclusive(why string) {
	r.mu.Lock()
	if len(r.inc) < 50 {
		r.inc = append(r.inc, why)
	}
	r.mu.Unlock()
}

// Finish writes the result file. It must be the last thing a worker does.
func (r *Run) Finish() {
	r.mu.Lock()
	res := Result{Property: r.ID, Phase: r.Phase, Tier: r.Tier, Seed: r.Seed, Shard: r.Shard, Shards: r.Shards,
		Evaluations: atomic.LoadInt64(&r.evals), Samples: r.samp, Violations: r.viol, Inconclusive: r.inc,
		Counters: map[string]int64{}, Sets: map[string][]string{}, Done: true, WallS: time.Since(r.start).Seconds()}
	for k := range r.nt {
		res.Nontrivial = append(res.Nontrivial, k)
	}
	sort.Strings(res.Nontrivial)
	for k, p := range r.ctr {
		res.Counters[k] = atomic.LoadInt64(p)
	}
	for k, m := range r.sets {
		var l []string
		for s := range m {
			l = append(l, s)
		}
		sort.Strings(l)
		res.Sets[k] = l
	}
	r.mu.Unlock()
	b, _ := json.MarshalIndent(res, "", " ")
	name := filepath.Join(r.Out, fmt.Sprintf("result-%s-%d.json", r.Phase, r.Shard))
	if r.Replay != "" {
		name = filepath.Join(r.Out, "result-replay.json")
	}
	if err := os.WriteFile(name, b, 0o644); err != nil {
		fmt.Fprintln(os.Stderr, "cannot write result:", err)
		os.Exit(3)
	}
	_ = os.Remove(r.curPath)
	_ = os.Remove(filepath.Join(r.Out, fmt.Sprintf("partial-%s-%d.json", r.Phase, r.Shard)))
}

// ReplayCase loads the "case" member of a replay file into v.
func (r *Run) ReplayCase(v interface{}) error {
	b, err := os.ReadFile(r.Replay)
	if err != nil {
		return err
	}
	var w struct {
		Case json.RawMessage `json:"case"`
	}
	if err := json.Unmarshal(b, &w); err != nil {
		return err
	}
	return json.Unmarshal(w.Case, v)
}

// CPUTime returns the process CPU time (user+system).
func CPUTime() time.Duration {
	return cpuTime()
}

// Hex renders a byte slice compactly for details (truncated).
func Hex(b []byte, max int) string {
	const hexd = "0123456789abcdef"
	var sb strings.Builder
	for i, c := range b {
		if i >= max {
			sb.WriteString(fmt.Sprintf("…(+%d)", len(b)-max))
			break
		}
		if c >= 0x20 && c < 0x7f && c != '\\' {
			sb.WriteByte(c)
		} else if c == '\r' {
			sb.WriteString("\\r")
		} else if c == '\n' {
			sb.WriteString("\\n")
		} else {
			sb.WriteString("\\x")
			sb.WriteByte(hexd[c>>4])
			sb.WriteByte(hexd[c&15])
		}
	}
	return sb.String()
}

// Stacks returns all goroutine stacks.
func Stacks() string {
	buf := make([]byte, 4<<20)
	return string(buf[:runtime.Stack(buf, true)])
}
