package h

import (
	"fmt"
	"strings"
	"sync"
)

// CapLogger captures nbio's log output. Error-level lines are kept (bounded)
// so that oracles can see recovered panics, which nbio only logs.
type CapLogger struct {
	mu     sync.Mutex
	errs   []string
	nErr   int
	Filter func(line string) bool // optional: keep only matching error lines
}

func (l *CapLogger) Debug(format string, v ...interface{}) {}
func (l *CapLogger) Info(format string, v ...interface{})  {}
func (l *CapLogger) Warn(format string, v ...interface{})  {}
func (l *CapLogger) Error(format string, v ...interface{}) {
	s := fmt.Sprintf(format, v...)
	l.mu.Lock()
	l.nErr++
	if l.Filter == nil || l.Filter(s) {
		if len(l.errs) < 64 {
			if len(s) > 3000 {
				s = s[:3000]
			}
			l.errs = append(l.errs, s)
		}
	}
	l.mu.Unlock()
}

// Take returns and clears the captured error lines.
func (l *CapLogger) Take() []string {
	l.mu.Lock()
	e := l.errs
	l.errs = nil
	l.mu.Unlock()
	return e
}

// PanicLines returns captured lines that come from a recover() block.
func PanicLines(lines []string) []string {
	var out []string
	for _, s := range lines {
		if strings.Contains(s, "failed:") && strings.Contains(s, "goroutine ") {
			out = append(out, s)
		}
	}
	return out
}
