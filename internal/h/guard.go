package h

import (
	"fmt"
	"regexp"
	"sort"
	"strings"
	"time"
)

// GuardVerdict is what Guard found when a case did not come back.
type GuardVerdict struct {
	Kind   string // "" (case returned) | "spin" | "deadlock" | "watchdog"
	Detail string
}

var reGoroutineHdr = regexp.MustCompile(`(?m)^goroutine (\d+) \[([^\]]+)\]:`)

// blockedInNbio returns ids of goroutines that are blocked on a lock/semaphore
// while inside an nbio frame.
func blockedInNbio(dump string) []string {
	var ids []string
	parts := strings.Split(dump, "\n\n")
	for _, p := range parts {
		m := reGoroutineHdr.FindStringSubmatch(p)
		if m == nil {
			continue
		}
		st := m[2]
		if !(strings.HasPrefix(st, "sync.Mutex.Lock") || strings.HasPrefix(st, "semacquire") || strings.HasPrefix(st, "sync.RWMutex") || strings.HasPrefix(st, "sync.WaitGroup.Wait")) {
			continue
		}
		if strings.Contains(p, "github.com/lesismal/nbio") {
			ids = append(ids, m[1])
		}
	}
	sort.Strings(ids)
	return ids
}

// RunningNbio extracts the stacks of goroutines that are running/runnable
// inside nbio frames.
func RunningNbio(dump string) string {
	var out []string
	for _, p := range strings.Split(dump, "\n\n") {
		m := reGoroutineHdr.FindStringSubmatch(p)
		if m == nil {
			continue
		}
		if (strings.HasPrefix(m[2], "running") || strings.HasPrefix(m[2], "runnable") || (strings.HasPrefix(m[2], "syscall") && !strings.Contains(p, "syscall.EpollWait"))) && strings.Contains(p, "github.com/lesismal/nbio") {
			if len(p) > 1500 {
				p = p[:1500]
			}
			out = append(out, p)
		}
	}
	return strings.Join(out, "\n\n")
}

// Guard runs f and watches it. progress() must be a monotone counter of
// harness-visible progress (bytes received, calls returned, callbacks seen).
// Verdicts never rest on elapsed time alone:
//
//	spin     - no progress for >= 15 s while the process burns > 25 % of a
//	           core in each of three consecutive 1 s windows and a goroutine
//	           is running inside nbio frames
//	deadlock - no progress for >= 30 s, process idle, and the same goroutines
//	           sit blocked on a lock inside nbio frames in two dumps 5 s apart
//	watchdog - max elapsed without either predicate: inconclusive
func Guard(max time.Duration, progress func() int64, f func()) GuardVerdict {
	done := make(chan struct{})
	go func() {
		defer close(done)
		f()
	}()
	start := time.Now()
	last := progress()
	lastChange := time.Now()
	lastCPU := CPUTime()
	lastT := time.Now()
	busy := 0
	tk := time.NewTicker(time.Second)
	defer tk.Stop()
	for {
		select {
		case <-done:
			return GuardVerdict{}
		case <-tk.C:
		}
		p := progress()
		now := time.Now()
		cpu := CPUTime()
		frac := float64(cpu-lastCPU) / float64(now.Sub(lastT))
		lastCPU, lastT = cpu, now
		if p != last {
			last = p
			lastChange = now
			busy = 0
			continue
		}
		if frac > 0.25 {
			busy++
		} else {
			busy = 0
		}
		idle := now.Sub(lastChange)
		if idle >= 15*time.Second && busy >= 3 {
			d := Stacks()
			if RunningNbio(d) == "" {
				// the processor time is the harness' own (a long check over a large history): not a
				// state of the code under test; keep watching
				busy = 0
				continue
			}
			return GuardVerdict{Kind: "spin", Detail: fmt.Sprintf("no harness-visible progress for %.0f s while the process used %.0f%% of a core (3 consecutive 1 s windows > 25%%); running goroutines inside nbio:\n%s", idle.Seconds(), frac*100, RunningNbio(d))}
		}
		if idle >= 30*time.Second && busy == 0 {
			a := blockedInNbio(Stacks())
			if len(a) > 0 {
				time.Sleep(5 * time.Second)
				select {
				case <-done:
					return GuardVerdict{}
				default:
				}
				d2 := Stacks()
				b := blockedInNbio(d2)
				if progress() == last && strings.Join(a, ",") == strings.Join(b, ",") {
					var sel []string
					for _, p := range strings.Split(d2, "\n\n") {
						m := reGoroutineHdr.FindStringSubmatch(p)
						if m != nil && strings.Contains(p, "github.com/lesismal/nbio") && len(sel) < 6 {
							if len(p) > 1200 {
								p = p[:1200]
							}
							sel = append(sel, p)
						}
					}
					return GuardVerdict{Kind: "deadlock", Detail: fmt.Sprintf("no progress for %.0f s, process idle, goroutines %v blocked on a lock inside nbio in two dumps 5 s apart:\n%s", idle.Seconds(), b, strings.Join(sel, "\n\n"))}
				}
			}
		}
		if now.Sub(start) > max {
			return GuardVerdict{Kind: "watchdog", Detail: fmt.Sprintf("case did not return within %v (no spin/deadlock predicate held)", max)}
		}
	}
}

// StuckInNbio decides, for a case whose own watchdog has expired, whether the
// process is in a final blocked state: over 5 s the progress counter did not
// move, the process used less than 2 % of a core, and the same non-empty set
// of goroutines sits blocked on a lock inside nbio frames in both dumps. It
// returns the stacks of those goroutines; ok == false means "not decided".
func StuckInNbio(progress func() int64) (ok bool, detail string) {
	p0 := progress()
	d1 := Stacks()
	c0 := CPUTime()
	t0 := time.Now()
	time.Sleep(5 * time.Second)
	d2 := Stacks()
	cpu := CPUTime() - c0
	el := time.Since(t0)
	a, b := blockedInNbio(d1), blockedInNbio(d2)
	if len(b) == 0 || progress() != p0 || strings.Join(a, ",") != strings.Join(b, ",") || float64(cpu) > 0.02*float64(el) {
		return false, ""
	}
	in := map[string]bool{}
	for _, id := range b {
		in[id] = true
	}
	var sel []string
	for _, p := range strings.Split(d2, "\n\n") {
		m := reGoroutineHdr.FindStringSubmatch(p)
		if m != nil && in[m[1]] && len(sel) < 6 {
			if len(p) > 1500 {
				p = p[:1500]
			}
			sel = append(sel, p)
		}
	}
	return true, fmt.Sprintf("goroutines %v are blocked on a lock inside nbio in two dumps 5 s apart, no progress, process idle:\n%s", b, strings.Join(sel, "\n\n"))
}
