package h

import (
	"syscall"
	"time"
)

func cpuTime() time.Duration {
	var ru syscall.Rusage
	if err := syscall.Getrusage(syscall.RUSAGE_SELF, &ru); err != nil {
		return 0
	}
	return time.Duration(ru.Utime.Nano() + ru.Stime.Nano())
}
