package guardalloc

import "unsafe"

// unsafeNext returns a pointer to the byte right after b's capacity.
func unsafeNext(b []byte) *byte {
	return (*byte)(unsafe.Add(unsafe.Pointer(unsafe.SliceData(b)), cap(b)))
}
