// Package guardalloc is the shadow-state allocator behind C11 (and the
// allocator C09 runs under): an implementation of nbio's mempool.Allocator
// that never recycles memory and keeps, for every buffer it has handed out,
// who allocated it, whether it has been returned and by whom. Ownership
// violations then become deterministic events instead of silent cross-owner
// corruption:
//
//	double-free              Free of a region that has already been freed
//	append-after-free        Append/AppendString on a freed region (checked before memory is touched)
//	realloc-after-free       Realloc on a freed region
//	write-after-free         a freed region no longer holds the poison pattern (found by a sweep)
//	header-write-after-free  the *[]byte handed to Free was modified afterwards (found by a sweep;
//	                         the real MemPool keeps that very pointer in its sync.Pool)
//	<kind given by caller>   CheckLive(b, kind): the harness received b (net.Conn.Write input, request
//	                         body bytes, websocket payload) and b lies inside a freed region
//
// Two modes. Shadow (default): every Malloc is a fresh Go-heap buffer
// (never recycled), Free poisons the bytes with 0xDB and parks the region in
// a quarantine; reads after free are visible only where the harness looks
// (CheckLive, poison bytes showing up in delivered data). Fault (Options.Fault):
// every allocation is its own page-aligned mmap, right-aligned against an
// inaccessible guard page, and Free turns the pages PROT_NONE, so that any
// read or write after free (and any overrun past the capacity) is a hardware
// fault that kills the process ("fatal error: fault"/SIGSEGV with the goroutine stack);
// the driver attributes the crash to the case written by r.Begin.
//
// Stale use of the old backing array after a *growing* Append is ordinary Go
// append semantics (the real pools do `*p = append(*p, more...)` too): the old
// region is marked abandoned-by-growth and never alarms.
//
// Foreign buffers (not from this allocator) are accepted and counted like the
// real allocators do. Zero-capacity frees are ignored like the real pool does.
// Two simultaneous owners of one buffer cannot come into being without one of
// the reported events, because no region is ever handed out twice.
package guardalloc

import (
	"bytes"
	"fmt"
	"runtime"
	"sort"
	"strings"
	"sync"
	"unsafe"
)

// Violation kinds reported by the allocator itself.
const (
	KindDoubleFree       = "double-free"
	KindAppendAfterFree  = "append-after-free"
	KindReallocAfterFree = "realloc-after-free"
	KindWriteAfterFree   = "write-after-free"
	KindHeaderAfterFree  = "header-write-after-free"
)

type state uint8

const (
	stLive state = iota
	stFreed
	stAbandoned // replaced by a bigger region in a growing Append: stale use is legal
)

func (s state) String() string {
	switch s {
	case stLive:
		return "live"
	case stFreed:
		return "freed"
	}
	return "abandoned-by-growth"
}

const nPC = 14

type stack [nPC]uintptr

type region struct {
	base  uintptr
	size  int    // capacity handed out
	mem   []byte // keeps the backing array alive (and, in fault mode, is the right-aligned window)
	mmap  []byte // fault mode: the whole mapping
	st    state
	id    uint64
	caseN uint64 // case in which it was freed

	alloc stack
	free  stack

	// header handed to Free and what it held at that moment
	fhdr           *[]byte
	fptr           uintptr
	flen, fcap     int
	headerReported bool
	poisonReported bool
	retired        bool
	counted        bool // included in Stats.LiveRegions/LiveBytes
}

// Report is one ownership violation.
type Report struct {
	Kind      string
	Site      string // innermost nbio function of the offending call ("" for sweep findings)
	AllocSite string // innermost nbio function that allocated the region
	FreeSite  string // innermost nbio function of the (first) Free
	Detail    string // human readable, with nbio-filtered alloc/free/current stacks
}

// Options configures an Allocator.
type Options struct {
	Poison          byte // written over freed regions; default 0xDB
	Fill            byte // written over fresh regions (the real pools hand out recycled, dirty memory); default 0xCD
	NoFill          bool // leave fresh regions zeroed
	QuarantineBytes int  // retired regions kept (FIFO) before they are dropped; default 96 MiB
	// QuarantineRegions bounds the number of retired regions (0: unbounded in
	// shadow mode, 4096 in fault mode, where every region costs the process
	// two virtual memory areas and the kernel allows about 65 000).
	QuarantineRegions int
	Fault             bool // mmap + mprotect mode
	// FramePrefix selects the frames that count as "code under test" in stacks
	// and sites; default "github.com/lesismal/nbio/". Frames of the mempool
	// package (the allocator API itself) never count.
	FramePrefix string
	// MoveOnGrow: an Append that has to grow the buffer returns a new pointer
	// and frees the old buffer, as mempool.AlignedAllocator does (the default
	// keeps the pointer like mempool.MemPool, whose callers get away with
	// dropping the result). Shadow mode only.
	MoveOnGrow bool
}

// Stats are the evidence counters.
type Stats struct {
	Mallocs, Frees, Appends, Reallocs, Grows int64
	ForeignFrees, ForeignAppends             int64
	ZeroCapFrees, InteriorFrees              int64
	AbandonedFrees, AbandonedAppends         int64
	Reports                                  int64
	LiveRegions, PeakLiveRegions             int64
	LiveBytes, PeakLiveBytes                 int64
	PoisonedBytes, SweptBytes                int64
	Leaked                                   int64 // regions still live at EndCase
	Evicted                                  int64
	// FaultMappingsKept: fault mode, leaked (still live) regions that left the
	// quarantine and stay mapped for ever because the code under test may
	// still use them legitimately.
	FaultMappingsKept int64
	// FaultMmapFailures: fault mode, allocations the kernel refused to map;
	// they were served from ordinary memory (shadow checks only).
	FaultMmapFailures int64
}

// Allocator implements mempool.Allocator with shadow state.
type Allocator struct {
	mu    sync.Mutex
	o     Options
	pages map[uintptr][]*region
	seq   uint64
	caseN uint64

	thisCase []*region // regions allocated during the current case
	fifo     []*region // retired regions (freed, leaked, abandoned) in retirement order
	fifoHead int
	fifoSize int

	st       Stats
	onReport func(Report)
	pairs    map[string]struct{}
	siteMemo map[stack]string
	// case-local counters
	cMallocs, cFrees int64
}

// New creates an allocator.
func New(o Options) *Allocator {
	if o.Poison == 0 {
		o.Poison = 0xDB
	}
	if o.Fill == 0 && !o.NoFill {
		o.Fill = 0xCD
	}
	if o.QuarantineBytes <= 0 {
		o.QuarantineBytes = 96 << 20
	}
	if o.FramePrefix == "" {
		o.FramePrefix = "github.com/lesismal/nbio/"
	}
	if o.Fault && o.QuarantineRegions <= 0 {
		o.QuarantineRegions = 4096
	}
	return &Allocator{o: o, pages: map[uintptr][]*region{}, pairs: map[string]struct{}{}, siteMemo: map[stack]string{}}
}

// OnReport installs the structured violation callback. It is called with the
// allocator's mutex released.
func (a *Allocator) OnReport(f func(Report)) {
	a.mu.Lock()
	a.onReport = f
	a.mu.Unlock()
}

// OnViolation installs a (kind, detail) callback.
func (a *Allocator) OnViolation(f func(kind, detail string)) {
	a.OnReport(func(r Report) { f(r.Kind, r.Detail) })
}

// FaultMode reports whether freed memory is inaccessible (Options.Fault): the
// harness must then not read a buffer CheckLive has reported.
func (a *Allocator) FaultMode() bool { return a.o.Fault }

// Poison returns the byte freed regions are filled with.
func (a *Allocator) Poison() byte { return a.o.Poison }

// Fill returns the byte fresh regions are filled with.
func (a *Allocator) Fill() byte { return a.o.Fill }

// ---------------------------------------------------------------- table

const pageShift = 12

func (a *Allocator) insert(r *region) {
	for pg := r.base >> pageShift; pg <= (r.base+uintptr(r.size)-1)>>pageShift; pg++ {
		a.pages[pg] = append(a.pages[pg], r)
	}
}

func (a *Allocator) remove(r *region) {
	for pg := r.base >> pageShift; pg <= (r.base+uintptr(r.size)-1)>>pageShift; pg++ {
		l := a.pages[pg]
		for i, x := range l {
			if x == r {
				l[i] = l[len(l)-1]
				l[len(l)-1] = nil
				l = l[:len(l)-1]
				break
			}
		}
		if len(l) == 0 {
			delete(a.pages, pg)
		} else {
			a.pages[pg] = l
		}
	}
}

func (a *Allocator) find(p uintptr) *region {
	for _, r := range a.pages[p>>pageShift] {
		if p >= r.base && p < r.base+uintptr(r.size) {
			return r
		}
	}
	return nil
}

func basePtr(b []byte) uintptr {
	if cap(b) == 0 {
		return 0
	}
	return uintptr(unsafe.Pointer(unsafe.SliceData(b)))
}

func roundup(n int) int {
	if n < 16 {
		return 16
	}
	return (n + 15) &^ 15
}

// newRegion allocates and registers a region of at least n bytes and returns
// it with a slice of length n over it. Caller holds the mutex.
func (a *Allocator) newRegion(n int, skip int) (*region, []byte) {
	c := roundup(n)
	r := &region{size: c, st: stLive}
	if a.o.Fault {
		r.mmap, r.mem = faultAlloc(c)
		if r.mmap == nil {
			a.st.FaultMmapFailures++
		}
	}
	if r.mem == nil {
		r.mem = make([]byte, c)
	}
	if !a.o.NoFill {
		fill(r.mem, a.o.Fill)
	}
	r.base = uintptr(unsafe.Pointer(unsafe.SliceData(r.mem)))
	a.seq++
	r.id = a.seq
	runtime.Callers(skip+1, r.alloc[:])
	a.insert(r)
	a.thisCase = append(a.thisCase, r)
	r.counted = true
	a.st.LiveRegions++
	a.st.LiveBytes += int64(c)
	if a.st.LiveRegions > a.st.PeakLiveRegions {
		a.st.PeakLiveRegions = a.st.LiveRegions
	}
	if a.st.LiveBytes > a.st.PeakLiveBytes {
		a.st.PeakLiveBytes = a.st.LiveBytes
	}
	return r, r.mem[:n:c]
}

func (a *Allocator) uncount(r *region) {
	if r.counted {
		r.counted = false
		a.st.LiveRegions--
		a.st.LiveBytes -= int64(r.size)
	}
}

func fill(b []byte, v byte) {
	if len(b) == 0 {
		return
	}
	b[0] = v
	for i := 1; i < len(b); i *= 2 {
		copy(b[i:], b[:i])
	}
}

// ---------------------------------------------------------------- stacks

func (a *Allocator) frames(s *stack, all bool) []string {
	n := 0
	for n < len(s) && s[n] != 0 {
		n++
	}
	if n == 0 {
		return nil
	}
	var out []string
	fr := runtime.CallersFrames(s[:n])
	for {
		f, more := fr.Next()
		if f.Function != "" {
			if t, ok := a.under(f.Function); all || ok {
				out = append(out, fmt.Sprintf("%s (%s:%d)", t, shortFile(f.File), f.Line))
			}
		}
		if !more {
			break
		}
	}
	return out
}

// under says whether fn belongs to the code under test (a sub-package of the
// prefix, or the package the prefix names itself) and returns its short name.
func (a *Allocator) under(fn string) (string, bool) {
	if strings.HasPrefix(fn, a.o.FramePrefix) {
		return strings.TrimPrefix(fn, a.o.FramePrefix), true
	}
	if root := strings.TrimSuffix(a.o.FramePrefix, "/"); root != a.o.FramePrefix && strings.HasPrefix(fn, root+".") {
		return "nbio" + strings.TrimPrefix(fn, root), true
	}
	return fn, false
}

func shortFile(f string) string {
	if i := strings.LastIndex(f, "/"); i >= 0 {
		if j := strings.LastIndex(f[:i], "/"); j >= 0 {
			return f[j+1:]
		}
	}
	return f
}

// site returns the innermost function of the code under test on the stack,
// not counting the mempool package (which is the allocator API itself).
func (a *Allocator) site(s *stack) string {
	if v, ok := a.siteMemo[*s]; ok {
		return v
	}
	n := 0
	for n < len(s) && s[n] != 0 {
		n++
	}
	out := "outside-nbio"
	if n > 0 {
		fr := runtime.CallersFrames(s[:n])
		for {
			f, more := fr.Next()
			if t, ok := a.under(f.Function); ok && !strings.HasPrefix(t, "mempool.") {
				out = t
				break
			}
			if !more {
				break
			}
		}
	}
	if len(a.siteMemo) < 4096 {
		a.siteMemo[*s] = out
	}
	return out
}

func (a *Allocator) describe(r *region, cur *stack) string {
	var sb strings.Builder
	fmt.Fprintf(&sb, "region #%d base=%#x cap=%d state=%s\n", r.id, r.base, r.size, r.st)
	fmt.Fprintf(&sb, " allocated by: %s\n", strings.Join(a.frames(&r.alloc, false), " <- "))
	if r.st == stFreed {
		fmt.Fprintf(&sb, " freed by:     %s\n", strings.Join(a.frames(&r.free, false), " <- "))
	}
	if cur != nil {
		fmt.Fprintf(&sb, " now:          %s\n", strings.Join(a.frames(cur, false), " <- "))
	}
	return sb.String()
}

type pending struct {
	rep Report
}

func (a *Allocator) mkReport(kind string, r *region, cur *stack, extra string) Report {
	rep := Report{Kind: kind, AllocSite: a.site(&r.alloc)}
	if r.st == stFreed {
		rep.FreeSite = a.site(&r.free)
	}
	if cur != nil {
		rep.Site = a.site(cur)
	}
	rep.Detail = kind + ": " + extra + "\n" + a.describe(r, cur)
	a.st.Reports++
	return rep
}

func (a *Allocator) deliver(reps []Report) {
	if len(reps) == 0 {
		return
	}
	a.mu.Lock()
	f := a.onReport
	a.mu.Unlock()
	if f == nil {
		return
	}
	for _, r := range reps {
		f(r)
	}
}

// ---------------------------------------------------------------- mempool.Allocator

// Malloc returns a fresh buffer of length size; its memory has never been
// handed out before and never will be again.
func (a *Allocator) Malloc(size int) *[]byte {
	if size < 0 {
		size = 0
	}
	a.mu.Lock()
	_, b := a.newRegion(size, 2)
	a.st.Mallocs++
	a.cMallocs++
	a.mu.Unlock()
	p := new([]byte)
	*p = b
	return p
}

// Realloc mirrors MemPool.Realloc: within capacity it re-slices, otherwise it
// returns a new buffer and frees the old one.
func (a *Allocator) Realloc(p *[]byte, size int) *[]byte {
	if p == nil {
		return a.Malloc(size)
	}
	var reps []Report
	a.mu.Lock()
	a.st.Reallocs++
	var cur stack
	if r := a.find(basePtr(*p)); r != nil && r.st == stFreed {
		runtime.Callers(2, cur[:])
		reps = append(reps, a.mkReport(KindReallocAfterFree, r, &cur, fmt.Sprintf("Realloc(len %d cap %d -> %d) on a buffer that has been freed", len(*p), cap(*p), size)))
	}
	if size <= cap(*p) {
		*p = (*p)[:size]
		a.mu.Unlock()
		a.deliver(reps)
		return p
	}
	_, nb := a.newRegion(size, 2)
	a.st.Grows++
	a.mu.Unlock()
	if !(a.o.Fault && len(reps) > 0) {
		copy(nb, *p)
	}
	np := new([]byte)
	*np = nb
	a.deliver(reps)
	if len(reps) == 0 {
		a.Free(p)
	}
	return np
}

// Append mirrors MemPool.Append (`*p = append(*p, more...)`, same pointer
// returned).
func (a *Allocator) Append(p *[]byte, more ...byte) *[]byte {
	return a.appendBytes(p, more, "")
}

// AppendString mirrors MemPool.AppendString.
func (a *Allocator) AppendString(p *[]byte, more string) *[]byte {
	return a.appendBytes(p, nil, more)
}

func (a *Allocator) appendBytes(p *[]byte, mb []byte, ms string) *[]byte {
	if p == nil {
		p = new([]byte)
	}
	nmore := len(mb) + len(ms)
	var reps []Report
	a.mu.Lock()
	a.st.Appends++
	r := a.find(basePtr(*p))
	switch {
	case r == nil:
		a.st.ForeignAppends++
	case r.st == stFreed:
		var cur stack
		runtime.Callers(3, cur[:])
		reps = append(reps, a.mkReport(KindAppendAfterFree, r, &cur, fmt.Sprintf("Append of %d bytes to a buffer (len %d cap %d) that has been freed", nmore, len(*p), cap(*p))))
	case r.st == stAbandoned:
		a.st.AbandonedAppends++
	}
	if a.o.MoveOnGrow && !a.o.Fault && r != nil && r.st == stLive && len(*p)+nmore > cap(*p) {
		// growth the way a moving allocator does it: new buffer, new pointer, the old one is freed
		need := len(*p) + nmore
		nc := 2 * cap(*p)
		if nc < need {
			nc = need
		}
		_, nb := a.newRegion(nc, 3)
		a.st.Grows++
		nb = nb[:len(*p)]
		copy(nb, *p)
		a.mu.Unlock()
		np := new([]byte)
		*np = nb
		a.Free(p)
		if mb != nil {
			*np = append(*np, mb...)
		} else {
			*np = append(*np, ms...)
		}
		a.deliver(reps)
		return np
	}
	if r != nil && r.st == stLive && len(*p)+nmore > cap(*p) {
		// growth: a new region, the old one is abandoned (not freed)
		need := len(*p) + nmore
		nc := 2 * cap(*p)
		if nc < need {
			nc = need
		}
		nr, nb := a.newRegion(nc, 3)
		_ = nr
		a.st.Grows++
		nb = nb[:len(*p)]
		copy(nb, *p)
		r.st = stAbandoned
		a.uncount(r)
		*p = nb
	}
	if r != nil && r.st == stFreed {
		// The append below is what every real pool does; on a freed region it
		// scribbles over the poison exactly like the real code scribbles over
		// the next owner's data. The sweep skips the region: it has been
		// reported already.
		r.poisonReported = true
		r.headerReported = true
		if r.mmap != nil {
			// the pages are inaccessible: continue on a detached copy
			*p = make([]byte, len(*p), len(*p)+nmore)
		}
	}
	a.mu.Unlock()
	if mb != nil {
		*p = append(*p, mb...)
	} else {
		*p = append(*p, ms...)
	}
	a.deliver(reps)
	return p
}

// Free returns a buffer. The region is poisoned and quarantined.
func (a *Allocator) Free(p *[]byte) {
	if p == nil {
		return
	}
	if cap(*p) == 0 {
		a.mu.Lock()
		a.st.ZeroCapFrees++
		a.mu.Unlock()
		return
	}
	var reps []Report
	a.mu.Lock()
	a.st.Frees++
	a.cFrees++
	bp := basePtr(*p)
	r := a.find(bp)
	switch {
	case r == nil:
		a.st.ForeignFrees++
	case r.st == stAbandoned:
		a.st.AbandonedFrees++
	case r.st == stFreed:
		var cur stack
		runtime.Callers(2, cur[:])
		reps = append(reps, a.mkReport(KindDoubleFree, r, &cur, "Free of a buffer that has already been freed"))
	default:
		if bp != r.base {
			a.st.InteriorFrees++
		}
		runtime.Callers(2, r.free[:])
		r.st = stFreed
		r.caseN = a.caseN
		r.fhdr = p
		r.fptr, r.flen, r.fcap = bp, len(*p), cap(*p)
		a.uncount(r)
		if r.mmap != nil {
			faultProtect(r.mmap)
			// a mapping is a scarce resource: the bound on retired regions
			// must also hold inside a case that frees tens of thousands
			a.retire(r)
			reps = a.evict(reps)
		} else {
			fill(r.mem, a.o.Poison)
			a.st.PoisonedBytes += int64(r.size)
		}
		if len(a.pairs) < 4096 {
			a.pairs[a.site(&r.alloc)+"|"+a.site(&r.free)] = struct{}{}
		}
	}
	a.mu.Unlock()
	a.deliver(reps)
}

// ---------------------------------------------------------------- harness side

// CheckLive is called by the harness for every byte slice it receives from
// the code under test (net.Conn.Write input, body bytes, message payloads). If
// b lies inside a freed region a report of the given kind is made and false
// is returned.
func (a *Allocator) CheckLive(b []byte, kind string) bool {
	if cap(b) == 0 {
		return true
	}
	a.mu.Lock()
	r := a.find(basePtr(b))
	if r == nil || r.st != stFreed {
		a.mu.Unlock()
		return true
	}
	var cur stack
	runtime.Callers(2, cur[:])
	rep := a.mkReport(kind, r, &cur, fmt.Sprintf("the harness was handed %d bytes at offset %d of a region that has been freed", len(b), basePtr(b)-r.base))
	a.mu.Unlock()
	a.deliver([]Report{rep})
	return false
}

// State tells what the allocator knows about the memory b points into:
// "live", "freed", "abandoned-by-growth" or "foreign".
func (a *Allocator) State(b []byte) string {
	if cap(b) == 0 {
		return "foreign"
	}
	a.mu.Lock()
	defer a.mu.Unlock()
	if r := a.find(basePtr(b)); r != nil {
		return r.st.String()
	}
	return "foreign"
}

// check verifies the poison and the freed header of one freed region.
func (a *Allocator) check(r *region, reps []Report) []Report {
	if r.st != stFreed || r.mem == nil {
		return reps
	}
	if r.mmap == nil && !r.poisonReported {
		a.st.SweptBytes += int64(r.size)
		if r.mem[0] == a.o.Poison && bytes.Equal(r.mem[1:], r.mem[:len(r.mem)-1]) {
			goto HEADER
		}
		for i, c := range r.mem {
			if c != a.o.Poison {
				j := i
				for j < len(r.mem) && j < i+24 {
					j++
				}
				last := i
				for k := len(r.mem) - 1; k > i; k-- {
					if r.mem[k] != a.o.Poison {
						last = k
						break
					}
				}
				r.poisonReported = true
				reps = append(reps, a.mkReport(KindWriteAfterFree, r, nil, fmt.Sprintf("a freed buffer was written to: poison 0x%02x overwritten in [%d,%d] of %d bytes, first bytes there: %q", a.o.Poison, i, last, r.size, r.mem[i:j])))
				break
			}
		}
	}
HEADER:
	if !r.headerReported && r.fhdr != nil {
		if bp := basePtr(*r.fhdr); (cap(*r.fhdr) != 0 && bp != r.fptr) || len(*r.fhdr) != r.flen || cap(*r.fhdr) != r.fcap {
			r.headerReported = true
			reps = append(reps, a.mkReport(KindHeaderAfterFree, r, nil, fmt.Sprintf("the *[]byte passed to Free was modified afterwards: (ptr %#x len %d cap %d) at Free, (ptr %#x len %d cap %d) now; the real pool keeps that pointer and hands it to the next Malloc", r.fptr, r.flen, r.fcap, bp, len(*r.fhdr), cap(*r.fhdr))))
		}
	}
	return reps
}

func (r *region) footprint() int {
	if r.mmap != nil {
		return len(r.mmap)
	}
	return r.size
}

func (a *Allocator) retire(r *region) {
	if r.retired {
		return
	}
	r.retired = true
	a.fifo = append(a.fifo, r)
	a.fifoSize += r.footprint()
}

func (a *Allocator) evict(reps []Report) []Report {
	for a.fifoHead < len(a.fifo) && (a.fifoSize > a.o.QuarantineBytes || (a.o.QuarantineRegions > 0 && len(a.fifo)-a.fifoHead > a.o.QuarantineRegions)) {
		r := a.fifo[a.fifoHead]
		a.fifo[a.fifoHead] = nil
		a.fifoHead++
		a.fifoSize -= r.footprint()
		reps = a.check(r, reps)
		a.uncount(r)
		a.remove(r)
		a.st.Evicted++
		if a.o.Fault {
			// A region that is still live (leaked) stays mapped for ever: the
			// code under test may use it legitimately at any later time. A
			// region abandoned by growth is unmapped like a freed one: stale
			// use is legal right after the growing Append, not thousands of
			// retired regions later.
			if r.mmap == nil {
				// served from ordinary memory
			} else if r.st == stLive {
				a.st.FaultMappingsKept++
				faultKeep(r.mmap)
			} else {
				faultRelease(r.mmap)
			}
		}
		r.mem, r.mmap, r.fhdr = nil, nil, nil
	}
	if a.fifoHead > 1024 && a.fifoHead*2 > len(a.fifo) {
		a.fifo = append([]*region(nil), a.fifo[a.fifoHead:]...)
		a.fifoHead = 0
	}
	return reps
}

// CaseStats is what EndCase returns.
type CaseStats struct {
	Mallocs, Frees int64
	Leaked         int // regions allocated in this case and still live
	LeakedBytes    int
	LeakSites      []string // innermost nbio functions that allocated them
}

// EndCase closes a case: every region allocated during the case is checked
// (poison intact, freed header untouched), regions still live are counted as
// leaked (allowed by the property), and everything is retired to the
// quarantine, where it is checked once more when it is evicted (FIFO by
// bytes) or at Sweep.
func (a *Allocator) EndCase() CaseStats {
	var reps []Report
	a.mu.Lock()
	cs := CaseStats{Mallocs: a.cMallocs, Frees: a.cFrees}
	a.cMallocs, a.cFrees = 0, 0
	for _, r := range a.thisCase {
		reps = a.check(r, reps)
		if r.st == stLive && r.mem != nil {
			cs.Leaked++
			cs.LeakedBytes += r.size
			if len(cs.LeakSites) < 8 {
				cs.LeakSites = append(cs.LeakSites, a.site(&r.alloc))
			}
			a.st.Leaked++
			a.uncount(r)
		}
		a.retire(r)
	}
	a.thisCase = a.thisCase[:0]
	a.caseN++
	reps = a.evict(reps)
	a.mu.Unlock()
	a.deliver(reps)
	return cs
}

// Sweep checks every freed region the allocator still knows.
func (a *Allocator) Sweep() {
	var reps []Report
	a.mu.Lock()
	for _, r := range a.thisCase {
		reps = a.check(r, reps)
	}
	for _, r := range a.fifo[a.fifoHead:] {
		reps = a.check(r, reps)
	}
	a.mu.Unlock()
	a.deliver(reps)
}

// Stats returns a copy of the counters.
func (a *Allocator) Stats() Stats {
	a.mu.Lock()
	defer a.mu.Unlock()
	return a.st
}

// SitePairs returns the distinct "allocSite|freeSite" pairs seen so far.
func (a *Allocator) SitePairs() []string {
	a.mu.Lock()
	defer a.mu.Unlock()
	out := make([]string, 0, len(a.pairs))
	for k := range a.pairs {
		out = append(out, k)
	}
	sort.Strings(out)
	return out
}

// DistinctAllocFreeSitePairs is len(SitePairs()).
func (a *Allocator) DistinctAllocFreeSitePairs() int {
	a.mu.Lock()
	defer a.mu.Unlock()
	return len(a.pairs)
}
