package guardalloc

import (
	"bytes"
	"os"
	"os/exec"
	"strings"
	"testing"
)

var sink byte

type rec struct{ reps []Report }

func newRec(o Options) (*Allocator, *rec) {
	a := New(o)
	r := &rec{}
	a.OnReport(func(x Report) { r.reps = append(r.reps, x) })
	return a, r
}

func (r *rec) kinds() string {
	var k []string
	for _, x := range r.reps {
		k = append(k, x.Kind)
	}
	return strings.Join(k, ",")
}

func TestCleanLifecycle(t *testing.T) {
	a, r := newRec(Options{})
	p := a.Malloc(100)
	if len(*p) != 100 || cap(*p) != 112 {
		t.Fatalf("len %d cap %d", len(*p), cap(*p))
	}
	for _, c := range *p {
		if c != 0xCD {
			t.Fatalf("fresh memory not filled: %x", c)
		}
	}
	*p = (*p)[:0]
	p = a.AppendString(p, "hello")
	p = a.Append(p, []byte(" world")...)
	if string(*p) != "hello world" {
		t.Fatalf("%q", *p)
	}
	q := a.Realloc(p, 50) // within capacity: same pointer
	if q != p || len(*q) != 50 {
		t.Fatal("realloc within capacity")
	}
	q2 := a.Realloc(q, 5000) // grows: new pointer, old one freed by the allocator
	if q2 == q || len(*q2) != 5000 || string((*q2)[:11]) != "hello world" {
		t.Fatal("realloc growth")
	}
	a.Free(q2)
	cs := a.EndCase()
	a.Sweep()
	if len(r.reps) != 0 {
		t.Fatalf("clean lifecycle reported %s\n%s", r.kinds(), r.reps[0].Detail)
	}
	if cs.Leaked != 0 || cs.Mallocs != 1 || cs.Frees != 2 {
		t.Fatalf("%+v", cs)
	}
	st := a.Stats()
	if st.Mallocs != 1 || st.Grows != 1 || st.Frees != 2 || st.LiveRegions != 0 || st.PeakLiveRegions != 2 {
		t.Fatalf("%+v", st)
	}
}

func TestDoubleFree(t *testing.T) {
	a, r := newRec(Options{})
	p := a.Malloc(64)
	a.Free(p)
	a.Free(p)
	if r.kinds() != KindDoubleFree {
		t.Fatalf("got %q", r.kinds())
	}
	if !strings.Contains(r.reps[0].Detail, "freed by") {
		t.Fatal(r.reps[0].Detail)
	}
	// a re-sliced copy of the header still resolves to the region
	a2, r2 := newRec(Options{})
	p2 := a2.Malloc(64)
	h := (*p2)[10:20]
	a2.Free(p2)
	a2.Free(&h)
	if r2.kinds() != KindDoubleFree {
		t.Fatalf("interval lookup: got %q", r2.kinds())
	}
}

func TestAppendAfterFree(t *testing.T) {
	a, r := newRec(Options{})
	p := a.Malloc(64)
	*p = (*p)[:0]
	a.Free(p)
	p = a.AppendString(p, "x")
	p = a.Append(p, 'y')
	if r.kinds() != KindAppendAfterFree+","+KindAppendAfterFree {
		t.Fatalf("got %q", r.kinds())
	}
	if string(*p) != "xy" {
		t.Fatalf("the run must continue like on the real pool: %q", *p)
	}
	a.EndCase() // the scribbled poison was reported with the append: no second report
	if len(r.reps) != 2 {
		t.Fatalf("got %q", r.kinds())
	}
	q := a.Malloc(8)
	a.Free(q)
	a.Realloc(q, 4)
	if r.reps[len(r.reps)-1].Kind != KindReallocAfterFree {
		t.Fatalf("got %q", r.kinds())
	}
}

func TestWriteAfterFree(t *testing.T) {
	a, r := newRec(Options{})
	p := a.Malloc(4096)
	keep := *p
	a.Free(p)
	for _, c := range keep {
		if c != 0xDB {
			t.Fatal("not poisoned")
		}
	}
	keep[1000] = 'A'
	keep[1001] = 'B'
	a.EndCase()
	if r.kinds() != KindWriteAfterFree {
		t.Fatalf("got %q", r.kinds())
	}
	if !strings.Contains(r.reps[0].Detail, "[1000,1001]") {
		t.Fatal(r.reps[0].Detail)
	}
	a.Sweep() // reported once
	if len(r.reps) != 1 {
		t.Fatalf("got %q", r.kinds())
	}
	// a write that happens after the case has ended is found by the next sweep
	p2 := a.Malloc(32)
	k2 := *p2
	a.Free(p2)
	a.EndCase()
	k2[0] = 0
	a.Sweep()
	if len(r.reps) != 2 || r.reps[1].Kind != KindWriteAfterFree {
		t.Fatalf("got %q", r.kinds())
	}
}

func TestHeaderWriteAfterFree(t *testing.T) {
	a, r := newRec(Options{})
	p := a.Malloc(100)
	a.Free(p)
	*p = (*p)[0:0]
	a.EndCase()
	if r.kinds() != KindHeaderAfterFree {
		t.Fatalf("got %q", r.kinds())
	}
}

func TestStaleUseAfterGrowthIsLegal(t *testing.T) {
	a, r := newRec(Options{})
	p := a.Malloc(16)
	*p = (*p)[:0]
	p = a.AppendString(p, "0123456789abcdef")
	old := *p // stale copy of the header
	p2 := a.AppendString(p, "GROW")
	if p2 != p {
		t.Fatal("Append must return the same pointer")
	}
	if string(*p) != "0123456789abcdefGROW" {
		t.Fatalf("%q", *p)
	}
	if a.State(old) != "abandoned-by-growth" {
		t.Fatal(a.State(old))
	}
	old2 := old
	old[0] = 'X'                    // stale write: ordinary Go semantics
	_ = a.Append(&old, 'y')         // stale append (moves old to a foreign array, like Go's append)
	a.CheckLive(old2, "read-stale") // stale read
	a.Free(&old2)                   // stale free: a different array than *p
	a.Free(p)
	a.EndCase()
	a.Sweep()
	if len(r.reps) != 0 {
		t.Fatalf("stale use after growth alarmed: %s\n%s", r.kinds(), r.reps[0].Detail)
	}
	st := a.Stats()
	if st.Grows != 1 || st.AbandonedFrees != 1 || st.AbandonedAppends != 1 {
		t.Fatalf("%+v", st)
	}
}

func TestForeignAndZeroCap(t *testing.T) {
	a, r := newRec(Options{})
	f := make([]byte, 10)
	a.Free(&f)
	a.Free(&f)
	var z []byte
	a.Free(&z)
	a.Free(nil)
	pf := a.Append(&f, 'a')
	if len(*pf) != 11 {
		t.Fatal("foreign append")
	}
	p0 := a.Malloc(0)
	if len(*p0) != 0 || cap(*p0) == 0 {
		t.Fatal("Malloc(0) must be a tracked region")
	}
	p0 = a.AppendString(p0, "0\r\n\r\n")
	a.Free(p0)
	a.EndCase()
	if len(r.reps) != 0 {
		t.Fatalf("got %q", r.kinds())
	}
	st := a.Stats()
	if st.ForeignFrees != 2 || st.ZeroCapFrees != 1 || st.ForeignAppends != 1 {
		t.Fatalf("%+v", st)
	}
}

func TestCheckLive(t *testing.T) {
	a, r := newRec(Options{})
	p := a.Malloc(200)
	b := (*p)[50:60]
	if !a.CheckLive(b, "freed-buffer-handed-to-conn-write") {
		t.Fatal("live buffer reported")
	}
	a.Free(p)
	if a.CheckLive(b, "freed-buffer-handed-to-conn-write") {
		t.Fatal("freed buffer not reported")
	}
	if r.kinds() != "freed-buffer-handed-to-conn-write" {
		t.Fatalf("got %q", r.kinds())
	}
}

func TestLeaksAreCountedNotReported(t *testing.T) {
	a, r := newRec(Options{})
	p := a.Malloc(10)
	cs := a.EndCase()
	if cs.Leaked != 1 || len(r.reps) != 0 {
		t.Fatalf("%+v %q", cs, r.kinds())
	}
	a.Free(p) // freed in a later case: fine
	a.Free(p) // still a double free
	if r.kinds() != KindDoubleFree {
		t.Fatalf("got %q", r.kinds())
	}
}

func TestQuarantineEviction(t *testing.T) {
	a, r := newRec(Options{QuarantineBytes: 1 << 16})
	var first []byte
	for i := 0; i < 100; i++ {
		p := a.Malloc(4096)
		if i == 0 {
			first = *p
		}
		a.Free(p)
		if i == 0 {
			first[7] = 1 // found when the region is evicted at the latest
		}
		a.EndCase()
	}
	if r.kinds() != KindWriteAfterFree {
		t.Fatalf("got %q", r.kinds())
	}
	st := a.Stats()
	if st.Evicted == 0 || st.Evicted >= 100 {
		t.Fatalf("%+v", st)
	}
	if a.State(first) != "foreign" {
		t.Fatal("evicted region still known")
	}
}

func TestSitePairsAndConcurrency(t *testing.T) {
	a, r := newRec(Options{FramePrefix: "verif/internal/guardalloc."})
	done := make(chan struct{})
	for g := 0; g < 8; g++ {
		go func() {
			for i := 0; i < 2000; i++ {
				p := a.Malloc(i % 300)
				p = a.AppendString(p, "abcdefghijklmnopqrstuvwxyz0123456789")
				a.Free(p)
			}
			done <- struct{}{}
		}()
	}
	for g := 0; g < 8; g++ {
		<-done
	}
	a.EndCase()
	if len(r.reps) != 0 {
		t.Fatalf("got %q\n%s", r.kinds(), r.reps[0].Detail)
	}
	if n := a.DistinctAllocFreeSitePairs(); n < 1 {
		t.Fatalf("pairs %v", a.SitePairs())
	}
	for _, p := range a.SitePairs() {
		if !strings.Contains(p, "TestSitePairsAndConcurrency") {
			t.Fatalf("pair %q", p)
		}
	}
}

// fault mode: every use after free is a hardware fault, so the scenarios run
// in a child process.
func TestFaultMode(t *testing.T) {
	if mode := os.Getenv("GUARDALLOC_FAULT_CHILD"); mode != "" {
		a := New(Options{Fault: true})
		p := a.Malloc(100)
		copy(*p, bytes.Repeat([]byte{'x'}, 100))
		p = a.AppendString(p, "grow beyond the capacity so that a new mapping is made")
		keep := *p
		switch mode {
		case "clean":
			a.Free(p)
			a.EndCase()
			os.Exit(0)
		case "read":
			a.Free(p)
			sink = keep[0]
		case "write":
			a.Free(p)
			keep[3] = 1
		case "overrun":
			full := keep[:cap(keep)]
			_ = full[len(full)-1]
			p := unsafeNext(full)
			*p = 1
		}
		os.Exit(0)
	}
	for _, mode := range []string{"clean", "read", "write", "overrun"} {
		cmd := exec.Command(os.Args[0], "-test.run", "^TestFaultMode$")
		cmd.Env = append(os.Environ(), "GUARDALLOC_FAULT_CHILD="+mode)
		out, err := cmd.CombinedOutput()
		if mode == "clean" {
			if err != nil {
				t.Fatalf("clean child failed: %v\n%s", err, out)
			}
			continue
		}
		if err == nil || !(bytes.Contains(out, []byte("fatal error: fault")) || bytes.Contains(out, []byte("unexpected fault address"))) {
			t.Fatalf("mode %s: expected a fault, got err=%v\n%s", mode, err, out)
		}
	}
}
