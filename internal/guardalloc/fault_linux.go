package guardalloc

import (
	"fmt"
	"syscall"
)

const pageSize = 4096

// faultAlloc maps whole pages plus one trailing guard page and returns the
// mapping and the window of c bytes that ends right at the guard page.
func faultAlloc(c int) (mapping, window []byte) {
	body := (c + pageSize - 1) &^ (pageSize - 1)
	m, err := syscall.Mmap(-1, 0, body+pageSize, syscall.PROT_READ|syscall.PROT_WRITE, syscall.MAP_ANON|syscall.MAP_PRIVATE)
	if err != nil {
		panic(fmt.Sprintf("guardalloc: mmap %d: %v", body+pageSize, err))
	}
	if err := syscall.Mprotect(m[body:], syscall.PROT_NONE); err != nil {
		panic(fmt.Sprintf("guardalloc: mprotect guard: %v", err))
	}
	return m, m[body-c : body : body]
}

// faultProtect makes a freed mapping inaccessible and gives its pages back.
func faultProtect(m []byte) {
	_ = syscall.Madvise(m, syscall.MADV_DONTNEED)
	if err := syscall.Mprotect(m, syscall.PROT_NONE); err != nil {
		panic(fmt.Sprintf("guardalloc: mprotect: %v", err))
	}
}

// faultRelease unmaps a mapping that leaves the quarantine.
func faultRelease(m []byte) {
	if m != nil {
		_ = syscall.Munmap(m)
	}
}
