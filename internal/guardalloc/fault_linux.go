package guardalloc

import (
	"fmt"
	"syscall"
)

const pageSize = 4096

// faultAlloc maps whole pages plus one trailing guard page and returns the
// mapping and the window of c bytes that ends right at the guard page.
// It returns nil, nil when the kernel refuses (too many mappings): the caller
// falls back to ordinary memory for that region.
func faultAlloc(c int) (mapping, window []byte) {
	body := (c + pageSize - 1) &^ (pageSize - 1)
	m, err := syscall.Mmap(-1, 0, body+pageSize, syscall.PROT_READ|syscall.PROT_WRITE, syscall.MAP_ANON|syscall.MAP_PRIVATE)
	if err != nil {
		return nil, nil
	}
	if err := syscall.Mprotect(m[body:], syscall.PROT_NONE); err != nil {
		_ = syscall.Munmap(m)
		return nil, nil
	}
	return m, m[body-c : body : body]
}

// faultKeep is for a mapping that stays accessible for ever: its guard page
// is opened so that the kernel can merge it with its neighbours.
func faultKeep(m []byte) {
	if len(m) > pageSize {
		_ = syscall.Mprotect(m[len(m)-pageSize:], syscall.PROT_READ|syscall.PROT_WRITE)
	}
}

// faultProtect makes a freed mapping inaccessible and gives its pages back.
func faultProtect(m []byte) {
	_ = syscall.Madvise(m, syscall.MADV_DONTNEED)
	if err := syscall.Mprotect(m, syscall.PROT_NONE); err != nil {
		panic(fmt.Sprintf("guardalloc: mprotect: %v", err))
	}
}

// faultRelease unmaps a mapping that leaves the quarantine.
func faultRelease(m []byte) {
	if m != nil {
		_ = syscall.Munmap(m)
	}
}
