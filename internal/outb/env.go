package outb

import (
	"fmt"
	"net"
	"os"
	"path/filepath"
	"runtime"
	"strings"
	"sync"
	"sync/atomic"
	"syscall"
	"time"
	"unsafe"

	"github.com/lesismal/nbio"
	"github.com/lesismal/nbio/logging"

	"verif/internal/h"
)

// Clock is the single logical clock all events of a case are stamped with.
var clock int64

func Tick() int64 { return atomic.AddInt64(&clock, 1) }

// Cfg is one configuration cell.
type Cfg struct {
	Net     string `json:"net"`  // tcp | unix
	Mode    string `json:"mode"` // LT | ET | ONESHOT
	MaxWB   int    `json:"max_write_buffer,omitempty"`
	SndBuf  int    `json:"sndbuf,omitempty"`
	RcvBuf  int    `json:"rcvbuf,omitempty"`
	NPoller int    `json:"npoller,omitempty"`
	// Written registers an OnWrittenSize handler that yields or sleeps a few
	// microseconds: a delay point inside the write and flush paths (the
	// library calls it with the connection lock held).
	Written bool `json:"written_handler,omitempty"`
	// Async: Config.AsyncReadInPoller (reading jobs on the IO executor; effective in ET and ONESHOT).
	Async bool `json:"async_read,omitempty"`
}

func (c Cfg) Cell() string { return c.Net + "/" + c.Mode }

var sockSeq int64

// Env is a started engine plus its address.
type Env struct {
	Cfg  Cfg
	G    *nbio.Engine
	Addr string
	dir  string

	mu     sync.Mutex
	opened []*nbio.Conn
	OnOpen func(c *nbio.Conn)
	OnData func(c *nbio.Conn, b []byte)
	// OnCloseHook runs inside the engine's close callback.
	OnCloseHook func(c *nbio.Conn, err error)
	// closes: conn -> errors seen
	closes map[*nbio.Conn][]error
	// WrittenCalls / WrittenBytes count the OnWrittenSize reports (Cfg.Written).
	WrittenCalls int64
	WrittenBytes int64
}

// Log captures nbio's log output for every outbound worker.
var Log = &h.CapLogger{}

func init() {
	logging.SetLogger(Log)
	// the default table is sized by RLIMIT_NOFILE (up to 2M entries per engine)
	if nbio.MaxOpenFiles > 1<<16 {
		nbio.MaxOpenFiles = 1 << 16
	}
}

// NewEnv builds and starts an engine for cfg. Handlers must be set through the
// returned Env before the first connection arrives (fields OnOpen/OnData).
func NewEnv(cfg Cfg) (*Env, error) {
	e := &Env{Cfg: cfg, closes: map[*nbio.Conn][]error{}}
	conf := nbio.Config{Network: cfg.Net, NPoller: cfg.NPoller, MaxWriteBufferSize: cfg.MaxWB, AsyncReadInPoller: cfg.Async}
	if conf.NPoller == 0 {
		conf.NPoller = 1
	}
	switch cfg.Mode {
	case "LT":
		conf.EpollMod = nbio.EPOLLLT
	case "ET":
		conf.EpollMod = nbio.EPOLLET
	case "ONESHOT":
		conf.EpollMod = nbio.EPOLLET
		conf.EPOLLONESHOT = nbio.EPOLLONESHOT
	default:
		return nil, fmt.Errorf("bad mode %q", cfg.Mode)
	}
	switch cfg.Net {
	case "tcp":
		conf.Addrs = []string{"127.0.0.1:0"}
	case "unix":
		d, err := os.MkdirTemp("", "vsock")
		if err != nil {
			return nil, err
		}
		e.dir = d
		conf.Addrs = []string{filepath.Join(d, fmt.Sprintf("s%d.sock", atomic.AddInt64(&sockSeq, 1)))}
	default:
		return nil, fmt.Errorf("bad net %q", cfg.Net)
	}
	g := nbio.NewEngine(conf)
	g.OnOpen(func(c *nbio.Conn) {
		e.mu.Lock()
		e.opened = append(e.opened, c)
		f := e.OnOpen
		e.mu.Unlock()
		if f != nil {
			f(c)
		}
	})
	g.OnClose(func(c *nbio.Conn, err error) {
		e.mu.Lock()
		e.closes[c] = append(e.closes[c], err)
		f := e.OnCloseHook
		e.mu.Unlock()
		if f != nil {
			f(c, err)
		}
	})
	g.OnData(func(c *nbio.Conn, b []byte) {
		e.mu.Lock()
		f := e.OnData
		e.mu.Unlock()
		if f != nil {
			f(c, b)
		}
	})
	if cfg.Written {
		g.OnWrittenSize(func(c *nbio.Conn, b []byte, n int) {
			x := atomic.AddInt64(&e.WrittenCalls, 1)
			atomic.AddInt64(&e.WrittenBytes, int64(n))
			switch x % 4 {
			case 0:
				time.Sleep(time.Duration(20+x%97) * time.Microsecond)
			case 1, 2:
				runtime.Gosched()
			}
		})
	}
	if err := g.Start(); err != nil {
		if e.dir != "" {
			os.RemoveAll(e.dir)
		}
		return nil, err
	}
	e.G = g
	e.Addr = g.Addrs[0]
	return e, nil
}

// Closes returns the close notifications seen for c.
func (e *Env) Closes(c *nbio.Conn) []error {
	e.mu.Lock()
	defer e.mu.Unlock()
	return append([]error(nil), e.closes[c]...)
}

// Stop stops the engine and removes scratch files.
func (e *Env) Stop() {
	done := make(chan struct{})
	go func() { e.G.Stop(); close(done) }()
	select {
	case <-done:
	case <-time.After(20 * time.Second):
		// C18 decides Stop; here a hang only costs this case
	}
	if e.dir != "" {
		os.RemoveAll(e.dir)
	}
}

// Dial connects an ordinary blocking peer.
func (e *Env) Dial() (net.Conn, error) {
	c, err := net.DialTimeout(e.Cfg.Net, e.Addr, 5*time.Second)
	if err != nil {
		return nil, err
	}
	if e.Cfg.RcvBuf > 0 {
		switch v := c.(type) {
		case *net.TCPConn:
			_ = v.SetReadBuffer(e.Cfg.RcvBuf)
		case *net.UnixConn:
			_ = v.SetReadBuffer(e.Cfg.RcvBuf)
		}
	}
	return c, nil
}

// ---------------------------------------------------------------- kernel oracles

// Writable asks poll(2) whether fd is writable right now.
func Writable(fd int) (bool, error) {
	type pollfd struct {
		fd      int32
		events  int16
		revents int16
	}
	p := pollfd{fd: int32(fd), events: 0x4}
	for {
		_, _, e := syscall.Syscall(syscall.SYS_POLL, uintptr(unsafe.Pointer(&p)), 1, 0)
		if e == syscall.EINTR {
			continue
		}
		if e != 0 {
			return false, e
		}
		return p.revents&0x4 != 0, nil
	}
}

func ioctlInt(fd int, req uintptr) (int, error) {
	var v int32
	_, _, e := syscall.Syscall(syscall.SYS_IOCTL, uintptr(fd), req, uintptr(unsafe.Pointer(&v)))
	if e != 0 {
		return 0, e
	}
	return int(v), nil
}

// OutQ returns the bytes in the socket's send queue (SIOCOUTQ).
func OutQ(fd int) (int, error) { return ioctlInt(fd, 0x5411) }

// InQ returns the bytes readable without blocking (FIONREAD).
func InQ(fd int) (int, error) { return ioctlInt(fd, 0x541B) }

// FdOf extracts the descriptor of a std connection (for kernel oracles only).
func FdOf(c net.Conn) int {
	sc, ok := c.(syscall.Conn)
	if !ok {
		return -1
	}
	rc, err := sc.SyscallConn()
	if err != nil {
		return -1
	}
	fd := -1
	_ = rc.Control(func(f uintptr) { fd = int(f) })
	return fd
}

// TCPStates reports the kernel's view (state, queues) of both ends of a
// loopback TCP connection, from /proc/net/tcp. Diagnostics only.
func TCPStates(pc net.Conn) string {
	la, ok1 := pc.LocalAddr().(*net.TCPAddr)
	ra, ok2 := pc.RemoteAddr().(*net.TCPAddr)
	if !ok1 || !ok2 {
		return "n/a"
	}
	b, err := os.ReadFile("/proc/net/tcp")
	if err != nil {
		return "n/a"
	}
	names := map[string]string{"01": "ESTABLISHED", "02": "SYN_SENT", "03": "SYN_RECV", "04": "FIN_WAIT1", "05": "FIN_WAIT2", "06": "TIME_WAIT", "07": "CLOSE", "08": "CLOSE_WAIT", "09": "LAST_ACK", "0A": "LISTEN", "0B": "CLOSING"}
	lp, rp := fmt.Sprintf(":%04X", la.Port), fmt.Sprintf(":%04X", ra.Port)
	out := ""
	for _, l := range strings.Split(string(b), "\n") {
		f := strings.Fields(l)
		if len(f) < 10 {
			continue
		}
		if strings.HasSuffix(f[1], lp) && strings.HasSuffix(f[2], rp) {
			out += " peer-side=" + names[f[3]] + " tx:rx=" + f[4]
		}
		if strings.HasSuffix(f[1], rp) && strings.HasSuffix(f[2], lp) {
			out += " nbio-side=" + names[f[3]] + " tx:rx=" + f[4]
		}
	}
	if out == "" {
		return "no such connection in /proc/net/tcp"
	}
	return out
}

// FdDiag reports what the process's descriptor table and its epoll instances
// say about the descriptor of a harness-side connection: what the number refers
// to now, how many bytes wait unread, and which epoll instances have it
// registered. A reader parked on a descriptor that no epoll instance knows any
// more has lost its descriptor to a foreign close. Diagnostics only.
func FdDiag(pc net.Conn) string {
	sc, ok := pc.(syscall.Conn)
	if !ok {
		return "n/a"
	}
	rc, err := sc.SyscallConn()
	if err != nil {
		return "n/a: " + err.Error()
	}
	out := ""
	cerr := rc.Control(func(fd uintptr) {
		link, _ := os.Readlink(fmt.Sprintf("/proc/self/fd/%d", fd))
		var unread int32
		_, _, e := syscall.Syscall(syscall.SYS_IOCTL, fd, 0x541B /* FIONREAD */, uintptr(unsafe.Pointer(&unread)))
		out = fmt.Sprintf("fd %d -> %s, unread %d (errno %d)", fd, link, unread, e)
		ents, _ := os.ReadDir("/proc/self/fdinfo")
		for _, en := range ents {
			b, err := os.ReadFile("/proc/self/fdinfo/" + en.Name())
			if err != nil || !strings.Contains(string(b), "tfd:") {
				continue
			}
			for _, l := range strings.Split(string(b), "\n") {
				f := strings.Fields(l)
				if len(f) >= 4 && f[0] == "tfd:" && f[1] == fmt.Sprint(fd) {
					out += fmt.Sprintf("; registered in epoll fd %s: %s", en.Name(), strings.Join(f[2:], " "))
				}
			}
		}
	})
	if cerr != nil {
		out += " control: " + cerr.Error()
	}
	return out
}
