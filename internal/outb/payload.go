// Package outb holds what the outbound-stream workers (C01, C04, C17) share:
// self-describing payloads, the stream oracle, engine/peer plumbing and the
// syscall-shim policies.
package outb

import (
	"encoding/binary"
	"fmt"
	"sort"
)

// Every call's payload is a sequence of 16-byte cells
//
//	A5 5A | call id (4, BE) | cell index (6, BE) | check (4)
//
// (the last one truncated), so any 16 aligned-to-call bytes in the received
// stream name the call and the offset they came from.
const cellSize = 16

func cell(dst []byte, id uint32, j uint64) {
	dst[0] = 0xA5
	dst[1] = 0x5A
	binary.BigEndian.PutUint32(dst[2:6], id)
	dst[6] = byte(j >> 40)
	dst[7] = byte(j >> 32)
	binary.BigEndian.PutUint32(dst[8:12], uint32(j))
	x := uint32(j)*2654435761 ^ id*40503 ^ uint32(j>>32)*97
	x ^= x >> 15
	x *= 2246822519
	x ^= x >> 13
	binary.BigEndian.PutUint32(dst[12:16], x)
}

// Fill writes the payload of call id, starting at payload offset off, into b.
func Fill(b []byte, id uint32, off int64) {
	var c [cellSize]byte
	i := 0
	for i < len(b) {
		p := off + int64(i)
		j := uint64(p / cellSize)
		k := int(p % cellSize)
		cell(c[:], id, j)
		n := copy(b[i:], c[k:])
		i += n
	}
}

// Payload returns the first n payload bytes of call id.
func Payload(id uint32, n int) []byte {
	b := make([]byte, n)
	Fill(b, id, 0)
	return b
}

// Call is one Write/Writev/Sendfile invocation as seen at the API boundary.
type Call struct {
	ID     uint32 `json:"id"`
	Writer int    `json:"writer"`
	Seq    int    `json:"seq"`
	Kind   string `json:"kind"` // write | writev | sendfile
	Len    int    `json:"len"`  // total input length
	N      int    `json:"n"`    // bytes reported as accepted (<0 treated as 0)
	Err    string `json:"err,omitempty"`
	TCall  int64  `json:"t_call"`
	TRet   int64  `json:"t_ret"`
	// Open: the call returned a non-retryable error (or never returned): any
	// prefix of its input may have reached the wire, only as the last thing.
	Open bool `json:"open,omitempty"`
}

// Accepted is the number of bytes the call reported as accepted.
func (c *Call) Accepted() int {
	if c.Open {
		return c.Len
	}
	if c.N < 0 {
		return 0
	}
	if c.N > c.Len {
		return c.Len
	}
	return c.N
}

// StreamIssue describes an oracle failure on the received stream.
type StreamIssue struct {
	Sig    string
	Detail string
}

func describeAt(stream []byte, pos int) string {
	if pos+cellSize <= len(stream) && stream[pos] == 0xA5 && stream[pos+1] == 0x5A {
		id := binary.BigEndian.Uint32(stream[pos+2 : pos+6])
		j := uint64(stream[pos+6])<<40 | uint64(stream[pos+7])<<32 | uint64(binary.BigEndian.Uint32(stream[pos+8:pos+12]))
		return fmt.Sprintf("bytes there are the cell of call %d at payload offset %d", id, j*cellSize)
	}
	// try to find alignment nearby
	for d := 1; d < cellSize && pos+d+cellSize <= len(stream); d++ {
		if stream[pos+d] == 0xA5 && stream[pos+d+1] == 0x5A {
			id := binary.BigEndian.Uint32(stream[pos+d+2 : pos+d+6])
			j := uint64(stream[pos+d+6])<<40 | uint64(stream[pos+d+7])<<32 | uint64(binary.BigEndian.Uint32(stream[pos+d+8:pos+d+12]))
			return fmt.Sprintf("a cell of call %d (payload offset %d) starts %d bytes later", id, j*cellSize, d)
		}
	}
	end := pos + 24
	if end > len(stream) {
		end = len(stream)
	}
	return fmt.Sprintf("bytes there: % x", stream[pos:end])
}

func mismatch(a, b []byte) int {
	n := len(a)
	if len(b) < n {
		n = len(b)
	}
	for i := 0; i < n; i++ {
		if a[i] != b[i] {
			return i
		}
	}
	return -1
}

// CheckStream decides the stream clauses of C01. calls are all calls issued on
// the connection; complete says the connection stayed open and the peer
// drained to quiescence (so every accepted byte must be there); otherwise the
// stream must be a valid prefix. It returns nil when the stream is a legal
// outcome: some interleaving of whole calls that respects every writer's
// program order and real-time order between writers reproduces it. Payloads
// of >= 6 bytes identify their call, so the search is linear; tiny payloads
// can be ambiguous and are resolved by backtracking (memoised).
func CheckStream(calls []Call, stream []byte, complete bool) *StreamIssue {
	for i := range calls {
		c := &calls[i]
		if c.Open {
			continue
		}
		if c.Err == "" && c.N != c.Len {
			return &StreamIssue{Sig: c.Kind + ":nil-error-short-count", Detail: fmt.Sprintf("%s call %d (writer %d seq %d) of %d bytes returned n=%d with a nil error", c.Kind, c.ID, c.Writer, c.Seq, c.Len, c.N)}
		}
		if c.N > c.Len {
			return &StreamIssue{Sig: c.Kind + ":count-exceeds-input", Detail: fmt.Sprintf("%s call %d of %d bytes returned n=%d", c.Kind, c.ID, c.Len, c.N)}
		}
	}
	byW := map[int][]*Call{}
	var ws []int
	for i := range calls {
		c := &calls[i]
		if _, ok := byW[c.Writer]; !ok {
			ws = append(ws, c.Writer)
		}
		byW[c.Writer] = append(byW[c.Writer], c)
	}
	sort.Ints(ws)
	qs := make([][]*Call, len(ws))
	for k, w := range ws {
		q := byW[w]
		sort.Slice(q, func(i, j int) bool { return q[i].Seq < q[j].Seq })
		qs[k] = q
	}
	st := &search{qs: qs, stream: stream, complete: complete, dead: map[string]bool{}, deepest: -1}
	next := make([]int, len(qs))
	if st.place(0, next, -1<<62, 0) {
		return nil
	}
	return st.issue
}

type search struct {
	qs       [][]*Call
	stream   []byte
	complete bool
	dead     map[string]bool
	deepest  int
	issue    *StreamIssue
	steps    int
}

func (st *search) fail(pos int, is *StreamIssue) {
	if pos > st.deepest || st.issue == nil {
		st.deepest = pos
		st.issue = is
	}
}

func (st *search) place(pos int, next []int, maxCall int64, maxCallID uint32) bool {
	stream := st.stream
	// zero-byte calls occupy no stream position
	for k := range st.qs {
		for next[k] < len(st.qs[k]) && st.qs[k][next[k]].Accepted() == 0 {
			next[k]++
		}
	}
	if pos == len(stream) {
		if st.complete {
			for k := range st.qs {
				if next[k] < len(st.qs[k]) {
					c := st.qs[k][next[k]]
					st.fail(pos, &StreamIssue{Sig: c.Kind + ":accepted-bytes-missing", Detail: fmt.Sprintf("stream of %d bytes ended before %s call %d (writer %d seq %d, accepted %d of %d) although the connection stayed open and the peer drained to quiescence", len(stream), c.Kind, c.ID, c.Writer, c.Seq, c.Accepted(), c.Len)})
					return false
				}
			}
		}
		return true
	}
	key := fmt.Sprint(pos, next)
	if st.dead[key] {
		return false
	}
	rem := len(stream) - pos
	var cands []int
	var bestPartial *Call
	bestPartialAt := -1
	for k := range st.qs {
		if next[k] >= len(st.qs[k]) {
			continue
		}
		c := st.qs[k][next[k]]
		cmp := c.Accepted()
		if cmp > rem {
			cmp = rem
		}
		if m := mismatch(Payload(c.ID, cmp), stream[pos:pos+cmp]); m < 0 {
			cands = append(cands, k)
		} else if m > bestPartialAt {
			bestPartialAt = m
			bestPartial = c
		}
	}
	if len(cands) == 0 {
		d := fmt.Sprintf("at stream offset %d (of %d received) no pending call continues the stream; %s", pos, len(stream), describeAt(stream, pos))
		if bestPartial != nil && bestPartialAt > 0 {
			d += fmt.Sprintf("; closest: %s call %d (writer %d seq %d, accepted %d) matches for %d bytes, then %s", bestPartial.Kind, bestPartial.ID, bestPartial.Writer, bestPartial.Seq, bestPartial.Accepted(), bestPartialAt, describeAt(stream, pos+bestPartialAt))
			st.fail(pos+bestPartialAt, &StreamIssue{Sig: bestPartial.Kind + ":stream-diverges-inside-call", Detail: d})
		} else {
			st.fail(pos, &StreamIssue{Sig: "stream-diverges-at-call-boundary", Detail: d})
		}
		st.dead[key] = true
		return false
	}
	for _, k := range cands {
		c := st.qs[k][next[k]]
		n := c.Accepted()
		if n > rem {
			// truncated tail: legal only when the connection did not stay open
			if st.complete {
				st.fail(len(stream), &StreamIssue{Sig: c.Kind + ":tail-missing", Detail: fmt.Sprintf("stream ends %d bytes into %s call %d (accepted %d) although the connection stayed open and the peer drained to quiescence", rem, c.Kind, c.ID, n)})
				continue
			}
			return true
		}
		if c.TRet < maxCall {
			st.fail(pos, &StreamIssue{Sig: "real-time-order", Detail: fmt.Sprintf("%s call %d returned (t=%d) before call %d was invoked (t=%d) but its bytes come later in the stream (offset %d)", c.Kind, c.ID, c.TRet, maxCallID, maxCall, pos)})
			continue
		}
		if c.Open && pos+n < len(stream) {
			st.fail(pos+n, &StreamIssue{Sig: c.Kind + ":bytes-after-failed-call", Detail: fmt.Sprintf("%d more bytes follow %s call %d, which returned the fatal error %q; %s", len(stream)-pos-n, c.Kind, c.ID, c.Err, describeAt(stream, pos+n))})
			continue
		}
		nn := append([]int(nil), next...)
		nn[k]++
		mc, mid := maxCall, maxCallID
		if c.TCall > mc {
			mc, mid = c.TCall, c.ID
		}
		if st.place(pos+n, nn, mc, mid) {
			return true
		}
	}
	st.dead[key] = true
	return false
}
