package outb

import (
	"errors"
	"fmt"
	"io"
	"math/rand"
	"net"
	"os"
	"sync"
	"sync/atomic"
	"syscall"
	"time"

	"github.com/lesismal/nbio"

	"verif/internal/h"
)

// Op is one write-side operation of a writer program.
type Op struct {
	Kind  string `json:"kind"`            // write | writev | sendfile
	Sizes []int  `json:"sizes"`           // write: one size; writev: buffer sizes; sendfile: one length
	Off   int    `json:"off,omitempty"`   // sendfile: offset of the range inside the file
	Pause int    `json:"pause,omitempty"` // microseconds to sleep before the call
}

func (o Op) Total() int {
	t := 0
	for _, s := range o.Sizes {
		t += s
	}
	return t
}

// ConnSpec is the program of one connection.
type ConnSpec struct {
	Writers  [][]Op `json:"writers"`             // one program per writer goroutine
	OnData   []Op   `json:"on_data,omitempty"`   // executed one per OnData invocation (poller goroutine)
	Pacing   string `json:"pacing"`              // eager | slow | stopgo | late | abort
	AbortAt  int    `json:"abort_at,omitempty"`  // pacing abort: peer resets after this many bytes
	Shim     string `json:"shim,omitempty"`      // shim profile ("" = no policy)
	FatalAt  int64  `json:"fatal_at,omitempty"`  // shim: inject a fatal errno at the n-th syscall
	FatalErr int    `json:"fatal_err,omitempty"` // errno
}

// ConnResult is what the monitors recorded for one connection.
type ConnResult struct {
	Calls     []Call
	Stream    []byte
	Complete  bool // connection stayed open and the peer drained to quiescence
	Closed    bool // connection was closed by an error before the end
	CloseErrs []error
	Expected  int // sum of accepted bytes
	Stalled   bool
	StallInfo string
	Backlog   nbio.VerifBacklogInfo
	Policy    *Policy
	Incon     string
	Conn      *nbio.Conn
	// MaxBacklog is the largest queued byte count (buffers + file ranges)
	// observed by the accessor after any call or while waiting.
	MaxBacklog int64
}

var callID uint32

// Progress counts harness-visible progress (bytes received by peers, calls
// returned); h.Guard watches it.
var Progress int64

var retryable = func(err error) bool {
	return errors.Is(err, syscall.EAGAIN) || errors.Is(err, syscall.EINTR)
}

var tmpDir string
var tmpOnce sync.Once

func scratch() string {
	tmpOnce.Do(func() {
		d, err := os.MkdirTemp("", "voutb")
		if err != nil {
			panic(err)
		}
		tmpDir = d
	})
	return tmpDir
}

// Cleanup removes scratch files of this process.
func Cleanup() {
	if tmpDir != "" {
		os.RemoveAll(tmpDir)
	}
}

// DoOp performs op on c as writer w / sequence seq and returns the call record.
func DoOp(c *nbio.Conn, op Op, w, seq int) Call {
	id := atomic.AddUint32(&callID, 1)
	total := op.Total()
	call := Call{ID: id, Writer: w, Seq: seq, Kind: op.Kind, Len: total}
	if op.Pause > 0 {
		time.Sleep(time.Duration(op.Pause) * time.Microsecond)
	}
	var n int
	var err error
	switch op.Kind {
	case "write":
		b := Payload(id, total)
		call.TCall = Tick()
		n, err = c.Write(b)
		call.TRet = Tick()
	case "writev":
		b := Payload(id, total)
		var bufs [][]byte
		p := 0
		for _, s := range op.Sizes {
			bufs = append(bufs, b[p:p+s:p+s])
			p += s
		}
		call.TCall = Tick()
		n, err = c.Writev(bufs)
		call.TRet = Tick()
	case "sendfile":
		name := fmt.Sprintf("%s/f%d", scratch(), id)
		junk := make([]byte, op.Off)
		for i := range junk {
			junk[i] = 0xEE
		}
		content := append(junk, Payload(id, total)...)
		content = append(content, 0xDD, 0xDD, 0xDD, 0xDD, 0xDD, 0xDD, 0xDD)
		if e := os.WriteFile(name, content, 0o600); e != nil {
			call.Err = "harness: " + e.Error()
			call.Len, call.N = 0, 0
			return call
		}
		f, e := os.Open(name)
		if e != nil {
			call.Err = "harness: " + e.Error()
			call.Len, call.N = 0, 0
			return call
		}
		_, _ = f.Seek(int64(op.Off), io.SeekStart)
		call.TCall = Tick()
		var n64 int64
		n64, err = c.Sendfile(f, int64(total))
		call.TRet = Tick()
		n = int(n64)
		f.Close()
		os.Remove(name)
	case "sendfile-empty":
		// a file with nothing left to send: empty (Off == 0) or positioned at
		// its end (Off > 0); the length argument is 0 ("to the end") or more
		// than what is left. Nothing may be transmitted for it and it must
		// not disturb what is queued around it.
		name := fmt.Sprintf("%s/f%d", scratch(), id)
		junk := make([]byte, op.Off)
		for i := range junk {
			junk[i] = 0xEE
		}
		if e := os.WriteFile(name, junk, 0o600); e != nil {
			call.Err = "harness: " + e.Error()
			return call
		}
		f, e := os.Open(name)
		if e != nil {
			call.Err = "harness: " + e.Error()
			return call
		}
		_, _ = f.Seek(int64(op.Off), io.SeekStart)
		ask := int64(0)
		if op.Off%2 == 1 {
			ask = 1000
		}
		call.TCall = Tick()
		var n64 int64
		n64, err = c.Sendfile(f, ask)
		call.TRet = Tick()
		n = int(n64)
		f.Close()
		os.Remove(name)
	}
	call.N = n
	if err != nil {
		call.Err = err.Error()
		if !retryable(err) {
			call.Open = true
		}
	}
	return call
}

// RunConn drives one connection of env according to spec and returns what was
// observed. It never decides anything itself.
func RunConn(env *Env, spec ConnSpec, seed int64, srvConn <-chan *nbio.Conn, registerOnData func(c *nbio.Conn, f func())) *ConnResult {
	return RunConnPaired(env, spec, seed, srvConn, registerOnData, func() {})
}

// RunConnPaired is RunConn with a callback invoked as soon as the peer has been
// paired with its server-side connection (or pairing failed).
func RunConnPaired(env *Env, spec ConnSpec, seed int64, srvConn <-chan *nbio.Conn, registerOnData func(c *nbio.Conn, f func()), paired func()) *ConnResult {
	res := &ConnResult{}
	peer, err := env.Dial()
	if err != nil {
		paired()
		res.Incon = "dial: " + err.Error()
		return res
	}
	defer peer.Close()
	var c *nbio.Conn
	select {
	case c = <-srvConn:
		paired()
	case <-time.After(10 * time.Second):
		paired()
		res.Incon = "accept not observed"
		return res
	}
	res.Conn = c
	fd := c.Hash()
	if env.Cfg.SndBuf > 0 {
		_ = c.SetWriteBuffer(env.Cfg.SndBuf)
	}
	if spec.Shim != "" {
		p := NewPolicy(c, spec.Shim, env.Cfg.Mode, seed)
		if spec.FatalAt > 0 {
			p.FatalAt = spec.FatalAt
			p.FatalErr = syscall.Errno(spec.FatalErr)
		}
		SetPolicy(fd, p)
		res.Policy = p
		defer DropPolicy(fd, c)
	}

	var mu sync.Mutex
	var calls []Call
	var maxBk int64
	noteBk := func() {
		bk := nbio.VerifBacklog(c)
		v := int64(bk.BufBytes) + bk.FileBytes
		for {
			o := atomic.LoadInt64(&maxBk)
			if v <= o || atomic.CompareAndSwapInt64(&maxBk, o, v) {
				break
			}
		}
	}
	add := func(cl Call) {
		mu.Lock()
		calls = append(calls, cl)
		mu.Unlock()
		atomic.AddInt64(&Progress, 1)
		noteBk()
	}

	// ---- peer reader
	var got []byte
	var gotMu sync.Mutex
	var gotN int64
	startRead := make(chan struct{})
	readerDone := make(chan struct{})
	var aborted int32
	go func() {
		defer close(readerDone)
		if spec.Pacing == "stopgo" || spec.Pacing == "late" {
			<-startRead
		}
		buf := make([]byte, 64<<10)
		rng := rand.New(rand.NewSource(seed ^ 0x55))
		for {
			lim := len(buf)
			if spec.Pacing == "slow" {
				lim = 1 + rng.Intn(8192)
			}
			n, err := peer.Read(buf[:lim])
			if n > 0 {
				gotMu.Lock()
				got = append(got, buf[:n]...)
				gotMu.Unlock()
				atomic.AddInt64(&gotN, int64(n))
				atomic.AddInt64(&Progress, int64(n))
			}
			if err != nil {
				return
			}
			if spec.Pacing == "slow" && rng.Intn(4) == 0 {
				time.Sleep(time.Duration(50+rng.Intn(300)) * time.Microsecond)
			}
			if spec.Pacing == "abort" && atomic.LoadInt64(&gotN) >= int64(spec.AbortAt) {
				atomic.StoreInt32(&aborted, 1)
				switch v := peer.(type) {
				case *net.TCPConn:
					_ = v.SetLinger(0)
				}
				peer.Close()
				return
			}
		}
	}()
	if spec.Pacing == "late" {
		go func() { time.Sleep(30 * time.Millisecond); close(startRead) }()
	}

	// ---- OnData writer (poller goroutine)
	var odSeq int32
	odDone := make(chan struct{})
	if len(spec.OnData) > 0 {
		registerOnData(c, func() {
			i := int(atomic.AddInt32(&odSeq, 1)) - 1
			if i < len(spec.OnData) {
				add(DoOp(c, spec.OnData[i], 1000, i))
				if i == len(spec.OnData)-1 {
					close(odDone)
				}
			}
		})
		go func() {
			// the peer triggers the handler once per op
			for i := 0; i < len(spec.OnData); i++ {
				for int(atomic.LoadInt32(&odSeq)) < i {
					time.Sleep(100 * time.Microsecond)
					if cl, _ := c.IsClosed(); cl {
						return
					}
				}
				if _, err := peer.Write([]byte{byte(i)}); err != nil {
					return
				}
			}
		}()
	} else {
		close(odDone)
	}

	// ---- writer goroutines
	var wg sync.WaitGroup
	for w, prog := range spec.Writers {
		wg.Add(1)
		go func(w int, prog []Op) {
			defer wg.Done()
			for i, op := range prog {
				cl := DoOp(c, op, w, i)
				add(cl)
				if cl.Open || cl.Err == net.ErrClosed.Error() {
					return
				}
			}
		}(w, prog)
	}
	wg.Wait()
	closedNow := func() bool { cl, _ := c.IsClosed(); return cl }
	for i := 0; ; i++ {
		select {
		case <-odDone:
		case <-time.After(10 * time.Millisecond):
			if closedNow() {
				break // the connection died: the remaining OnData ops will never be triggered
			}
			if i > 2000 {
				res.Incon = "OnData writer did not finish"
				break
			}
			continue
		}
		break
	}
	if spec.Pacing == "stopgo" {
		close(startRead)
	}

	mu.Lock()
	res.Calls = append([]Call(nil), calls...)
	mu.Unlock()
	for i := range res.Calls {
		if !res.Calls[i].Open {
			res.Expected += res.Calls[i].Accepted()
		}
	}

	// ---- wait for delivery or a final state
	stable := 0
	var lastGot int64 = -1
	var lastBk nbio.VerifBacklogInfo
	lastCPU := h.CPUTime()
	deadline := time.Now().Add(90 * time.Second)
	for {
		g := atomic.LoadInt64(&gotN)
		if closedNow() || atomic.LoadInt32(&aborted) == 1 {
			res.Closed = true
			break
		}
		if g >= int64(res.Expected) {
			res.Complete = true
			break
		}
		bk := nbio.VerifBacklog(c)
		cpu := h.CPUTime()
		if g == lastGot && bk.BufBytes == lastBk.BufBytes && bk.FileBytes == lastBk.FileBytes && bk.Entries == lastBk.Entries && cpu-lastCPU < 2*time.Millisecond {
			stable++
		} else {
			stable = 0
		}
		lastGot, lastBk, lastCPU = g, bk, cpu
		if stable >= 50 {
			// final state without full delivery
			outq, _ := OutQ(fd)
			inq, _ := InQ(FdOf(peer))
			wr, _ := Writable(fd)
			res.Backlog = bk
			res.StallInfo = fmt.Sprintf("received %d of %d accepted bytes; backlog buf=%d file=%d entries=%d left=%d writeArmed=%v; SIOCOUTQ=%d peer FIONREAD=%d poll(POLLOUT)=%v; stable for %d samples", g, res.Expected, bk.BufBytes, bk.FileBytes, bk.Entries, bk.Left, bk.WriteArmed, outq, inq, wr, stable)
			if bk.BufBytes > 0 || bk.FileBytes > 0 {
				res.Stalled = true
			} else {
				// nothing queued any more: whatever is missing is lost
				res.Complete = true
			}
			break
		}
		if time.Now().After(deadline) {
			res.Incon = "watchdog: delivery neither completed nor reached a stable state"
			break
		}
		time.Sleep(50 * time.Millisecond)
	}
	res.Backlog = nbio.VerifBacklog(c)
	res.MaxBacklog = atomic.LoadInt64(&maxBk)

	// ---- close and collect the tail (duplicates / stray bytes show up here)
	if !res.Closed {
		// give stray bytes already queued in the kernel a chance to show up
		_ = c.Close()
	}
	select {
	case <-readerDone:
	case <-time.After(10 * time.Second):
		peer.Close()
		<-readerDone
	}
	gotMu.Lock()
	res.Stream = got
	gotMu.Unlock()
	// close notification is asynchronous (engine's Async queue)
	for i := 0; i < 200; i++ {
		if len(env.Closes(c)) > 0 {
			break
		}
		time.Sleep(5 * time.Millisecond)
	}
	res.CloseErrs = env.Closes(c)
	return res
}
