package outb

import (
	"math/rand"
	"sync"
	"sync/atomic"
	"syscall"
	"time"
	"unsafe"

	"github.com/lesismal/nbio"
)

// Policy decides, per connection, what the "kernel" does with each write-side
// syscall. Everything it produces is something a real kernel may legally do:
// a short transfer (the real syscall is made with a shortened length, so the
// prefix really is transferred), EINTR without a transfer, and EAGAIN without
// a transfer. In plain ET mode a refused or shortened transfer is always
// followed by an emulated writability edge (see Policy.ET): a kernel that
// refuses on a socket that stays writable and never signals again cannot
// exist, and would manufacture false stalls.
type Policy struct {
	Conn        *nbio.Conn
	AllowEAGAIN bool
	// Profile: "random" | "tiny" (caps 1..16) | "refuse-then-open" | "pass"
	Profile string
	// Gate: when closed (1) every write-side call returns EAGAIN (only legal
	// with AllowEAGAIN); the harness opens it to let the backlog drain.
	Gate int32

	mu  sync.Mutex
	rng *rand.Rand

	// observations
	// ET: plain edge-triggered mode. There a short transfer or EAGAIN is only
	// something a kernel can do when it is followed by a writability edge once
	// room exists, so the shim emulates that edge (EPOLL_CTL_MOD with the
	// recorded interest re-reports a ready descriptor) after each of them.
	ET    bool
	Edges int64
	// Budget (profile "budget"): bytes the kernel still has room for.
	Budget int64

	Calls      int64
	Short      int64
	EINTR      int64
	EAGAIN     int64 // injected
	RealEAGAIN int64
	KernelIn   int64 // bytes the real kernel accepted on this fd
	FatalAt    int64 // inject a fatal errno at the n-th call (0 = never)
	FatalErr   syscall.Errno
	fatalDone  int32
}

// NewPolicy builds a policy for a connection of an engine running in mode
// (LT | ET | ONESHOT).
func NewPolicy(c *nbio.Conn, profile string, mode string, seed int64) *Policy {
	return &Policy{Conn: c, Profile: profile, AllowEAGAIN: true, ET: mode == "ET", rng: rand.New(rand.NewSource(seed))}
}

var (
	polMu    sync.RWMutex
	policies = map[int]*Policy{}
	shimOnce sync.Once
)

// InstallShim activates the shim callbacks. Shim phases call it at process
// start so that epoll registrations are recorded from the first connection on.
func InstallShim() { shimOnce.Do(installShim) }

// SetPolicy installs p for descriptor fd and makes sure the shim is active.
func SetPolicy(fd int, p *Policy) {
	shimOnce.Do(installShim)
	polMu.Lock()
	policies[fd] = p
	polMu.Unlock()
}

// DropPolicy removes the policy of fd if it still belongs to c.
func DropPolicy(fd int, c *nbio.Conn) {
	polMu.Lock()
	if p := policies[fd]; p != nil && p.Conn == c {
		delete(policies, fd)
	}
	polMu.Unlock()
}

func policyOf(fd int) *Policy {
	polMu.RLock()
	p := policies[fd]
	polMu.RUnlock()
	return p
}

// ShimReached reports how many calls went through the shim at all (0 means the
// overlay did not route the syscalls: hook not reached).
var ShimReached int64

type verdict struct {
	cap    int // >0: limit the length handed to the real syscall
	errno  syscall.Errno
	noEdge bool // budget profile: the harness signals room explicitly (Kick)
}

func (p *Policy) decide(n int) verdict {
	c := atomic.AddInt64(&p.Calls, 1)
	if p.FatalAt > 0 && c >= p.FatalAt && atomic.CompareAndSwapInt32(&p.fatalDone, 0, 1) {
		return verdict{errno: p.FatalErr}
	}
	if atomic.LoadInt32(&p.fatalDone) == 1 {
		return verdict{errno: p.FatalErr}
	}
	if atomic.LoadInt32(&p.Gate) == 1 && p.AllowEAGAIN {
		atomic.AddInt64(&p.EAGAIN, 1)
		return verdict{errno: syscall.EAGAIN}
	}
	p.mu.Lock()
	defer p.mu.Unlock()
	switch p.Profile {
	case "pass":
		return verdict{}
	case "budget":
		// the kernel has room for exactly Budget more bytes
		b := atomic.LoadInt64(&p.Budget)
		if b <= 0 {
			atomic.AddInt64(&p.EAGAIN, 1)
			// in LT/ONESHOT an armed write interest on a really writable socket fires again at
			// once: without a pause the poller would burn a core for as long as the budget is 0
			time.Sleep(30 * time.Microsecond)
			return verdict{errno: syscall.EAGAIN, noEdge: true}
		}
		if int64(n) > b {
			return verdict{cap: int(b), noEdge: true}
		}
		return verdict{}
	case "eintr-first":
		// the very first transfer is interrupted before any byte moves; the
		// socket stays writable and everything else passes through
		if c == 1 {
			atomic.AddInt64(&p.EINTR, 1)
			return verdict{errno: syscall.EINTR}
		}
		return verdict{}
	case "tiny":
		k := 1 + p.rng.Intn(16)
		if p.rng.Intn(8) == 0 {
			atomic.AddInt64(&p.EINTR, 1)
			return verdict{errno: syscall.EINTR}
		}
		return verdict{cap: k}
	default: // random
		x := p.rng.Intn(100)
		switch {
		case x < 40:
			return verdict{}
		case x < 70:
			ks := []int{1, 7, 100, 4096, 65535, 65536, 65537}
			k := ks[p.rng.Intn(len(ks))]
			if p.rng.Intn(3) == 0 && n > 1 {
				k = 1 + p.rng.Intn(n)
			}
			return verdict{cap: k}
		case x < 82:
			atomic.AddInt64(&p.EINTR, 1)
			return verdict{errno: syscall.EINTR}
		default:
			if p.AllowEAGAIN {
				atomic.AddInt64(&p.EAGAIN, 1)
				return verdict{errno: syscall.EAGAIN}
			}
			return verdict{cap: 1 + p.rng.Intn(4096)}
		}
	}
}

type reg struct {
	epfd int
	ev   syscall.EpollEvent
}

var (
	regMu sync.Mutex
	regs  = map[int]reg{}
)

// edge emulates the writability edge a real kernel delivers after it refused
// or shortened a transfer and room became available again.
func (p *Policy) edge(fd int) {
	if !p.ET {
		return
	}
	regMu.Lock()
	r, ok := regs[fd]
	regMu.Unlock()
	if !ok {
		return
	}
	ev := r.ev
	if syscall.EpollCtl(r.epfd, syscall.EPOLL_CTL_MOD, fd, &ev) == nil {
		atomic.AddInt64(&p.Edges, 1)
	}
}

// Kick signals "room became available" after the harness raised Budget: in
// ET mode that is the writability edge; LT and ONESHOT need nothing (the
// socket is really writable, an armed interest fires by itself).
func (p *Policy) Kick(fd int) { p.edge(fd) }

func (p *Policy) account(n int, err error) {
	if n > 0 {
		atomic.AddInt64(&p.KernelIn, int64(n))
		if p.Profile == "budget" {
			atomic.AddInt64(&p.Budget, -int64(n))
		}
	}
	if err == syscall.EAGAIN {
		atomic.AddInt64(&p.RealEAGAIN, 1)
	}
}

func installShim() {
	nbio.VerifSetSys(&nbio.VerifSys{
		Write: func(fd int, b []byte) (int, error, bool) {
			atomic.AddInt64(&ShimReached, 1)
			p := policyOf(fd)
			if p == nil {
				return 0, nil, false
			}
			v := p.decide(len(b))
			if v.errno != 0 {
				if v.errno == syscall.EAGAIN && !v.noEdge {
					p.edge(fd)
				}
				return -1, v.errno, true
			}
			short := false
			if v.cap > 0 && v.cap < len(b) {
				b = b[:v.cap]
				atomic.AddInt64(&p.Short, 1)
				short = true
			}
			n, err := syscall.Write(fd, b)
			p.account(n, err)
			if short && !v.noEdge {
				p.edge(fd)
			}
			return n, err, true
		},
		Sendfile: func(dst, src int, off *int64, count int) (int, error, bool) {
			atomic.AddInt64(&ShimReached, 1)
			p := policyOf(dst)
			if p == nil {
				return 0, nil, false
			}
			v := p.decide(count)
			if v.errno != 0 {
				if v.errno == syscall.EAGAIN && !v.noEdge {
					p.edge(dst)
				}
				return 0, v.errno, true
			}
			short := false
			if v.cap > 0 && v.cap < count {
				count = v.cap
				atomic.AddInt64(&p.Short, 1)
				short = true
			}
			n, err := syscall.Sendfile(dst, src, off, count)
			p.account(n, err)
			if short && !v.noEdge {
				p.edge(dst)
			}
			return n, err, true
		},
		Writev: func(fd int, iovs []syscall.Iovec) (int, syscall.Errno, bool) {
			atomic.AddInt64(&ShimReached, 1)
			p := policyOf(fd)
			if p == nil {
				return 0, 0, false
			}
			total := 0
			for i := range iovs {
				total += int(iovs[i].Len)
			}
			v := p.decide(total)
			if v.errno != 0 {
				if v.errno == syscall.EAGAIN && !v.noEdge {
					p.edge(fd)
				}
				return 0, v.errno, true
			}
			use := iovs
			short := false
			if v.cap > 0 && v.cap < total {
				short = true
				atomic.AddInt64(&p.Short, 1)
				cp := make([]syscall.Iovec, 0, len(iovs))
				left := v.cap
				for i := range iovs {
					if left == 0 {
						break
					}
					io := iovs[i]
					if int(io.Len) > left {
						io.SetLen(left)
					}
					left -= int(io.Len)
					cp = append(cp, io)
				}
				use = cp
			}
			r, _, e := syscall.Syscall(syscall.SYS_WRITEV, uintptr(fd), uintptr(unsafe.Pointer(&use[0])), uintptr(len(use)))
			if e != 0 {
				p.account(0, e)
				return 0, e, true
			}
			p.account(int(r), nil)
			if short && !v.noEdge {
				p.edge(fd)
			}
			return int(r), 0, true
		},
		EpollCtl: func(epfd, op, fd int, ev *syscall.EpollEvent) (error, bool) {
			if ev != nil && (op == syscall.EPOLL_CTL_ADD || op == syscall.EPOLL_CTL_MOD) {
				regMu.Lock()
				regs[fd] = reg{epfd: epfd, ev: *ev}
				regMu.Unlock()
			}
			return nil, false
		},
	})
}
