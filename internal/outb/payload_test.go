package outb

import "testing"

func mk(id uint32, w, seq, n int, t0, t1 int64) Call {
	return Call{ID: id, Writer: w, Seq: seq, Kind: "write", Len: n, N: n, TCall: t0, TRet: t1}
}

func TestCheckStream(t *testing.T) {
	a, b, c := mk(1, 0, 0, 100, 1, 2), mk(2, 0, 1, 5, 3, 4), mk(3, 1, 0, 40, 1, 10)
	cat := func(cs ...Call) []byte {
		var s []byte
		for _, x := range cs {
			s = append(s, Payload(x.ID, x.Accepted())...)
		}
		return s
	}
	calls := []Call{a, b, c}
	if is := CheckStream(calls, cat(a, b, c), true); is != nil {
		t.Fatal(is)
	}
	if is := CheckStream(calls, cat(c, a, b), true); is != nil {
		t.Fatal(is)
	}
	if is := CheckStream(calls, cat(a, c, b), true); is != nil {
		t.Fatal(is)
	}
	if is := CheckStream(calls, cat(b, a, c), true); is == nil {
		t.Fatal("program order violation not detected")
	}
	if is := CheckStream(calls, cat(a, b), true); is == nil {
		t.Fatal("missing call not detected")
	}
	if is := CheckStream(calls, cat(a, b), false); is != nil {
		t.Fatal(is)
	}
	s := cat(a, b, c)
	if is := CheckStream(calls, s[:len(s)-3], true); is == nil {
		t.Fatal("missing tail not detected")
	}
	if is := CheckStream(calls, s[:len(s)-3], false); is != nil {
		t.Fatal(is)
	}
	s2 := append([]byte(nil), s...)
	s2[50] ^= 1
	if is := CheckStream(calls, s2, true); is == nil {
		t.Fatal("alteration not detected")
	}
	dup := append(cat(a), cat(a, b, c)...)
	if is := CheckStream(calls, dup, true); is == nil {
		t.Fatal("duplicate not detected")
	}
	// interleave: half of a, then c, then rest of a
	pa := Payload(1, 100)
	il := append(append(append([]byte(nil), pa[:48]...), Payload(3, 40)...), pa[48:]...)
	il = append(il, Payload(2, 5)...)
	if is := CheckStream(calls, il, true); is == nil {
		t.Fatal("interleave not detected")
	}
	// real-time: d returned before e invoked, but e first
	d, e := mk(7, 0, 0, 32, 1, 2), mk(8, 1, 0, 32, 5, 6)
	if is := CheckStream([]Call{d, e}, cat(e, d), true); is == nil {
		t.Fatal("real-time order violation not detected")
	}
	if is := CheckStream([]Call{d, e}, cat(d, e), true); is != nil {
		t.Fatal(is)
	}
	// short count with nil error
	f := mk(9, 0, 0, 32, 1, 2)
	f.N = 10
	if is := CheckStream([]Call{f}, Payload(9, 10), true); is == nil {
		t.Fatal("nil-error short count not detected")
	}
	// open call: any prefix at the end
	g := mk(10, 0, 1, 64, 3, 4)
	g.N, g.Err, g.Open = 0, "EPIPE", true
	if is := CheckStream([]Call{d, g}, append(cat(d), Payload(10, 20)...), false); is != nil {
		t.Fatal(is)
	}
	// zero-length calls are skipped
	z := mk(11, 0, 0, 0, 1, 2)
	h2 := mk(12, 0, 1, 20, 3, 4)
	if is := CheckStream([]Call{z, h2}, cat(h2), true); is != nil {
		t.Fatal(is)
	}
	// payload offset consistency
	p := Payload(5, 100)
	q := make([]byte, 60)
	Fill(q, 5, 40)
	if mismatch(p[40:], q) >= 0 {
		t.Fatal("Fill offset inconsistent")
	}
}
