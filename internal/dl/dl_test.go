package dl

import "testing"

const ms = int64(1e6)

func set(call, ret, d int64) Effect {
	return Effect{Kind: "set", Call: call * ms, Ret: ret * ms, Dmin: d * ms, Dmax: d * ms}
}
func clr(call, ret int64) Effect {
	return Effect{Kind: "clear", Call: call * ms, Ret: ret * ms, MustClear: true}
}
func wclr(call, ret int64) Effect {
	return Effect{Kind: "wclear", Call: call * ms, Ret: ret * ms, MustClear: true}
}

func TestOracle(t *testing.T) {
	cases := []struct {
		name string
		effs []Effect
		t    int64
		want string
	}{
		{"fires at deadline", []Effect{set(0, 1, 100)}, 100, ""},
		{"fires late", []Effect{set(0, 1, 100)}, 180, ""},
		{"fires early", []Effect{set(0, 1, 100)}, 99, "closed-before-deadline"},
		{"no deadline", nil, 50, "timeout-without-deadline"},
		{"set after close is ignored", []Effect{set(0, 1, 100), set(150, 151, 400)}, 120, ""},
		{"renewed, fires at new", []Effect{set(0, 1, 100), set(50, 51, 300)}, 300, ""},
		{"renewed, fires at old", []Effect{set(0, 1, 100), set(50, 51, 300)}, 101, "fired-after-renewal-before-new-deadline"},
		{"renewed, fires before old", []Effect{set(0, 1, 100), set(50, 51, 300)}, 80, "closed-before-deadline"},
		{"renewal inside the window, old fires", []Effect{set(0, 1, 100), set(80, 81, 300)}, 101, ""},
		{"renewal inside the window, too early anyway", []Effect{set(0, 1, 100), set(80, 81, 300)}, 95, "closed-before-deadline"},
		{"renewal to earlier", []Effect{set(0, 1, 300), set(50, 51, 100)}, 100, ""},
		{"renewal to earlier, early", []Effect{set(0, 1, 300), set(50, 51, 100)}, 90, "closed-before-deadline"},
		{"cleared", []Effect{set(0, 1, 100), clr(50, 51)}, 100, "fired-after-clear"},
		{"cleared inside the window", []Effect{set(0, 1, 100), clr(90, 91)}, 100, ""},
		{"clear overlapping the close", []Effect{set(0, 1, 100), clr(99, 105)}, 101, ""},
		{"cleared then set again", []Effect{set(0, 1, 100), clr(50, 51), set(60, 61, 200)}, 200, ""},
		{"cleared then set again, stale fires", []Effect{set(0, 1, 100), clr(50, 51), set(60, 61, 200)}, 100, "closed-before-deadline"},
		{"write emptied backlog", []Effect{set(0, 1, 100), wclr(30, 31)}, 100, "fired-after-write-emptied-backlog"},
		{"set overlapping the close, nothing before", []Effect{set(10, 60, 40)}, 50, ""},
		{"racy chain stays conservative", []Effect{set(0, 1, 100), set(90, 91, 300), set(200, 201, 500)}, 250, ""},
		{"no-op call after the real close", []Effect{set(0, 1, 100), set(100, 101, 400)}, 102, ""},
		{"no-op clear after the real close", []Effect{set(0, 1, 100), clr(100, 101)}, 102, ""},
	}
	for _, c := range cases {
		v := CheckTimeoutClose(c.effs, c.t*ms)
		if v.Symptom != c.want {
			t.Errorf("%s: got %q (%s), want %q", c.name, v.Symptom, v.Detail, c.want)
		}
	}
}

func TestCompound(t *testing.T) {
	c := Compound([]Effect{set(10, 12, 300), set(11, 13, 100)})
	if c.Call != 10*ms || c.Ret != 13*ms || c.Dmin != 100*ms || c.Dmax != 300*ms || c.MayClear || c.MustClear {
		t.Fatalf("%+v", c)
	}
	// either may win: closing at the smaller one is fine, earlier is not
	if v := CheckTimeoutClose([]Effect{c}, 100*ms); v.Symptom != "" {
		t.Fatal(v)
	}
	if v := CheckTimeoutClose([]Effect{c}, 99*ms); v.Symptom == "" {
		t.Fatal("early close accepted")
	}
	c = Compound([]Effect{set(10, 12, 300), clr(11, 13)})
	if !c.MayClear || c.MustClear || c.Dmin != 300*ms {
		t.Fatalf("%+v", c)
	}
	if s := Final([]Effect{c}); s.Armed != Maybe {
		t.Fatalf("%+v", s)
	}
	c = Compound([]Effect{clr(10, 12), clr(11, 13)})
	if !c.MustClear {
		t.Fatalf("%+v", c)
	}
	if s := Final([]Effect{set(0, 1, 100), c}); s.Armed != No || s.LB != Inf {
		t.Fatalf("%+v", s)
	}
}

func TestFinalState(t *testing.T) {
	if s := Final([]Effect{set(0, 1, 100), set(50, 51, 300)}); s.Armed != Yes || s.UB != 300*ms || s.LB != 300*ms {
		t.Fatalf("%+v", s)
	}
	if s := Final([]Effect{set(0, 1, 100), {Kind: "wmaybe", Call: 5 * ms, Ret: 6 * ms, Keep: true}}); s.Armed != Maybe || s.LB != 100*ms {
		t.Fatalf("%+v", s)
	}
}
