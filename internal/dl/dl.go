// Package dl holds the timing oracle of property C16 (deadlines): a pure
// function over recorded Set*Deadline effects and a close time, plus the
// harness-side clocks (one monotonic time base, control timers, a starvation
// monitor). Real time is unavoidable - nbio arms time.AfterFunc directly - so
// every inequality used for a verdict is one-sided and causally sound: machine
// load can only make a case inconclusive.
package dl

import (
	"fmt"
	"math"
	"sort"
	"sync"
	"sync/atomic"
	"time"
)

// ---------------------------------------------------------------- clock

var base = time.Now()

// Now is the monotonic harness clock in nanoseconds since process start.
func Now() int64 { return int64(time.Since(base)) }

// At converts a time.Time carrying a monotonic reading (time.Now().Add(d))
// to the harness clock.
func At(t time.Time) int64 { return int64(t.Sub(base)) }

// Time converts a harness clock value back (for time.Until).
func Time(ns int64) time.Time { return base.Add(time.Duration(ns)) }

// Ms renders a clock value for details.
func Ms(ns int64) string {
	if ns == Inf {
		return "inf"
	}
	return fmt.Sprintf("%.3fms", float64(ns)/1e6)
}

// SleepUntil sleeps until the harness clock reads >= ns.
func SleepUntil(ns int64) {
	for {
		d := ns - Now()
		if d <= 0 {
			return
		}
		time.Sleep(time.Duration(d))
	}
}

const (
	// Inf means "no timer can be armed".
	Inf = int64(math.MaxInt64)
	// RaceWindow: an effect that returned later than (old deadline - RaceWindow)
	// may have raced with the old timer firing; both outcomes are accepted.
	RaceWindow = int64(30 * time.Millisecond)
)

// ---------------------------------------------------------------- effects

// Effect is one harness-observed operation that changes (or may change) the
// timer of ONE direction of one connection. Compound effects (two calls issued
// concurrently) carry the hull of both calls.
type Effect struct {
	Kind string `json:"kind"` // set | clear | wclear (write emptied the backlog) | wmaybe | race
	Call int64  `json:"call"` // clock before the call(s)
	Ret  int64  `json:"ret"`  // clock after the call(s) returned; Inf = not known to have returned
	// Dmin/Dmax: smallest / largest deadline value that may be armed by this
	// effect (equal for a plain set); meaningless when MustClear.
	Dmin      int64 `json:"dmin,omitempty"`
	Dmax      int64 `json:"dmax,omitempty"`
	MayClear  bool  `json:"may_clear,omitempty"`  // one of the concurrent calls was a clear
	MustClear bool  `json:"must_clear,omitempty"` // every call was a clear
	Keep      bool  `json:"keep,omitempty"`       // wmaybe: the timer may or may not have been cleared
}

// State is what is known about a direction's timer after a prefix of effects.
type State struct {
	// LB: no timeout close of this direction may be observed before LB
	// (Inf: none may be observed at all).
	LB int64
	// UB: if Armed == Yes the timer fires at the latest at UB (machine lateness
	// aside).
	UB    int64
	Armed int    // No | Yes | Maybe
	Why   string // kind of the effect that produced LB == Inf
	Racy  bool   // the last effect fell into the race window of the previous deadline
}

const (
	No = iota
	Yes
	Maybe
)

func min64(a, b int64) int64 {
	if a < b {
		return a
	}
	return b
}
func max64(a, b int64) int64 {
	if a > b {
		return a
	}
	return b
}

// Step applies one effect.
func Step(prev State, e Effect) State {
	racy := prev.LB != Inf && (e.Ret == Inf || e.Ret > prev.LB-RaceWindow)
	cur := State{Racy: racy}
	switch {
	case e.Keep:
		cur = prev
		cur.Racy = false
		if cur.Armed == Yes {
			cur.Armed = Maybe
		}
	case e.MustClear:
		if racy {
			// the old timer may already have fired: its callback may still close
			cur.LB, cur.UB, cur.Armed, cur.Why = prev.LB, prev.UB, Maybe, prev.Why
			if prev.Armed == No {
				cur.Armed = No
			}
		} else {
			cur.LB, cur.UB, cur.Armed, cur.Why = Inf, 0, No, e.Kind
		}
	default:
		cur.LB, cur.UB, cur.Armed = e.Dmin, e.Dmax, Yes
		if e.MayClear {
			cur.Armed = Maybe
		}
		if racy {
			cur.LB = min64(cur.LB, prev.LB)
			if prev.Armed != No {
				cur.UB = max64(cur.UB, prev.UB)
			}
		}
	}
	return cur
}

// Initial is the state of a fresh connection: no timer.
func Initial() State { return State{LB: Inf, Armed: No, Why: "none"} }

// Final folds all effects (the caller guarantees every one returned).
func Final(effs []Effect) State {
	s := Initial()
	for _, e := range effs {
		s = Step(s, e)
	}
	return s
}

// Verdict of CheckTimeoutClose.
type Verdict struct {
	// Symptom is "" when the close is acceptable, otherwise one of
	// timeout-without-deadline | fired-after-clear |
	// fired-after-write-emptied-backlog | closed-before-deadline |
	// fired-after-renewal-before-new-deadline.
	Symptom string
	Bound   int64 // the lower bound that applied (Inf: none may fire)
	Detail  string
	Racy    bool // the governing effect was inside a race window
	Used    int  // effects that started before the close
}

// CheckTimeoutClose decides whether a timeout close of one direction observed
// at clock t (t is read AFTER the connection was marked closed, i.e. it is an
// upper estimate of the firing instant - which only weakens the check) is
// consistent with the effects of that direction. effs must be ordered by Call
// and sequential (each returned before the next was issued; concurrency is
// folded into compound effects by the caller).
func CheckTimeoutClose(effs []Effect, t int64) Verdict {
	states := []State{Initial()}
	k := 0
	for _, e := range effs {
		if e.Call >= t {
			break // issued after the close was observed: no-op on a closed connection
		}
		states = append(states, Step(states[len(states)-1], e))
		k++
	}
	v := Verdict{Used: k}
	if k == 0 {
		v.Symptom = "timeout-without-deadline"
		v.Bound = Inf
		v.Detail = "no deadline of this direction had been set before the timeout close"
		return v
	}
	last := effs[k-1]
	cur, prev := states[k], states[k-1]
	bound := cur.LB
	why := cur.Why
	overlap := last.Ret == Inf || last.Ret >= t
	if overlap {
		// the call had not returned when the close was observed: the state
		// before it is acceptable as well
		if prev.LB < bound {
			bound = prev.LB
		}
	}
	v.Bound = bound
	v.Racy = cur.Racy || overlap
	if bound == Inf {
		if why == "wclear" {
			v.Symptom = "fired-after-write-emptied-backlog"
		} else if why == "none" {
			v.Symptom = "timeout-without-deadline"
		} else {
			v.Symptom = "fired-after-clear"
		}
		v.Detail = fmt.Sprintf("timeout close at %s although the timer had been cancelled: last effect %s call=%s ret=%s (returned %s before the close; previous deadline lower bound %s)", Ms(t), last.Kind, Ms(last.Call), Ms(last.Ret), Ms(t-last.Ret), Ms(prev.LB))
		return v
	}
	if t < bound {
		v.Symptom = "closed-before-deadline"
		if k >= 2 && !last.MustClear && !last.Keep && prev.LB != Inf && t >= prev.LB {
			v.Symptom = "fired-after-renewal-before-new-deadline"
		}
		v.Detail = fmt.Sprintf("timeout close at %s, %s before the deadline lower bound %s; last effect %s call=%s ret=%s dmin=%s dmax=%s; previous bound %s", Ms(t), Ms(bound-t), Ms(bound), last.Kind, Ms(last.Call), Ms(last.Ret), Ms(last.Dmin), Ms(last.Dmax), Ms(prev.LB))
		return v
	}
	return v
}

// Compound folds concurrently issued calls on one direction into one effect.
func Compound(parts []Effect) Effect {
	if len(parts) == 1 {
		return parts[0]
	}
	c := Effect{Kind: "race", Call: Inf, Ret: 0, Dmin: Inf, Dmax: 0, MustClear: true}
	for _, p := range parts {
		c.Call = min64(c.Call, p.Call)
		c.Ret = max64(c.Ret, p.Ret)
		if p.MustClear {
			c.MayClear = true
			continue
		}
		c.MustClear = false
		c.Dmin = min64(c.Dmin, p.Dmin)
		c.Dmax = max64(c.Dmax, p.Dmax)
	}
	if c.MustClear {
		c.MayClear = false
		c.Kind = "clear"
		c.Dmin, c.Dmax = 0, 0
	}
	return c
}

// ---------------------------------------------------------------- control timers

// Control is a harness timer armed with the same primitive nbio uses
// (time.AfterFunc) for a known instant; its lateness measures the machine.
type Control struct {
	At    int64
	fired int64 // clock when it ran, 0 = not yet
}

// NewControl arms a control timer for clock instant at.
func NewControl(at int64) *Control {
	c := &Control{At: at}
	d := time.Duration(at - Now())
	time.AfterFunc(d, func() { atomic.StoreInt64(&c.fired, Now()) })
	return c
}

// Late returns how late the control timer ran and whether it has run.
func (c *Control) Late() (time.Duration, bool) {
	f := atomic.LoadInt64(&c.fired)
	if f == 0 {
		return 0, false
	}
	l := f - c.At
	if l < 0 {
		l = 0
	}
	return time.Duration(l), true
}

// ---------------------------------------------------------------- starvation monitor

// Monitor is a goroutine that ticks every few milliseconds and records every
// gap much longer than its period: evidence that runnable goroutines of this
// process were not being scheduled.
type Monitor struct {
	mu   sync.Mutex
	gaps []gap
	stop chan struct{}
	max  int64
}

type gap struct{ from, to int64 }

// StartMonitor starts the ticker goroutine.
func StartMonitor() *Monitor {
	m := &Monitor{stop: make(chan struct{})}
	go func() {
		last := Now()
		for {
			select {
			case <-m.stop:
				return
			default:
			}
			time.Sleep(4 * time.Millisecond)
			n := Now()
			if n-last > int64(25*time.Millisecond) {
				m.mu.Lock()
				if len(m.gaps) < 100000 {
					m.gaps = append(m.gaps, gap{last, n})
				}
				if n-last > m.max {
					m.max = n - last
				}
				m.mu.Unlock()
			}
			last = n
		}
	}()
	return m
}

// Stop ends the monitor.
func (m *Monitor) Stop() { close(m.stop) }

// MaxGap returns the longest recorded scheduling gap overlapping [from, to].
func (m *Monitor) MaxGap(from, to int64) time.Duration {
	m.mu.Lock()
	defer m.mu.Unlock()
	var mx int64
	i := sort.Search(len(m.gaps), func(i int) bool { return m.gaps[i].to >= from })
	for ; i < len(m.gaps) && m.gaps[i].from <= to; i++ {
		if d := m.gaps[i].to - m.gaps[i].from; d > mx {
			mx = d
		}
	}
	return time.Duration(mx)
}

// Max returns the longest gap seen so far.
func (m *Monitor) Max() time.Duration {
	m.mu.Lock()
	defer m.mu.Unlock()
	return time.Duration(m.max)
}
