#!/usr/bin/env python3
"""Validate MANIFEST.json and evidence/*.json against the given schemas."""
import json, sys, glob
import jsonschema
ok = True
m = json.load(open('/verif/MANIFEST.json'))
try:
    jsonschema.validate(m, json.load(open('/root/.vp/MANIFEST.schema.json')))
    print('MANIFEST ok: %d checks, %d not_applicable' % (len(m['checks']), len(m.get('not_applicable', []))))
except Exception as e:
    ok = False; print('MANIFEST INVALID:', e)
es = json.load(open('/root/.vp/EVIDENCE.schema.json'))
ids = set()
for l in open('/verif/properties.jsonl'):
    ids.add(json.loads(l)['id'])
claimed = {c['property_id'] for c in m['checks']}
na = {c['property_id'] for c in m.get('not_applicable', [])}
if claimed | na != ids or claimed & na:
    ok = False; print('MANIFEST does not partition the properties:', sorted(ids - claimed - na), sorted(claimed & na))
for c in m['checks']:
    f = c['evidence_file']
    try:
        e = json.load(open(f))
        jsonschema.validate(e, es)
        assert e['property_id'] == c['property_id']
        assert e['level'] == c['level_claimed']['category'], 'level mismatch'
        print('  %s ok: tier=%s evals=%s nontrivial=%s viol=%s wall=%.0fs' % (c['property_id'], e['tier'], e['coverage'].get('evaluations'), e['coverage'].get('distinct_nontrivial'), e.get('violations'), e['wall_s']))
    except Exception as ex:
        ok = False; print('  %s EVIDENCE INVALID: %s' % (c['property_id'], str(ex)[:300]))
sys.exit(0 if ok else 1)
