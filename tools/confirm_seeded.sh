#!/bin/bash
# usage: tools/confirm_seeded.sh <seeded-dir> <orig-worktree-path>
# Confirms a seeded change independently in a fresh scratch worktree of /repo:
# demo passes without the change; with it the tree builds, the existing suite passes, the demo fails.
export GOFLAGS=-mod=mod GOPROXY=off GOSUMDB=off GOTOOLCHAIN=local
src=$(readlink -f "$1"); orig=$2
wt=$(mktemp -d /tmp/confirm.XXXXXX); demo=$(mktemp -d /tmp/confirmdemo.XXXXXX)
git -C /repo worktree add -q --detach "$wt" HEAD || exit 3
cp -r "$src"/. "$demo"/
if [ -f "$demo/go.mod" ]; then sed -i "s#=> $orig#=> $wt#" "$demo/go.mod"; fi
run_demo() {
  if [ -f "$demo/go.mod" ]; then (cd "$demo" && timeout 300 go test -count=1 . >"$demo/out.txt" 2>&1; echo $?)
  else echo "no-module-demo"; fi
}
echo "demo without change: exit $(run_demo)"; tail -3 "$demo/out.txt" | cut -c1-200
git -C "$wt" apply "$src/patch.diff" || { echo "PATCH DOES NOT APPLY"; }
(cd "$wt" && go build ./... && go vet . ./nbhttp/... ./taskpool ./timer ./mempool >/dev/null 2>&1; echo "build exit $?")
(cd "$wt" && unshare -n -r sh -c 'ip link set lo up 2>/dev/null; go test -vet=off -count=1 ./... 2>&1' | grep -v "no test files" | grep -v "^ok" | head -5; echo "suite done")
echo "demo with change: exit $(run_demo)"; grep -E "^(--- FAIL|FAIL|panic|    )" "$demo/out.txt" | head -5 | cut -c1-240
git -C /repo worktree remove --force "$wt"; rm -rf "$demo"
