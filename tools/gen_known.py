#!/usr/bin/env python3
"""Regenerates /verif/known_findings.json from the table below. The file is
committed and never written at run time. status "known": the check prints
KNOWN-FINDING and exits 0 for a violation whose sig matches exactly; status
"fixed": documentation only, suppresses nothing."""
import json

F = []

def fixed(prop, commit, sigs, what):
    for s in sigs:
        F.append({"property": prop, "status": "fixed", "sig": s, "commit": commit, "what": what,
                  "line": "fixed: property=%s %s %s" % (prop, commit, what)})

def known(prop, sig, what):
    F.append({"property": prop, "status": "known", "sig": sig, "what": what})

# ---- core write path
fixed("C01", "372f916", ["c01:tcp:writev:nil-error-short-count", "c01:unix:writev:nil-error-short-count"],
      "Writev to a slow reader: partial writev returned n<len with a nil error and never queued the buffers after the partially written one")
fixed("C01", "dd62891", ["c01:unix:write:tail-missing", "c01:unix:write:stream-diverges-inside-call", "c01:unix:write:accepted-bytes-missing"],
      "unix socket, Write larger than the socket buffer: call reports the whole length, the unsent tail is dropped (queued only for TCP)")
fixed("C01", "fc3c809", ["c01:unix:spin-no-progress", "c01:tcp:spin-no-progress"],
      "Writev with an empty element while the backlog ends in a sendfile entry queues a zero-length buffer; flush spins forever on it holding the connection mutex")
fixed("C04", "e555bbd", ["c04:%s:ONESHOT:%s:stall" % (n, o) for n in ("tcp", "unix") for o in ("onopen", "regap", "ondata", "foreign", "timer", "onclose-other")],
      "EPOLLONESHOT: a write event that cannot flush the whole backlog leaves the descriptor disarmed; the rest is never sent")
fixed("C04", "75916f8", ["c04:%s:LT:%s:stall" % (n, o) for n in ("tcp", "unix") for o in ("onopen", "regap")],
      "LT/ONESHOT: data written inside OnOpen (or in the gap before EPOLL_CTL_ADD) is cached with write interest marked armed although epoll_ctl(MOD) failed; it never drains")
fixed("C04", "73f2a32", ["c04:%s:%s:%s:spin-no-progress" % (n, m, o) for n in ("tcp", "unix") for m in ("LT", "ET", "ONESHOT") for o in ("onopen", "regap", "ondata", "foreign", "timer", "onclose-other", "dialcb")],
      "Sendfile of an empty file (or one positioned at its end) behind a backlog queues an entry of zero bytes; flush loops on it forever holding the connection mutex (op kind sendfile-empty)")
fixed("C04", "48d3bb7", ["c04:tcp:LT:dialcb:stall", "c04:tcp:ONESHOT:dialcb:stall", "c04:unix:ONESHOT:dialcb:stall"],
      "a backlog written inside the DialAsync callback never drains: the poller switches the dialed connection to read-only events after the callback unconditionally (tcp), or leaves the write flag set after a first write event that found nothing to flush (unix, one-shot)")
fixed("C04", "f1ed07f", ["c04:tcp:ET:timer:stall", "c04:tcp:ET:foreign:stall", "c04:unix:ET:foreign:stall", "c04:tcp:ET:ondata:stall"],
      "ET: a direct Write interrupted by EINTR is cached although the socket stays writable; no edge follows and the backlog never drains (shim phase, profile eintr-first)")

# ---- lifecycle / dial
fixed("C03", "ba21c7b", ["c03:%s:dial:timeout:no-outcome" % m for m in ("LT", "ET", "ONESHOT")],
      "DialAsyncTimeout to a listener whose accept queue is full: OnClose(dial timeout) fires but the dial callback is never invoked")
fixed("C03", "d48acaa", ["c03:%s:dial:refused:reported-success" % m for m in ("LT", "ET", "ONESHOT")],
      "DialAsync to a closed port: callback invoked with err == nil, then the connection is closed with 'connection refused'")
fixed("C18", "71ade83", ["c18:stop-hang (seen as 20 s Stop timeouts in C01/C05 harnesses)"],
      "Stop overtaking a freshly started poller goroutine: the loop's prologue resets p.shutdown to false, Stop blocks forever in g.Wait()")
fixed("C18", "d9247f0", ["c18:core:tcp:stop-hang", "c18:core:unix:stop-hang", "c18:http:mixed:stop-hang", "c18:http:nonblocking:stop-hang"],
      "a connection accepted/added around Stop's one-time snapshot of the connection table is never closed: Stop blocks forever in wgConn.Wait() (delay point acceptor.afterAccept, or clients connecting during Stop)")
fixed("C18", "b18b811", ["c18:core:tcp:close-notifications-missing-at-stop-return", "c18:core:unix:close-notifications-missing-at-stop-return"],
      "connection accepted just before the listener closed: its close notification is delivered after Stop returned")
fixed("C18", "79b310d", ["c18:http:blocking:connections-left-open-after-stop", "c18:http:mixed:connections-left-open-after-stop"],
      "nbhttp Engine.Stop leaves IOModBlocking connections (and their reader goroutines) open")
fixed("C18", "8fa605f", ["c18:http:nonblocking:connections-left-open-after-stop"],
      "HTTP listener goroutine drops a connection accepted after the shutdown flag was set without closing it")
fixed("C18", "53fc0f1", ["c18:http:mixed:connections-left-open-after-stop"],
      "ListenerMux.Stop leaves connections queued in the ChanListeners open")
fixed("C18", "fd6ab73", ["crash:fatal error: concurrent map iteration and map write"],
      "UDP engine: Stop closing the listener while sessions are closed from other goroutines: udpConn.conns iterated without the lock its writers use; the process dies")

# ---- inbound
fixed("C02", "0f4f1ee", ["c02:%s:%s:async:default:spin-no-delivery" % (n, m) for n in ("tcp", "unix") for m in ("ET", "ONESHOT")] +
      ["c02:udp:%s:async:default:datagram-count" % m for m in ("ET", "ONESHOT")],
      "AsyncReadInPoller with the default IOExecute: pool created with NewIO(0,0,0) (no workers, zero-length read buffers): nothing is delivered and the read loop spins at 100% CPU")
fixed("C02", "323c961", ["c02:udp:%s:sync:%s:datagrams-not-delivered" % (m, e) for m in ("ET", "ONESHOT") for e in ("default", "goroutine", "pool")],
      "UDP listener in ET/ONESHOT: burst of datagrams, only the first is read (read loop stops after a short read; a datagram read is always short)")
fixed("C02", "b687757", ["c02:udp:%s:async:%s:datagram-content" % (m, e) for m in ("ET", "ONESHOT") for e in ("goroutine", "pool", "default")],
      "AsyncRead never restores the read buffer length after a callback: a datagram larger than an earlier one is truncated")
fixed("C02", "837e29e", ["c02:fullclose:%s:%s:unread-data-dropped" % (m, a) for m in ("LT", "ET", "ONESHOT") for a in ("sync", "async")],
      "unix socket: the peer writes and then closes; EPOLLHUP arrives with the data still unread and the connection is closed at once, dropping what the read-times-per-loop limit (or a running asynchronous read) had not consumed yet (pattern fullclose)")
fixed("C02", "e30dbb9", ["c02:*:ONESHOT:*:read-stall (seen as undecided stalls in C04/C01 sweeps)"],
      "Start() sets Engine.isOneshot after launching the pollers; a poller scheduled early runs with one-shot handling off and never re-arms a descriptor after its first event")
fixed("C02", "bd4926b", ["c02:halfclose:%s:%s:unread-data-dropped" % (m, a) for m, a in (("LT", "sync"), ("LT", "async"), ("ONESHOT", "sync"), ("ONESHOT", "async"), ("ET", "async"))],
      "peer writes a burst and immediately half-closes/closes: EPOLLRDHUP arrives with the data, the poller closes the connection right after its bounded read loop (or before the async read task ran) and the unread bytes are dropped (first kept as a known finding, then repaired once the whole check suite was available as a regression net)")

# ---- HTTP parser
fixed("C07", "f310c1b", ["c07:request:trailer-value-truncated-at-space", "c07:response:trailer-value-truncated-at-space"],
      "chunked trailer 'X-T: hello world' delivered as 'hello'")
fixed("C07", "8bbb9f3", ["c07:request:close-decision-differs:comma-list", "c07:request:close-decision-differs:htab-ows"],
      "'Connection: keep-alive, close' / 'Connection: close\\t' on HTTP/1.1: Close=false (net/http: true)")
fixed("C07", "b6374dc", ["c07:request:nbio-rejects:bad-Content-Length:htab-ows", "c07:response:nbio-rejects:bad-Content-Length:htab-ows"],
      "'Content-Length:\\t5' rejected as bad Content-Length")
fixed("C07", "98a78f8", ["c07:response:status-text-truncated-at-space"],
      "'HTTP/1.1 404 Not Found' delivered with status text 'Not'")
fixed("C07", "cdb402d", ["c07:response:empty-reason-phrase-misparsed"],
      "'HTTP/1.1 200 \\r\\nContent-Length: 5\\r\\n\\r\\nhello': next header line taken as the status text")
fixed("C08", "9f8b5e2", ["c08:framing-accepted:missing-cr:status-line"],
      "bare LF in the status line accepted; following header line merged into the status text")
fixed("C08", "da4608a", ["c08:framing-accepted:missing-cr:chunk-size-line", "c08:framing-accepted:missing-cr:last-chunk-line"],
      "bare LF in a chunk-size line skipped as chunk extension ('5\\nAAAAA\\r\\n' read as a size line)")
fixed("C08", "d6eaa4d", ["c08:framing-accepted:missing-cr:trailer-line"],
      "bare LF inside a trailer line accepted ('A: 1\\nB: 2' delivered as one trailer)")

# ---- HTTP response writer
fixed("C09", "803e108", ["c09:chunked:body-not-decodable(invalid-byte-in-chunk-length)"],
      "HTTP/1.1 handler Write(65534); Write(1) (or Write(70000); Write(10)): garbage bytes precede the second chunk header, the client cannot decode the body")
fixed("C09", "af998b6", ["c09:content-length:write-returns-wrong-count"],
      "Content-Length: 65536; Write(65535); Write(1): the second Write returns (65536, nil)")
fixed("C09", "6c95d63", ["c09:chunked+trailer:trailer-late-value-sent-empty"],
      "Trailer: X-A; Write(1); Header().Set(X-A, late): trailer sent with an empty value")
fixed("C09", "bce539c", ["c09:chunked+trailer-list:body-not-decodable(malformed-trailer-line)", "c09:chunked+trailer-noncanonical-declaration:trailer-value-mismatch", "c09:chunked+trailer-noncanonical-declaration:trailer-late-value-sent-empty"],
      "Trailer: X-A, X-Checksum sent as one malformed trailer line; 'Trailer: x-a' never matches the canonical key")
fixed("C09", "afb8909", ["c09:chunked+unregistered-status:status-mismatch"],
      "WriteHeader(299) / WriteHeader(599) answered as 200 OK")
fixed("C09", "2a33900", ["c09:http10+flush:body-truncated"],
      "HTTP/1.0: Write(hello); Flush(); Write( world) declares Content-Length: 5")
fixed("C09", "424e4da", ["c09:chunked+readfrom:status-mismatch", "c09:chunked+readfrom:body-truncated", "c09:chunked+readfrom:bytes-after-response",
      "c09:chunked+readfrom:body-not-decodable(invalid-byte-in-chunk-length)", "c09:chunked+readfrom+trailer:framing-not-chunked",
      "c09:chunked+readfrom:panic-recovered:nbhttp.(*Response).ReadFrom", "c09:content-length+readfrom:panic-recovered:nbhttp.(*Response).ReadFrom",
      "c09:chunked+readfrom-sendfile:panic-recovered:nbhttp.(*Response).ReadFrom", "c09:content-length+readfrom-limited:bytes-after-response",
      "c09:content-length+readfrom-limited:body-corrupted", "c09:content-length+flush+readfrom-limited:bytes-after-response",
      "c09:content-length+flush+readfrom-limited:body-corrupted", "c09:http10+readfrom:body-corrupted", "c09:http10+readfrom:body-truncated"],
      "Response.ReadFrom: status line 000 and Content-Length: 0 before the body, nil dereferences (no pending buffer; bare *os.File), raw bytes inside a chunked stream, LimitedReader limit dropped, pending body bytes sent after the copied ones")
fixed("C11", "88ed8b6", ["c11:append-after-free:nbhttp.(*Response).writeChunk", "c11:append-after-free:nbhttp.(*Response).flush",
      "c11:double-free:nbhttp.(*Response).writeChunk:first-free:nbhttp.(*Response).writeChunk", "c11:double-free:nbhttp.(*Response).flush:first-free:nbhttp.(*Response).writeChunk",
      "c11:double-free:nbhttp.(*Response).ReadFrom:first-free:nbhttp.(*Response).writeChunk", "c11:freed-buffer-handed-to-conn-write:nbhttp.(*Response).writeChunk",
      "c11:freed-buffer-handed-to-conn-write:nbhttp.(*Response).flush", "c11:freed-buffer-handed-to-conn-write:nbhttp.(*Response).Flush", "c11:freed-buffer-handed-to-conn-write:nbhttp.(*Response).ReadFrom"],
      "chunked handler, a single Write(74373) (or Write(60000); Write(6000); Write(1)): writeChunk frees the pending buffer, keeps appending to it, hands it to conn.Write and frees it again")

# ---- executors / deadlines
fixed("C19", "8a372c3", ["c19:taskpool:capacity-not-recovered"],
      "taskpool.New(8,1024) after a burst of 2000 short tasks: a barrier of 7 mutually waiting tasks never completes (the dispatcher's failed fork keeps its slot)")
fixed("C19", "c847f18", ["c19:taskpool:custom-caller:bound-exceeded"],
      "taskpool.New(n, q, caller): the wrapper decrements the running counter after every task; after some tasks 100 blocking tasks run at once on a pool of 8")
fixed("C19", "d65a45b", ["c19:taskpool:queued-tasks-dropped-by-stop"],
      "taskpool.New(2,1024): 100 Go() calls returned, Stop(): none of the queued tasks ever runs")
fixed("C16", "d32f6c7", ["c16:http-keepalive:blocking:never-closed"],
      "IOModBlocking, KeepaliveTime 300 ms, idle keep-alive connection: OnClose(i/o timeout) fires but the socket is never closed")

# ---- WebSocket
fixed("C12", "ffd52c5", ["c12:recv:empty-message-not-delivered", "c12:loop:empty-message-not-delivered"],
      "empty text/binary message (frames 81 00 / 82 80 k k k k): OnMessage never called")
fixed("C13", "12e06aa", ["c13:continuation-without-start:continuation-empty:not-failed"],
      "stray continuation frame with FIN and empty payload (80 00) accepted silently")
fixed("C13", "40d7b26", ["c13:illegal-close-code:1015:accepted-and-echoed"],
      "close frame with code 1015 (88 02 03 f7) accepted and echoed")
fixed("C13", "ffd52c5", ["c13:panic-recovered:compression-negotiated:runtime-error-invalid-memory-address-or-nil-pointer-dereference"],
      "compression negotiated, empty compressed message (c1 00): nil dereference in Parse (recovered)")
fixed("C15", "8cf2a9b", ["c15:compressed:over-limit-message-delivered", "c15:compressed:message-of-exactly-limit-size-refused"],
      "MessageLengthLimit vs. permessage-deflate: message inflating to limit+1..cap delivered; message inflating to exactly the limit refused when the pooled capacity equals the limit")

# ---- end to end (C10, C14) and what they found in the core
known("C10", "c10:close-dictated:large-response-truncated",
      "a response of 1 MiB or more to a close-dictating request (HTTP/1.0 without keep-alive, or Connection: close) whose client reads late is cut: ServerProcessor.flushResponse closes the connection while the rest of the response is still in nbio's send queue, and Close drops the queue (nbhttp/processor.go, comment 'the data may still in the send queue'). A repair needs a drain-then-close facility in the core connection plus a bounded wait and a stop of further parsing in nbhttp (plain, TLS and both client sides): not a small patch. Scope of the signature: close-dictating exchange, declared body >= 1 MiB, received body shorter than declared and a correct prefix of it")
fixed("C10", "76c895f", ["c10:keepalive:connection-closed-early"],
      "an epoll event already fetched for a connection that is closed before the event is handled is applied to the connection that got the same descriptor number meanwhile: a fresh keep-alive connection is closed with EOF (close-churn cases; 274 of 82139 fresh connections in a 25 s stand-alone run)")
fixed("C10", "48448c0", ["c10:client:callback-got-response-of-an-already-failed-request"],
      "ClientConn: after Close (or a failure) and Reset, a response of the old connection whose handling was queued already is handed to the callback of the next request")
fixed("C10", "7434971", ["c10:client:callback-never:after-panic-recovered-in-do"],
      "ClientConn.Do recovers a panic (llib's TLS 1.3 client handshake raises one) but never invokes the callback it queued before; Client.Do never releases the pooled connection")
fixed("C14", "b8f625e", ["c14:transferred:message-callback-before-open-callback-returned", "c14:transferred-oneshot:message-callback-before-open-callback-returned"],
      "UpgradeAndTransferConnToPoller: the connection is readable before Upgrade has called the open handler; a frame sent right after the 101 response has its message callback run before / while the open callback runs")
fixed("C14", "7c78d18", ["c14:transferred-oneshot:close-callback-overlaps-message-callback", "c14:transferred-oneshot:message-callback-after-close-callback"],
      "EPOLLONESHOT, connection transferred to the poller: message callbacks run directly in the poller goroutine (SyncExecutor) while the close callback goes through the connection's job queue; Close from inside OnMessage lets OnClose run while OnMessage is still running")
fixed("C18", "add344e", ["c18:core:tcp:stop-hang", "c18:core:unix:stop-hang", "c18:core:tcp:shutdown-hang", "c18:core:unix:shutdown-hang", "c18:http:mixed:shutdown-hang"],
      "Close of an nbio.Conn before / while it is handed to AddConn (nbhttp's shutdown does this to connections that are just being added): no close notification, but the open is still announced and counted; Stop waits forever (history element close_vs_add_conn; first seen as a rare c18:http:mixed:shutdown-hang)")

fixed("C18", "54f4194", ["crash:panic: sync: WaitGroup is reused before previous Wait has returned"],
      "Engine.AddConn racing Stop: the open handler raises the wait-group counter from zero while Stop is already waiting on it; the runtime panics (history elements add_conn_during_stop race / burst; about one quick run in three)")
fixed("C13", "49b28d9", ["c13:e2e:%s:%s:connection-not-failed" % (p, sc) for p in ("blocking-parser", "mixed") for sc in ("rsv2", "rsv3", "reserved-opcode-3", "reserved-opcode-11", "fragmented-ping", "ping-126", "continuation-without-start", "text-inside-fragmented", "length-top-bit")],
      "IOModBlocking / blocking part of IOModMixed, plain connections: readConnBlocking ignores the error returned by Parse; after a protocol violation the connection stays open and later frames are handled (phase e2e)")
fixed("C13", "08408ec", ["c13:e2e:transferred-tls:%s:connection-not-failed" % sc for sc in ("rsv2", "rsv3", "reserved-opcode-3", "reserved-opcode-11", "fragmented-ping", "ping-126", "continuation-without-start", "text-inside-fragmented", "length-top-bit")],
      "TLS connection transferred to the poller by UpgradeAndTransferConnToPoller: the data handler tests the wrong error variable, a Parse error does not fail the connection (phase e2e)")

fixed("C08", "49b28d9", ["c08:e2e:%s:%s:%s" % (p, sc, k) for p in ("blocking", "mixed") for sc in ("content-length-negative", "content-length-non-numeric", "transfer-encoding-unsupported", "transfer-encoding-repeated", "chunk-size-non-hex", "chunk-size-overflow", "chunk-data-missing-crlf", "header-line-bare-lf") for k in ("connection-not-closed", "handler-ran-for-malformed-request", "request-after-error-served")],
      "IOModBlocking / blocking part of IOModMixed, plain connections: readConnBlocking ignores the error returned by Parse; the connection stays open after a malformed request and the bytes that follow are parsed from the stale state (the handler runs for the malformed request when it is written byte by byte) (phase e2e)")
fixed("C08", "46079e1", ["c08:framing-accepted:non-hex-chunk-size"] + ["c08:e2e:%s:chunk-size-non-hex:handler-ran-for-malformed-request" % p for p in ("nonblocking", "nonblocking-tls", "blocking", "blocking-tls", "mixed", "mixed-tls")],
      "chunk-size lines '5g', '5xyz', '0x5', '5=a': the size is cut at the first non-hex character and the rest of the line ignored - a non-hex chunk size is guessed as 5 / 0 (net/http rejects: invalid byte in chunk length)")

fixed("C15", "0f8198b", ["c15:control-send:over-125-not-refused:write-frame"],
      "Conn.WriteFrame(Ping|Pong|Close, ..., 126+ bytes) writes the oversized control frame (WriteMessage refuses it); control-send cases via WriteFrame")

fixed("C16", "3d2765e", ["c16:write:never-fired", "c16:established-connection-closed-with-dial-timeout"],
      "DialAsyncTimeout arms its timer after the connection was handed to the poller: when the connect completes first, the timer is armed on the established connection after the callback ran - it re-arms the write deadline the callback set (fires an hour late) or stays behind and later closes the connection with the dial timeout error (dialed histories with a dial timeout; 2 of 3 quick seeds)")

fixed("C13", "9e69195", ["c13:frames-only:%s:%s" % (n, k) for n, k in (("text-then-binary", "frames-reported-with-wrong-message-type"), ("binary-then-text", "frames-reported-with-wrong-message-type"), ("fragmented-then-other-type", "frames-reported-with-wrong-message-type"), ("continuation-after-complete-message", "not-failed"), ("text-inside-fragmented", "not-failed"), ("binary-inside-fragmented", "not-failed"), ("continuation-after-fragmented-message-ended", "not-failed"))],
      "endpoint with a data-frame callback only (Upgrader.OnDataFrame, no OnMessage): the message type and the 'fragments expected' flag are only maintained when a message handler is set - every frame is reported with the type of the first message ever, a stray continuation and a new data frame inside a fragmented message are accepted (pointed out as a side remark by a seeding agent; class frames-only)")

fixed("C02", "aa1be85", ["c02:%s:ONESHOT:async:%s:%s" % (n, e, k) for n in ("tcp", "unix") for e in ("default", "goroutine", "pool") for k in ("callbacks-overlap", "stream-differs")],
      "EPOLLONESHOT + AsyncReadInPoller, application writes while input keeps coming (pattern echo): a Write that leaves a backlog re-arms the one-shot event (it needs the writing event) while the reading job is still running; with input pending a second reading job starts - data callbacks of one connection overlap and the stream is handed over out of order (side remark of a seeding agent, who met it in a demo)")

fixed("C18", "4b8fdb3", ["crash:panic: sync: WaitGroup is reused before previous Wait has returned"],
      "Engine.DialAsync racing Stop: the dial raises the wait-group counter from zero while Stop is already waiting on it; the runtime panics (history element dials_during_stop; the twin of the AddConn defect repaired by 54f4194)")

fixed("C03", "2cff64a", ["c03:ET-async:%s:close-not-detected" % k for k in ("peer-close-in-handler", "peer-reset", "peer-close")],
      "EPOLLET + AsyncReadInPoller: the peer sends and closes while the reading job of the connection is running (data handler busy); the hang-up with unread data is left to the job, whose last counted pass consumes the rest with a short read and returns without having seen the end of the stream - no further edge comes, the connection stays open for good (1 of 2880 thorough cases by chance; scenario peer-close-in-handler holds the handler and meets it in every ET-async cell)")

fixed("C17", "6145046", ["c17:%s:fitting-write-not-accepted" % m for m in ("LT", "ET", "ONESHOT")],
      "Conn.Writev with an empty write queue on a socket that takes nothing returns (0, EAGAIN) to the caller instead of caching the input as Write does: a write that fits the budget is not accepted, and no writing event is requested (met first by the C11 workload connq as a refused Writev; C17 now fails any transient refusal of a fitting Write/Writev; 54 of 324 quick cases)")

fixed("C13", "9c89eba", ["c13:random:valid-sequence-rejected", "c13:random:valid-sequence:pong-different", "c13:random:valid-sequence:pong-recv-different"],
      "MessageLengthLimit is applied to every frame, control frames included: a ping/pong/close frame longer than the limit, or a control frame between the fragments of a message that is itself within the limit, fails the connection with 1009 (valid random sequences with a limit equal to the longest message; pointed out as a side remark by a seeding agent)")

fixed("C13", "2dcd717", ["c13:ping:pong-payload-differs", "c13:random:valid-sequence:unexpected-other-frame"] + ["c13:%s:%s" % (c, k) for c in ("close-payload-length-1", "continuation-without-start", "control-fragmented", "control-over-125", "data-frame-inside-fragmented-message", "illegal-close-code", "invalid-utf8-close-reason", "invalid-utf8-text", "len64-top-bit", "reserved-bit", "reserved-opcode") for k in ("event-before-offending-frame-wrong", "event-after-failure-close-frame")],
      "WriteMessage fragments control frames when MaxWebsocketFramePayloadSize is below their payload length: the pong answering a ping and the close reply are written as FIN=0 control frames followed by continuation frames (random sequences with the sender's frame size in {1,16,100,124}; side remark of a seeding agent)")

fixed("C03", "9cf64cc", ["c03:%s:owner-close-around-add:close-before-open" % m for m in ("LT", "ET", "ONESHOT", "ET-async", "ONESHOT-async")],
      "a connection closed by its owner while AddConn hands it to the poller: the connection has its poller before the open notification is delivered, so the close path can queue the close notification first (a hole in repair add344e; met once in 2880 thorough cases under load, step owner-close-around-add / close-race; the window is a few instructions wide and was not hit again in 20000 directed attempts on a quiet machine)")

fixed("C07", "5b3ef3b", ["c07:request:nbio-rejects:invalid-trailer", "c07:response:nbio-rejects:invalid-trailer"],
      "a chunked message whose trailer section repeats a declared field behind the last outstanding declared one (Trailer: X with X sent twice; Trailer: X, Y with lines X, Y, X) is rejected with \"invalid trailer\": the parser deletes a declared name from its set when it sees it and refuses every trailer line once the set is empty, while a repeat in front of the last outstanding field is accepted; net/http delivers both values (found when the generator was given repeated trailer fields after a seeded change in the same state had been missed; 24 of 442100 quick messages)")

json.dump(F, open("/verif/known_findings.json", "w"), indent=1)
print("wrote %d entries (%d known)" % (len(F), sum(1 for f in F if f["status"] == "known")))
