#!/usr/bin/env python3
"""Regenerates the seeded-change table of DESIGN.md section 13 between its markers."""
import subprocess, re
p = '/verif/DESIGN.md'
s = open(p).read()
table = subprocess.check_output(['python3', '/verif/tools/seeded_table.py']).decode().rstrip('\n')
b = s.index('<!-- seeded-table:begin')
b = s.index('\n', b) + 1
e = s.index('<!-- seeded-table:end -->')
open(p, 'w').write(s[:b] + table + '\n' + s[e:])
print('seeded table: %d rows' % (len(table.split('\n')) - 2))

import json, glob, os
tot = first = later = 0
other, never = [], []
def caught(t):
    return re.search(r'(?<!not )caught', t) is not None
for d in sorted(glob.glob('/verif/seeded/*/')):
    m = json.load(open(d + 'meta.json')); tot += 1
    prop = m['property']; ch = m.get('checks', {})
    own = str(ch.get(prop, '')).lower()
    others = ' '.join(str(v).lower() for k, v in ch.items() if k not in ('ran', prop, 'strengthened', 'ported'))
    name = os.path.basename(d[:-1])
    if 'missed' in own or 'first run' in own:
        (later := later + 1) if caught(own) else never.append(name)
    elif own.startswith('not caught') or own == '':
        other.append(name) if caught(others) else never.append(name)
    elif caught(own):
        first += 1
    else:
        never.append(name)
para = ("Totals (%d changes): %d were caught by the check of their own property as it\n"
        "stood; %d were missed at first and are caught since the check was strengthened\n"
        "(every such row says what was added); %d are caught by the check of a\n"
        "neighbouring property that owns the clause they break (a stall is C04's, a\n"
        "deadline after a dial with timeout is C16's, handlers bypassing the job queue at\n"
        "the WebSocket layer are C14's, a panicking job is C05's, Timer.Async is C19's) and are deliberately not\n"
        "asserted twice: %s. Left uncaught: %s.\n") % (tot, first, later, len(other), ', '.join(other), ', '.join(never) or 'none')
s = open(p).read()
b = s.index('<!-- seeded-totals:begin -->') + len('<!-- seeded-totals:begin -->\n')
e = s.index('<!-- seeded-totals:end -->')
open(p, 'w').write(s[:b] + para + s[e:])
print(para)
