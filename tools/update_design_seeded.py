#!/usr/bin/env python3
"""Regenerates the seeded-change table of DESIGN.md section 13 between its markers."""
import subprocess, re
p = '/verif/DESIGN.md'
s = open(p).read()
table = subprocess.check_output(['python3', '/verif/tools/seeded_table.py']).decode().rstrip('\n')
b = s.index('<!-- seeded-table:begin')
b = s.index('\n', b) + 1
e = s.index('<!-- seeded-table:end -->')
open(p, 'w').write(s[:b] + table + '\n' + s[e:])
print('seeded table: %d rows' % (len(table.split('\n')) - 2))
