#!/bin/bash
# usage: tools/process_seeds.sh <worktree-dir> <ID...> - confirm every seeded change under <dir>/seeded and try the given checks (quick) against it
d=$1; shift
cd "$(dirname "$0")/.."
for s in $d/seeded/*/; do
  echo "=== CONFIRM $d $(basename $s)"
  tools/confirm_seeded.sh $s $d 2>&1 | grep -E "exit|PATCH|FAIL|suite done" | cut -c1-220
  echo "=== TRY $(basename $s) :: $@"
  tools/try_seeded.sh $s/patch.diff quick "$@" 2>&1 | grep -v "^ *[0-9]* INCONCLUSIVE" | cut -c1-260
done
