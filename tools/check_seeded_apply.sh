#!/bin/bash
# usage: tools/check_seeded_apply.sh - does every seeded/<id>/patch.diff still apply to /repo HEAD?
cd "$(dirname "$0")/.."
for d in seeded/*/; do
  if git -C /repo apply --check "$PWD/$d/patch.diff" 2>/dev/null; then :; else
    b=$(python3 -c "import json;print(json.load(open('$d/meta.json')).get('base_commit',''))")
    if [ -n "$b" ]; then echo "applies to $b only (see meta.json): $d"; else echo "DOES NOT APPLY: $d"; fi
  fi
done
