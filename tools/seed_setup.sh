#!/bin/bash
# usage: tools/seed_setup.sh <PROP> <dir>  - scratch worktree of /repo HEAD with the property text and the instructions, nothing from /verif
set -e
prop=$1; dir=$2
git -C /repo worktree add -q --detach "$dir" HEAD
python3 - "$prop" "$dir" <<'PY'
import json,sys
prop,d=sys.argv[1],sys.argv[2]
for l in open('/verif/properties.jsonl'):
    j=json.loads(l)
    if j['id']==prop:
        open(d+'/PROPERTY.txt','w').write(json.dumps(j,indent=1))
t=open('/verif/tools/seed_instructions.txt').read().replace('__DIR__',d)
open(d+'/INSTRUCTIONS.txt','w').write(t)
PY
echo "$dir ready"
