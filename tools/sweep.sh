#!/bin/bash
# usage: tools/sweep.sh <tier> <seeds> <ID...>   - runs checks at several seeds, prints verdict lines
export GOFLAGS=-mod=mod GOPROXY=off GOSUMDB=off GOTOOLCHAIN=local
cd "$(dirname "$0")/.."
[ -x bin/vcheck ] || go build -o bin/vcheck ./cmd/vcheck
tier=$1; seeds=$2; shift 2
for s in $seeds; do
  for id in "$@"; do
    VERIF_SEED=$s bin/vcheck run $id --tier $tier 2>&1 | grep -E "^(VIOLATION|KNOWN|INCONCLUSIVE|BUILD|  sig:|$id tier)" | cut -c1-400
  done
done
