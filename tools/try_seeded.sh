#!/bin/bash
# usage: tools/try_seeded.sh <patch.diff> <tier> <ID...>
# Applies the patch to a scratch worktree of /repo (never to /repo itself), runs the
# given checks against it with VERIF_REPO and an own output dir, prints verdict lines.
export GOFLAGS=-mod=mod GOPROXY=off GOSUMDB=off GOTOOLCHAIN=local
patch=$(readlink -f "$1"); tier=$2; shift 2
cd "$(dirname "$0")/.."
wt=$(mktemp -d /tmp/seedtry.XXXXXX)
git -C /repo worktree add -q --detach "$wt" HEAD || exit 3
if ! git -C "$wt" apply "$patch"; then echo "PATCH DOES NOT APPLY"; git -C /repo worktree remove --force "$wt"; exit 3; fi
for id in "$@"; do
  VERIF_REPO="$wt" VERIF_OUT_SUFFIX="-seed$$" bin/vcheck run $id --tier $tier 2>&1 | grep -E "^(KNOWN|INCONCLUSIVE|BUILD|  sig:|$id tier)" | sort | uniq -c | cut -c1-260
done
git -C /repo worktree remove --force "$wt"
rm -rf out/*-seed$$ evidence/*-seed$$.json
