#!/usr/bin/env python3
"""usage: import_seeded.py <seeded-src-dir> <orig-worktree> <PROPERTY> <caught_by json string>
Copies a confirmed seeded change into /verif/seeded/<PROP>-<name>/ and augments meta.json."""
import json, os, shutil, sys
src, orig, prop, caught = sys.argv[1], sys.argv[2], sys.argv[3], json.loads(sys.argv[4])
name = os.path.basename(src.rstrip('/'))
dst = '/verif/seeded/%s-%s' % (prop, name)
os.makedirs(dst, exist_ok=True)
for f in os.listdir(src):
    p = os.path.join(src, f)
    if os.path.isdir(p) or f in ('out.txt',) or f.endswith('.test'):
        continue
    shutil.copy(p, os.path.join(dst, f))
gm = os.path.join(dst, 'go.mod')
if os.path.exists(gm):
    s = open(gm).read().replace('=> ' + orig, '=> /repo')
    open(gm, 'w').write(s)
mp = os.path.join(dst, 'meta.json')
m = json.load(open(mp)) if os.path.exists(mp) else {}
m['property'] = prop
m['confirmed_by_maintainer'] = "tools/confirm_seeded.sh in a fresh scratch worktree of /repo HEAD: demo passes without the change; with it the tree builds, the existing suite passes and the demo fails"
m['demo_note'] = "go.mod's replace points at /repo: run the demo with the patch applied to a scratch worktree and the replace edited to it (tools/confirm_seeded.sh does that)"
m['checks'] = caught
json.dump(m, open(mp, 'w'), indent=1)
print('imported', dst)
