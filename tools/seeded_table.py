#!/usr/bin/env python3
"""Prints the markdown table of /verif/seeded/*/meta.json (for DESIGN.md section 13)."""
import json, glob, os
rows = []
for d in sorted(glob.glob('/verif/seeded/*/')):
    m = json.load(open(os.path.join(d, 'meta.json')))
    name = os.path.basename(d.rstrip('/'))
    needs = (m.get('needs_to_manifest') or '').replace('\n', ' ').replace('|', '/')
    if len(needs) > 150:
        needs = needs[:147] + '...'
    ch = m.get('checks', {})
    res = []
    for k, v in ch.items():
        if k == 'ran':
            continue
        v = v.replace('|', '/')
        if len(v) > 230:
            v = v[:227] + '...'
        res.append('%s: %s' % (k, v))
    rows.append('| %s | %s | %s |' % (name, needs, '; '.join(res)))
print('| seeded change | needs | result (quick tier) |')
print('|---|---|---|')
print('\n'.join(rows))
