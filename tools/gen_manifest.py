#!/usr/bin/env python3
"""Regenerates /verif/MANIFEST.json from the table below (kept in one place so
that the claimed / not_applicable partition is always consistent)."""
import json, subprocess

HOOK_COMMITS = ["920d73b"]

TB = ("Trusted base: Go toolchain and runtime, Linux kernel sockets/epoll, the harness's own oracle code; "
      "only executions produced by this run are covered (cases are a fixed list derived from VERIF_SEED).")

# id -> dict(level, text, note, technique, ref)  or  dict(na=reason)
P = {
 "C20": dict(level="exploration", ref="4/C20",
    technique="reference-model monitor (shadow copies) + pairwise-disjointness sweeps over random allocator programs; race detector with //go:norace stripped (thorough)",
    text="Runs the real allocators (mempool.New variants, aligned, std, DefaultMemPool, TraceDebugger wrappers) under random Malloc/Append/AppendString/Realloc/Free programs, single-threaded and with 16 goroutines sharing one allocator, and checks every returned buffer against a shadow copy plus periodic whole-heap sweeps (contents and address-range disjointness). Exploration is the right level: the contract is over all operation sequences, which are sampled around every size-class boundary.",
    note=TB),
}

NOT_YET = "check not built yet in this round (work in progress; see DESIGN.md section 4)"

def main():
    ids = [json.loads(l)["id"] for l in open("/verif/properties.jsonl")]
    checks, na = [], []
    for i in ids:
        p = P.get(i)
        if p is None:
            na.append({"property_id": i, "reason": NOT_YET})
            continue
        if "na" in p:
            na.append({"property_id": i, "reason": p["na"]})
            continue
        checks.append({
            "property_id": i,
            "quick_cmd": "bin/vcheck run %s --tier quick" % i,
            "thorough_cmd": "bin/vcheck run %s --tier thorough" % i,
            "evidence_file": "/verif/evidence/%s.json" % i,
            "replay_cmd_template": "bin/vcheck replay %s {path}" % i,
            "engine": "vcheck",
            "level_claimed": {"category": p["level"], "text": p["text"], "design_ref": "DESIGN.md section " + p["ref"]},
            "level_note": p["note"],
            "technique": p["technique"],
        })
    m = {
        "version": 1,
        "setup_cmd": "cd /verif && GOFLAGS=-mod=mod GOPROXY=off GOSUMDB=off GOTOOLCHAIN=local go build -o bin/vcheck ./cmd/vcheck",
        "hooks": {
            "guard": "verif",
            "enable": "go build -tags verif -overlay <generated> (overlay strips //go:norace and, for shim phases, routes the package's write/read/sendfile/writev/epoll_ctl syscalls through the verif* functions of the tag-guarded hook file)",
            "baseline_off_cmd": "cd /repo && GOFLAGS=-mod=mod GOPROXY=off GOSUMDB=off GOTOOLCHAIN=local go test -json -vet=off -count=1 -timeout 25m ./...",
            "source_commits": HOOK_COMMITS,
            "add_only": True,
        },
        "engines": [{
            "name": "vcheck", "path": "/verif/cmd/vcheck",
            "serves_properties": [c["property_id"] for c in checks],
            "kind_free_text": "driver: regenerates the build overlay from /repo, builds one worker binary per phase with -tags verif, runs it in child processes (sharded), merges monitor results, applies known_findings.json, writes evidence",
        }],
        "checks": checks,
        "not_applicable": na,
        "notes": "Runtime monitoring only. Exit 1 only with a VIOLATION line; inconclusive cases are printed and exit 0; exit 2 = tree does not build with hooks on. VERIF_SEED selects the case list.",
    }
    json.dump(m, open("/verif/MANIFEST.json", "w"), indent=1)
    print("wrote MANIFEST.json: %d checks, %d not_applicable" % (len(checks), len(na)))

main()
