#!/usr/bin/env python3
"""Regenerates /verif/MANIFEST.json from the table below (kept in one place so
that the claimed / not_applicable partition is always consistent)."""
import json, subprocess

HOOK_COMMITS = ["920d73b"]

SHIM = " The shim phase is fault enumeration at the kernel boundary: the package's write/writev/sendfile syscalls go through a policy that shortens transfers (the prefix is really transferred), injects EINTR/EAGAIN and fatal errnos, with an emulated writability edge in plain ET so that no impossible kernel behaviour is manufactured."

TB = ("Trusted base: Go toolchain and runtime, Linux kernel sockets/epoll, the harness's own oracle code; "
      "only executions produced by this run are covered (cases are a fixed list derived from VERIF_SEED).")

# id -> dict(level, text, note, technique, ref)  or  dict(na=reason)
P = {
 "C01": dict(level="fault_enumeration", ref="4/C01",
    technique="history monitor over self-describing payloads (offline stream oracle: whole-call interleaving, program and real-time order, completeness at quiescence) on real sockets + syscall-shim fault injection; spin/deadlock guard; race detector with //go:norace stripped (thorough)",
    text="Drives real nbio connections (tcp/unix x LT/ET/ONESHOT) with seeded multi-writer programs of Write/Writev/Sendfile against eager, slow, late, stop-and-go and resetting peers, records every call at the API boundary with one logical clock, and checks the byte stream the peer received against the calls: each accepted call exactly once as one contiguous run, program and real-time order kept, complete when the connection stayed open, a valid prefix after an error close, nil error => full length." + SHIM,
    note=TB),
 "C02": dict(level="exploration", ref="4/C02",
    technique="history monitor (per-connection callback log with inside-counter, self-describing streams / numbered datagrams compared at quiescence) + read stuck-state predicate (FIONREAD, read-event counter, CPU idle) + CPU-time spin monitor over the configuration matrix",
    text="Runs the real engine over the enumerated product transport x epoll mode x sync/async x executor and sampled poller count, read-buffer size, per-loop read limit and peer patterns, with seeded delays at the async-read hand-over, and decides delivery (exactly once, in order, right connection, datagram boundaries) at quiescence, non-delivery by a stable stuck-state and idle spinning by CPU time. Exploration: schedules and configurations are sampled.",
    note=TB),
 "C03": dict(level="exploration", ref="4/C03",
    technique="history monitor over open/close notifications, dial callbacks and post-Close operation results (one logical clock); fd-reuse victim socket as kernel-level oracle; quiescence-decided completeness; seeded delay points",
    text="Creates connections by accept, AddConn and DialAsync and ends each by a seeded scenario (peer close/reset, Close, CloseWithError, 2-8 concurrent closers during traffic, deadline, overflow, Close inside OnOpen, Stop); exactly one close notification after the open one with the first cause as error, closed indication and an untouched descriptor after Close returned, and DialAsync outcomes checked against harness listeners with known fate (accepted, refused, accept-queue full, missing path).",
    note=TB),
 "C04": dict(level="fault_enumeration", ref="4/C04",
    technique="bounded-progress monitor: backlog created from a chosen origin, then 'complete (C01 stream oracle) or stable write stuck-state' (backlog accessor > 0, poll(POLLOUT) writable, peer FIONREAD 0, idle CPU, control connection on the same poller answering) on real sockets and under the syscall shim",
    text="Creates a backlog from every origin the statement names (OnOpen before registration, the registration gap via a delay point, OnData, foreign goroutine, timer, another connection's OnClose) in every transport and epoll mode, then lets the peer read and makes no further call; liveness is restated as bounded progress and decided by a stable stuck-state predicate, never by elapsed time alone." + SHIM,
    note=TB),
 "C05": dict(level="exploration", ref="4/C05",
    technique="history monitor (submit/start/end events, one logical clock) decided by an O(n log n) FIFO sweep cross-checked with porcupine against a queue model; inside-counter for mutual exclusion; quiescence-decided exactly-once; seeded delay points at the hand-over; race detector with //go:norace stripped (function-set filter)",
    text="1-16 goroutines submit Execute/MustExecute jobs on 1-4 real connections under inline, goroutine-per-call and bounded-pool executors, GOMAXPROCS 1/2/16, panicking jobs and Close racing submissions, with seeded delays at execute.afterAppend/afterJob; exactly-once, one-at-a-time, real-time FIFO, false-after-Close and MustExecute-always are decided on the recorded history; the evidence counts the hand-over windows actually observed.",
    note=TB + " porcupine v1.3.0 is trusted as the cross-check of the hand-written sweep; its timeouts are inconclusive."),
 "C06": dict(level="exploration", ref="4/C06",
    technique="differential monitor: the same parser fed in one piece vs. every single cut, cut pairs, byte-at-a-time and random cuts; recording Processor + real Server/ClientProcessor",
    text="Grammar-generated request/response streams (pipelining, Content-Length, chunked with extensions and trailers, lenient spacing, malformed neighbours) are parsed in one piece and under exhaustive single cuts (plus pairs / byte-wise / random cuts); event sequence, delivered messages and error outcome must be identical. Exhaustive only over cut positions of the generated streams.",
    note=TB),
 "C07": dict(level="exploration", ref="4/C07",
    technique="differential monitor against net/http (ReadRequest/ReadResponse) on generated well-formed messages, including message-boundary offsets",
    text="Generated messages inside the agreed domain are parsed by nbio and by net/http; method, target, version, host, header multimap modulo OWS, body, trailers, close decision, status and boundary offset must agree.",
    note=TB + " net/http is the trusted reference."),
 "C08": dict(level="exploration", ref="4/C08",
    technique="robustness monitors on random/mutated/attack inputs: captured recover() log lines, events-after-error, tracking allocators for carry-over and body bounds, framing-attack corpus, CPU-time hang detector",
    text="Feeds random bytes, mutated valid messages and a framing-attack corpus in random segmentations under several ReadLimit/MaxHTTPBodySize settings; no recovered panic, nothing after the first error, retained bytes and body bytes within the configured bounds, malformed framing never yields a message.",
    note=TB),
 "C09": dict(level="exploration", ref="4/C09",
    technique="model-based differential monitor: generated handler programs run under the real ServerProcessor/Response in memory, wire bytes decoded by net/http.ReadResponse and compared with a model of the program; failing programs are minimised; guard allocator active",
    text="Handler programs over header settings, WriteHeader (registered and unregistered codes), Write/WriteString/ReadFrom (plain reader, LimitedReader over *os.File, bare *os.File), Flush and late trailer values, for HTTP/1.0 and 1.1, keep-alive and close, with totals placed at 65536-h-{2,1,0}, 65536+-1, 2x65536+-1 and up to 300 KiB; the wire must decode to exactly one response equal to the model, with consistent framing, and every successful Write must return len(input).",
    note=TB + " net/http.ReadResponse is the trusted decoder; programs whose model is ill-defined (Content-Length != bytes written, 204/304 with body, header mutation after commit) are unasserted and counted."),
 "C10": dict(level="exploration", ref="4/C10",
    technique="end-to-end history monitor on real sockets: process-unique exchange ids and id-keyed body patterns (bytes of another exchange are recognised and attributed), per-connection request/response/handler logs with one logical clock, final-history detector (progress flat, no workload timer pending, idle CPU) for 'never answered / left open'; independent observers net/http and crypto/tls; nbhttp's own Client/ClientConn driven with callback counters",
    text="Started nbhttp engines in all 18 cells IOMod x plain/TLS x epoll mode serve 1-64 concurrent connections of a raw pipelining client (HTTP/1.0 and 1.1, close / keep-alive spellings, bodies 0 B - 1 MiB, pipelining depth 1-16, mid-stream closes), net/http.Transport and nbhttp's own Client.Do / ClientConn.Do; response i must carry request i's id and exactly its body, one response per request, EOF and nothing else after a close-dictating exchange, no close where none was dictated, no byte of another exchange anywhere, and every client callback exactly once with its own response or an error; close-churn cases make both sides end connections at once so that descriptor numbers are reused immediately. Exploration: schedules, sizes and histories are sampled.",
    note=TB + " One known finding is listed in known_findings.json (responses of 1 MiB and more to a close-dictating request are cut at the send queue when the connection is closed); everything else is asserted for those exchanges too."),
 "C14": dict(level="exploration", ref="4/C14",
    technique="end-to-end history monitor on real sockets: per-connection callback log with inside-counters and one logical clock (open-before-message, no overlap, consecutive sequence numbers, close exactly once and last), wire-side reassembly of concurrently written messages by an independent RFC 6455 codec (whole, non-interleaved frame sequences, none lost or duplicated, end marker last); seeded delay points; race detector with //go:norace stripped (thorough, function-set filter)",
    text="Servers on every upgrade path (poller-driven, blocking with parser, blocking with own read loop, transferred to the poller from IOModBlocking and from net/http, mixed) x epoll mode x direct / queued writes (and TLS for engine-served paths) get 1-5 raw clients sending numbered, partly fragmented messages with pings in between under random TCP segmentation while 2-32 goroutines per connection call WriteMessage concurrently with messages larger than the frame limit; connections end by close frame, TCP close, Close from inside/outside a callback, the application's CloseAndClean, or Engine.Stop. Exploration: schedules are sampled.",
    note=TB + " Connections ended by Engine.Stop are outside the quantifier (only a duplicated close callback alarms); compression, OnDataFrame and the Dialer side are not exercised here (C12/C13/C15 cover the codec in memory)."),
 "C11": dict(level="exploration", ref="4/C11",
    technique="sanitizer-style guard allocator (internal/guardalloc: shadow state per never-recycled region, poison on free, quarantine sweeps, liveness checks on everything handed to the harness; thorough adds an mmap/mprotect(PROT_NONE) fault mode) installed as DefaultMemPool and BodyAllocator under the C09 programs, HTTP request workloads and in-memory WebSocket workloads",
    text="Every Malloc/Append/Realloc/Free the HTTP and WebSocket layers perform goes through an allocator that never recycles memory and knows each region's state: double free, append/realloc after free, write after free (poison sweep), freed buffers handed to the connection or to handlers, and - in fault mode - any read or write after free as a hardware fault. Leaks are counted, never alarmed.",
    note=TB + " Real-socket paths (write-queue release on close racing flush, TLS allocator, blocking-mode send queue) are not driven by this check; buffers the workloads never cause to be allocated are invisible."),
 "C12": dict(level="exploration", ref="4/C12",
    technique="reference-codec monitor (independent RFC 6455/7692 implementation in internal/wsref): nbio sender -> reference decoder, reference encoder -> arbitrary segmentation -> nbio receiver, nbio <-> nbio",
    text="Messages of every length class, both roles, compression off and all levels, frame-size limits 1..32768, reference-side fragmentation with interleaved control frames and all single-cut/byte-wise/random segmentations are round-tripped; delivered (type,payload) sequences must equal the sent ones and the wire must obey masking/fragment-size/RSV1 rules.",
    note=TB + " internal/wsref is the trusted reference codec (unit-tested, UTF-8 validator cross-checked against unicode/utf8)."),
 "C13": dict(level="exploration", ref="4/C13",
    technique="reference-validator monitor: exhaustive single-frame header space in three contexts, all 65536 close codes, UTF-8 classes split at every byte, random valid/invalid sequences under random segmentation, decided against the RFC 6455 sequence validator in internal/wsref",
    text="The reference validator classifies every generated frame sequence as valid or 'must fail at frame k'; nbio must deliver exactly the reference's messages for valid ones, fail the connection no later than the end of the message containing frame k and never deliver that message for invalid ones; ping => identical pong, close => close. The single-frame header space and the close-code space are enumerated completely on every run.",
    note=TB + " Unasserted classes are listed in DESIGN.md (mask bit vs role on receipt, RSV1 on non-first frames under compression, codes 1012-1014, which code accompanies a failure)."),
 "C15": dict(level="exploration", ref="4/C15",
    technique="boundary monitor with a tracking allocator: messages at limit-1/limit/limit+1 as one frame, fragments and deflate bombs; peak live bytes per connection and input-cache bound measured through BodyAllocator",
    text="For limits 1..100000 messages straddling the limit are sent in one frame, 2-5 fragments and as compressed frames inflating to limit-1, limit, limit+1, +24, 10x, 1000x, with pooled and size-aligned allocators and random segmentation: nothing above the limit is delivered, the connection is failed with 1009, <= limit is delivered, control frames > 125 refused on send and receive, buffered bytes stay within the stated bound.",
    note=TB),
 "C16": dict(level="exploration", ref="4/C16",
    technique="timed history monitor with one-sided, causally sound inequalities (never-early exact; fires/cleared bounded by a control timer and a starvation monitor), pure oracle in internal/dl; server-side stamp brackets for HTTP keep-alive and WebSocket silence",
    text="Hundreds of connections run random histories of set / renew / clear / mixed read-write deadlines, traffic, writes that empty the backlog, closes and concurrent setters; a timeout close is never before the last effective deadline, carries the right error, does not happen after a clear / emptied backlog / renewal (until the new deadline), and does happen (control-timer calibrated). HTTP keep-alive and WebSocket silence are bracketed by server-side stamps in non-blocking and blocking mode.",
    note=TB + " Real time is unavoidable here (nbio uses time.AfterFunc); load can only turn a case inconclusive."),
 "C17": dict(level="fault_enumeration", ref="4/C17",
    technique="model-based monitor: exact backlog model (accepted - bytes the shimmed kernel took) vs. accessor snapshots under the connection mutex after every call; writes placed at the bound; real-socket phase with a paused peer",
    text="With the syscall shim giving the kernel room for exactly Budget bytes the true backlog is known, so writes are placed below, at and one byte above MaxWriteBufferSize across 40-300 fill/drain cycles per connection; counter == queued bytes == model, <= max, overflow only when it would exceed (and then the connection closes with ErrOverflow), fitting writes always accepted, full budget back after a drain; stream content re-checked with the C01 oracle.",
    note=TB),
 "C18": dict(level="exploration", ref="4/C18",
    technique="resource monitors around Start/Stop cycles in a long-lived process: hang predicate (h.Guard), opens == closes at Stop return, client-side close/reset observation with kernel-level probe, goroutine-stack and /proc/self/fd baselines with settle loop, per-shard slope",
    text="Each case runs one Start -> history -> Stop/Shutdown cycle of a core engine (tcp/unix/udp x epoll mode; backlogs, pending deadlines, dials still connecting, concurrent closers, clients connecting during Stop, delay points) or an HTTP engine (three I/O modes x plain/TLS, keep-alive, idle and WebSocket connections) and checks that Stop returns, every notification was delivered, every client connection was closed, and goroutines/descriptors return to the baseline.",
    note=TB),
 "C19": dict(level="exploration", ref="4/C19",
    technique="history monitor for task pools and Timer.Async (exactly-once, running-counter bound, FIFO sweep), self-calibrated barrier test for capacity recovery decided by a stuck-state predicate, seeded delay points, race detector with //go:norace stripped",
    text="Pools of 2-64 workers with queues 0-1024 get bursts of 10-100x the bound, panicking tasks, submissions racing Stop, default and custom callers, IOTaskPool buffers; tasks accepted before Stop run exactly once, at most n at a time, and after overload and idleness a barrier of as many mutually waiting tasks as a fresh pool completes must complete again; Timer.Async functions run exactly once, one at a time, in real-time FIFO order under 1-16 producers.",
    note=TB),
 "C20": dict(level="exploration", ref="4/C20",
    technique="reference-model monitor (shadow copies) + pairwise-disjointness sweeps over random allocator programs; race detector with //go:norace stripped (thorough)",
    text="Runs the real allocators (mempool.New variants, aligned, std, DefaultMemPool, TraceDebugger wrappers) under random Malloc/Append/AppendString/Realloc/Free programs, single-threaded and with 16 goroutines sharing one allocator, and checks every returned buffer against a shadow copy plus periodic whole-heap sweeps (contents and address-range disjointness). Exploration is the right level: the contract is over all operation sequences, which are sampled around every size-class boundary.",
    note=TB),
}

NOT_YET = "check not built yet in this round (work in progress; see DESIGN.md section 4)"

def main():
    ids = [json.loads(l)["id"] for l in open("/verif/properties.jsonl")]
    checks, na = [], []
    for i in ids:
        p = P.get(i)
        if p is None:
            na.append({"property_id": i, "reason": NOT_YET})
            continue
        if "na" in p:
            na.append({"property_id": i, "reason": p["na"]})
            continue
        checks.append({
            "property_id": i,
            "quick_cmd": "bin/vcheck run %s --tier quick" % i,
            "thorough_cmd": "bin/vcheck run %s --tier thorough" % i,
            "evidence_file": "/verif/evidence/%s.json" % i,
            "replay_cmd_template": "bin/vcheck replay %s {path}" % i,
            "engine": "vcheck",
            "level_claimed": {"category": p["level"], "text": p["text"], "design_ref": "DESIGN.md section " + p["ref"]},
            "level_note": p["note"],
            "technique": p["technique"],
        })
    m = {
        "version": 1,
        "setup_cmd": "cd /verif && GOFLAGS=-mod=mod GOPROXY=off GOSUMDB=off GOTOOLCHAIN=local go build -o bin/vcheck ./cmd/vcheck",
        "hooks": {
            "guard": "verif",
            "enable": "go build -tags verif -overlay <generated> (overlay strips //go:norace and, for shim phases, routes the package's write/read/sendfile/writev/epoll_ctl syscalls through the verif* functions of the tag-guarded hook file)",
            "baseline_off_cmd": "cd /repo && GOFLAGS=-mod=mod GOPROXY=off GOSUMDB=off GOTOOLCHAIN=local go test -json -vet=off -count=1 -timeout 25m ./...",
            "source_commits": HOOK_COMMITS,
            "add_only": True,
        },
        "engines": [{
            "name": "vcheck", "path": "/verif/cmd/vcheck",
            "serves_properties": [c["property_id"] for c in checks],
            "kind_free_text": "driver: regenerates the build overlay from /repo, builds one worker binary per phase with -tags verif, runs it in child processes (sharded), merges monitor results, applies known_findings.json, writes evidence",
        }],
        "checks": checks,
        "not_applicable": na,
        "notes": "Runtime monitoring only. Exit 1 only with a VIOLATION line; inconclusive cases are printed and exit 0; exit 2 = tree does not build with hooks on. VERIF_SEED selects the case list.",
    }
    json.dump(m, open("/verif/MANIFEST.json", "w"), indent=1)
    print("wrote MANIFEST.json: %d checks, %d not_applicable" % (len(checks), len(na)))

main()
