package main

// Two case kinds added after the seeded-change campaign showed what the
// random histories do not reach:
//
//   - async-backlog: a Timer.Async drainer is parked while thousands of
//     functions queue up (the list grows past the capacity at which the drainer
//     replaces it when it catches up); after the drain later functions must
//     still run - exactly once, in order.
//   - async-churn: many producers, functions that do nothing: the drainer exits and
//     restarts thousands of times per case (every exit is a hand-over).
//   - fork-burst: many submitters leave a spin barrier at the same instant and
//     call Go on an idle, small pool with tasks that block until the round is
//     released; the number of tasks running at once must not exceed the bound.

import (
	"fmt"
	"runtime"
	"sync"
	"sync/atomic"
	"time"

	"github.com/lesismal/nbio/taskpool"
	"github.com/lesismal/nbio/timer"

	"verif/internal/h"
	"verif/internal/hist"
)

func genExtra(r *h.Run, kind string, i int) caseT {
	rng := r.Rand("c19/"+kind, i)
	c := caseT{Index: i, Kind: kind, Note: replayNote, HookMode: "none", Procs: 16, Dur: "zero", Pace: "none"}
	switch kind {
	case "async-backlog":
		c.Variant = "timer"
		c.Tasks = []int{300, 1100, 3000, 6000}[rng.Intn(4)] // below and above the 1024-capacity threshold
		c.Submitters = 1 + rng.Intn(4)
	case "async-churn":
		c.Variant = "timer"
		c.Submitters = 4 + rng.Intn(13)
		c.Tasks = r.N(2000, 6000) // functions per producer
	case "fork-burst":
		c.Variant = "default"
		c.N = []int{2, 3, 4, 6, 8}[rng.Intn(5)]
		c.Q = 256
		c.Submitters = 8 + rng.Intn(9)
		c.Tasks = r.N(25, 300) // rounds
	}
	return c
}

func runAsyncBacklog(r *h.Run, c caseT) {
	t := timer.New("vc19")
	var ran atomic.Int64
	var order []int64
	var mu sync.Mutex
	gate := make(chan struct{})
	parked := make(chan struct{})
	t.Async(func() { close(parked); <-gate }) // parks the drainer
	select {
	case <-parked:
	case <-time.After(10 * time.Second):
		r.Inconclusive("async-backlog: drainer did not start")
		close(gate)
		return
	}
	total := c.Tasks
	var wg sync.WaitGroup
	var seq atomic.Int64
	per := total / c.Submitters
	for s := 0; s < c.Submitters; s++ {
		wg.Add(1)
		go func() {
			defer wg.Done()
			for k := 0; k < per; k++ {
				mu.Lock() // submission order = id order (the lock makes Async calls sequential)
				id := seq.Add(1)
				t.Async(func() {
					ran.Add(1)
					mu.Lock()
					order = append(order, id)
					mu.Unlock()
				})
				mu.Unlock()
			}
		}()
	}
	wg.Wait()
	queued := seq.Load()
	close(gate)
	ok, decided := waitDone(func() bool { return ran.Load() >= queued }, func() int64 { return ran.Load() })
	if !decided {
		r.Inconclusive("async-backlog: neither complete nor a stable stuck state")
		return
	}
	if !ok {
		r.Violate("c19:timer-async:backlog:function-lost", fmt.Sprintf("%d functions were queued behind a parked drainer, %d ran after it was released (stuck state: no progress, idle)", queued, ran.Load()), c)
		return
	}
	mu.Lock()
	for i := range order {
		if order[i] != int64(i+1) {
			mu.Unlock()
			r.Violate("c19:timer-async:backlog:fifo-violated", fmt.Sprintf("function %d ran at position %d of %d", order[i], i+1, queued), c)
			return
		}
	}
	mu.Unlock()
	// the queue has been drained completely: functions passed now must still run
	for p := 0; p < 5; p++ {
		var probe atomic.Int64
		t.Async(func() { probe.Add(1) })
		ok, decided := waitDone(func() bool { return probe.Load() == 1 }, func() int64 { return probe.Load() })
		if !decided {
			r.Inconclusive("async-backlog: probe undecided")
			return
		}
		if !ok {
			r.Violate("c19:timer-async:backlog:function-after-drain-never-ran", fmt.Sprintf("after a backlog of %d functions was drained, a function passed to Async never ran (probe %d; stuck state: no progress, idle)", queued, p), c)
			return
		}
		time.Sleep(time.Millisecond)
	}
	r.Count("async_backlog_functions", queued)
	r.Seen("async_backlog_sizes", fmt.Sprint(c.Tasks))
	r.Nontrivial(fmt.Sprintf("async-backlog/%d", c.Index))
}

// runAsyncChurn: many producers pass functions that do nothing to a queue that keeps running
// empty, so the drainer exits and is restarted thousands of times per case - every hand-over
// between "the drainer found nothing and leaves" and "a producer appended and did not start a
// drainer because the list was not empty" is a chance to strand a function. Exactly once, decided
// in the final state.
func runAsyncChurn(r *h.Run, c caseT) {
	t := timer.New("vc19")
	n := c.Submitters * c.Tasks
	runs := make([]atomic.Int32, n)
	var ran atomic.Int64
	var wg sync.WaitGroup
	gate := make(chan struct{})
	for s := 0; s < c.Submitters; s++ {
		wg.Add(1)
		go func(s int) {
			defer wg.Done()
			rng := r.Rand(fmt.Sprintf("c19/async-churn/%d", s), c.Index)
			<-gate
			for k := 0; k < c.Tasks; k++ {
				id := s*c.Tasks + k
				t.Async(func() {
					runs[id].Add(1)
					ran.Add(1)
				})
				switch rng.Intn(8) {
				case 0:
					runtime.Gosched()
				case 1:
					for x := 0; x < rng.Intn(200); x++ {
						_ = x
					}
				}
			}
		}(s)
	}
	close(gate)
	wg.Wait()
	ok, decided := waitDone(func() bool { return ran.Load() >= int64(n) }, func() int64 { return ran.Load() })
	if !decided {
		r.Inconclusive("async-churn: neither complete nor a stable stuck state")
		return
	}
	lost, twice, first := 0, 0, -1
	for i := range runs {
		switch v := runs[i].Load(); {
		case v == 0:
			lost++
			if first < 0 {
				first = i
			}
		case v > 1:
			twice++
		}
	}
	if twice > 0 {
		r.Violate("c19:timer-async:churn:double-run", fmt.Sprintf("%d of %d functions passed to Async by %d producers ran more than once", twice, n, c.Submitters), c)
		return
	}
	if !ok || lost > 0 {
		r.Violate("c19:timer-async:churn:function-lost", fmt.Sprintf("%d producers passed %d functions to Async, %d never ran (first: function %d of producer %d); stuck state: all producers returned, no function ran over >= 20 samples / >= 2 s of idle CPU", c.Submitters, n, lost, first%c.Tasks, first/c.Tasks), c)
		return
	}
	r.Count("async_churn_functions", int64(n))
	r.Nontrivial(fmt.Sprintf("async-churn/%d", c.Index))
}

func runForkBurst(r *h.Run, c caseT) {
	tp := taskpool.New(c.N, c.Q)
	defer tp.Stop()
	var maxSeen int64
	for round := 0; round < c.Tasks; round++ {
		var running, peak, started atomic.Int64
		release := make(chan struct{})
		var ready atomic.Int32
		var goFlag atomic.Int32
		var wg sync.WaitGroup
		for s := 0; s < c.Submitters; s++ {
			wg.Add(1)
			go func() {
				defer wg.Done()
				ready.Add(1)
				for goFlag.Load() == 0 { // tight spin: all submitters enter Go at the same instant
				}
				tp.Go(func() {
					n := running.Add(1)
					for {
						p := peak.Load()
						if n <= p || peak.CompareAndSwap(p, n) {
							break
						}
					}
					started.Add(1)
					<-release
					running.Add(-1)
				})
			}()
		}
		for int(ready.Load()) < c.Submitters {
			runtime.Gosched()
		}
		goFlag.Store(1)
		// let the pool admit what it admits
		for i := 0; i < 200 && started.Load() < int64(c.N); i++ {
			time.Sleep(50 * time.Microsecond)
		}
		time.Sleep(300 * time.Microsecond)
		p := peak.Load()
		close(release)
		wg.Wait()
		// wait until every task of the round ran (exactly-once is runPool's business; here: drain)
		for i := 0; i < 20000 && started.Load() < int64(c.Submitters); i++ {
			time.Sleep(50 * time.Microsecond)
		}
		if p > maxSeen {
			maxSeen = p
		}
		if p > int64(c.N) {
			r.Violate("c19:taskpool:bound-exceeded", fmt.Sprintf("taskpool.New(%d, %d): %d submitters called Go at the same instant on an idle pool; %d tasks were running at once (round %d)", c.N, c.Q, c.Submitters, p, round), c)
			return
		}
		// the pool must be idle again before the next round
		for i := 0; i < 2000 && running.Load() > 0; i++ {
			time.Sleep(50 * time.Microsecond)
		}
	}
	r.Max("max_fork_burst_running", maxSeen)
	r.Seen("fork_burst_cells", fmt.Sprintf("n=%d/submitters=%d/max=%d", c.N, c.Submitters, maxSeen))
	r.Nontrivial(fmt.Sprintf("fork-burst/%d", c.Index))
}

var _ = hist.StuckState
