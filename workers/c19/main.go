// C19 - executors: taskpool.TaskPool / IOTaskPool and timer.Timer.Async.
//
// Three kinds of case:
//
//	pool      exactly-once / at-most-once around Stop, running counter <= bound,
//	          panics contained, IOTaskPool buffers (length, exclusive ownership)
//	capacity  self-calibrated capacity recovery: K0 = number of mutually waiting
//	          tasks a FRESH pool of that size runs together; after an overload
//	          burst and an idle period the same pool must complete a barrier of
//	          K0 again (failure = stuck state, never a timeout)
//	async     Timer.Async under 1-16 producers: exactly once, non-overlapping,
//	          real-time FIFO (sweep + porcupine on small histories)
//
// Completeness is decided at quiescence / by hist.StuckState (>= 20 samples
// over >= 2 s of idle process CPU with no progress event), never by a
// deadline; watchdogs only ever yield "inconclusive".
//
// Schedules are not reproducible: a replay re-runs the recorded configuration.
package main

import (
	"encoding/json"
	"flag"
	"fmt"
	"runtime"
	"sort"
	"strings"
	"sync"
	"sync/atomic"
	"time"

	"github.com/lesismal/nbio"
	"github.com/lesismal/nbio/logging"
	"github.com/lesismal/nbio/taskpool"
	"github.com/lesismal/nbio/timer"

	"verif/internal/h"
	"verif/internal/hist"
)

type caseT struct {
	Index      int    `json:"index"`
	Kind       string `json:"kind"`    // pool | capacity | async
	Variant    string `json:"variant"` // pool/capacity: default | custom-caller | io ; async: timer | engine
	N          int    `json:"bound,omitempty"`
	Q          int    `json:"queue,omitempty"`
	BufSize    int    `json:"buf_size,omitempty"`
	Submitters int    `json:"submitters"`
	Tasks      int    `json:"tasks_per_submitter"`
	Dur        string `json:"task_duration"`
	Pace       string `json:"pace"`
	PanicPct   int    `json:"panic_pct"`
	CallPct    int    `json:"call_pct,omitempty"`
	NestedPct  int    `json:"nested_pct,omitempty"`
	Stop       string `json:"stop,omitempty"` // none | race
	BurstX     int    `json:"burst_factor,omitempty"`
	HookMode   string `json:"hook_delays"`
	HookPm     int    `json:"hook_permille"`
	Procs      int    `json:"gomaxprocs"`
	Note       string `json:"note,omitempty"`
}

const replayNote = "schedules are not reproducible: replay re-runs this configuration; the interleaving may differ"

const watchdog = 45 * time.Second

// watchdogsFired: see the main loop - after two abandoned cases the rest of
// this process's cases are skipped so that its findings are still written.
var watchdogsFired atomic.Int32

var clock atomic.Int64

func tick() int64 { return clock.Add(1) }

func pick(rng interface{ Intn(int) int }, xs ...string) string { return xs[rng.Intn(len(xs))] }

func genCase(r *h.Run, kind string, i int) caseT {
	rng := r.Rand("c19/"+kind, i)
	c := caseT{Index: i, Kind: kind, Note: replayNote}
	c.Dur = pick(rng, "zero", "gosched", "sleep", "mixed")
	c.Pace = pick(rng, "none", "none", "gosched", "sleep", "mixed")
	c.HookMode = pick(rng, "none", "gosched", "sleep", "mixed", "mixed")
	c.HookPm = []int{50, 200, 500, 1000}[rng.Intn(4)]
	c.Procs = []int{1, 2, 16}[rng.Intn(3)]
	c.PanicPct = []int{0, 0, 2, 10}[rng.Intn(4)]
	switch kind {
	case "pool":
		c.Variant = pick(rng, "default", "default", "custom-caller", "io")
		c.N = []int{1, 2, 3, 4, 8, 16, 64}[rng.Intn(7)]
		c.Q = []int{0, 1, 16, 1024}[rng.Intn(4)]
		if c.Variant == "io" {
			c.BufSize = []int{1, 64, 4096}[rng.Intn(3)]
		}
		c.Submitters = []int{1, 2, 4, 8, 16}[rng.Intn(5)]
		c.Tasks = (200+rng.Intn(1800))/c.Submitters + 1
		c.CallPct = []int{0, 0, 5}[rng.Intn(3)]
		if c.Variant == "custom-caller" {
			c.CallPct = 0 // keeps the running-counter clause about Go only
		}
		if rng.Intn(4) == 0 {
			c.Stop = "race"
		} else {
			c.Stop = "none"
		}
	case "capacity":
		c.Variant = pick(rng, "default", "default", "default", "custom-caller")
		c.N = []int{3, 4, 8, 8, 16, 64}[rng.Intn(6)]
		c.Q = []int{0, 16, 1024, 1024}[rng.Intn(4)]
		c.BurstX = 10 + rng.Intn(91)
		c.Submitters = []int{1, 2, 4, 8}[rng.Intn(4)]
		c.PanicPct = 0
		c.Procs = []int{2, 16}[rng.Intn(2)]
	case "async":
		c.Variant = pick(rng, "timer", "timer", "engine")
		c.Submitters = []int{1, 2, 2, 3, 4, 8, 12, 16}[rng.Intn(8)]
		if i%4 == 0 {
			c.Submitters = 1 + rng.Intn(5)
			c.Tasks = 2 + rng.Intn(4) // small history: porcupine cross-check
		} else {
			c.Tasks = (60+rng.Intn(240))/c.Submitters + 1
		}
		c.NestedPct = []int{0, 0, 5, 20}[rng.Intn(4)]
	}
	return c
}

// ---------------------------------------------------------------- hooks

type hookState struct {
	mode      int
	pm        uint64
	seed      uint64
	ctr       atomic.Uint64
	forkFails atomic.Int64
	onAsync   func(delay func())
}

var curHook atomic.Pointer[hookState]

func splitmix(x uint64) uint64 {
	x += 0x9E3779B97F4A7C15
	x = (x ^ (x >> 30)) * 0xBF58476D1CE4E5B9
	x = (x ^ (x >> 27)) * 0x94D049BB133111EB
	return x ^ (x >> 31)
}

func modeNum(s string) int {
	switch s {
	case "gosched":
		return 1
	case "sleep":
		return 2
	case "mixed":
		return 3
	}
	return 0
}

func doDelay(mode int, x uint64) {
	if mode == 3 {
		mode = 1 + int((x>>20)%3)
		if mode == 3 {
			s := 0
			for i := 0; i < 50+int((x>>24)%2000); i++ {
				s += i
			}
			_ = s
			return
		}
	}
	switch mode {
	case 1:
		for k := 1 + int((x>>10)%8); k > 0; k-- {
			runtime.Gosched()
		}
	case 2:
		time.Sleep(time.Duration(1+(x>>10)%40) * time.Microsecond)
	}
}

func (hs *hookState) delay() {
	if hs.mode == 0 {
		return
	}
	x := splitmix(hs.seed + hs.ctr.Add(1))
	if x%1000 >= hs.pm {
		return
	}
	doDelay(hs.mode, x)
}

func newHook(r *h.Run, c caseT) *hookState {
	return &hookState{mode: modeNum(c.HookMode), pm: uint64(c.HookPm), seed: uint64(r.Rand("c19/hook/"+c.Kind, c.Index).Int63())}
}

func poolHook(name string) {
	hs := curHook.Load()
	if hs == nil {
		return
	}
	if name == "taskpool.afterForkFail" {
		hs.forkFails.Add(1)
	}
	hs.delay()
}

func timerHook(name string) {
	hs := curHook.Load()
	if hs == nil {
		return
	}
	if name == "timer.async.afterF" && hs.onAsync != nil {
		hs.onAsync(hs.delay)
		return
	}
	hs.delay()
}

// ---------------------------------------------------------------- logger

type logger struct {
	poolPanics  atomic.Int64
	timerPanics atomic.Int64
	mu          sync.Mutex
	other       []string
}

func (l *logger) Debug(string, ...interface{}) {}
func (l *logger) Info(string, ...interface{})  {}
func (l *logger) Warn(string, ...interface{})  {}
func (l *logger) Error(format string, v ...interface{}) {
	switch {
	case strings.HasPrefix(format, "taskpool call failed"):
		l.poolPanics.Add(1)
	case strings.Contains(format, "async call failed"):
		l.timerPanics.Add(1)
	default:
		l.mu.Lock()
		if len(l.other) < 8 {
			s := fmt.Sprintf(format, v...)
			if len(s) > 600 {
				s = s[:600]
			}
			l.other = append(l.other, s)
		}
		l.mu.Unlock()
	}
}

var lg = &logger{}

// ---------------------------------------------------------------- helpers

func atomicMax(p *atomic.Int64, v int64) {
	for {
		m := p.Load()
		if v <= m || p.CompareAndSwap(m, v) {
			return
		}
	}
}

func waitTimeout(wg *sync.WaitGroup, d time.Duration) bool {
	ch := make(chan struct{})
	go func() { wg.Wait(); close(ch) }()
	select {
	case <-ch:
		return true
	case <-time.After(d):
		return false
	}
}

// waitDone polls done() quickly while progress events keep coming; once
// nothing moved for 250 ms it hands over to the stuck-state predicate.
// (true, true) = done; (false, true) = confirmed stuck; (_, false) = watchdog.
func waitDone(done func() bool, progress func() int64) (ok, decided bool) {
	deadline := time.Now().Add(watchdog)
	for time.Now().Before(deadline) {
		sleep := 20 * time.Microsecond
		p0, t0 := progress(), time.Now()
		for {
			if done() {
				return true, true
			}
			if p := progress(); p != p0 {
				p0, t0 = p, time.Now()
			} else if time.Since(t0) > 250*time.Millisecond {
				break
			}
			time.Sleep(sleep)
			if sleep < 2*time.Millisecond {
				sleep *= 2
			}
			if time.Now().After(deadline) {
				return false, false
			}
		}
		confirmed, dec := hist.StuckState(func() bool { return !done() }, progress, h.CPUTime, time.Until(deadline))
		if !dec {
			return false, false
		}
		if confirmed {
			return false, true
		}
	}
	return false, false
}

// idle waits until the goroutine count is back at base (pool workers and
// harness goroutines have exited - exact, not timed) and the process used no
// CPU to speak of over a few short samples.
func idle(base int) bool {
	deadline := time.Now().Add(watchdog)
	calm := 0
	for time.Now().Before(deadline) {
		c0, t0 := h.CPUTime(), time.Now()
		time.Sleep(10 * time.Millisecond)
		if runtime.NumGoroutine() <= base && float64(h.CPUTime()-c0) <= 0.05*float64(time.Since(t0)) {
			calm++
			if calm >= 5 {
				return true
			}
		} else {
			calm = 0
		}
	}
	return false
}

// settledGoroutines returns the goroutine count once it has stopped changing
// (goroutines of earlier cases - stopped dispatchers, returned submitters -
// exit asynchronously).
func settledGoroutines() int {
	n, same := runtime.NumGoroutine(), 0
	for i := 0; i < 2000 && same < 10; i++ {
		time.Sleep(time.Millisecond)
		if m := runtime.NumGoroutine(); m == n {
			same++
		} else {
			n, same = m, 0
		}
	}
	return n
}

// ---------------------------------------------------------------- pools

type poolH struct {
	Go   func(f func(buf *[]byte))
	Call func(f func(buf *[]byte))
	Stop func()
	// GoNil hands the pool a nil task (tolerated and skipped by the pool); nil when the variant
	// has no such call
	GoNil func()
}

var customRecovered atomic.Int64

func makePool(c caseT) poolH {
	switch c.Variant {
	case "custom-caller":
		tp := taskpool.New(c.N, c.Q, func(f func()) {
			defer func() {
				if recover() != nil {
					customRecovered.Add(1)
				}
			}()
			f()
		})
		return poolH{Go: func(f func(*[]byte)) { tp.Go(func() { f(nil) }) }, Call: func(f func(*[]byte)) { tp.Call(func() { f(nil) }) }, Stop: tp.Stop, GoNil: func() { tp.Go(nil) }}
	case "io":
		tp := taskpool.NewIO(c.N, c.Q, c.BufSize)
		return poolH{Go: tp.Go, Call: tp.Call, Stop: tp.Stop}
	}
	tp := taskpool.New(c.N, c.Q)
	return poolH{Go: func(f func(*[]byte)) { tp.Go(func() { f(nil) }) }, Call: func(f func(*[]byte)) { tp.Call(func() { f(nil) }) }, Stop: tp.Stop, GoNil: func() { tp.Go(nil) }}
}

func sigPrefix(variant string) string {
	if variant == "custom-caller" {
		return "c19:taskpool:custom-caller"
	}
	return "c19:taskpool" // IOTaskPool delegates to the same TaskPool code
}

func ctor(c caseT) string {
	switch c.Variant {
	case "custom-caller":
		return fmt.Sprintf("taskpool.New(%d, %d, caller)", c.N, c.Q)
	case "io":
		return fmt.Sprintf("taskpool.NewIO(%d, %d, %d)", c.N, c.Q, c.BufSize)
	}
	return fmt.Sprintf("taskpool.New(%d, %d)", c.N, c.Q)
}

type taskRec struct {
	id      int
	viaCall bool
	panics  bool
	dur     int
	call    atomic.Int64
	ret     atomic.Int64
	issued  atomic.Bool
	nStart  atomic.Int32
	nEnd    atomic.Int32
}

func body(dur, id int) {
	switch dur {
	case 1:
		runtime.Gosched()
	case 2:
		time.Sleep(time.Duration(1+id%50) * time.Microsecond)
	case 3:
		s := 0
		for i := 0; i < 300+id%3000; i++ {
			s += i
		}
		_ = s
	case 4:
		time.Sleep(time.Duration(100+id%900) * time.Microsecond) // up to 1 ms
	}
}

func durFor(mode int, rng interface{ Intn(int) int }) int {
	switch mode {
	case 0:
		return 0
	case 3:
		if rng.Intn(40) == 0 {
			return 4
		}
		return rng.Intn(4)
	}
	return mode
}

func runPool(r *h.Run, c caseT) {
	hs := newHook(r, c)
	curHook.Store(hs)
	defer curHook.Store(nil)
	p := makePool(c)
	total := c.Submitters * c.Tasks
	tasks := make([]taskRec, total)
	var running, maxRunning, started, ended, issued atomic.Int64
	var stopCall, stopRet atomic.Int64
	var owners sync.Map
	var bufShared, bufLenBad, panicsRun atomic.Int64
	var noteMu sync.Mutex
	var notes []string
	poolPanics0, custom0 := lg.poolPanics.Load(), customRecovered.Load()

	mk := func(rec *taskRec) func(*[]byte) {
		return func(buf *[]byte) {
			if !rec.viaCall {
				atomicMax(&maxRunning, running.Add(1))
			}
			rec.nStart.Add(1)
			started.Add(1)
			if buf != nil {
				if len(*buf) != c.BufSize {
					bufLenBad.Add(1)
					noteMu.Lock()
					if len(notes) < 4 {
						notes = append(notes, fmt.Sprintf("task %d got a buffer of len %d cap %d, want len %d", rec.id, len(*buf), cap(*buf), c.BufSize))
					}
					noteMu.Unlock()
				}
				if other, loaded := owners.LoadOrStore(buf, rec.id); loaded {
					bufShared.Add(1)
					noteMu.Lock()
					if len(notes) < 4 {
						notes = append(notes, fmt.Sprintf("task %d got buffer %p while task %v was still running with it", rec.id, buf, other))
					}
					noteMu.Unlock()
				} else {
					defer owners.Delete(buf)
				}
				// unsynchronised writes: sync.Pool orders Put before the next
				// Get, so this is race-free unless a buffer is handed out twice
				b := *buf
				for i := 0; i < len(b) && i < 64; i++ {
					b[i] = byte(rec.id)
				}
			}
			defer func() {
				rec.nEnd.Add(1)
				ended.Add(1)
				if !rec.viaCall {
					running.Add(-1)
				}
			}()
			body(rec.dur, rec.id)
			if rec.panics {
				panicsRun.Add(1)
				panic("c19: deliberate task panic")
			}
		}
	}

	var wg sync.WaitGroup
	gate := make(chan struct{})
	for s := 0; s < c.Submitters; s++ {
		wg.Add(1)
		go func(s int) {
			defer wg.Done()
			rng := r.Rand(fmt.Sprintf("c19/pool/sub/%d", s), c.Index)
			dm, pm := modeNum(c.Dur), modeNum(c.Pace)
			<-gate
			for j := 0; j < c.Tasks; j++ {
				rec := &tasks[s*c.Tasks+j]
				rec.id = s*c.Tasks + j
				rec.viaCall = rng.Intn(100) < c.CallPct
				rec.panics = rng.Intn(100) < c.PanicPct
				rec.dur = durFor(dm, rng)
				x := uint64(rng.Int63())
				if pm != 0 && x%4 == 0 {
					doDelay(pm, x)
				}
				f := mk(rec)
				rec.issued.Store(true)
				rec.call.Store(tick())
				if rec.viaCall {
					p.Call(f)
				} else {
					p.Go(f)
				}
				rec.ret.Store(tick())
				issued.Add(1)
			}
		}(s)
	}
	if c.Stop == "race" {
		at := int64(r.Rand("c19/pool/stop", c.Index).Intn(total))
		wg.Add(1)
		go func() {
			defer wg.Done()
			<-gate
			for spins := 0; issued.Load() < at; spins++ {
				runtime.Gosched()
				if spins > 2000 {
					time.Sleep(50 * time.Microsecond)
				}
			}
			stopCall.Store(tick())
			p.Stop()
			stopRet.Store(tick())
		}()
	}
	close(gate)
	if !waitTimeout(&wg, watchdog) {
		watchdogsFired.Add(1)
		r.Inconclusive(fmt.Sprintf("kind=pool case=%d submitters did not return within the watchdog; stacks in log", c.Index))
		fmt.Println(h.Stacks())
		return
	}
	sc := stopCall.Load()
	mustRun := func(rec *taskRec) bool {
		if !rec.issued.Load() {
			return false
		}
		return sc == 0 || rec.viaCall || (rec.ret.Load() != 0 && rec.ret.Load() < sc)
	}
	// pending shrinks as tasks finish, so the predicate sampled in the
	// stuck-state loop stays cheap (the sampler must not make the process look
	// busy, least of all under the race detector)
	var pending []*taskRec
	for i := range tasks {
		if mustRun(&tasks[i]) {
			pending = append(pending, &tasks[i])
		}
	}
	done := func() bool {
		if running.Load() != 0 {
			return false
		}
		k := 0
		for _, rec := range pending {
			if rec.nEnd.Load() == 0 {
				pending[k] = rec
				k++
			}
		}
		pending = pending[:k]
		return k == 0
	}
	ok, decided := waitDone(done, func() int64 { return started.Load() + ended.Load() })
	if !decided {
		watchdogsFired.Add(1)
		r.Inconclusive(fmt.Sprintf("kind=pool case=%d pool never became idle within the watchdog: no verdict", c.Index))
		c0, t0 := h.CPUTime(), time.Now()
		time.Sleep(time.Second)
		fmt.Printf("kind=pool case=%d watchdog: running=%d started=%d ended=%d issued=%d cpu over the last second=%v of %v\n%s\n", c.Index, running.Load(), started.Load(), ended.Load(), issued.Load(), h.CPUTime()-c0, time.Since(t0), h.Stacks())
		if sc == 0 {
			p.Stop()
		}
		return
	}
	cfg := fmt.Sprintf("%s submitters=%d tasks=%d stop=%s gomaxprocs=%d", ctor(c), c.Submitters, total, c.Stop, c.Procs)
	pre := sigPrefix(c.Variant)
	var ran, dropped, lateRan int64
	var firstLost *taskRec
	for i := range tasks {
		rec := &tasks[i]
		if !rec.issued.Load() {
			continue
		}
		ns := rec.nStart.Load()
		if ns > 0 {
			ran++
		}
		if ns > 1 {
			r.Violate(pre+":double-run", fmt.Sprintf("%s: task %d ran %d times (Go [%d,%d], Stop called at %d)", cfg, rec.id, ns, rec.call.Load(), rec.ret.Load(), sc), c)
		}
		if mustRun(rec) && ns == 0 {
			dropped++
			if firstLost == nil {
				firstLost = rec
			}
		}
		if sc != 0 && !mustRun(rec) && ns > 0 {
			lateRan++
		}
	}
	if !ok && firstLost != nil {
		if sc == 0 {
			r.Violate(pre+":lost-task", fmt.Sprintf("%s: %d of %d tasks never ran although the pool was not stopped; stuck state (nothing running, no start/end event, >=20 samples over >=2 s of idle CPU); first: task %d Go [%d,%d]", cfg, dropped, total, firstLost.id, firstLost.call.Load(), firstLost.ret.Load()), c)
		} else {
			// one signature for every variant: the dispatcher exits on Stop without draining, whatever the caller
			r.Violate("c19:taskpool:queued-tasks-dropped-by-stop", fmt.Sprintf("%s: %d task(s) whose Go had returned before Stop was called (tick %d) never ran; stuck state (nothing running, no start/end event, >=20 samples over >=2 s of idle CPU); first: task %d Go [%d,%d]; %d tasks ran, fork failures seen %d", cfg, dropped, sc, firstLost.id, firstLost.call.Load(), firstLost.ret.Load(), ran, hs.forkFails.Load()), c)
		}
	}
	if m := maxRunning.Load(); m > int64(c.N) {
		r.Violate(pre+":bound-exceeded", fmt.Sprintf("%s: %d tasks submitted with Go were running at once, bound is %d (fork failures seen %d)", cfg, m, c.N, hs.forkFails.Load()), c)
	}
	if bufShared.Load() > 0 {
		r.Violate("c19:iotaskpool:buffer-shared", fmt.Sprintf("%s: %d times a task received a buffer another running task still held\n%s", cfg, bufShared.Load(), strings.Join(notes, "\n")), c)
	}
	if bufLenBad.Load() > 0 {
		r.Violate("c19:iotaskpool:buffer-len", fmt.Sprintf("%s: %d tasks received a buffer of the wrong length\n%s", cfg, bufLenBad.Load(), strings.Join(notes, "\n")), c)
	}
	if sc == 0 {
		p.Stop()
	}
	r.Count("pool_tasks_run", ran)
	r.Count("pool_tasks_after_stop_not_run", int64(total)-ran)
	r.Count("pool_tasks_after_stop_run", lateRan)
	r.Count("pool_fork_failures", hs.forkFails.Load())
	r.Count("pool_panicking_tasks_run", panicsRun.Load())
	r.Count("pool_panics_contained", lg.poolPanics.Load()-poolPanics0+customRecovered.Load()-custom0)
	r.Max("max_running_minus_bound", maxRunning.Load()-int64(c.N))
	r.Max("max_running", maxRunning.Load())
	r.Seen("pool_cell", fmt.Sprintf("%s/n%d/q%d/stop-%s", c.Variant, c.N, c.Q, c.Stop))
	r.Seen("pool_max_running", fmt.Sprintf("%s n=%d: max running %d", c.Variant, c.N, maxRunning.Load()))
	// non-trivial: the queue path was really taken (a fork failed) and tasks ran concurrently
	if hs.forkFails.Load() > 0 && (maxRunning.Load() >= 2 || c.N <= 2) {
		r.Nontrivial(fmt.Sprintf("pool-%d", c.Index))
	}
	if c.Index < 2 {
		r.Sample(map[string]interface{}{"case": c, "tasks_run": ran, "max_running": maxRunning.Load(), "fork_failures": hs.forkFails.Load()})
	}
}

// ---------------------------------------------------------------- capacity

type barrierRes struct {
	arrived  int64
	complete bool
	decided  bool
}

// barrier submits k mutually waiting tasks (one goroutine per Go call: Go may
// block while the queue is full) and waits until all k are inside at once or
// the arrival count is confirmed stuck. The tasks are released afterwards in
// every case and the function returns only when they are all gone.
func barrier(p poolH, k int, want int) barrierRes {
	var arrived atomic.Int64
	var released atomic.Bool
	rel := make(chan struct{})
	var fin sync.WaitGroup
	for i := 0; i < k; i++ {
		fin.Add(1)
		go p.Go(func(*[]byte) {
			defer fin.Done()
			if released.Load() {
				return
			}
			arrived.Add(1)
			<-rel
		})
	}
	res := barrierRes{}
	ok, decided := waitDone(func() bool { return arrived.Load() >= int64(want) }, arrived.Load)
	res.arrived, res.complete, res.decided = arrived.Load(), ok, decided
	released.Store(true)
	close(rel)
	fin.Wait()
	return res
}

type k0Key struct {
	variant string
	n, q    int
}

var k0Cache = map[k0Key]int{}

// calibrate measures K0 on fresh pools: offer n+3 blockers, count how many
// are inside together once the arrival count is confirmed stable, then check
// on another fresh pool that a barrier of exactly K0 completes.
func calibrate(r *h.Run, c caseT) (int, bool) {
	key := k0Key{c.Variant, c.N, c.Q}
	if k, ok := k0Cache[key]; ok {
		if k == 0 {
			r.Count("capacity_cases_skipped_no_calibration", 1)
		}
		return k, k > 0
	}
	k0Cache[key] = 0
	p := makePool(c)
	b := barrier(p, c.N+3, c.N+4) // unreachable target: ends in the stuck state by construction
	p.Stop()
	if !b.decided || b.arrived < 1 {
		r.Inconclusive(fmt.Sprintf("kind=capacity %s: calibration did not settle (arrived=%d)", ctor(c), b.arrived))
		return 0, false
	}
	k0 := int(b.arrived)
	p2 := makePool(c)
	b2 := barrier(p2, k0, k0)
	p2.Stop()
	if !b2.complete {
		r.Inconclusive(fmt.Sprintf("kind=capacity %s: calibration inconsistent (a fresh pool ran %d blockers together but did not complete a barrier of %d)", ctor(c), k0, k0))
		return 0, false
	}
	k0Cache[key] = k0
	r.Seen("capacity_k0", fmt.Sprintf("%s -> K0=%d", ctor(c), k0))
	if k0 > c.N {
		r.Violate(sigPrefix(c.Variant)+":bound-exceeded", fmt.Sprintf("%s: a fresh pool ran %d mutually waiting tasks together, bound is %d", ctor(c), k0, c.N), c)
	}
	return k0, true
}

func runCapacity(r *h.Run, c caseT) {
	k0, ok := calibrate(r, c)
	if !ok {
		return
	}
	hs := newHook(r, c)
	curHook.Store(hs)
	defer curHook.Store(nil)
	base0 := settledGoroutines()
	p := makePool(c)
	base := base0 + 1 // the dispatcher
	burst := c.BurstX * c.N
	var started, ended, running, maxRunning atomic.Int64
	var wg sync.WaitGroup
	per := burst/c.Submitters + 1
	for s := 0; s < c.Submitters; s++ {
		wg.Add(1)
		go func(s int) {
			defer wg.Done()
			rng := r.Rand(fmt.Sprintf("c19/cap/sub/%d", s), c.Index)
			dm := modeNum(c.Dur)
			for j := 0; j < per; j++ {
				d := durFor(dm, rng)
				id := s*per + j
				if p.GoNil != nil && c.Index%2 == 0 && rng.Intn(6) == 0 {
					// a nil task in the middle of the overload: skipped by the pool, and its slot
					// bookkeeping must come out even
					p.GoNil()
				}
				p.Go(func(*[]byte) {
					atomicMax(&maxRunning, running.Add(1))
					started.Add(1)
					body(d, id)
					running.Add(-1)
					ended.Add(1)
				})
			}
		}(s)
	}
	total := int64(per * c.Submitters)
	if !waitTimeout(&wg, watchdog) {
		watchdogsFired.Add(1)
		r.Inconclusive(fmt.Sprintf("kind=capacity case=%d burst submitters did not return within the watchdog", c.Index))
		return
	}
	okb, dec := waitDone(func() bool { return ended.Load() >= total }, func() int64 { return started.Load() + ended.Load() })
	cfg := fmt.Sprintf("%s burst=%d tasks from %d submitters (max running %d, fork failures %d)", ctor(c), total, c.Submitters, maxRunning.Load(), hs.forkFails.Load())
	if !dec {
		watchdogsFired.Add(1)
		r.Inconclusive(fmt.Sprintf("kind=capacity case=%d burst never drained within the watchdog", c.Index))
		p.Stop()
		return
	}
	pre := sigPrefix(c.Variant)
	if !okb {
		r.Violate(pre+":lost-task", fmt.Sprintf("%s: only %d burst tasks ran; stuck state", cfg, ended.Load()), c)
		p.Stop()
		return
	}
	if m := maxRunning.Load(); m > int64(c.N) {
		r.Violate(pre+":bound-exceeded", fmt.Sprintf("%s: %d tasks were running at once during the burst, bound is %d", cfg, m, c.N), c)
	}
	forkFailsBurst := hs.forkFails.Load()
	curHook.Store(nil) // the barrier itself runs without injected delays
	if !idle(base) {
		r.Inconclusive(fmt.Sprintf("kind=capacity case=%d process did not become idle after the burst (goroutines %d, base %d)", c.Index, runtime.NumGoroutine(), base))
		p.Stop()
		return
	}
	b := barrier(p, k0, k0)
	p.Stop()
	switch {
	case !b.decided:
		watchdogsFired.Add(1)
		r.Inconclusive(fmt.Sprintf("kind=capacity case=%d barrier neither completed nor settled within the watchdog", c.Index))
	case !b.complete:
		r.Violate(pre+":capacity-not-recovered", fmt.Sprintf("%s: a fresh pool runs K0=%d mutually waiting tasks together; after the burst and an idle period (all burst tasks done, workers exited) only %d of a barrier of %d were ever running together - stuck state (arrival count unchanged over >=20 samples/>=2 s of idle CPU), barrier then released by the harness", cfg, k0, b.arrived, k0), c)
	}
	r.Count("capacity_burst_tasks", total)
	r.Count("capacity_fork_failures_in_burst", forkFailsBurst)
	r.Max("max_running_minus_bound", maxRunning.Load()-int64(c.N))
	r.Seen("capacity_cell", fmt.Sprintf("%s/n%d/q%d/k0=%d/after-burst=%d", c.Variant, c.N, c.Q, k0, b.arrived))
	// non-trivial: the burst really overloaded the pool (the queue path ran) and K0 >= 2
	if forkFailsBurst > 0 && k0 >= 2 {
		r.Nontrivial(fmt.Sprintf("capacity-%d", c.Index))
	}
	if c.Index < 2 {
		r.Sample(map[string]interface{}{"case": c, "k0": k0, "barrier_arrived_after_burst": b.arrived, "burst": total, "fork_failures": forkFailsBurst})
	}
}

// ---------------------------------------------------------------- Timer.Async

type fnRec struct {
	id     int
	panics bool
	nested bool
	dur    int
	call   atomic.Int64
	ret    atomic.Int64
	issued atomic.Bool
	nStart atomic.Int32
	nEnd   atomic.Int32
	start  atomic.Int64
	end    atomic.Int64
}

func qBucket(q int64) string {
	switch {
	case q <= 0:
		return "0"
	case q <= 3:
		return fmt.Sprint(q)
	case q <= 7:
		return "4-7"
	case q <= 15:
		return "8-15"
	}
	return "16+"
}

func runAsync(r *h.Run, c caseT) {
	hs := newHook(r, c)
	var async func(func())
	if c.Variant == "engine" {
		g := nbio.NewEngine(nbio.Config{Name: "c19"}) // never started: Async is the embedded Timer's queue
		async = g.Async
	} else {
		async = timer.New("c19").Async
	}
	nSub := c.Submitters * c.Tasks
	fns := make([]fnRec, 2*nSub)
	var nestedNext atomic.Int64
	nestedNext.Store(int64(nSub))
	var inside, maxInside, inflight, calls, appended, started, ended, handover, panicsRun atomic.Int64
	var witness int64 // written without synchronisation by every function: they are serialized through asyncMux
	var sigMu sync.Mutex
	sigs := map[string]struct{}{}
	var noteMu sync.Mutex
	var notes []string
	timerPanics0 := lg.timerPanics.Load()
	// The hook runs in the drainer after a function returned and before the
	// drainer re-locks to look at the list. The two-party window is: nothing
	// queued at that moment (the drainer is about to exit) while a producer is
	// inside Async, or enters it before the drainer has looked.
	hs.onAsync = func(delay func()) {
		c0 := calls.Load()
		remaining := appended.Load() - started.Load()
		others := inflight.Load()
		delay()
		during := calls.Load() - c0
		if remaining <= 0 && (others >= 1 || during >= 1) {
			handover.Add(1)
		}
		d := "0"
		if during > 0 {
			d = "1+"
		}
		s := fmt.Sprintf("%d-producers-inflight/%s-queued/%s-calls-during-window", others, qBucket(remaining), d)
		sigMu.Lock()
		sigs[s] = struct{}{}
		sigMu.Unlock()
	}
	curHook.Store(hs)
	defer curHook.Store(nil)

	var submit func(rec *fnRec)
	mk := func(rec *fnRec) func() {
		return func() {
			n := inside.Add(1)
			t := tick()
			if rec.nStart.Add(1) == 1 {
				rec.start.Store(t)
			}
			started.Add(1)
			if n > 1 {
				atomicMax(&maxInside, n)
				noteMu.Lock()
				if len(notes) < 4 {
					notes = append(notes, fmt.Sprintf("function %d started at tick %d while %d other(s) were running", rec.id, t, n-1))
				}
				noteMu.Unlock()
			}
			witness++
			defer func() {
				t2 := tick()
				if rec.nEnd.Add(1) == 1 {
					rec.end.Store(t2)
				}
				ended.Add(1)
				inside.Add(-1)
			}()
			body(rec.dur, rec.id)
			if rec.nested {
				if id := int(nestedNext.Add(1)) - 1; id < len(fns) {
					ch := &fns[id]
					ch.id = id
					submit(ch)
				}
			}
			if rec.panics {
				panicsRun.Add(1)
				panic("c19: deliberate async panic")
			}
		}
	}
	submit = func(rec *fnRec) {
		f := mk(rec)
		rec.issued.Store(true)
		inflight.Add(1)
		calls.Add(1)
		rec.call.Store(tick())
		async(f)
		rec.ret.Store(tick())
		appended.Add(1)
		inflight.Add(-1)
	}
	var wg sync.WaitGroup
	gate := make(chan struct{})
	for s := 0; s < c.Submitters; s++ {
		wg.Add(1)
		go func(s int) {
			defer wg.Done()
			rng := r.Rand(fmt.Sprintf("c19/async/sub/%d", s), c.Index)
			dm, pm := modeNum(c.Dur), modeNum(c.Pace)
			<-gate
			for j := 0; j < c.Tasks; j++ {
				rec := &fns[s*c.Tasks+j]
				rec.id = s*c.Tasks + j
				rec.panics = rng.Intn(100) < c.PanicPct
				rec.nested = rng.Intn(100) < c.NestedPct
				rec.dur = durFor(dm, rng)
				if rec.dur == 4 {
					rec.dur = 2
				}
				x := uint64(rng.Int63())
				if pm != 0 && x%4 != 0 {
					doDelay(pm, x)
				}
				submit(rec)
			}
		}(s)
	}
	close(gate)
	if !waitTimeout(&wg, watchdog) {
		watchdogsFired.Add(1)
		r.Inconclusive(fmt.Sprintf("kind=async case=%d producers did not return within the watchdog", c.Index))
		return
	}
	// final state: producers returned, nobody inside, every issued function ended
	done := func() bool {
		if inside.Load() != 0 || ended.Load() < calls.Load() {
			return false // cheap part: sampled in the stuck-state loop
		}
		for i := range fns {
			if fns[i].issued.Load() && fns[i].nEnd.Load() == 0 {
				return false
			}
		}
		return true
	}
	ok, decided := waitDone(done, func() int64 { return started.Load() + ended.Load() })
	if !decided {
		watchdogsFired.Add(1)
		r.Inconclusive(fmt.Sprintf("kind=async case=%d queue never settled within the watchdog", c.Index))
		return
	}
	cfg := fmt.Sprintf("Timer.Async (%s) producers=%d functions=%d gomaxprocs=%d", c.Variant, c.Submitters, nSub, c.Procs)
	var ops []hist.Op
	clean := true
	var ran int64
	for i := range fns {
		rec := &fns[i]
		if !rec.issued.Load() {
			continue
		}
		ns := rec.nStart.Load()
		switch {
		case ns == 0:
			clean = false
			if !ok {
				r.Violate("c19:timer-async:lost-function", fmt.Sprintf("%s: function %d (Async call [%d,%d]) never ran; stuck state: all producers returned, nothing running, no start/end event over >=20 samples/>=2 s of idle CPU (%d of %d ran)", cfg, rec.id, rec.call.Load(), rec.ret.Load(), started.Load(), appended.Load()), c)
			}
		case ns > 1:
			clean = false
			ran++
			r.Violate("c19:timer-async:double-run", fmt.Sprintf("%s: function %d ran %d times", cfg, rec.id, ns), c)
		default:
			ran++
			if rec.nEnd.Load() == 1 {
				ops = append(ops, hist.Op{ID: rec.id, Call: rec.call.Load(), Ret: rec.ret.Load(), Start: rec.start.Load(), End: rec.end.Load()})
			}
		}
	}
	if m := maxInside.Load(); m > 1 {
		r.Violate("c19:timer-async:overlap", fmt.Sprintf("%s: %d functions were running at once\n%s", cfg, m, strings.Join(notes, "\n")), c)
	} else if pr := hist.Overlap(ops); pr != nil {
		r.Violate("c19:timer-async:overlap", fmt.Sprintf("%s: run intervals intersect: %s", cfg, pr), c)
	}
	if o := hist.StartBeforeCall(ops); o != nil {
		r.Inconclusive(fmt.Sprintf("kind=async case=%d harness clock anomaly: %s", c.Index, o))
	} else {
		fifo := hist.FIFOSweep(ops)
		if len(ops) >= 2 && len(ops) <= 30 && clean {
			switch v := hist.Porcupine(ops, 300*time.Millisecond); {
			case v == hist.Unknown:
				r.Count("porcupine_timeouts", 1)
			case (v == hist.Illegal) != (fifo != nil):
				r.Inconclusive(fmt.Sprintf("kind=async case=%d ORACLE DISAGREEMENT: sweep=%v porcupine=%v history=%v", c.Index, fifo, v, ops))
				fifo = nil
			default:
				r.Count("async_histories_cross_checked_with_porcupine", 1)
			}
		}
		if fifo != nil {
			r.Violate("c19:timer-async:fifo-violated", fmt.Sprintf("%s: A's Async call returned before B's was invoked, but B started first\nA = %s\nB = %s", cfg, fifo.A, fifo.B), c)
		}
	}
	// boundaries: B started right after A although B was submitted only after A
	// had finished - the queue ran empty in between (drainer exit / restart or
	// a last-moment hand-over)
	var boundaries int64
	if len(ops) > 1 {
		byStart := append([]hist.Op(nil), ops...)
		sort.Slice(byStart, func(i, j int) bool { return byStart[i].Start < byStart[j].Start })
		for i := 1; i < len(byStart); i++ {
			if byStart[i].Call > byStart[i-1].End {
				boundaries++
			}
		}
	}
	r.Count("async_queue_ran_empty_boundaries", boundaries)
	r.Count("async_functions_run", ran)
	r.Count("async_handover_windows_with_concurrent_producer", handover.Load())
	r.Count("async_panicking_functions_run", panicsRun.Load())
	r.Count("async_panics_logged_by_nbio", lg.timerPanics.Load()-timerPanics0)
	r.Count("async_nested_submissions", nestedNext.Load()-int64(nSub))
	sigMu.Lock()
	for s := range sigs {
		r.Seen("async_handover", s)
	}
	sigMu.Unlock()
	r.Seen("async_cell", fmt.Sprintf("%s/procs%d/producers%d", c.Variant, c.Procs, c.Submitters))
	// non-trivial: the drainer finished the last queued function while a producer was inside Async
	if handover.Load() >= 1 && boundaries >= 1 {
		r.Nontrivial(fmt.Sprintf("async-%d", c.Index))
	}
	if c.Index < 2 {
		r.Sample(map[string]interface{}{"case": c, "functions_run": ran, "handover_windows": handover.Load()})
	}
	_ = witness
}

// ---------------------------------------------------------------- main

func runCase(r *h.Run, c caseT) {
	r.Begin(c)
	r.Eval(1)
	if c.Procs > 0 {
		runtime.GOMAXPROCS(c.Procs)
	}
	defer runtime.GOMAXPROCS(runtime.NumCPU())
	switch c.Kind {
	case "pool":
		runPool(r, c)
	case "capacity":
		runCapacity(r, c)
	case "async":
		runAsync(r, c)
	case "async-backlog":
		runAsyncBacklog(r, c)
	case "async-churn":
		runAsyncChurn(r, c)
	case "fork-burst":
		runForkBurst(r, c)
	}
}

func main() {
	only := flag.String("only", "", "run only this kind of case (experiments)")
	gen := flag.String("gen", "", "kind:index - print that case as a replay file for the current VERIF_SEED/VERIF_TIER and exit")
	r := h.Start("C19")
	if *gen != "" {
		var kind string
		var i int
		if k := strings.SplitN(*gen, ":", 2); len(k) == 2 {
			kind = k[0]
			fmt.Sscan(k[1], &i)
		}
		b, _ := json.MarshalIndent(map[string]interface{}{"property": "C19", "phase": r.Phase, "tier": r.Tier, "seed": r.Seed, "case": genCase(r, kind, i)}, "", " ")
		fmt.Println(string(b))
		return
	}
	defer r.Finish()
	logging.SetLogger(lg)
	hist.Debug = func(s string) { fmt.Println(s) } // why a stuck-state window was rejected: into the shard log
	taskpool.VerifSetPoint(poolHook)
	timer.VerifSetPoint(timerHook)

	if r.Replay != "" {
		var c caseT
		if err := r.ReplayCase(&c); err != nil {
			fmt.Println("replay:", err)
			return
		}
		for i := 0; i < 10 && r.Violations() == 0; i++ {
			runCase(r, c)
		}
		return
	}
	nPool, nCap, nAsync := r.N(96, 2400), r.N(24, 360), r.N(800, 30000)
	nBacklog, nBurst := r.N(16, 240), r.N(16, 240)
	nChurn := r.N(48, 960)
	if r.Phase == "race" {
		nPool, nCap, nAsync = r.N(24, 400), 0, r.N(160, 3200)
		nBacklog, nBurst = 4, 0
		nChurn = 4
	}
	if r.Shard == 0 {
		agreed, illegal, unknown, dis := hist.SelfTest(r.Rand("c19/selftest", 0), r.N(80, 1500), 9, 100*time.Millisecond)
		r.Count("selftest_synthetic_histories_agreed", int64(agreed))
		r.Count("selftest_synthetic_illegal", int64(illegal))
		r.Count("selftest_porcupine_timeouts", int64(unknown))
		if dis != "" {
			r.Inconclusive("ORACLE SELF-TEST DISAGREEMENT: " + dis)
		}
	}
	idx := 0
	for _, k := range []struct {
		kind string
		n    int
	}{{"capacity", nCap}, {"pool", nPool}, {"async", nAsync}, {"async-backlog", nBacklog}, {"fork-burst", nBurst}, {"async-churn", nChurn}} {
		for i := 0; i < k.n; i++ {
			idx++
			if !r.Mine(idx) || (*only != "" && *only != k.kind) {
				continue
			}
			if watchdogsFired.Load() >= 2 {
				if watchdogsFired.Load() < 1000 {
					r.Inconclusive(fmt.Sprintf("watchdogs fired in %d cases of this process: the remaining cases (from %s %d) were skipped", watchdogsFired.Load(), k.kind, i))
					watchdogsFired.Store(1000)
				}
				continue
			}
			if k.kind == "async-backlog" || k.kind == "fork-burst" || k.kind == "async-churn" {
				runCase(r, genExtra(r, k.kind, i))
				continue
			}
			runCase(r, genCase(r, k.kind, i))
		}
	}
	for _, s := range lg.other {
		r.Seen("other_error_log_lines", s)
	}
}
