// C07 — agreement with net/http on well-formed messages.
//
// Reference-model monitor: every generated stream (strict dialect of
// internal/httpgen = the agreed domain) is parsed by http.ReadRequest /
// http.ReadResponse and by nbio's parser with the real ServerProcessor /
// ClientProcessor, once byte-at-a-time (which also gives the offset at which
// each message completes) and once in one piece. Compared per message, in this
// order, first difference reported: method, request-target, URL path/query,
// version, Host | status code, status text; header multimap (framing fields
// removed, optional whitespace trimmed); close decision (requests); body;
// trailers; message boundary offset.
package main

import (
	"bufio"
	"bytes"
	"encoding/base64"
	"fmt"
	"io"
	"net/http"
	"sort"
	"strconv"
	"strings"

	"github.com/lesismal/nbio/logging"
	"github.com/lesismal/nbio/nbhttp"

	"verif/internal/h"
	"verif/internal/httpgen"
)

type caseT struct {
	Kind    string `json:"kind"` // request | response
	Index   int    `json:"index"`
	Stream  string `json:"stream_b64"`
	Literal string `json:"stream_readable,omitempty"`
	Message int    `json:"message,omitempty"` // index of the differing message in the stream
	Feeding string `json:"feeding,omitempty"` // byte-at-a-time | one-piece
	MsgText string `json:"message_readable,omitempty"`
}

// msg is what either side extracted from one message.
type msg struct {
	Method     string
	RequestURI string
	Path       string
	RawQuery   string
	Proto      string
	Host       string
	StatusCode int
	Status     string
	Header     http.Header
	Body       []byte
	Trailer    http.Header
	Close      bool
	End        int // offset just past the message
}

func cloneHeader(hd http.Header) http.Header {
	if hd == nil {
		return nil
	}
	return hd.Clone()
}

// ---------------------------------------------------------------- reference

func reference(stream []byte, response bool) (out []msg, err error) {
	rd := bytes.NewReader(stream)
	br := bufio.NewReaderSize(rd, 1<<16)
	consumed := func() int { return len(stream) - rd.Len() - br.Buffered() }
	for consumed() < len(stream) {
		var m msg
		if response {
			res, e := http.ReadResponse(br, nil)
			if e != nil {
				return out, e
			}
			body, e := io.ReadAll(res.Body)
			if e != nil {
				return out, e
			}
			m = msg{Proto: res.Proto, StatusCode: res.StatusCode, Status: res.Status, Header: cloneHeader(res.Header), Body: body,
				Trailer: cloneHeader(res.Trailer), Close: res.Close}
		} else {
			req, e := http.ReadRequest(br)
			if e != nil {
				return out, e
			}
			body, e := io.ReadAll(req.Body)
			if e != nil {
				return out, e
			}
			m = msg{Method: req.Method, RequestURI: req.RequestURI, Path: req.URL.Path, RawQuery: req.URL.RawQuery, Proto: req.Proto, Host: req.Host,
				Header: cloneHeader(req.Header), Body: body, Trailer: cloneHeader(req.Trailer), Close: req.Close}
		}
		m.End = consumed()
		out = append(out, m)
	}
	return out, nil
}

// ---------------------------------------------------------------- nbio

var (
	engine *nbhttp.Engine
	got    *[]msg
	fed    int
)

func serverHandler(w http.ResponseWriter, req *http.Request) {
	var body []byte
	if req.Body != nil {
		body, _ = io.ReadAll(req.Body)
	}
	m := msg{Method: req.Method, RequestURI: req.RequestURI, Proto: req.Proto, Host: req.Host, Header: cloneHeader(req.Header), Body: body,
		Trailer: cloneHeader(req.Trailer), Close: req.Close, End: fed}
	if req.URL != nil {
		m.Path, m.RawQuery = req.URL.Path, req.URL.RawQuery
	}
	*got = append(*got, m)
}

func clientHandler(res *http.Response, err error) {
	if res == nil {
		return
	}
	var body []byte
	if res.Body != nil {
		body, _ = io.ReadAll(res.Body)
	}
	*got = append(*got, msg{Proto: res.Proto, StatusCode: res.StatusCode, Status: res.Status, Header: cloneHeader(res.Header), Body: body,
		Trailer: cloneHeader(res.Trailer), End: fed})
}

// nbio parses the stream; byteAtATime also yields the completion offsets.
// errAt is the number of bytes fed when Parse returned the error.
func nbio(stream []byte, response, byteAtATime bool) (out []msg, err error, errAt int) {
	got = &out
	fed = 0
	var proc nbhttp.Processor
	if response {
		proc = nbhttp.NewClientProcessor(&nbhttp.ClientConn{}, clientHandler)
	} else {
		proc = nbhttp.NewServerProcessor()
	}
	p := nbhttp.NewParser(&httpgen.NopConn{}, engine, proc, response, nil)
	if !byteAtATime {
		fed = len(stream)
		err = p.Parse(append([]byte(nil), stream...))
		return out, err, len(stream)
	}
	one := make([]byte, 1)
	for i := range stream {
		one[0] = stream[i]
		fed = i + 1
		if err = p.Parse(one); err != nil {
			return out, err, i + 1
		}
	}
	return out, nil, len(stream)
}

// ---------------------------------------------------------------- comparison

func trimOWS(s string) string { return strings.Trim(s, " \t") }

var framingFields = map[string]bool{"Host": true, "Transfer-Encoding": true, "Trailer": true, "Content-Length": true}

// normHeader removes the fields both sides treat specially and trims optional
// whitespace. net/http additionally deletes "Connection" from a response
// whose connection is to be closed, so it is left out for responses.
func normHeader(hd http.Header, response bool) map[string][]string {
	out := map[string][]string{}
	for k, vv := range hd {
		if framingFields[k] || (response && k == "Connection") {
			continue
		}
		var l []string
		for _, v := range vv {
			l = append(l, trimOWS(v))
		}
		out[k] = l
	}
	return out
}

func keysOf(m map[string][]string) []string {
	var l []string
	for k := range m {
		l = append(l, k)
	}
	sort.Strings(l)
	return l
}

func firstWord(s string) string {
	if i := strings.IndexAny(s, " \t"); i >= 0 {
		return s[:i]
	}
	return s
}

type diff struct {
	cls, detail string
	// local: the difference is confined to one field and cannot shift the
	// framing, so the remaining fields and the following messages are still
	// compared
	local bool
}

func isWS(c byte) bool { return c == ' ' || c == '\t' }

// compareHeader compares two normalised multimaps; raw is nbio's
// un-normalised map (to tell where a value was cut).
func compareHeader(what string, ref, nb map[string][]string, raw http.Header) []diff {
	rk, nk := keysOf(ref), keysOf(nb)
	if strings.Join(rk, "\x00") != strings.Join(nk, "\x00") {
		return []diff{{what + "-names-differ", fmt.Sprintf("reference %s names %q, nbio %q", what, rk, nk), false}}
	}
	var out []diff
	seen := map[string]bool{}
	for _, k := range rk {
		a, b := ref[k], nb[k]
		if len(a) != len(b) {
			out = append(out, diff{what + "-value-count-differs", fmt.Sprintf("%s %q: reference %q, nbio %q", what, k, a, b), true})
			continue
		}
		for i := range a {
			if a[i] != b[i] {
				cls := what + "-value-differs"
				// cut at the first SP: nbio's value is a prefix of the
				// reference value that ends where whitespace follows, and
				// nbio's raw value contains no SP at all
				// (an empty result means the value started at an HTAB of
				// the leading OWS and was cut at the SP after it)
				if strings.HasPrefix(a[i], b[i]) && i < len(raw[k]) && raw[k][i] != "" && !strings.Contains(raw[k][i], " ") &&
					(b[i] == "" || isWS(a[i][len(b[i])])) {
					cls = what + "-value-truncated-at-space"
				}
				if !seen[cls] {
					seen[cls] = true
					out = append(out, diff{cls, fmt.Sprintf("%s %q value %d: reference %q, nbio %q", what, k, i, a[i], b[i]), true})
				}
			}
		}
	}
	return out
}

// closeClass names the spelling of the Connection field (from nbio's raw,
// untrimmed values) so that different causes get different signatures.
func closeClass(raw http.Header) string {
	for _, v := range raw["Connection"] {
		if strings.Contains(v, ",") {
			return "comma-list"
		}
	}
	for _, v := range raw["Connection"] {
		if strings.Contains(v, "\t") {
			return "htab-ows"
		}
	}
	return "single-token"
}

// compare returns the differences between the two views of one message.
// Comparison stops at the first non-local difference.
func compare(ref, nb *msg, response, withOffset bool) (out []diff) {
	if !response {
		if ref.Method != nb.Method {
			return append(out, diff{"method-differs", fmt.Sprintf("reference %q, nbio %q", ref.Method, nb.Method), false})
		}
		if ref.RequestURI != nb.RequestURI {
			return append(out, diff{"request-target-differs", fmt.Sprintf("reference %q, nbio %q", ref.RequestURI, nb.RequestURI), false})
		}
		if ref.Path != nb.Path || ref.RawQuery != nb.RawQuery {
			return append(out, diff{"url-differs", fmt.Sprintf("reference path %q query %q, nbio path %q query %q", ref.Path, ref.RawQuery, nb.Path, nb.RawQuery), false})
		}
	}
	if ref.Proto != nb.Proto {
		return append(out, diff{"version-differs", fmt.Sprintf("reference %q, nbio %q", ref.Proto, nb.Proto), false})
	}
	if !response {
		if trimOWS(ref.Host) != trimOWS(nb.Host) {
			out = append(out, diff{"host-differs", fmt.Sprintf("reference %q, nbio %q", ref.Host, nb.Host), true})
		}
	} else {
		if ref.StatusCode != nb.StatusCode {
			return append(out, diff{"status-code-differs", fmt.Sprintf("reference %d, nbio %d", ref.StatusCode, nb.StatusCode), false})
		}
		// net/http: Status = "404 Not Found"; nbio: Status = reason phrase.
		// Either spelling of the full reason phrase is accepted.
		code := strconv.Itoa(ref.StatusCode)
		reason := trimOWS(strings.TrimPrefix(trimOWS(ref.Status), code))
		ns := trimOWS(nb.Status)
		if ns != reason && ns != trimOWS(ref.Status) {
			d := fmt.Sprintf("reference status %q (reason phrase %q), nbio status %q", ref.Status, reason, nb.Status)
			switch {
			case reason == "":
				// nbio took something else for the reason phrase: the
				// header section is no longer trustworthy
				return append(out, diff{"empty-reason-phrase-misparsed", d, false})
			case ns == firstWord(reason):
				out = append(out, diff{"status-text-truncated-at-space", d, true})
			default:
				return append(out, diff{"status-text-differs", d, false})
			}
		}
	}
	hd := compareHeader("header", normHeader(ref.Header, response), normHeader(nb.Header, response), nb.Header)
	out = append(out, hd...)
	for _, d := range hd {
		if !d.local {
			return out
		}
	}
	if !response && ref.Close != nb.Close {
		out = append(out, diff{"close-decision-differs:" + closeClass(nb.Header), fmt.Sprintf("%s Connection=%q: reference Close=%v, nbio Close=%v", ref.Proto, nb.Header["Connection"], ref.Close, nb.Close), true})
	}
	if !bytes.Equal(ref.Body, nb.Body) {
		return append(out, diff{"body-differs", fmt.Sprintf("reference %d bytes %q, nbio %d bytes %q", len(ref.Body), h.Hex(ref.Body, 80), len(nb.Body), h.Hex(nb.Body, 80)), false})
	}
	td := compareHeader("trailer", normHeader(ref.Trailer, false), normHeader(nb.Trailer, false), nb.Trailer)
	out = append(out, td...)
	for _, d := range td {
		if !d.local {
			return out
		}
	}
	if withOffset && ref.End != nb.End {
		return append(out, diff{"message-boundary-differs", fmt.Sprintf("reference consumed %d bytes, nbio completed the message after %d bytes", ref.End, nb.End), false})
	}
	return out
}

// errPrefixes are the data-free heads of nbio's formatted parse errors; the
// sentinel errors (no data inside) are used whole.
var errPrefixes = []string{"chunk size parse error", "chunk size greater than max int", "chunk size zero", "bad Content-Length",
	"unsupported transfer encoding", "too many transfer encodings", "invalid trailer", "bad trailer key", "malformed HTTP version",
	"length less than zero", "length greater than maxint", "parse", "strconv"}

// normErr maps an error text to a short class without input data in it.
func normErr(s string) string {
	for _, p := range errPrefixes {
		if strings.HasPrefix(s, p) {
			return strings.ReplaceAll(p, " ", "-")
		}
	}
	if strings.ContainsAny(s, "\"'0123456789%") || len(s) > 48 {
		// unknown formatted error: keep the first three words
		w := strings.Fields(s)
		if len(w) > 3 {
			w = w[:3]
		}
		s = strings.Join(w, " ")
		if i := strings.IndexAny(s, "\"'0123456789%"); i >= 0 {
			s = s[:i]
		}
	}
	return strings.ReplaceAll(strings.TrimSpace(s), " ", "-")
}

func emptyReason(m *msg) bool {
	return trimOWS(strings.TrimPrefix(trimOWS(m.Status), strconv.Itoa(m.StatusCode))) == ""
}

// rejectClass is normErr plus the one input feature known to matter: an HTAB
// next to the Content-Length value.
func rejectClass(e string) string {
	c := normErr(e)
	if c == "bad-Content-Length" && strings.Contains(e, `\t`) {
		c += ":htab-ows"
	}
	return c
}

var capLog = &h.CapLogger{}

func runStream(r *h.Run, c caseT, stream []byte, msgs []httpgen.Msg) {
	response := c.Kind == "response"
	ref, rerr := reference(stream, response)
	if rerr != nil {
		// the generator left the agreed domain (or the reference has a
		// limitation): nothing is asserted beyond the messages it accepted
		r.Count("reference_rejected", 1)
		r.Seen("reference_error", normErr(rerr.Error()))
	}
	reported := map[string]bool{}
	fail := func(feeding string, k int, cls, detail string) {
		key := fmt.Sprintf("%d/%s", k, cls)
		if reported[key] {
			return // the one-piece pass found what the byte-at-a-time pass found
		}
		reported[key] = true
		cc := c
		cc.Message = k
		cc.Feeding = feeding
		start := 0
		if k > 0 && k-1 < len(ref) {
			start = ref[k-1].End
		}
		end := len(stream)
		if k < len(ref) {
			end = ref[k].End
		}
		if start <= end && end <= len(stream) {
			cc.MsgText = h.Hex(stream[start:end], 700)
		}
		r.Violate("c07:"+c.Kind+":"+cls, fmt.Sprintf("message %d of the stream, fed %s: %s\nmessage: %s", k, feeding, detail, cc.MsgText), cc)
	}
	for _, feeding := range []string{"byte-at-a-time", "one-piece"} {
		first := feeding == "byte-at-a-time"
		nb, nerr, errAt := nbio(stream, response, first)
		n := len(ref)
		if len(nb) < n {
			n = len(nb)
		}
		stopped := false
		for k := 0; k < n && !stopped; k++ {
			if first {
				r.Eval(1)
			}
			diffs := compare(&ref[k], &nb[k], response, first)
			full := true
			for _, d := range diffs {
				fail(feeding, k, d.cls, d.detail)
				if !d.local {
					full = false
					stopped = true
				}
			}
			if !first {
				continue
			}
			if len(diffs) == 0 {
				r.Count("messages_agreeing", 1)
				if len(ref[k].Trailer) > 0 {
					r.Count("messages_with_trailers_agreeing", 1)
				}
				if k > 0 {
					r.Count("pipelined_successors_agreeing", 1)
				}
				if k < len(msgs) {
					for _, f := range msgs[k].Feat {
						r.Seen("feature_in_agreeing_message", f)
					}
				}
			} else {
				r.Count("messages_differing", 1)
			}
			if full {
				// every field, including body, trailers and boundary, was compared
				r.Nontrivial(fmt.Sprintf("%s/%d/%d", c.Kind, c.Index, k))
				r.Count("body_bytes_compared", int64(len(ref[k].Body)))
			}
		}
		if stopped {
			continue
		}
		if first && len(nb) < len(ref) {
			r.Eval(1) // the message nbio rejected or did not complete
		}
		switch {
		case len(nb) < len(ref) && response && emptyReason(&ref[len(nb)]):
			// one root cause, several symptoms (the line after an empty
			// reason phrase is taken for the reason phrase): one signature
			fail(feeding, len(nb), "empty-reason-phrase-misparsed", fmt.Sprintf("status line %q: the reference accepts the message, nbio completed %d of %d messages, error %v after %d bytes", ref[len(nb)].Proto+" "+ref[len(nb)].Status, len(nb), len(ref), nerr, errAt))
		case len(nb) < len(ref) && nerr != nil:
			fail(feeding, len(nb), "nbio-rejects:"+rejectClass(nerr.Error()), fmt.Sprintf("the reference accepts the message, nbio returns %q after %d bytes of the stream", nerr.Error(), errAt))
		case len(nb) < len(ref):
			fail(feeding, len(nb), "message-not-completed", fmt.Sprintf("the reference read %d messages, nbio completed %d and is waiting for more input", len(ref), len(nb)))
		case len(nb) > len(ref) && rerr == nil:
			fail(feeding, len(ref), "extra-message", fmt.Sprintf("the reference read %d messages, nbio delivered %d", len(ref), len(nb)))
		case nerr != nil && rerr == nil:
			fail(feeding, len(ref), "nbio-rejects:"+rejectClass(nerr.Error()), fmt.Sprintf("all %d messages delivered but nbio returns %q after %d bytes", len(nb), nerr.Error(), errAt))
		}
	}
	for _, m := range msgs {
		for _, f := range m.Feat {
			r.Seen("feature_generated", f)
		}
	}
	if lines := h.PanicLines(capLog.Take()); len(lines) > 0 {
		r.Count("recovered_panics_seen", int64(len(lines)))
	}
}

func main() {
	r := h.Start("C07")
	defer r.Finish()
	logging.SetLogger(capLog)
	engine = nbhttp.NewEngine(nbhttp.Config{Handler: http.HandlerFunc(serverHandler), ReadLimit: 1 << 30})

	if r.Replay != "" {
		var c caseT
		if err := r.ReplayCase(&c); err != nil {
			fmt.Println("replay:", err)
			return
		}
		stream, err := base64.StdEncoding.DecodeString(c.Stream)
		if err != nil {
			fmt.Println("replay:", err)
			return
		}
		runStream(r, c, stream, nil)
		return
	}

	n := r.N(200000, 3000000)
	mine := 0
	for i := 0; i < n; i++ {
		if !r.Mine(i) {
			continue
		}
		rng := r.Rand("c07", i)
		kind := "request"
		if i%2 == 1 {
			kind = "response"
		}
		stream, msgs := httpgen.Stream(rng, httpgen.Opts{Response: kind == "response", Strict: true, MaxBody: 300})
		c := caseT{Kind: kind, Index: i, Stream: base64.StdEncoding.EncodeToString(stream), Literal: h.Hex(stream, 900)}
		mine++
		if mine%200 == 1 {
			r.Begin(c)
		}
		r.Count("streams", 1)
		r.Count("messages_generated", int64(len(msgs)))
		runStream(r, c, stream, msgs)
		if mine <= 2 {
			r.Sample(c)
		}
	}
}
