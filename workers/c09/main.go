// C09 — HTTP response framing: what the handler writes is what a client decodes.
//
// A case is a handler program (internal/respgen): header settings,
// WriteHeader, Write/WriteString/ReadFrom, Flush and late trailer values, for
// one request (HTTP/1.0|1.1, Connection close/keep-alive/absent, GET|POST, the
// connection with or without nbio.Conn's Sendfile method). The program runs
// under the real ServerProcessor + Response over a recording net.Conn
// (nbhttp.NewParser with the inline executor; the guard allocator is installed
// as mempool.DefaultMemPool and Config.BodyAllocator). The recorded bytes are
// decoded by net/http's client side (http.ReadResponse + io.ReadAll) and
// compared with a model of the program; see cmd/vcheck/prop_c09.go for the
// exact rule.
package main

import (
	"fmt"
	"os"
	"path/filepath"
	"sort"
	"strings"

	"verif/internal/guardalloc"
	"verif/internal/h"
	"verif/internal/respgen"
)

type caseT struct {
	Index    int              `json:"index"`
	Readable string           `json:"readable"`
	Program  *respgen.Program `json:"program"`
	// Original is the generated program a minimised case was derived from.
	Original         *respgen.Program `json:"original,omitempty"`
	OriginalReadable string           `json:"original_readable,omitempty"`
}

type worker struct {
	r        *h.Run
	env      *respgen.Env
	shrunk   map[string]int  // raw signature -> minimisations done
	reported map[string]bool // final signatures reported by this process
	perRaw   int
}

func total(p *respgen.Program) int {
	t := 0
	for _, op := range p.Ops {
		t += op.N
	}
	return t
}

func opsUsed(p *respgen.Program) string {
	m := map[string]bool{}
	for _, op := range p.Ops {
		switch op.K {
		case "write", "writestring", "flush", "status", "trailer":
			m[op.K] = true
		case "readfrom":
			m["readfrom-"+op.Src] = true
		}
	}
	var l []string
	for k := range m {
		l = append(l, k)
	}
	sort.Strings(l)
	return strings.Join(l, ",")
}

// fails runs a candidate and reports whether the oracle's primary finding
// has the given symptom.
func (w *worker) fails(q *respgen.Program, symptom string) (bool, respgen.Finding) {
	e := respgen.Model(q)
	if e.Skip != "" {
		return false, respgen.Finding{}
	}
	o := w.env.Run(q)
	fs, _ := respgen.Check(q, e, o)
	if len(fs) > 0 && base(fs[0].Symptom) == base(symptom) {
		return true, fs[0]
	}
	return false, respgen.Finding{}
}

// base strips the parenthesised decoder-error class: while a program is
// minimised the class may change (a long garbage prefix is a "line too
// long", a short one an "invalid byte in chunk length"); the signature is
// built from what the minimal program shows.
func base(sym string) string {
	if i := strings.IndexByte(sym, '('); i > 0 {
		return sym[:i]
	}
	return sym
}

func (w *worker) evaluate(c caseT) {
	r := w.r
	p := c.Program
	exp := respgen.Model(p)
	out := w.env.Run(p)
	r.Eval(1)
	r.Count("conn_writes", int64(len(out.WriteSizes)))
	r.Count("wire_bytes", int64(len(out.Wire)))
	if n := len(out.Guard); n > 0 {
		// ownership violations belong to C11, which re-runs this generator
		r.Count("guardalloc_reports_seen", int64(n))
		r.Count("programs_with_guardalloc_reports", 1)
	}
	for _, s := range out.WriteSizes {
		switch {
		case s == 65536:
			r.Count("conn_writes_of_exactly_65536", 1)
		case s == 65535 || s == 65537:
			r.Count("conn_writes_of_65536±1", 1)
		case s > 65536:
			r.Count("conn_writes_above_65536", 1)
		}
	}
	if len(out.WriteSizes) > 2 {
		r.Count("programs_flushing_mid_body(>2_conn_writes)", 1)
	}
	if exp.Skip != "" {
		r.Count("unasserted_programs", 1)
		r.Seen("unasserted_reason", exp.Skip)
		if len(out.Panics) > 0 {
			if site, harness := respgen.PanicSite(out.Panics[0]); !harness {
				r.Seen("panic_in_unasserted_program", site)
			}
		}
		return
	}
	fs, dec := respgen.Check(p, exp, out)
	for _, res := range out.Results {
		if res.K == "readfrom" && (res.N != int64(res.In) || res.Err != "") {
			r.Count("readfrom_return_differs_from_bytes_offered(observation)", 1)
		}
	}
	if dec.Status == 204 && len(out.Wire) > 0 && strings.Contains(string(out.Wire[:dec.HeadLen]), "Content-Length") {
		r.Count("status_204_sent_with_content_length(observation)", 1)
	}
	if len(fs) == 0 {
		r.Count("responses_decoded_and_equal_to_model", 1)
		r.Count("body_bytes_compared", int64(exp.Total))
		r.Count("trailers_compared", int64(dec.Trailers))
		if exp.Total > 0 || dec.Trailers > 0 {
			r.Nontrivial(fmt.Sprintf("p%d", c.Index))
		}
		r.Seen("framing_cell", fmt.Sprintf("%s|%s|%s|%s", p.Proto, dec.Framing, opsUsed(p), respgen.SizeClass(exp.Total)))
		r.Seen("request_cell", fmt.Sprintf("%s|%s|Connection:%s|sendfile=%v|closed=%v", p.Method, p.Proto, p.Conn, p.Sendfile, out.Closed > 0))
		if exp.Total+dec.HeadLen >= 65536-2 && exp.Total+dec.HeadLen <= 65536+2 {
			r.Count("decoded_ok_with_head+body_within_2_of_65536", 1)
		}
		return
	}
	prim := fs[0]
	for _, f := range fs[1:] {
		r.Seen("secondary_symptoms(observation)", f.Symptom)
		if dbg := os.Getenv("C09_DEBUG_SECONDARY"); dbg != "" && dbg == f.Symptom {
			fmt.Printf("SECONDARY %s (primary %s)\n  program: %s\n  %s\n", f.Symptom, prim.Symptom, p, f.Detail)
		}
	}
	if strings.HasPrefix(prim.Symptom, "harness-") {
		r.Inconclusive(fmt.Sprintf("case %d: %s: %s", c.Index, prim.Symptom, firstLine(prim.Detail)))
		return
	}
	r.Count("programs_failing_the_oracle", 1)
	raw := respgen.Class(p, exp) + ":" + prim.Symptom
	r.Seen("raw_signatures(before_minimisation)", raw)
	if w.shrunk[raw] >= w.perRaw {
		r.Count("failures_not_minimised(same_raw_signature_already_minimised)", 1)
		return
	}
	w.shrunk[raw]++
	minP := respgen.Minimize(p, 300, func(q *respgen.Program) bool {
		ok, _ := w.fails(q, prim.Symptom)
		return ok
	})
	ok, f := w.fails(minP, prim.Symptom)
	if !ok {
		// cannot happen (the original itself fails); keep the original
		minP, f = p, prim
	}
	sig := "c09:" + respgen.Class(minP, respgen.Model(minP)) + ":" + f.Symptom
	r.Count("sig:"+sig, 1)
	if w.reported[sig] {
		return
	}
	w.reported[sig] = true
	detail := fmt.Sprintf("minimal program: %s\n%s\ngenerated program (#%d): %s", minP, f.Detail, c.Index, p)
	r.Violate(sig, detail, caseT{Index: c.Index, Readable: minP.String(), Program: minP, Original: p, OriginalReadable: p.String()})
}

func scratchDir(r *h.Run) string {
	if r.Replay != "" {
		return filepath.Join(r.Out, "scratch-replay")
	}
	return filepath.Join(r.Out, fmt.Sprintf("scratch-%s-%d", r.Phase, r.Shard))
}

func firstLine(s string) string {
	if i := strings.Index(s, "\n"); i > 0 {
		return s[:i]
	}
	return s
}

func main() {
	r := h.Start("C09")
	defer r.Finish()
	respgen.ScratchDir = scratchDir(r)
	env, err := respgen.NewEnv(guardalloc.Options{})
	if err != nil {
		r.Inconclusive("cannot set up the scratch directory: " + err.Error())
		return
	}
	defer env.Close()
	w := &worker{r: r, env: env, shrunk: map[string]int{}, reported: map[string]bool{}, perRaw: r.N(12, 6)}

	if r.Replay != "" {
		var c caseT
		if err := r.ReplayCase(&c); err != nil || c.Program == nil {
			fmt.Fprintln(os.Stderr, "replay:", err)
			return
		}
		r.Begin(c)
		w.evaluate(c)
		return
	}

	n := r.N(150000, 3000000)
	done := 0
	for i := 0; i < n; i++ {
		if !r.Mine(i) {
			continue
		}
		p := respgen.Gen(r.Rand("c09-program", i), env)
		c := caseT{Index: i, Readable: p.String(), Program: p}
		if done%100 == 0 || total(p) > 512*1024 {
			r.Begin(c)
		}
		if done < 2 || (done < 40 && total(p) > 0 && total(p) < 300 && len(p.Ops) > 3) {
			r.Sample(c)
		}
		done++
		w.evaluate(c)
	}
	st := env.GA.Stats()
	r.Count("guardalloc_mallocs", st.Mallocs)
	r.Count("guardalloc_frees", st.Frees)
	r.Count("guardalloc_appends", st.Appends)
	r.Count("guardalloc_grows", st.Grows)
	r.Max("guardalloc_peak_live_regions", st.PeakLiveRegions)
}
