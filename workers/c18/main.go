// C18 - Stop always terminates and reclaims. Each case is one Start ->
// history -> Stop (or Shutdown) cycle of a core or HTTP engine inside a
// long-lived process. Monitors: Stop must return (else the hang predicate of
// h.Guard: no progress, idle, goroutines blocked inside nbio in two identical
// dumps); at return closes == opens for the core engine; after the harness
// released its own peers and a settle loop, no goroutine running in or created
// by nbio and no descriptor may remain beyond the pre-start baseline.
package main

import (
	"bufio"
	"context"
	"fmt"
	"io"
	"math/rand"
	"net"
	"net/http"
	"os"
	"strings"
	"sync"
	"sync/atomic"
	"syscall"
	"time"

	"github.com/lesismal/nbio"
	"github.com/lesismal/nbio/logging"
	"github.com/lesismal/nbio/nbhttp"
	"github.com/lesismal/nbio/nbhttp/websocket"

	"verif/internal/h"
	"verif/internal/httpx"
	"verif/internal/outb"
)

type caseT struct {
	Index    int        `json:"index"`
	Family   string     `json:"family"` // core | http
	Net      string     `json:"net,omitempty"`
	Mode     string     `json:"mode"`
	NPoller  int        `json:"npoller,omitempty"`
	Cell     httpx.Cell `json:"cell,omitempty"`
	Conns    int        `json:"conns"`
	Backlog  int        `json:"backlog_conns"`
	Timers   int        `json:"timer_conns"`
	Dials    int        `json:"pending_dials"`
	Storm    bool       `json:"connect_storm_during_stop"`
	Closers  int        `json:"concurrent_closers"`
	Shutdown bool       `json:"use_shutdown"`
	WS       int        `json:"websocket_conns,omitempty"`
	Delay    bool       `json:"delay_points"`
	Seed     int64      `json:"seed"`
	// added after the second seeded-change round
	MaxWB    bool   `json:"small_write_buffer_bound,omitempty"` // core: the backlog writes fail with the overflow error before Stop
	AddStop  string `json:"add_conn_during_stop,omitempty"`     // core: "" | race | in-onopen (AddConn whose open callback is still running when Stop starts)
	Transfer bool   `json:"ws_transfer_to_poller,omitempty"`    // http: Upgrader.BlockingModTrasferConnToPoller
	WSSync   bool   `json:"ws_sync_write,omitempty"`            // http: Upgrader.BlockingModAsyncWrite = false
	DialStop bool   `json:"dials_during_stop,omitempty"`        // core tcp: DialAsync calls issued around the start of Stop (refused, or dialed and closed by Stop)
	HTTPExec string `json:"http_custom_executors,omitempty"`    // http: "" | server | client | both (application-supplied executors: the engine creates, and must stop, only the pools it owns)
	CloseAdd string `json:"close_vs_add_conn,omitempty"`        // core: "" | closed-first | close-race (Close of an nbio.Conn before / while it is handed to AddConn)
}

var modes = []string{"LT", "ET", "ONESHOT"}

func genCase(r *h.Run, idx int) caseT {
	rng := r.Rand("c18", idx)
	c := caseT{Index: idx, Seed: rng.Int63()}
	c.Mode = modes[idx%3]
	if (idx/3)%2 == 0 {
		c.Family = "core"
		c.Net = []string{"tcp", "unix", "udp"}[(idx/6)%3]
		c.NPoller = 1 + rng.Intn(3)
	} else {
		c.Family = "http"
		c.Cell = httpx.Cell{IOMod: []int{nbhttp.IOModNonBlocking, nbhttp.IOModBlocking, nbhttp.IOModMixed}[(idx/6)%3], TLS: (idx/18)%2 == 1, Mode: c.Mode}
		c.WS = rng.Intn(3)
	}
	c.Conns = 1 + rng.Intn(10)
	c.Backlog = rng.Intn(3)
	c.Timers = rng.Intn(3)
	c.Dials = rng.Intn(3)
	c.Storm = rng.Intn(2) == 0
	c.Closers = rng.Intn(4)
	c.Shutdown = rng.Intn(3) == 0
	c.Delay = rng.Intn(2) == 0
	if c.Family == "core" {
		c.MaxWB = rng.Intn(3) == 0
		if c.Net != "udp" {
			c.AddStop = []string{"", "race", "in-onopen", "burst"}[rng.Intn(4)]
			c.CloseAdd = []string{"", "", "closed-first", "close-race"}[rng.Intn(4)]
			c.DialStop = c.Net == "tcp" && rng.Intn(3) == 0
		}
	} else {
		c.Transfer = rng.Intn(2) == 0
		c.WSSync = rng.Intn(3) == 0
		c.HTTPExec = []string{"", "", "server", "client", "both"}[rng.Intn(5)]
	}
	return c
}

var progress int64

var bigOnce sync.Once
var bigPath string

// bigFile is a sparse 16 MiB file for queued Sendfile backlogs.
func bigFile() string {
	bigOnce.Do(func() {
		f, err := os.CreateTemp("", "vc18big")
		if err != nil {
			return
		}
		_ = f.Truncate(16 << 20)
		bigPath = f.Name()
		f.Close()
	})
	return bigPath
}

func settle(base map[string]string, get func() map[string]string) []string {
	var d []string
	for i := 0; i < 100; i++ {
		d = httpx.Diff(base, get())
		if len(d) == 0 {
			return nil
		}
		time.Sleep(30 * time.Millisecond)
	}
	// still there after 3 s: confirm it is stable (not merely slow)
	d1 := httpx.Diff(base, get())
	time.Sleep(2 * time.Second)
	d2 := httpx.Diff(base, get())
	var both []string
	set := map[string]bool{}
	for _, x := range d1 {
		set[x] = true
	}
	for _, x := range d2 {
		if set[x] {
			both = append(both, x)
		}
	}
	return both
}

func goroutineKeys() map[string]string { return httpx.NbioGoroutines() }

func runCase(r *h.Run, c caseT) {
	r.Eval(1)
	rng := rand.New(rand.NewSource(c.Seed))
	baseG := goroutineKeys()
	baseF := httpx.Fds()
	var delaySeed int64 = c.Seed | 1
	if c.Delay {
		nbio.VerifSetPoint(func(name string, cn *nbio.Conn) {
			if name == "acceptor.afterAccept" || name == "close.beforeTeardown" || name == "addConn.afterOnOpen" {
				x := atomic.AddInt64(&delaySeed, 0x1E3779B97F4A7C15)
				x ^= x >> 31
				if uint64(x)%3 == 0 {
					time.Sleep(time.Duration(uint64(x>>8)%2000) * time.Microsecond)
				}
			}
		})
		defer nbio.VerifSetPoint(nil)
	}
	sig := func(s string) string {
		if c.Family == "core" {
			return fmt.Sprintf("c18:core:%s:%s", c.Net, s)
		}
		return fmt.Sprintf("c18:http:%s:%s", strings.Split(c.Cell.String(), "/")[0], s)
	}
	var peers []io.Closer
	var pmu sync.Mutex
	addPeer := func(p io.Closer) {
		pmu.Lock()
		peers = append(peers, p)
		pmu.Unlock()
	}
	closePeers := func() {
		pmu.Lock()
		for _, p := range peers {
			p.Close()
		}
		peers = nil
		pmu.Unlock()
	}
	defer closePeers()

	var extra []io.Closer
	var extraFds []int
	releaseExtra := func() {
		for _, x := range extra {
			x.Close()
		}
		for _, fd := range extraFds {
			syscall.Close(fd)
		}
		extra, extraFds = nil, nil
	}
	defer releaseExtra()
	var opens, closes int64
	stopAccept := func() {}
	defer func() { stopAccept() }()
	var stopFn func()
	var addr string
	var stormStop int32
	var scratchDir string

	if c.Family == "core" {
		conf := nbio.Config{Network: c.Net, NPoller: c.NPoller}
		if c.MaxWB {
			conf.MaxWriteBufferSize = 256 << 10
		}
		if (c.Seed>>8)%3 == 0 {
			// asynchronous reading in every epoll mode (the engine creates its own IO task pool whenever the
			// flag is set and no executor is supplied - also in LT, where the poller does not use it)
			conf.AsyncReadInPoller = true
			r.Seen("async_read_cells", c.Net+"/"+c.Mode)
		}
		switch c.Mode {
		case "ET":
			conf.EpollMod = nbio.EPOLLET
		case "ONESHOT":
			conf.EpollMod = nbio.EPOLLET
			conf.EPOLLONESHOT = nbio.EPOLLONESHOT
		}
		if c.Net == "unix" {
			d, _ := os.MkdirTemp("", "vc18")
			scratchDir = d
			defer os.RemoveAll(d)
			conf.Addrs = []string{d + "/s.sock"}
		} else {
			conf.Addrs = []string{"127.0.0.1:0"}
		}
		g := nbio.NewEngine(conf)
		var cmu sync.Mutex
		var srvConns []*nbio.Conn
		var addState int32 // 1: the next open callback parks until the gate opens; 2: parked
		addGate := make(chan struct{})
		g.OnOpen(func(cn *nbio.Conn) {
			atomic.AddInt64(&opens, 1)
			atomic.AddInt64(&progress, 1)
			cmu.Lock()
			srvConns = append(srvConns, cn)
			cmu.Unlock()
			if atomic.CompareAndSwapInt32(&addState, 1, 2) {
				if c.Seed%2 == 0 {
					// the handler also closes its connection: the close notification is due when
					// the handler has returned - by then Stop is on its way
					_ = cn.Close()
				}
				<-addGate
			}
		})
		g.OnClose(func(cn *nbio.Conn, err error) {
			atomic.AddInt64(&closes, 1)
			atomic.AddInt64(&progress, 1)
		})
		g.OnData(func(cn *nbio.Conn, b []byte) { atomic.AddInt64(&progress, 1) })
		if err := g.Start(); err != nil {
			r.Inconclusive(fmt.Sprintf("case %d: start: %v", c.Index, err))
			return
		}
		addr = g.Addrs[0]
		// ---- history
		for i := 0; i < c.Conns; i++ {
			var pc net.Conn
			var err error
			if c.Net == "udp" {
				ua, _ := net.ResolveUDPAddr("udp", addr)
				pc, err = net.DialUDP("udp", nil, ua)
				if err == nil {
					_, _ = pc.Write([]byte("hello"))
				}
			} else {
				pc, err = net.DialTimeout(c.Net, addr, 5*time.Second)
			}
			if err != nil {
				r.Inconclusive(fmt.Sprintf("case %d: dial: %v", c.Index, err))
				g.Stop()
				return
			}
			addPeer(pc)
		}
		// wait for the opens (udp: sessions appear with the first datagram)
		for i := 0; i < 2000 && atomic.LoadInt64(&opens) < int64(c.Conns); i++ {
			time.Sleep(time.Millisecond)
		}
		cmu.Lock()
		sc := append([]*nbio.Conn(nil), srvConns...)
		cmu.Unlock()
		if c.Net != "udp" {
			for i := 0; i < c.Backlog && i < len(sc); i++ {
				if (i+c.Index)%2 == 1 {
					// a file range that does not fit the socket: the engine keeps its own dup'ed descriptor queued
					if f, err := os.Open(bigFile()); err == nil {
						_, _ = sc[i].Sendfile(f, 0)
						f.Close()
						continue
					}
				}
				_, _ = sc[i].Write(make([]byte, 6<<20)) // the peer never reads: stays queued
			}
		}
		for i := 0; i < c.Timers && i < len(sc); i++ {
			_ = sc[len(sc)-1-i].SetDeadline(time.Now().Add(time.Hour))
		}
		if c.CloseAdd != "" {
			// the owner closes a connection before, or while, it hands it to the engine (what nbhttp's
			// own shutdown path does with connections that are just being added): whatever the engine
			// announces for it must be paired, and Stop must return
			if sp, err := syscall.Socketpair(syscall.AF_UNIX, syscall.SOCK_STREAM, 0); err == nil {
				f0, f1 := os.NewFile(uintptr(sp[0]), "ca0"), os.NewFile(uintptr(sp[1]), "ca1")
				mine, e0 := net.FileConn(f0)
				other, e1 := net.FileConn(f1)
				f0.Close()
				f1.Close()
				if e0 == nil && e1 == nil {
					addPeer(other)
					if nbc, err := nbio.NBConn(mine); err == nil {
						if c.CloseAdd == "closed-first" {
							_ = nbc.Close()
							_, err = g.AddConn(nbc)
						} else {
							done := make(chan struct{})
							d1, d2 := rng.Intn(60), rng.Intn(60)
							go func() {
								defer close(done)
								time.Sleep(time.Duration(d1) * time.Microsecond)
								_ = nbc.Close()
							}()
							time.Sleep(time.Duration(d2) * time.Microsecond)
							_, err = g.AddConn(nbc)
							<-done
						}
						r.Seen("close_vs_add", fmt.Sprintf("%s/refused=%v", c.CloseAdd, err != nil))
					} else {
						mine.Close()
					}
				}
			}
		}
		var pendingDial int64
		if c.Net == "tcp" && c.Dials > 0 {
			// dials that are still connecting when Stop runs: accept queue full
			fd, err := syscall.Socket(syscall.AF_INET, syscall.SOCK_STREAM, 0)
			if err == nil {
				_ = syscall.Bind(fd, &syscall.SockaddrInet4{Addr: [4]byte{127, 0, 0, 1}})
				_ = syscall.Listen(fd, 0)
				sa, _ := syscall.Getsockname(fd)
				da := fmt.Sprintf("127.0.0.1:%d", sa.(*syscall.SockaddrInet4).Port)
				for k := 0; k < 3; k++ {
					if fc, err := net.DialTimeout("tcp", da, 200*time.Millisecond); err == nil {
						extra = append(extra, fc) // harness-to-harness, not managed by the engine
					}
				}
				for k := 0; k < c.Dials; k++ {
					to := time.Duration(0)
					if k%2 == 1 {
						to = time.Hour
					}
					if err := g.DialAsyncTimeout("tcp", da, to, func(cn *nbio.Conn, err error) { atomic.AddInt64(&progress, 1) }); err == nil {
						atomic.AddInt64(&pendingDial, 1)
					}
				}
				extraFds = append(extraFds, fd)
			}
		}
		if c.Net == "udp" && c.Dials > 0 {
			// UDP connections dialed by the engine (DialAsync("udp")): no open notification, one close
			// notification each, and their sockets are the engine's to release - also one the application
			// closed itself before Stop
			if ul, err := net.ListenUDP("udp", &net.UDPAddr{IP: net.IPv4(127, 0, 0, 1)}); err == nil {
				extra = append(extra, ul)
				for k := 0; k < c.Dials+1; k++ {
					target := ul.LocalAddr().String()
					if k%2 == 1 {
						target = addr // the engine's own listener: the dialed connection and its session live in one engine
					}
					closeEarly := k == 2
					if err := g.DialAsync("udp", target, func(cn *nbio.Conn, err error) {
						atomic.AddInt64(&progress, 1)
						if err == nil {
							_, _ = cn.Write([]byte("dialed"))
							if closeEarly {
								_ = cn.Close()
							}
						}
					}); err == nil {
						atomic.AddInt64(&pendingDial, 1)
						r.Count("udp_connections_dialed_by_the_engine", 1)
					}
				}
				// the callbacks run on the engine's asynchronous queue: let them happen before Stop in most cases
				if rng.Intn(4) != 0 {
					time.Sleep(2 * time.Millisecond)
				}
			}
		}
		var wg sync.WaitGroup
		if c.Storm && c.Net != "udp" {
			wg.Add(1)
			go func() {
				defer wg.Done()
				for atomic.LoadInt32(&stormStop) == 0 {
					pc, err := net.DialTimeout(c.Net, addr, 200*time.Millisecond)
					if err != nil {
						time.Sleep(3 * time.Millisecond)
						continue
					}
					addPeer(pc)
					time.Sleep(300 * time.Microsecond)
				}
			}()
		}
		closers := c.Closers
		massClose := (c.Seed>>12)%4 == 0 && c.Net != "udp"
		var massGo chan struct{}
		if massClose {
			// every connection is closed at the same instant, each by two goroutines, while Stop begins:
			// the close notifications all go through the engine's one asynchronous queue
			closers = len(sc)
			massGo = make(chan struct{})
			r.Count("mass_close_histories", 1)
		}
		for k := 0; k < closers && k < len(sc); k++ {
			d := rng.Intn(2000)
			for rep := 0; rep < 2; rep++ {
				if rep == 1 && !massClose {
					break
				}
				wg.Add(1)
				go func(cn *nbio.Conn, d int) {
					defer wg.Done()
					if massGo != nil {
						<-massGo
					} else {
						time.Sleep(time.Duration(d) * time.Microsecond)
					}
					_ = cn.Close()
				}(sc[k], d)
			}
		}
		if massGo != nil {
			close(massGo)
		}
		time.Sleep(time.Duration(rng.Intn(3000)) * time.Microsecond)
		stopFn = func() {
			var addErr error
			addDone := make(chan struct{})
			var burst sync.WaitGroup
			if c.DialStop {
				// DialAsync while Stop begins: a dial the engine refuses must leave nothing behind in its
				// accounting, one it takes is closed by Stop; every callback that was promised arrives
				if dl, err := net.Listen("tcp", "127.0.0.1:0"); err == nil {
					accDone := make(chan struct{})
					stopAccept = func() {
						// no connection may be accepted (and added to the peers) after the peers were closed
						_ = dl.Close()
						<-accDone
					}
					go func() {
						defer close(accDone)
						for {
							pc, err := dl.Accept()
							if err != nil {
								return
							}
							addPeer(pc)
						}
					}()
					for k := 0; k < 5; k++ {
						d := rng.Intn(600)
						burst.Add(1)
						go func() {
							defer burst.Done()
							time.Sleep(time.Duration(d) * time.Microsecond)
							if err := g.DialAsync("tcp", dl.Addr().String(), func(cn *nbio.Conn, err error) {
								atomic.AddInt64(&progress, 1)
							}); err == nil {
								// a dial the engine took counts as an open of its own (like the pending
								// dials above): one close notification is owed for it
								atomic.AddInt64(&pendingDial, 1)
							}
							atomic.AddInt64(&progress, 1)
						}()
					}
					time.Sleep(time.Duration(rng.Intn(300)) * time.Microsecond)
				}
			}
			if c.AddStop == "burst" {
				// several goroutines hand connections to the engine while Stop begins: each is refused or
				// taken and closed, and counting them must never disturb Stop's own wait
				for k := 0; k < 6; k++ {
					sp, err := syscall.Socketpair(syscall.AF_UNIX, syscall.SOCK_STREAM, 0)
					if err != nil {
						continue
					}
					f0, f1 := os.NewFile(uintptr(sp[0]), "b0"), os.NewFile(uintptr(sp[1]), "b1")
					mine, e0 := net.FileConn(f0)
					other, e1 := net.FileConn(f1)
					f0.Close()
					f1.Close()
					if e0 != nil || e1 != nil {
						continue
					}
					addPeer(other)
					d := rng.Intn(300)
					burst.Add(1)
					go func() {
						defer burst.Done()
						time.Sleep(time.Duration(d) * time.Microsecond)
						if _, err := g.AddConn(mine); err != nil {
							mine.Close()
						}
					}()
				}
				time.Sleep(time.Duration(rng.Intn(300)) * time.Microsecond)
				close(addDone)
			} else if c.AddStop != "" {
				// a connection handed to AddConn around the moment Stop starts: it is either refused
				// (and closed) or taken and then closed by Stop - never left behind, and Stop returns
				sp, err := syscall.Socketpair(syscall.AF_UNIX, syscall.SOCK_STREAM, 0)
				if err == nil {
					f0, f1 := os.NewFile(uintptr(sp[0]), "add0"), os.NewFile(uintptr(sp[1]), "add1")
					mine, e0 := net.FileConn(f0)
					other, e1 := net.FileConn(f1)
					f0.Close()
					f1.Close()
					if e0 == nil && e1 == nil {
						addPeer(other)
						if c.AddStop == "in-onopen" {
							atomic.StoreInt32(&addState, 1)
						}
						go func() {
							defer close(addDone)
							if c.AddStop == "race" {
								time.Sleep(time.Duration(rng.Intn(400)) * time.Microsecond)
							}
							_, addErr = g.AddConn(mine)
							if addErr != nil {
								mine.Close() // refused: the caller keeps the ownership
							}
						}()
						if c.AddStop == "in-onopen" {
							for i := 0; i < 2000 && atomic.LoadInt32(&addState) != 2; i++ {
								time.Sleep(time.Millisecond)
							}
							// the open callback returns while Stop is on its way
							time.AfterFunc(time.Duration(5+rng.Intn(30))*time.Millisecond, func() { close(addGate) })
						} else {
							time.Sleep(time.Duration(rng.Intn(400)) * time.Microsecond)
						}
					} else {
						close(addDone)
					}
				} else {
					close(addDone)
				}
			} else {
				close(addDone)
			}
			if c.Shutdown {
				_ = g.Shutdown(context.Background())
			} else {
				g.Stop()
			}
			atomic.StoreInt32(&stormStop, 1)
			// at return every open has had its close notification (dials count as opens of their own)
			o, cl := atomic.LoadInt64(&opens)+atomic.LoadInt64(&pendingDial), atomic.LoadInt64(&closes)
			select {
			case <-addDone:
			case <-time.After(20 * time.Second):
				r.Violate(sig("add-conn-never-returned"), fmt.Sprintf("AddConn issued around the start of Stop (%s) had not returned 20 s after Stop returned\nconfig %s/%s", c.AddStop, c.Net, c.Mode), c)
				return
			}
			r.Seen("add_during_stop", fmt.Sprintf("%s/refused=%v", c.AddStop, addErr != nil))
			burst.Wait()
			if c.AddStop == "race" || c.AddStop == "burst" || c.DialStop {
				// the racing AddConn may have started after Stop had returned: it is refused and closed
				// by AddConn itself, the counts are compared once it is back
				// (the notification itself is delivered by the engine's asynchronous queue: wait for
				// equality, or for the stable state in which nothing moves any more)
				stable := 0
				lastCPU := h.CPUTime()
				for stable < 60 {
					o, cl = atomic.LoadInt64(&opens)+atomic.LoadInt64(&pendingDial), atomic.LoadInt64(&closes)
					if o == cl {
						break
					}
					time.Sleep(50 * time.Millisecond)
					cpu := h.CPUTime()
					o2, cl2 := atomic.LoadInt64(&opens)+atomic.LoadInt64(&pendingDial), atomic.LoadInt64(&closes)
					if o2 == o && cl2 == cl && cpu-lastCPU < 3*time.Millisecond {
						stable++
					} else {
						stable = 0
					}
					lastCPU = cpu
				}
			}
			if o != cl {
				r.Violate(sig("close-notifications-missing-at-stop-return"), fmt.Sprintf("Stop returned with %d connections opened/dialed and %d close notifications delivered\nconfig %s/%s", o, cl, c.Net, c.Mode), c)
			}
			wg.Wait()
		}
	} else {
		// ---- HTTP engine
		mux := http.NewServeMux()
		mux.HandleFunc("/", func(w http.ResponseWriter, rq *http.Request) { _, _ = w.Write([]byte("ok")) })
		up := websocket.NewUpgrader()
		up.BlockingModTrasferConnToPoller = c.Transfer
		if c.WSSync {
			up.BlockingModAsyncWrite = false
		}
		up.OnMessage(func(wc *websocket.Conn, mt websocket.MessageType, b []byte) { _ = wc.WriteMessage(mt, b) })
		mux.HandleFunc("/ws", func(w http.ResponseWriter, rq *http.Request) { _, _ = up.Upgrade(w, rq, nil) })
		conf := c.Cell.Config(mux)
		goExec := func(f func()) { go f() }
		switch c.HTTPExec {
		case "server":
			conf.ServerExecutor = goExec
		case "client":
			conf.ClientExecutor = goExec
		case "both":
			conf.ServerExecutor, conf.ClientExecutor = goExec, goExec
		}
		e := nbhttp.NewEngine(conf)
		up.Engine = e
		e.OnOpen(func(cn net.Conn) { atomic.AddInt64(&opens, 1); atomic.AddInt64(&progress, 1) })
		e.OnClose(func(cn net.Conn, err error) { atomic.AddInt64(&closes, 1); atomic.AddInt64(&progress, 1) })
		if err := e.Start(); err != nil {
			r.Inconclusive(fmt.Sprintf("case %d: start: %v", c.Index, err))
			return
		}
		addr = httpx.Addr(e, c.Cell)
		for i := 0; i < c.Conns; i++ {
			pc, err := c.Cell.Dial(addr)
			if err != nil {
				r.Inconclusive(fmt.Sprintf("case %d: dial: %v", c.Index, err))
				e.Stop()
				return
			}
			addPeer(pc)
			path := "/"
			if i < c.WS {
				path = "/ws"
				_, _ = fmt.Fprintf(pc, "GET %s HTTP/1.1\r\nHost: x\r\nUpgrade: websocket\r\nConnection: Upgrade\r\nSec-WebSocket-Key: dGhlIHNhbXBsZSBub25jZQ==\r\nSec-WebSocket-Version: 13\r\n\r\n", path)
			} else if i%2 == 0 {
				_, _ = fmt.Fprintf(pc, "GET %s HTTP/1.1\r\nHost: x\r\n\r\n", path)
			} else {
				continue // idle keep-alive connection that never sent anything
			}
			_ = pc.SetReadDeadline(time.Now().Add(5 * time.Second))
			br := bufio.NewReader(pc)
			// read the response head (and body for plain requests)
			resp, err := http.ReadResponse(br, nil)
			if err == nil && path == "/" {
				_, _ = io.Copy(io.Discard, resp.Body)
			}
			_ = pc.SetReadDeadline(time.Time{})
			atomic.AddInt64(&progress, 1)
		}
		var wg sync.WaitGroup
		if c.Storm {
			wg.Add(1)
			go func() {
				defer wg.Done()
				for atomic.LoadInt32(&stormStop) == 0 {
					pc, err := net.DialTimeout("tcp", addr, 200*time.Millisecond)
					if err != nil {
						time.Sleep(3 * time.Millisecond)
						continue
					}
					addPeer(pc)
					time.Sleep(300 * time.Microsecond)
				}
			}()
		}
		time.Sleep(time.Duration(rng.Intn(3000)) * time.Microsecond)
		stopFn = func() {
			if c.Shutdown {
				if c.Seed%2 == 0 {
					// a connection handed to the engine while Shutdown is draining (what a WebSocket
					// upgrade in blocking mode does with BlockingModTrasferConnToPoller): Shutdown closes
					// it like every other connection and returns
					wg.Add(1)
					after := time.Duration(20+rng.Intn(80)) * time.Millisecond
					go func() {
						defer wg.Done()
						hl, err := net.Listen("tcp", "127.0.0.1:0")
						if err != nil {
							return
						}
						defer hl.Close()
						time.Sleep(after)
						pc, err := net.DialTimeout("tcp", hl.Addr().String(), time.Second)
						if err != nil {
							return
						}
						other, err := hl.Accept()
						if err != nil {
							pc.Close()
							return
						}
						addPeer(other)
						nbc, err := nbio.NBConn(pc)
						if err != nil {
							return
						}
						if err := e.AddTransferredConn(nbc); err == nil {
							r.Count("connections_transferred_to_the_http_engine_during_shutdown", 1)
						}
					}()
				}
				ctx, cancel := context.WithTimeout(context.Background(), 60*time.Second)
				err := e.Shutdown(ctx)
				cancel()
				if err != nil {
					r.Violate(sig("shutdown-live-context-failed"), fmt.Sprintf("Shutdown with a 60 s context returned %v\nconfig %s", err, c.Cell), c)
				}
			} else {
				e.Stop()
			}
			atomic.StoreInt32(&stormStop, 1)
			wg.Wait()
		}
	}

	// ---- Stop (the guard around the case decides a hang)
	v0 := r.Violations()
	stopFn()
	atomic.AddInt64(&progress, 1)
	if r.Violations() > v0 {
		return
	}

	// ---- every managed connection is closed: the peers must see EOF/reset without closing first
	pmu.Lock()
	ps := append([]io.Closer(nil), peers...)
	pmu.Unlock()
	notClosed := 0
	checked := 0
	leftInfo := ""
	for pi, p := range ps {
		pc, ok := p.(net.Conn)
		if !ok {
			continue
		}
		if _, isUDP := pc.(*net.UDPConn); isUDP {
			continue
		}
		checked++
		_ = pc.SetReadDeadline(time.Now().Add(3 * time.Second))
		buf := make([]byte, 4096)
		closed := false
		for {
			_, err := pc.Read(buf)
			if err != nil {
				if ne, ok := err.(net.Error); ok && ne.Timeout() {
					break
				}
				closed = true
				break
			}
		}
		if !closed {
			// a connection the kernel completed for the client but that never reached the
			// engine (still in the SYN queue when the listener was closed) is silent until
			// the client sends: then the kernel answers with a reset. Probe before deciding.
			_ = pc.SetDeadline(time.Now().Add(2 * time.Second))
			if _, err := pc.Write([]byte{0}); err != nil {
				closed = true
			} else if _, err := pc.Read(buf); err != nil {
				if ne, ok := err.(net.Error); !ok || !ne.Timeout() {
					closed = true
				}
			}
			if closed {
				r.Count("peers_never_accepted(reset on probe)", 1)
			}
		}
		if !closed {
			notClosed++
			leftInfo += fmt.Sprintf(" [peer #%d of %d %v->%v; kernel: %s]", pi, len(ps), pc.LocalAddr(), pc.RemoteAddr(), tcpStates(pc))
		}
	}
	_ = scratchDir
	if notClosed > 0 {
		// a peer whose connection never reached the engine (storm connections refused late) is excluded by construction:
		// net.Dial succeeded, so the listener had accepted it into its queue; a queued, never accepted connection is
		// reset when the listener closes. 3 s of silence on an accepted connection means it is still open.
		r.Violate(sig("connections-left-open-after-stop"), fmt.Sprintf("%d of %d client connections were neither closed nor reset within 3 s after Stop returned:%s\nconfig %+v", notClosed, checked, leftInfo, c), c)
		return
	}
	stopAccept()
	closePeers()
	releaseExtra()

	// ---- reclaim: goroutines and descriptors back to the baseline
	if d := settle(baseG, goroutineKeys); len(d) > 0 {
		first := d[0]
		fn := "?"
		for _, l := range strings.Split(first, "\n") {
			if strings.Contains(l, "github.com/lesismal/nbio") {
				fn = strings.TrimSpace(l)
				if i := strings.Index(fn, "("); i > 0 && !strings.HasPrefix(fn, "created by") {
					fn = fn[:strings.LastIndex(fn, "(")]
				}
				fn = strings.TrimPrefix(fn, "created by ")
				fn = strings.TrimPrefix(fn, "github.com/lesismal/")
				if i := strings.Index(fn, " in goroutine"); i > 0 {
					fn = fn[:i]
				}
				break
			}
		}
		r.Violate(sig("goroutine-leak:"+fn), fmt.Sprintf("%d goroutine(s) running in / created by nbio remain 5 s after Stop returned and all peers were closed:\n%s", len(d), strings.Join(d, "\n---\n")), c)
		return
	}
	if d := settle(baseF, httpx.Fds); len(d) > 0 {
		kinds := map[string]bool{}
		for _, x := range d {
			k := x[strings.Index(x, "=")+1:]
			if i := strings.Index(k, ":"); i > 0 {
				k = k[:i]
			}
			kinds[k] = true
		}
		var ks []string
		for k := range kinds {
			ks = append(ks, k)
		}
		r.Violate(sig("descriptor-leak"), fmt.Sprintf("%d descriptor(s) opened during the cycle remain open 5 s after Stop returned and all peers were closed: %v (kinds %v)", len(d), d, ks), c)
		return
	}
	r.Seen("cells", fmt.Sprintf("%s/%s%s/shutdown=%v", c.Family, c.Net+c.Cell.String(), "/"+c.Mode, c.Shutdown))
	r.Count("cycles_clean", 1)
	r.Count("connections_opened", atomic.LoadInt64(&opens))
	r.Nontrivial(fmt.Sprint(c.Index))
}

// tcpStates reports the kernel's view of both ends of a loopback connection.
func tcpStates(pc net.Conn) string {
	la, ok1 := pc.LocalAddr().(*net.TCPAddr)
	ra, ok2 := pc.RemoteAddr().(*net.TCPAddr)
	if !ok1 || !ok2 {
		return "n/a"
	}
	b, err := os.ReadFile("/proc/net/tcp")
	if err != nil {
		return "n/a"
	}
	names := map[string]string{"01": "ESTABLISHED", "02": "SYN_SENT", "03": "SYN_RECV", "04": "FIN_WAIT1", "05": "FIN_WAIT2", "06": "TIME_WAIT", "07": "CLOSE", "08": "CLOSE_WAIT", "09": "LAST_ACK", "0A": "LISTEN", "0B": "CLOSING"}
	lp, rp := fmt.Sprintf(":%04X", la.Port), fmt.Sprintf(":%04X", ra.Port)
	out := ""
	for _, l := range strings.Split(string(b), "\n") {
		f := strings.Fields(l)
		if len(f) < 10 {
			continue
		}
		if strings.HasSuffix(f[1], lp) && strings.HasSuffix(f[2], rp) {
			out += " client-side=" + names[f[3]] + " inode=" + f[9]
		}
		if strings.HasSuffix(f[1], rp) && strings.HasSuffix(f[2], lp) {
			out += " server-side=" + names[f[3]] + " inode=" + f[9]
		}
	}
	return out
}

func guarded(r *h.Run, c caseT) {
	v := h.Guard(4*time.Minute, func() int64 { return atomic.LoadInt64(&progress) }, func() { runCase(r, c) })
	fam := c.Family + ":" + c.Net
	if c.Family == "http" {
		fam = "http:" + strings.Split(c.Cell.String(), "/")[0]
	}
	switch v.Kind {
	case "":
		return
	case "deadlock":
		kind := "stop-hang"
		if c.Shutdown {
			kind = "shutdown-hang"
		}
		r.Violate(fmt.Sprintf("c18:%s:%s", fam, kind), v.Detail+fmt.Sprintf("\ncase %+v", c), c)
	case "spin":
		r.Violate(fmt.Sprintf("c18:%s:spin-no-progress", fam), v.Detail, c)
	default:
		r.Inconclusive(fmt.Sprintf("case %d: %s", c.Index, v.Detail))
		fmt.Printf("=== case %d did not return: %s\n%s\n", c.Index, v.Detail, h.Stacks())
	}
	r.Inconclusive(fmt.Sprintf("shard stopped after case %d (process state unrecoverable)", c.Index))
	r.Finish()
	os.Exit(0)
}

var _ = outb.Tick

func main() {
	r := h.Start("C18")
	defer r.Finish()
	defer func() {
		if bigPath != "" {
			os.Remove(bigPath)
		}
	}()
	_ = bigFile()
	logging.SetLogger(&h.CapLogger{})
	// warm up lazily started runtime/helper goroutines and descriptors so that
	// they are part of every baseline
	if l, err := net.Listen("tcp", "127.0.0.1:0"); err == nil {
		if pc, err := net.Dial("tcp", l.Addr().String()); err == nil {
			pc.Close()
		}
		l.Close()
	}
	_, _ = httpx.Cert()
	_ = httpx.ServerTLS()
	time.Sleep(50 * time.Millisecond)
	if r.Replay != "" {
		var c caseT
		if err := r.ReplayCase(&c); err != nil {
			fmt.Println("replay:", err)
			return
		}
		guarded(r, c)
		return
	}
	n := r.N(864, 12960)
	g0, f0 := len(goroutineKeys()), len(httpx.Fds())
	cycles := 0
	for i := 0; i < n; i++ {
		if !r.Mine(i) {
			continue
		}
		c := genCase(r, i)
		r.Begin(c)
		t0 := time.Now()
		guarded(r, c)
		cycles++
		if d := time.Since(t0); d > 5*time.Second {
			fmt.Printf("slow case %d: %v %+v\n", c.Index, d, c)
		}
		if i < 2 {
			r.Sample(c)
		}
	}
	// slope over the whole shard: what one cycle may leave behind must be 0
	g1, f1 := len(goroutineKeys()), len(httpx.Fds())
	r.Count("cycles", int64(cycles))
	if r.Violations() == 0 && cycles > 0 && (g1 > g0 || f1 > f0) {
		time.Sleep(3 * time.Second)
		g1, f1 = len(goroutineKeys()), len(httpx.Fds())
		if g1 > g0 || f1 > f0 {
			r.Violate("c18:slope:resources-grow-over-cycles", fmt.Sprintf("after %d start/stop cycles: nbio goroutines %d -> %d, descriptors %d -> %d", cycles, g0, g1, f0, f1), nil)
		}
	}
}
