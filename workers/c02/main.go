// C02 - inbound delivery in every poller configuration and transport.
// History monitor: peers send self-describing streams / numbered datagrams;
// every data callback is recorded (per-connection inside-counter, payload);
// at quiescence the concatenation per connection must equal what was sent.
// Non-delivery is decided by the read stuck-state (bytes readable on nbio's
// descriptor, no read task in flight, process idle, stable), spinning by
// process CPU time after traffic stopped.
package main

import (
	"encoding/binary"
	"fmt"
	"io"
	"math/rand"
	"net"
	"os"
	"runtime"
	"sync"
	"sync/atomic"
	"time"

	"github.com/lesismal/nbio"
	"github.com/lesismal/nbio/logging"
	"github.com/lesismal/nbio/taskpool"

	"verif/internal/h"
	"verif/internal/outb"
)

type caseT struct {
	Index    int    `json:"index"`
	Net      string `json:"net"`                // tcp | unix | udp
	UDPBind  string `json:"udp_bind,omitempty"` // "" = 127.0.0.1 | v6 = [::1] | wild = all addresses, IPv4 remotes
	Mode     string `json:"mode"`               // LT | ET | ONESHOT
	Async    bool   `json:"async"`
	Exec     string `json:"exec"` // default | goroutine | pool
	NPoller  int    `json:"npoller"`
	ReadBuf  int    `json:"read_buffer"`
	MaxReads int    `json:"max_reads_per_loop"`
	Conns    int    `json:"conns"`
	Pattern  string `json:"pattern"` // burst | small | bytewise | pause | big | halfclose
	Total    int    `json:"total"`
	Delay    bool   `json:"delay_points"`
	Seed     int64  `json:"seed"`
	// Dialed: the connections are dialed by the engine (DialAsync to a plain listener) while its
	// poller is held in the callback of a helper dial; each peer sends its first bytes the moment
	// it has accepted, so that they are there when the poller gets to the connect event
	Dialed bool `json:"dialed,omitempty"`
}

func (c caseT) cell() string {
	a := "sync"
	if c.Async {
		a = "async"
	}
	n := c.Net
	if c.UDPBind != "" {
		n += "-" + c.UDPBind
	}
	return fmt.Sprintf("%s/%s/%s/%s/np%d/rb%d/mr%d", n, c.Mode, a, c.Exec, c.NPoller, c.ReadBuf, c.MaxReads)
}

var (
	nets     = []string{"tcp", "unix", "udp"}
	modes    = []string{"LT", "ET", "ONESHOT"}
	execs    = []string{"default", "goroutine", "pool"}
	npollers = []int{1, 2, 4}
	readBufs = []int{1, 7, 512, 4096, 65536}
	maxReads = []int{1, 3, 0}
	patterns = []string{"burst", "small", "bytewise", "pause", "big", "halfclose", "fullclose", "echo"}
)

func genCase(r *h.Run, idx int) caseT {
	rng := r.Rand("c02", idx)
	c := caseT{Index: idx, Seed: rng.Int63()}
	// the three mode-defining factors are enumerated, the rest is sampled
	c.Net = nets[idx%3]
	c.Mode = modes[(idx/3)%3]
	c.Async = (idx/9)%2 == 1
	c.Exec = execs[(idx/18)%3]
	c.NPoller = npollers[rng.Intn(3)]
	c.ReadBuf = readBufs[rng.Intn(len(readBufs))]
	c.MaxReads = maxReads[rng.Intn(3)]
	c.Conns = 1 + rng.Intn(4)
	c.Pattern = patterns[rng.Intn(len(patterns))]
	c.Delay = rng.Intn(2) == 0
	switch {
	case c.ReadBuf == 1:
		c.Total = 300 + rng.Intn(1500)
	case c.ReadBuf == 7:
		c.Total = 2000 + rng.Intn(10000)
	default:
		c.Total = 20000 + rng.Intn(400000)
	}
	if c.Pattern == "bytewise" && c.Total > 3000 {
		c.Total = 500 + rng.Intn(2500)
	}
	if c.Net == "tcp" && c.Pattern != "echo" && rng.Intn(5) == 0 {
		c.Dialed = true
		c.NPoller = 1
	}
	if c.Pattern == "echo" && c.Net != "udp" {
		// the application answers every chunk with a Write while the peer does not read: a write
		// backlog forms on nbio's side (write interest is armed and re-armed while input keeps coming)
		if c.ReadBuf < 4096 {
			c.ReadBuf = []int{4096, 65536}[rng.Intn(2)]
		}
		c.Total = 2<<20 + rng.Intn(1<<20)
		if c.Net == "tcp" {
			c.Total = 10<<20 + rng.Intn(4<<20)
		}
		c.Conns = 1 + rng.Intn(2)
	}
	if c.Net == "udp" {
		if c.ReadBuf < 4096 {
			c.ReadBuf = 4096 // a datagram larger than the read buffer is truncated by the kernel: not nbio's business
		}
		c.Total = 20 + rng.Intn(200) // datagrams per remote
		// an IPv6 socket for a third of the UDP cases (the session key is built per address
		// family), always with two remotes: same address, different ports
		if v := r.Rand("c02-udpbind", idx).Intn(6); v < 2 && ipv6OK() {
			c.UDPBind = []string{"v6", "wild"}[v]
			c.Conns = 2
		}
	}
	return c
}

// ---------------------------------------------------------------- recording

type connLog struct {
	mu       sync.Mutex
	inside   int32
	overlap  int32
	data     []byte   // stream transports
	dgrams   [][]byte // udp
	remote   string
	calls    int
	maxEvSee int32
}

type recorder struct {
	mu    sync.Mutex
	conns map[*nbio.Conn]*connLog
	order []*nbio.Conn
	bytes int64
	calls int64
	// callbacks with at least one byte (an empty UDP datagram may or may not be delivered)
	nonEmpty int64
}

func (rec *recorder) get(c *nbio.Conn) *connLog {
	rec.mu.Lock()
	l := rec.conns[c]
	if l == nil {
		l = &connLog{}
		if ra := c.RemoteAddr(); ra != nil {
			l.remote = ra.String()
		}
		rec.conns[c] = l
		rec.order = append(rec.order, c)
	}
	rec.mu.Unlock()
	return l
}

var progress int64
var udpListenFd int64 = -1
var udpListenConn atomic.Value // *nbio.Conn: the engine's UDP listener of the running case

// udpListenerClosed reports whether the engine has closed its UDP listener
// although the case is still running (nobody asked for that).
func udpListenerClosed() (bool, string) {
	cn, _ := udpListenConn.Load().(*nbio.Conn)
	if cn == nil {
		return false, ""
	}
	cl, err := cn.IsClosed()
	return cl, fmt.Sprint(err)
}

func runCase(r *h.Run, c caseT) {
	r.Eval(1)
	rng := rand.New(rand.NewSource(c.Seed))
	conf := nbio.Config{Network: c.Net, NPoller: c.NPoller, ReadBufferSize: c.ReadBuf, MaxConnReadTimesPerEventLoop: c.MaxReads, AsyncReadInPoller: c.Async}
	switch c.Mode {
	case "ET":
		conf.EpollMod = nbio.EPOLLET
	case "ONESHOT":
		conf.EpollMod = nbio.EPOLLET
		conf.EPOLLONESHOT = nbio.EPOLLONESHOT
	}
	var dir string
	switch c.Net {
	case "unix":
		d, err := os.MkdirTemp("", "vc02")
		if err != nil {
			r.Inconclusive("tempdir: " + err.Error())
			return
		}
		dir = d
		defer os.RemoveAll(dir)
		conf.Addrs = []string{dir + "/s.sock"}
	default:
		conf.Addrs = []string{"127.0.0.1:0"}
		switch c.UDPBind {
		case "v6":
			conf.Addrs = []string{"[::1]:0"}
		case "wild":
			conf.Addrs = []string{":0"} // dual-stack socket: IPv4 remotes appear as v4-mapped IPv6 addresses
		}
	}
	var pool *taskpool.IOTaskPool
	switch c.Exec {
	case "goroutine":
		bs := c.ReadBuf
		conf.IOExecute = func(f func(*[]byte)) {
			go func() {
				b := make([]byte, bs)
				f(&b)
			}()
		}
	case "pool":
		pool = taskpool.NewIO(4, 64, c.ReadBuf)
		conf.IOExecute = pool.Go
	}
	g := nbio.NewEngine(conf)
	rec := &recorder{conns: map[*nbio.Conn]*connLog{}}
	var delaySeed int64 = c.Seed
	jitter := func() {
		if !c.Delay {
			return
		}
		x := atomic.AddInt64(&delaySeed, 0x1E3779B97F4A7C15)
		x ^= x >> 29
		switch uint64(x) % 8 {
		case 0:
			runtime.Gosched()
		case 1:
			time.Sleep(time.Duration(uint64(x>>8)%200) * time.Microsecond)
		case 2:
			for i := 0; i < 3; i++ {
				runtime.Gosched()
			}
		}
	}
	if c.Delay {
		nbio.VerifSetPoint(func(name string, cn *nbio.Conn) {
			if name == "asyncRead.beforeDecr" {
				r.Seen("readEvents_at_beforeDecr", fmt.Sprint(nbio.VerifReadEvents(cn)))
				jitter()
			}
		})
		defer nbio.VerifSetPoint(nil)
	}
	var udpOpens int32
	var openMu sync.Mutex
	var opened []*nbio.Conn
	g.OnOpen(func(cn *nbio.Conn) {
		atomic.AddInt32(&udpOpens, 1)
		openMu.Lock()
		opened = append(opened, cn)
		openMu.Unlock()
	})
	var closeMu sync.Mutex
	closeErrs := map[*nbio.Conn]error{}
	g.OnClose(func(cn *nbio.Conn, err error) {
		closeMu.Lock()
		closeErrs[cn] = err
		closeMu.Unlock()
	})
	g.OnUDPListen(func(cn *nbio.Conn) {
		atomic.StoreInt64(&udpListenFd, int64(cn.Hash()))
		udpListenConn.Store(cn)
	})
	g.OnData(func(cn *nbio.Conn, b []byte) {
		l := rec.get(cn)
		if atomic.AddInt32(&l.inside, 1) > 1 {
			atomic.StoreInt32(&l.overlap, 1)
		}
		jitter()
		cp := append([]byte(nil), b...)
		l.mu.Lock()
		if c.Net == "udp" {
			l.dgrams = append(l.dgrams, cp)
		} else {
			l.data = append(l.data, cp...)
		}
		l.calls++
		l.mu.Unlock()
		if c.Pattern == "echo" && c.Net != "udp" {
			_, _ = cn.Write(cp)
		}
		atomic.AddInt64(&rec.bytes, int64(len(b)))
		atomic.AddInt64(&rec.calls, 1)
		if len(b) > 0 {
			atomic.AddInt64(&rec.nonEmpty, 1)
		}
		atomic.AddInt64(&progress, int64(len(b))+1)
		atomic.AddInt32(&l.inside, -1)
	})
	if err := g.Start(); err != nil {
		r.Inconclusive(fmt.Sprintf("case %d: start: %v", c.Index, err))
		return
	}
	stopped := false
	stop := func() {
		if stopped {
			return
		}
		stopped = true
		done := make(chan struct{})
		go func() { g.Stop(); close(done) }()
		select {
		case <-done:
		case <-time.After(20 * time.Second):
		}
		if pool != nil {
			pool.Stop()
		}
	}
	defer stop()
	addr := g.Addrs[0]

	if c.Net == "udp" {
		runUDP(r, c, g, rec, addr, rng)
		return
	}

	// ---- stream transports
	type peerT struct {
		id    uint32
		conn  net.Conn
		total int
		sent  int64
		pre   int // bytes already sent as the greeting (dialed cases)
	}
	peers := make([]*peerT, c.Conns)
	if c.Dialed {
		ln, err := net.Listen("tcp", "127.0.0.1:0")
		if err != nil {
			r.Inconclusive(fmt.Sprintf("case %d: listen: %v", c.Index, err))
			return
		}
		defer ln.Close()
		// the helper dial: its callback holds the (single) poller for a few milliseconds
		inCb := make(chan struct{})
		herr := g.DialAsync("tcp", ln.Addr().String(), func(cn *nbio.Conn, err error) {
			close(inCb)
			time.Sleep(8 * time.Millisecond)
		})
		if herr != nil {
			r.Inconclusive(fmt.Sprintf("case %d: helper dial: %v", c.Index, herr))
			return
		}
		hc, err := ln.Accept()
		if err != nil {
			r.Inconclusive(fmt.Sprintf("case %d: helper accept: %v", c.Index, err))
			return
		}
		defer hc.Close()
		select {
		case <-inCb:
		case <-time.After(5 * time.Second):
			r.Inconclusive(fmt.Sprintf("case %d: helper dial callback not observed", c.Index))
			return
		}
		for i := range peers {
			derr := g.DialAsync("tcp", ln.Addr().String(), func(cn *nbio.Conn, err error) {
				if err == nil {
					openMu.Lock()
					opened = append(opened, cn)
					openMu.Unlock()
				}
			})
			if derr != nil {
				r.Inconclusive(fmt.Sprintf("case %d: DialAsync: %v", c.Index, derr))
				return
			}
			pc, err := ln.Accept()
			if err != nil {
				r.Inconclusive(fmt.Sprintf("case %d: accept: %v", c.Index, err))
				return
			}
			defer pc.Close()
			p := &peerT{id: uint32(c.Index*16 + i + 1), conn: pc, total: c.Total + rng.Intn(1+c.Total/4)}
			// the greeting: the first bytes of the stream, written before the poller has seen the connect
			p.pre = 1 + rng.Intn(200)
			if p.pre > p.total {
				p.pre = p.total
			}
			if _, err := pc.Write(outb.Payload(p.id, p.total)[:p.pre]); err != nil {
				r.Inconclusive(fmt.Sprintf("case %d: greeting: %v", c.Index, err))
				return
			}
			atomic.StoreInt64(&p.sent, int64(p.pre))
			peers[i] = p
		}
		r.Count("cases_with_dialed_connections", 1)
	} else {
		for i := range peers {
			pc, err := net.DialTimeout(c.Net, addr, 5*time.Second)
			if err != nil {
				r.Inconclusive(fmt.Sprintf("case %d: dial: %v", c.Index, err))
				return
			}
			defer pc.Close()
			peers[i] = &peerT{id: uint32(c.Index*16 + i + 1), conn: pc, total: c.Total + rng.Intn(1+c.Total/4)}
		}
	}
	var sumPre int64
	for _, p := range peers {
		sumPre += int64(p.pre)
	}
	var sendersStop int32
	defer atomic.StoreInt32(&sendersStop, 1)
	var wg sync.WaitGroup
	for _, p := range peers {
		wg.Add(1)
		go func(p *peerT, seed int64) {
			defer wg.Done()
			prng := rand.New(rand.NewSource(seed))
			data := outb.Payload(p.id, p.total)
			off := p.pre
			if p.pre > 0 {
				// the greeting stays alone until it has been delivered: nothing else may come to the
				// rescue of a reading event that was lost with the connect event (if it never is
				// delivered, the quiescence loop below decides the stuck state)
				for atomic.LoadInt64(&rec.bytes) < sumPre && atomic.LoadInt32(&sendersStop) == 0 {
					time.Sleep(25 * time.Millisecond) // rarely: the wait must not look like activity to the idle predicate
				}
				if atomic.LoadInt32(&sendersStop) != 0 {
					return
				}
			}
			for off < len(data) {
				var n int
				switch c.Pattern {
				case "echo":
					n = 16384 + prng.Intn(65536)
				case "burst", "halfclose", "fullclose":
					n = len(data)
				case "small":
					n = 1 + prng.Intn(200)
				case "bytewise":
					n = 1
				case "pause":
					n = 1 + prng.Intn(len(data)/4+1)
				case "big":
					n = c.ReadBuf*2 + prng.Intn(c.ReadBuf*3+1)
				}
				if off+n > len(data) {
					n = len(data) - off
				}
				if _, err := p.conn.Write(data[off : off+n]); err != nil {
					return
				}
				off += n
				atomic.StoreInt64(&p.sent, int64(off))
				atomic.AddInt64(&progress, 1)
				switch c.Pattern {
				case "pause":
					time.Sleep(time.Duration(1+prng.Intn(15)) * time.Millisecond)
				case "small":
					if prng.Intn(8) == 0 {
						time.Sleep(time.Duration(prng.Intn(300)) * time.Microsecond)
					}
				case "bytewise":
					if prng.Intn(4) == 0 {
						runtime.Gosched()
					}
				}
			}
			if c.Pattern == "halfclose" {
				switch v := p.conn.(type) {
				case *net.TCPConn:
					_ = v.CloseWrite()
				case *net.UnixConn:
					_ = v.CloseWrite()
				}
			}
			if c.Pattern == "echo" {
				// only now the peer reads what was echoed (the content of the echo is C01's business)
				go func() { _, _ = io.Copy(io.Discard, p.conn) }()
			}
			if c.Pattern == "fullclose" {
				// everything written before is still owed to the application
				_ = p.conn.Close()
			}
		}(p, c.Seed+int64(p.id))
	}
	// the senders are not waited for: a connection that has gone deaf blocks its
	// sender once the socket buffers are full, and that state must be decided below
	// (the deferred Close of the peers releases a blocked sender)
	var want int64
	for _, p := range peers {
		want += int64(p.total)
	}

	// ---- quiescence: everything delivered, or the read stuck-state
	stable := 0
	var last int64 = -1
	lastCPU := h.CPUTime()
	deadline := time.Now().Add(90 * time.Second)
	stuck := ""
	for {
		got := atomic.LoadInt64(&rec.bytes)
		if got >= want {
			break
		}
		cpu := h.CPUTime()
		if got == last && cpu-lastCPU < 3*time.Millisecond {
			stable++
		} else {
			stable = 0
		}
		last, lastCPU = got, cpu
		if stable >= 60 {
			// which connection holds readable bytes nobody reads?
			openMu.Lock()
			conns := append([]*nbio.Conn(nil), opened...)
			openMu.Unlock()
			pending := 0
			detail := ""
			dropped := ""
			for _, cn := range conns {
				l := rec.get(cn)
				l.mu.Lock()
				data := l.data
				l.mu.Unlock()
				if cl, _ := cn.IsClosed(); cl {
					// closed by nbio on the peer's FIN although bytes sent before the FIN were unread?
					closeMu.Lock()
					ce, notified := closeErrs[cn]
					closeMu.Unlock()
					sentTotal := c.Total // every peer sends at least this much
					if len(data) >= 6 {
						id := binary.BigEndian.Uint32(data[2:6])
						for _, p := range peers {
							if p.id == id {
								sentTotal = p.total
							}
						}
					}
					if (c.Pattern == "halfclose" || c.Pattern == "fullclose") && notified && len(data) < sentTotal {
						dropped = fmt.Sprintf("connection fd %d was closed by nbio (%v) after delivering %d bytes; the peer had written %d bytes before it %s", cn.Hash(), ce, len(data), sentTotal, map[string]string{"halfclose": "half-closed", "fullclose": "closed"}[c.Pattern])
					}
					continue
				}
				q, err := outb.InQ(cn.Hash())
				ev := nbio.VerifReadEvents(cn)
				if err == nil && q > 0 && ev == 0 {
					pending++
					detail += fmt.Sprintf(" fd %d: FIONREAD=%d readEvents=%d delivered=%d;", cn.Hash(), q, ev, len(data))
				}
			}
			if pending > 0 {
				stuck = fmt.Sprintf("delivered %d of %d bytes; no callback and idle CPU over %d samples (3 s) while input is pending on an open connection:%s", got, want, stable, detail)
			} else if dropped != "" {
				stuck = "halfclose:" + dropped
			} else {
				stuck = fmt.Sprintf("inconclusive: delivered %d of %d bytes, no progress, but no open connection has readable bytes without a read task", got, want)
			}
			break
		}
		if time.Now().After(deadline) {
			r.Inconclusive(fmt.Sprintf("case %d (%s): watchdog: neither delivered nor stable", c.Index, c.cell()))
			return
		}
		time.Sleep(50 * time.Millisecond)
	}
	sig := fmt.Sprintf("c02:%s:%s:%s:%s", c.Net, c.Mode, map[bool]string{false: "sync", true: "async"}[c.Async], c.Exec)
	if stuck != "" {
		if len(stuck) > 10 && stuck[:10] == "halfclose:" {
			r.Violate(fmt.Sprintf("c02:%s:%s:%s:unread-data-dropped", c.Pattern, c.Mode, map[bool]string{false: "sync", true: "async"}[c.Async]), stuck[10:]+"\nconfig "+c.cell(), c)
			return
		}
		if len(stuck) > 12 && stuck[:12] == "inconclusive" {
			fmt.Printf("=== case %d %s\n%s\n", c.Index, stuck, h.Stacks())
			r.Inconclusive(fmt.Sprintf("case %d (%s): %s", c.Index, c.cell(), stuck))
			return
		}
		r.Violate(sig+":read-stall", stuck+"\nconfig "+c.cell()+" pattern="+c.Pattern, c)
		return
	}
	// give late duplicates a chance, then check content
	time.Sleep(20 * time.Millisecond)
	rec.mu.Lock()
	conns := append([]*nbio.Conn(nil), rec.order...)
	rec.mu.Unlock()
	seen := map[uint32]bool{}
	for _, cn := range conns {
		l := rec.get(cn)
		if atomic.LoadInt32(&l.overlap) == 1 {
			r.Violate(sig+":callbacks-overlap", "two data callbacks of one connection ran at the same time\nconfig "+c.cell(), c)
			return
		}
		l.mu.Lock()
		data := l.data
		l.mu.Unlock()
		if len(data) < 6 {
			// too short to name its stream: compare against every peer
			ok := false
			for _, p := range peers {
				if len(data) == p.total && string(data) == string(outb.Payload(p.id, p.total)) {
					ok = true
					seen[p.id] = true
				}
			}
			if !ok {
				r.Violate(sig+":content", fmt.Sprintf("connection delivered %d bytes that match no sent stream\nconfig %s", len(data), c.cell()), c)
				return
			}
			continue
		}
		id := binary.BigEndian.Uint32(data[2:6])
		var p *peerT
		for _, q := range peers {
			if q.id == id {
				p = q
			}
		}
		if p == nil || data[0] != 0xA5 || data[1] != 0x5A {
			r.Violate(sig+":content", fmt.Sprintf("connection's first bytes % x name no sent stream\nconfig %s", data[:6], c.cell()), c)
			return
		}
		if seen[id] {
			r.Violate(sig+":stream-on-two-conns", fmt.Sprintf("stream %d was delivered on two connections\nconfig %s", id, c.cell()), c)
			return
		}
		seen[id] = true
		wantB := outb.Payload(id, p.total)
		if len(data) != len(wantB) || string(data) != string(wantB) {
			i := 0
			for i < len(data) && i < len(wantB) && data[i] == wantB[i] {
				i++
			}
			kind := "content"
			switch {
			case len(data) < len(wantB) && i == len(data):
				kind = "bytes-missing"
			case len(data) > len(wantB) && i == len(wantB):
				kind = "extra-bytes"
			}
			r.Violate(sig+":"+kind, fmt.Sprintf("stream %d: delivered %d bytes, sent %d; first difference at offset %d\nconfig %s pattern=%s", id, len(data), len(wantB), i, c.cell(), c.Pattern), c)
			return
		}
	}
	if len(seen) != len(peers) {
		r.Violate(sig+":bytes-missing", fmt.Sprintf("%d of %d streams were delivered\nconfig %s", len(seen), len(peers), c.cell()), c)
		return
	}

	// ---- idle check: with no input pending nothing may spin
	if spin := spinCheck(); spin != "" {
		r.Violate(sig+":spin-when-idle", spin+"\nconfig "+c.cell(), c)
		return
	}
	r.Seen("cells", fmt.Sprintf("%s/%s/async=%v/%s", c.Net, c.Mode, c.Async, c.Exec))
	r.Seen("full_cells", c.cell())
	if c.UDPBind != "" {
		r.Count("udp_cases_on_an_ipv6_socket_with_two_remotes_of_one_address", 1)
	}
	r.Count("bytes_delivered", want)
	r.Count("callbacks", atomic.LoadInt64(&rec.calls))
	r.Nontrivial(fmt.Sprint(c.Index))
}

// spinCheck measures process CPU time after traffic has stopped. A short
// window first; only if that is busy the three 1 s windows that decide.
func spinCheck() string {
	c0, t0 := h.CPUTime(), time.Now()
	time.Sleep(150 * time.Millisecond)
	f := float64(h.CPUTime()-c0) / float64(time.Since(t0))
	if f < 0.25 {
		return ""
	}
	var fr [3]float64
	for i := 0; i < 3; i++ {
		c0, t0 = h.CPUTime(), time.Now()
		time.Sleep(time.Second)
		fr[i] = float64(h.CPUTime()-c0) / float64(time.Since(t0))
		if fr[i] < 0.25 {
			return ""
		}
	}
	return fmt.Sprintf("all input delivered and all peers silent, yet the process used %.0f%%, %.0f%%, %.0f%% of a core in three consecutive 1 s windows; running goroutines inside nbio:\n%s", fr[0]*100, fr[1]*100, fr[2]*100, h.RunningNbio(h.Stacks()))
}

// ---------------------------------------------------------------- UDP

func udpDrops(port int) (int64, bool) {
	b, err := os.ReadFile("/proc/net/udp")
	if err != nil {
		return 0, false
	}
	if b6, err := os.ReadFile("/proc/net/udp6"); err == nil {
		// (same columns; the header line of the second file never matches a port)
		b = append(b, b6...)
	}
	want := fmt.Sprintf(":%04X", port)
	lines := splitLines(string(b))
	for _, l := range lines[1:] {
		f := fields(l)
		if len(f) >= 13 && len(f[1]) >= 5 && f[1][len(f[1])-5:] == want {
			var d int64
			fmt.Sscan(f[12], &d)
			return d, true
		}
	}
	return 0, false
}

func splitLines(s string) []string {
	var out []string
	cur := ""
	for _, ch := range s {
		if ch == '\n' {
			out = append(out, cur)
			cur = ""
		} else {
			cur += string(ch)
		}
	}
	if cur != "" {
		out = append(out, cur)
	}
	return out
}

func fields(s string) []string {
	var out []string
	cur := ""
	for _, ch := range s {
		if ch == ' ' || ch == '\t' {
			if cur != "" {
				out = append(out, cur)
				cur = ""
			}
		} else {
			cur += string(ch)
		}
	}
	if cur != "" {
		out = append(out, cur)
	}
	return out
}

var ipv6Once sync.Once
var ipv6Avail bool

// ipv6OK reports whether this host can open an IPv6 UDP socket on loopback.
func ipv6OK() bool {
	ipv6Once.Do(func() {
		if pc, err := net.ListenPacket("udp6", "[::1]:0"); err == nil {
			pc.Close()
			ipv6Avail = true
		}
	})
	return ipv6Avail
}

func runUDP(r *h.Run, c caseT, g *nbio.Engine, rec *recorder, addr string, rng *rand.Rand) {
	if c.UDPBind == "wild" {
		// the listener is bound to all addresses; the remotes are IPv4
		if _, port, err := net.SplitHostPort(addr); err == nil {
			addr = "127.0.0.1:" + port
		}
	}
	ua, err := net.ResolveUDPAddr("udp", addr)
	if err != nil {
		r.Inconclusive("resolve: " + err.Error())
		return
	}
	type remote struct {
		conn *net.UDPConn
		sent [][]byte
		id   uint32
	}
	rs := make([]*remote, c.Conns)
	for i := range rs {
		uc, err := net.DialUDP("udp", nil, ua)
		if err != nil {
			r.Inconclusive("dial udp: " + err.Error())
			return
		}
		defer uc.Close()
		rs[i] = &remote{conn: uc, id: uint32(c.Index*16 + i + 1)}
	}
	// bursts of k datagrams then silence until they were delivered (or stuck)
	sig := fmt.Sprintf("c02:udp:%s:%s:%s", c.Mode, map[bool]string{false: "sync", true: "async"}[c.Async], c.Exec)
	perRemote := c.Total
	sentTotal := int64(0)
	emptySent, emptySeen := 0, 0
	for sentN := 0; sentN < perRemote; {
		k := 1 + rng.Intn(20)
		if sentN+k > perRemote {
			k = perRemote - sentN
		}
		for j := 0; j < k; j++ {
			for _, rm := range rs {
				n := 8 + rng.Intn(1392)
				if rng.Intn(6) == 0 {
					n = 8
				}
				b := make([]byte, n)
				binary.BigEndian.PutUint32(b[0:4], rm.id)
				binary.BigEndian.PutUint32(b[4:8], uint32(len(rm.sent)))
				outb.Fill(b[8:], rm.id, int64(len(rm.sent))*1400)
				if _, err := rm.conn.Write(b); err != nil {
					if cl, why := udpListenerClosed(); cl {
						r.Violate(sig+":udp-listener-closed", fmt.Sprintf("the engine closed its UDP listener (close error %s) although nobody closed it: a remote's write fails with %v after %d datagrams (%d of them empty); every session is gone with it\nconfig %s", why, err, sentTotal+int64(emptySent), emptySent, c.cell()), c)
						return
					}
					r.Inconclusive("udp write: " + err.Error())
					return
				}
				rm.sent = append(rm.sent, b)
				sentTotal++
				atomic.AddInt64(&progress, 1)
				if rng.Intn(12) == 0 {
					// an empty datagram is a legal datagram: whether it reaches the callback is not
					// asserted, but it must not disturb the session or the datagrams around it
					if _, err := rm.conn.Write([]byte{}); err == nil {
						emptySent++
					}
				}
			}
		}
		sentN += k
		// silence: wait for delivery of everything sent so far
		stable := 0
		var last int64 = -1
		lastCPU := h.CPUTime()
		for {
			got := atomic.LoadInt64(&rec.nonEmpty)
			if got >= sentTotal {
				break
			}
			cpu := h.CPUTime()
			if got == last && cpu-lastCPU < 3*time.Millisecond {
				stable++
			} else {
				stable = 0
			}
			last, lastCPU = got, cpu
			if stable >= 60 {
				if cl, why := udpListenerClosed(); cl {
					r.Violate(sig+":udp-listener-closed", fmt.Sprintf("the engine closed its UDP listener (close error %s) although nobody closed it: %d of %d datagrams delivered, %d empty datagrams sent\nconfig %s", why, got, sentTotal, emptySent, c.cell()), c)
					return
				}
				if d, ok := udpDrops(ua.Port); !ok || d > 0 {
					r.Inconclusive(fmt.Sprintf("case %d: kernel dropped datagrams (drops=%d): inconclusive", c.Index, d))
					return
				}
				// datagrams are queued in the socket (FIONREAD) but nobody reads them
				q, qerr := outb.InQ(int(atomic.LoadInt64(&udpListenFd)))
				if qerr != nil || q == 0 {
					// nothing readable: whatever is missing was consumed; the content check decides
					goto content
				}
				r.Violate(sig+":datagrams-not-delivered", fmt.Sprintf("%d of %d datagrams delivered after a burst of %d per remote; no callback and idle CPU over %d samples (3 s); the listener socket still holds a readable datagram (FIONREAD=%d), kernel drop counter 0\nconfig %s", got, sentTotal, k, stable, q, c.cell()), c)
				return
			}
			time.Sleep(50 * time.Millisecond)
		}
	}
content:
	time.Sleep(20 * time.Millisecond)
	// ---- content: per logical connection
	rec.mu.Lock()
	conns := append([]*nbio.Conn(nil), rec.order...)
	rec.mu.Unlock()
	byRemote := map[uint32]*nbio.Conn{}
	total := 0
	for _, cn := range conns {
		l := rec.get(cn)
		if atomic.LoadInt32(&l.overlap) == 1 {
			r.Violate(sig+":callbacks-overlap", "two data callbacks of one logical UDP connection ran at the same time\nconfig "+c.cell(), c)
			return
		}
		l.mu.Lock()
		dg := l.dgrams
		l.mu.Unlock()
		next := -1
		for _, d := range dg {
			if len(d) == 0 {
				emptySeen++
				continue
			}
			total++
			if len(d) < 8 {
				r.Violate(sig+":datagram-content", fmt.Sprintf("delivered datagram of %d bytes matches nothing sent\nconfig %s", len(d), c.cell()), c)
				return
			}
			id := binary.BigEndian.Uint32(d[0:4])
			seq := int(binary.BigEndian.Uint32(d[4:8]))
			var rm *remote
			for _, x := range rs {
				if x.id == id {
					rm = x
				}
			}
			if rm == nil || seq >= len(rm.sent) || string(rm.sent[seq]) != string(d) {
				r.Violate(sig+":datagram-content", fmt.Sprintf("delivered datagram (remote %d seq %d, %d bytes) does not equal the datagram sent (boundary or content changed)\nconfig %s", id, seq, len(d), c.cell()), c)
				return
			}
			if prev, ok := byRemote[id]; ok && prev != cn {
				r.Violate(sig+":remote-on-two-conns", fmt.Sprintf("datagrams of remote %d were attributed to two different logical connections\nconfig %s", id, c.cell()), c)
				return
			}
			byRemote[id] = cn
			if l.remote != rm.conn.LocalAddr().String() {
				r.Violate(sig+":wrong-remote-addr", fmt.Sprintf("datagram of remote %s delivered on the connection of %s\nconfig %s", rm.conn.LocalAddr(), l.remote, c.cell()), c)
				return
			}
			if seq <= next {
				r.Violate(sig+":datagram-duplicate-or-reordered", fmt.Sprintf("remote %d: datagram seq %d delivered after seq %d\nconfig %s", id, seq, next, c.cell()), c)
				return
			}
			if seq != next+1 {
				if d2, ok := udpDrops(ua.Port); !ok || d2 > 0 {
					r.Inconclusive(fmt.Sprintf("case %d: kernel dropped datagrams", c.Index))
					return
				}
				r.Violate(sig+":datagram-missing", fmt.Sprintf("remote %d: datagram seq %d follows seq %d (kernel drop counter 0)\nconfig %s", id, seq, next, c.cell()), c)
				return
			}
			next = seq
		}
	}
	// different remotes => different connections
	inv := map[*nbio.Conn]uint32{}
	for id, cn := range byRemote {
		if o, ok := inv[cn]; ok && o != id {
			r.Violate(sig+":two-remotes-one-conn", fmt.Sprintf("remotes %d and %d share one logical connection\nconfig %s", o, id, c.cell()), c)
			return
		}
		inv[cn] = id
	}
	if emptySeen > emptySent {
		r.Violate(sig+":datagram-content", fmt.Sprintf("%d empty datagrams delivered, %d sent\nconfig %s", emptySeen, emptySent, c.cell()), c)
		return
	}
	r.Count("empty_datagrams_sent", int64(emptySent))
	r.Count("empty_datagrams_delivered(not asserted)", int64(emptySeen))
	if int64(total) != sentTotal {
		r.Violate(sig+":datagram-count", fmt.Sprintf("%d datagrams delivered, %d sent\nconfig %s", total, sentTotal, c.cell()), c)
		return
	}
	if spin := spinCheck(); spin != "" {
		r.Violate(sig+":spin-when-idle", spin+"\nconfig "+c.cell(), c)
		return
	}
	// ---- the application closes the session of the first remote while the listener stays; when
	// that remote (same address, same port) sends again, its datagram belongs to a live logical
	// connection - a new one - not to the one that has been closed
	if cn0 := byRemote[rs[0].id]; cn0 != nil && c.Index%2 == 0 {
		_ = cn0.Close()
		for i := 0; i < 400; i++ {
			if cl, _ := cn0.IsClosed(); cl {
				break
			}
			time.Sleep(time.Millisecond)
		}
		d := make([]byte, 64)
		binary.BigEndian.PutUint32(d[0:4], rs[0].id)
		binary.BigEndian.PutUint32(d[4:8], 0xFFFFFFF0)
		for i := 8; i < len(d); i++ {
			d[i] = byte(0xA0 + i%7)
		}
		find := func() *nbio.Conn {
			rec.mu.Lock()
			order := append([]*nbio.Conn(nil), rec.order...)
			rec.mu.Unlock()
			for _, cn := range order {
				l := rec.get(cn)
				l.mu.Lock()
				for _, x := range l.dgrams {
					if string(x) == string(d) {
						l.mu.Unlock()
						return cn
					}
				}
				l.mu.Unlock()
			}
			return nil
		}
		var where *nbio.Conn
		for try := 0; try < 3 && where == nil; try++ {
			if _, err := rs[0].conn.Write(d); err != nil {
				break
			}
			for i := 0; i < 100 && where == nil; i++ {
				time.Sleep(2 * time.Millisecond)
				where = find()
			}
		}
		switch {
		case where == cn0:
			r.Violate(sig+":datagram-handed-to-closed-connection", fmt.Sprintf("the application closed the logical connection of remote %s; a datagram the same remote sent afterwards was handed to the data callback with that closed connection (no new session was opened: replies on it fail, its deadlines are gone)\nconfig %s", rs[0].conn.LocalAddr(), c.cell()), c)
			return
		case where == nil:
			if d2, ok := udpDrops(ua.Port); ok && d2 == 0 {
				if q, qerr := outb.InQ(int(atomic.LoadInt64(&udpListenFd))); qerr == nil && q == 0 {
					r.Violate(sig+":datagram-after-session-close-not-delivered", fmt.Sprintf("the application closed the logical connection of remote %s; datagrams the same remote sent afterwards (3 copies) were read from the socket (nothing queued, kernel drop counter 0) but never handed to the data callback\nconfig %s", rs[0].conn.LocalAddr(), c.cell()), c)
					return
				}
			}
			r.Inconclusive(fmt.Sprintf("case %d: datagram after a session close undecided", c.Index))
			return
		default:
			r.Count("udp_sessions_reopened_after_an_application_close", 1)
		}
	}
	r.Seen("cells", fmt.Sprintf("%s/%s/async=%v/%s", c.Net, c.Mode, c.Async, c.Exec))
	r.Seen("full_cells", c.cell())
	if c.UDPBind != "" {
		r.Count("udp_cases_on_an_ipv6_socket_with_two_remotes_of_one_address", 1)
	}
	r.Count("datagrams_delivered", sentTotal)
	r.Nontrivial(fmt.Sprint(c.Index))
}

func guarded(r *h.Run, c caseT) {
	v := h.Guard(4*time.Minute, func() int64 { return atomic.LoadInt64(&progress) }, func() { runCase(r, c) })
	sig := fmt.Sprintf("c02:%s:%s:%s:%s", c.Net, c.Mode, map[bool]string{false: "sync", true: "async"}[c.Async], c.Exec)
	switch v.Kind {
	case "":
		return
	case "spin":
		r.Violate(sig+":spin-no-delivery", v.Detail+"\nconfig "+c.cell(), c)
	case "deadlock":
		r.Violate(sig+":deadlock-no-progress", v.Detail+"\nconfig "+c.cell(), c)
	default:
		r.Inconclusive(fmt.Sprintf("case %d: %s", c.Index, v.Detail))
	}
	r.Inconclusive(fmt.Sprintf("shard stopped after case %d (process state unrecoverable)", c.Index))
	r.Finish()
	os.Exit(0)
}

func main() {
	r := h.Start("C02")
	defer r.Finish()
	logging.SetLogger(&h.CapLogger{})
	if nbio.MaxOpenFiles > 1<<16 {
		nbio.MaxOpenFiles = 1 << 16
	}
	if r.Replay != "" {
		var c caseT
		if err := r.ReplayCase(&c); err != nil {
			fmt.Println("replay:", err)
			return
		}
		guarded(r, c)
		return
	}
	n := r.N(432, 3240)
	for i := 0; i < n; i++ {
		if !r.Mine(i) {
			continue
		}
		c := genCase(r, i)
		r.Begin(c)
		t0 := time.Now()
		guarded(r, c)
		if d := time.Since(t0); d > 5*time.Second {
			fmt.Printf("slow case %d: %v %s %s\n", c.Index, d, c.cell(), c.Pattern)
		}
		if i < 3 {
			r.Sample(c)
		}
	}
}
