// C01 - outbound stream integrity. History monitor: every Write/Writev/
// Sendfile call is recorded at the API boundary with one logical clock, the
// payload of every call is self-describing, and the stream an independent peer
// received is checked against the calls (CheckStream). Phases: "real" (the
// kernel chooses the split points) and "shim" (split points, EINTR and - in
// LT/ONESHOT - EAGAIN chosen adversarially through the syscall shim).
package main

import (
	"encoding/json"
	"fmt"
	"math/rand"
	"os"
	"strconv"
	"sync"
	"sync/atomic"
	"syscall"
	"time"

	"github.com/lesismal/nbio"

	"verif/internal/h"
	"verif/internal/outb"
)

type caseT struct {
	Index int             `json:"index"`
	Cfg   outb.Cfg        `json:"cfg"`
	Conns []outb.ConnSpec `json:"conns"`
	Seed  int64           `json:"seed"`
}

var nets = []string{"tcp", "unix"}
var modes = []string{"LT", "ET", "ONESHOT"}

func genSize(rng *rand.Rand, big bool) int {
	switch rng.Intn(12) {
	case 0:
		return 0
	case 1:
		return 1
	case 2:
		return 16 + rng.Intn(100)
	case 3:
		return 4096
	case 4:
		return 65536 + rng.Intn(3) - 1
	case 5, 6:
		if big {
			return 1<<20 + rng.Intn(1<<20)
		}
		return 100000 + rng.Intn(200000)
	case 7:
		if big {
			return 4 << 20
		}
		return 300000
	default:
		return 16 + rng.Intn(20000)
	}
}

func genOp(rng *rand.Rand, multi, big bool, shim bool) outb.Op {
	minSz := 0
	if multi {
		minSz = 16 // concurrent writers: payloads must identify their call
	}
	sz := func() int {
		s := genSize(rng, big)
		if s < minSz && s != 0 {
			s = minSz
		}
		return s
	}
	var op outb.Op
	switch x := rng.Intn(10); {
	case x < 5:
		op = outb.Op{Kind: "write", Sizes: []int{sz()}}
	case x < 8:
		k := 1 + rng.Intn(8)
		var ss []int
		for i := 0; i < k; i++ {
			s := sz()
			if rng.Intn(6) == 0 {
				s = 0
			}
			ss = append(ss, s)
		}
		op = outb.Op{Kind: "writev", Sizes: ss}
		if multi && op.Total() < 16 {
			op.Sizes[0] = 16
		}
	default:
		op = outb.Op{Kind: "sendfile", Sizes: []int{1 + sz()}, Off: rng.Intn(3) * rng.Intn(5000)}
		if multi && op.Sizes[0] < 16 {
			op.Sizes[0] = 16
		}
		if rng.Intn(8) == 0 {
			// a file with nothing left to send (empty, or positioned at its end)
			op = outb.Op{Kind: "sendfile-empty", Off: rng.Intn(2) * rng.Intn(5000)}
		}
	}
	if rng.Intn(5) == 0 {
		op.Pause = rng.Intn(300)
	}
	return op
}

func genCase(r *h.Run, phase string, idx int) caseT {
	rng := r.Rand("c01-"+phase, idx)
	c := caseT{Index: idx, Seed: rng.Int63()}
	c.Cfg.Net = nets[idx%2]
	c.Cfg.Mode = modes[(idx/2)%3]
	switch rng.Intn(4) {
	case 0:
		c.Cfg.SndBuf = 8192
		c.Cfg.RcvBuf = 8192
	case 1:
		c.Cfg.SndBuf = 16384
	}
	shim := phase == "shim"
	if idx%6 == 5 {
		// trickle: one writer, many small and medium writes against a slow reader with small
		// socket buffers, so that the backlog hovers around one partly flushed buffer and
		// later writes are merged into it (coalescing / grow-and-copy paths)
		c.Cfg.SndBuf = 8192
		c.Cfg.RcvBuf = 0
		if c.Cfg.Net == "tcp" {
			c.Cfg.RcvBuf = 8192
		}
		var prog []outb.Op
		n := 80 + rng.Intn(120)
		total := 0
		lim := 1500000
		if c.Cfg.Net == "tcp" && !shim {
			lim = 400000
		}
		for i := 0; i < n && total < lim; i++ {
			sz := 1 + rng.Intn(24000)
			if rng.Intn(4) == 0 {
				sz = 1 + rng.Intn(300)
			}
			op := outb.Op{Kind: "write", Sizes: []int{sz}}
			if rng.Intn(5) == 0 {
				op = outb.Op{Kind: "writev", Sizes: []int{sz / 3, sz - sz/3}}
			}
			if rng.Intn(3) == 0 {
				op.Pause = rng.Intn(400)
			}
			total += sz
			prog = append(prog, op)
		}
		cs := outb.ConnSpec{Writers: [][]outb.Op{prog}, Pacing: "slow"}
		if shim {
			cs.Shim = []string{"random", "tiny"}[rng.Intn(2)]
		}
		c.Conns = append(c.Conns, cs)
		return c
	}
	nconn := 1 + rng.Intn(2)
	budget := 6 << 20
	if c.Cfg.RcvBuf > 0 {
		budget = 100000 // tiny TCP windows move a few KiB/s on loopback
	}
	for k := 0; k < nconn; k++ {
		var cs outb.ConnSpec
		nw := []int{1, 1, 2, 4}[rng.Intn(4)]
		multi := nw > 1
		if rng.Intn(3) == 0 {
			multi = true
		}
		big := rng.Intn(3) == 0
		for w := 0; w < nw; w++ {
			var prog []outb.Op
			nops := 3 + rng.Intn(12)
			for i := 0; i < nops && budget > 0; i++ {
				op := genOp(rng, multi, big, shim)
				budget -= op.Total()
				prog = append(prog, op)
			}
			cs.Writers = append(cs.Writers, prog)
		}
		if multi && rng.Intn(2) == 0 {
			n := 1 + rng.Intn(5)
			for i := 0; i < n; i++ {
				op := genOp(rng, true, false, shim)
				if op.Kind == "sendfile" || op.Kind == "sendfile-empty" { // keep the poller goroutine free of file creation
					op.Kind = "write"
				}
				cs.OnData = append(cs.OnData, op)
			}
		}
		cs.Pacing = []string{"eager", "slow", "stopgo", "stopgo", "late", "abort"}[rng.Intn(6)]
		if cs.Pacing == "abort" {
			cs.AbortAt = 1 + rng.Intn(200000)
		}
		if shim {
			cs.Shim = []string{"random", "random", "tiny"}[rng.Intn(3)]
			if cs.Shim == "tiny" {
				// tiny caps cost a syscall per few bytes: keep those programs small
				for w := range cs.Writers {
					for i := range cs.Writers[w] {
						for j := range cs.Writers[w][i].Sizes {
							if cs.Writers[w][i].Sizes[j] > 3000 {
								cs.Writers[w][i].Sizes[j] = 16 + cs.Writers[w][i].Sizes[j]%3000
							}
						}
					}
				}
				for i := range cs.OnData {
					for j := range cs.OnData[i].Sizes {
						if cs.OnData[i].Sizes[j] > 3000 {
							cs.OnData[i].Sizes[j] = 16 + cs.OnData[i].Sizes[j]%3000
						}
					}
				}
			}
			if rng.Intn(6) == 0 {
				cs.FatalAt = int64(1 + rng.Intn(40))
				cs.FatalErr = []int{int(syscall.ECONNRESET), int(syscall.EPIPE), int(syscall.ETIMEDOUT)}[rng.Intn(3)]
			}
		}
		c.Conns = append(c.Conns, cs)
	}
	// an OnWrittenSize handler that yields or sleeps: a delay point inside the write and flush paths
	c.Cfg.Written = rng.Intn(3) == 0
	return c
}

// guarded runs one case under the spin/deadlock guard. A case that never
// comes back ends the process (its goroutines cannot be recovered); the
// verdict is recorded first.
func guarded(r *h.Run, c caseT) {
	v := h.Guard(5*time.Minute, func() int64 { return atomic.LoadInt64(&outb.Progress) }, func() { runCase(r, c) })
	switch v.Kind {
	case "":
		return
	case "spin":
		r.Violate("c01:"+c.Cfg.Net+":spin-no-progress", v.Detail, c)
	case "deadlock":
		r.Violate("c01:"+c.Cfg.Net+":deadlock-no-progress", v.Detail, c)
	default:
		r.Inconclusive(fmt.Sprintf("case %d: %s", c.Index, v.Detail))
	}
	r.Inconclusive(fmt.Sprintf("shard stopped after case %d (process state unrecoverable); remaining cases of this shard were not run", c.Index))
	outb.Cleanup()
	r.Finish()
	os.Exit(0)
}

func runCase(r *h.Run, c caseT) {
	r.Eval(1)
	env, err := outb.NewEnv(c.Cfg)
	if err != nil {
		r.Inconclusive(fmt.Sprintf("case %d: engine start: %v", c.Index, err))
		return
	}
	defer env.Stop()
	srv := make(chan *nbio.Conn, 16)
	var hmu sync.Mutex
	handlers := map[*nbio.Conn]func(){}
	env.OnOpen = func(cn *nbio.Conn) { srv <- cn }
	env.OnData = func(cn *nbio.Conn, b []byte) {
		hmu.Lock()
		f := handlers[cn]
		hmu.Unlock()
		if f != nil {
			for range b {
				f()
			}
		}
	}
	reg := func(cn *nbio.Conn, f func()) {
		hmu.Lock()
		handlers[cn] = f
		hmu.Unlock()
	}
	results := make([]*outb.ConnResult, len(c.Conns))
	// connections are started one after the other (so that each peer is paired
	// with its own server connection) and then run concurrently
	var wg sync.WaitGroup
	var pair sync.Mutex
	for k := range c.Conns {
		wg.Add(1)
		go func(k int) {
			defer wg.Done()
			one := make(chan *nbio.Conn, 1)
			pair.Lock()
			done := make(chan struct{})
			go func() {
				select {
				case cn := <-srv:
					one <- cn
				case <-done:
				}
			}()
			results[k] = outb.RunConnPaired(env, c.Conns[k], c.Seed+int64(k), one, reg, func() { pair.Unlock() })
			close(done)
		}(k)
	}
	wg.Wait()

	for k, res := range results {
		spec := c.Conns[k]
		if res.Incon != "" {
			r.Inconclusive(fmt.Sprintf("case %d conn %d: %s", c.Index, k, res.Incon))
			continue
		}
		cell := fmt.Sprintf("%s/%s", c.Cfg.Cell(), spec.Pacing)
		r.Seen("cells", cell)
		if res.Stalled {
			if os.Getenv("VERIF_DEBUG") != "" {
				b, _ := json.Marshal(spec)
				fmt.Printf("STALL spec=%s\npolicy=%+v\n", b, res.Policy)
			}
			r.Count("stalled_with_backlog(decided by C04)", 1)
			r.Inconclusive(fmt.Sprintf("case %d conn %d: delivery stalled with a non-empty backlog (C04 decides stalls): %s", c.Index, k, res.StallInfo))
		}
		if is := outb.CheckStream(res.Calls, res.Stream, res.Complete); is != nil {
			d := is.Detail
			if res.StallInfo != "" {
				d += "\nfinal state: " + res.StallInfo
			}
			d += fmt.Sprintf("\nconfig %s pacing=%s shim=%q calls=%d received=%d expected=%d closed=%v closeErrs=%v", c.Cfg.Cell(), spec.Pacing, spec.Shim, len(res.Calls), len(res.Stream), res.Expected, res.Closed, res.CloseErrs)
			r.Violate("c01:"+c.Cfg.Net+":"+is.Sig, d, c)
			continue
		}
		// observations
		var shortW, eagain int64
		if p := res.Policy; p != nil {
			shortW = p.Short
			eagain = p.EAGAIN + p.RealEAGAIN
			r.Count("shim_calls", p.Calls)
			r.Count("shim_short_transfers", p.Short)
			r.Count("shim_eintr", p.EINTR)
			r.Count("shim_eagain_injected", p.EAGAIN)
			r.Count("kernel_eagain", p.RealEAGAIN)
		}
		r.Count("calls", int64(len(res.Calls)))
		r.Count("bytes_verified", int64(len(res.Stream)))
		queued := false
		for _, cl := range res.Calls {
			r.Count("calls_"+cl.Kind, 1)
			if cl.Err != "" {
				r.Seen("call_errors", cl.Kind+": "+cl.Err)
			}
		}
		// the backlog path was entered if the accessor saw queued bytes after a
		// call, or the shim shortened/refused a transfer
		if res.MaxBacklog > 0 || shortW > 0 || eagain > 0 {
			queued = true
		}
		if res.MaxBacklog > 0 {
			r.Count("conns_with_observed_backlog", 1)
			r.Max("max_backlog_bytes", res.MaxBacklog)
		}
		if res.Complete {
			r.Count("conns_complete", 1)
		} else {
			r.Count("conns_closed_early(prefix checked)", 1)
		}
		if queued && len(res.Stream) > 0 {
			r.Nontrivial(fmt.Sprintf("%d/%d", c.Index, k))
		}
	}
}

func main() {
	r := h.Start("C01")
	defer r.Finish()
	defer outb.Cleanup()
	if r.Phase == "shim" {
		outb.InstallShim()
	}
	if r.Replay != "" {
		var c caseT
		if err := r.ReplayCase(&c); err != nil {
			fmt.Println("replay:", err)
			return
		}
		guarded(r, c)
		return
	}
	n := r.N(72, 1500)
	if r.Phase == "shim" {
		n = r.N(96, 2400)
	}
	if v, err := strconv.Atoi(os.Getenv("VERIF_C01_N")); err == nil && v > 0 {
		n = v // the race phase runs fewer cases (2-13x slower under the detector)
	}
	for i := 0; i < n; i++ {
		if !r.Mine(i) {
			continue
		}
		c := genCase(r, r.Phase, i)
		r.Begin(c)
		t0 := time.Now()
		guarded(r, c)
		if d := time.Since(t0); d > 5*time.Second {
			fmt.Printf("slow case %d: %v cfg=%+v\n", c.Index, d, c.Cfg)
		}
		r.Max("max_case_ms", time.Since(t0).Milliseconds())
		if i < 2 {
			r.Sample(c)
		}
	}
	if r.Phase == "shim" && outb.ShimReached == 0 {
		r.Inconclusive("syscall shim was never reached (overlay did not route the package's syscalls): hook not reached")
	}
}
