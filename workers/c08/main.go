// C08 — HTTP parser robustness and bounds on arbitrary input.
//
// Every case feeds one byte string in one segmentation to a fresh
// nbhttp.Parser (real ServerProcessor / ClientProcessor behind a counting
// wrapper) under one (ReadLimit, MaxHTTPBodySize) setting and checks:
//
//	(a) no recovered panic is logged by nbio and none escapes;
//	(b) after the first error the harness calls CloseAndClean(err), as the
//	    engine does, and keeps feeding: every later Parse returns an error and
//	    no further processor event occurs;
//	(c) bytes retained in the carry-over buffer (tracking allocator installed
//	    as mempool.DefaultMemPool) never exceed ReadLimit + the longest segment
//	    fed; live body bytes (tracking allocator installed as BodyAllocator)
//	    and every delivered body never exceed MaxHTTPBodySize when it is > 0;
//	(d) framing-attack corpus: no message completes, and the classes with a
//	    properly terminated malformed field also end in an error;
//	(e) a Parse call that does not return is a violation (CPU-time watchdog,
//	    re-run alone with a 10x budget first).
package main

import (
	"encoding/base64"
	"fmt"
	"io"
	"net/http"
	"os"
	"reflect"
	"sort"
	"strings"
	"sync"
	"sync/atomic"
	"time"
	"unsafe"

	"github.com/lesismal/nbio/logging"
	"github.com/lesismal/nbio/mempool"
	"github.com/lesismal/nbio/nbhttp"

	"verif/internal/h"
	"verif/internal/httpgen"
)

type caseT struct {
	Family    string `json:"family"` // random | mutated | limits | corpus
	Index     int    `json:"index"`
	Client    bool   `json:"client"`
	ReadLimit int    `json:"read_limit"`
	MaxBody   int    `json:"max_http_body_size"`
	Stream    string `json:"stream_b64"`
	Literal   string `json:"stream_readable,omitempty"`
	Segs      []int  `json:"segment_lengths"` // nil = one piece; run-length pairs are not used: literal lengths
	SegDesc   string `json:"segmentation,omitempty"`
	Class     string `json:"class,omitempty"`  // corpus class
	Expect    string `json:"expect,omitempty"` // error | no-message | observe
	Note      string `json:"note,omitempty"`
}

// ---------------------------------------------------------------- tracking allocator

type tracker struct {
	mu    sync.Mutex
	inner mempool.Allocator
	live  map[*[]byte]struct{}
	ops   int64
}

func newTracker(inner mempool.Allocator) *tracker {
	return &tracker{inner: inner, live: map[*[]byte]struct{}{}}
}

func (t *tracker) Malloc(n int) *[]byte {
	p := t.inner.Malloc(n)
	t.mu.Lock()
	t.live[p] = struct{}{}
	t.ops++
	t.mu.Unlock()
	return p
}

func (t *tracker) Realloc(p *[]byte, n int) *[]byte {
	np := t.inner.Realloc(p, n)
	t.mu.Lock()
	delete(t.live, p)
	t.live[np] = struct{}{}
	t.ops++
	t.mu.Unlock()
	return np
}

func (t *tracker) Append(p *[]byte, more ...byte) *[]byte {
	np := t.inner.Append(p, more...)
	t.mu.Lock()
	if np != p {
		delete(t.live, p)
	}
	t.live[np] = struct{}{}
	t.ops++
	t.mu.Unlock()
	return np
}

func (t *tracker) AppendString(p *[]byte, more string) *[]byte {
	np := t.inner.AppendString(p, more)
	t.mu.Lock()
	if np != p {
		delete(t.live, p)
	}
	t.live[np] = struct{}{}
	t.ops++
	t.mu.Unlock()
	return np
}

func (t *tracker) Free(p *[]byte) {
	t.mu.Lock()
	delete(t.live, p)
	t.ops++
	t.mu.Unlock()
	t.inner.Free(p)
}

// liveBytes is the sum of the lengths of the live buffers.
func (t *tracker) liveBytes() int {
	t.mu.Lock()
	n := 0
	for p := range t.live {
		n += len(*p)
	}
	t.mu.Unlock()
	return n
}

func (t *tracker) reset() {
	t.mu.Lock()
	if len(t.live) > 0 {
		t.live = map[*[]byte]struct{}{}
	}
	t.mu.Unlock()
}

var (
	poolTr *tracker // mempool.DefaultMemPool: parser carry-over (and response head buffers, freed before Parse returns)
	bodyTr *tracker // Config.BodyAllocator: request/response bodies
)

// ---------------------------------------------------------------- counting processor

type state struct {
	r         *h.Run
	c         *caseT
	events    int
	completes int
	maxBody   int
	bodyPeak  int
	delivered int // largest delivered body
	viol      map[string]bool
}

var cur *state // the case being run (one case at a time per process)

func (s *state) violate(sig, detail string) {
	if s.viol[sig] {
		return
	}
	s.viol[sig] = true
	s.r.Violate(sig, detail, *s.c)
}

func (s *state) sampleBody(where string) {
	n := bodyTr.liveBytes()
	if n > s.bodyPeak {
		s.bodyPeak = n
	}
	if s.maxBody > 0 && n > s.maxBody {
		s.violate("c08:body-exceeds-maxhttpbodysize", fmt.Sprintf("%s: %d live body bytes held with MaxHTTPBodySize=%d", where, n, s.maxBody))
	}
}

type countProc struct {
	in nbhttp.Processor
	s  *state
}

func (c *countProc) OnMethod(p *nbhttp.Parser, m string) { c.s.events++; c.in.OnMethod(p, m) }
func (c *countProc) OnURL(p *nbhttp.Parser, u string) error {
	c.s.events++
	return c.in.OnURL(p, u)
}
func (c *countProc) OnProto(p *nbhttp.Parser, s string) error {
	c.s.events++
	return c.in.OnProto(p, s)
}
func (c *countProc) OnStatus(p *nbhttp.Parser, code int, s string) {
	c.s.events++
	c.in.OnStatus(p, code, s)
}
func (c *countProc) OnHeader(p *nbhttp.Parser, k, v string) { c.s.events++; c.in.OnHeader(p, k, v) }
func (c *countProc) OnContentLength(p *nbhttp.Parser, n int) {
	c.s.events++
	c.in.OnContentLength(p, n)
}
func (c *countProc) OnBody(p *nbhttp.Parser, d []byte) error {
	c.s.events++
	err := c.in.OnBody(p, d)
	c.s.sampleBody("after OnBody")
	return err
}
func (c *countProc) OnTrailerHeader(p *nbhttp.Parser, k, v string) {
	c.s.events++
	c.in.OnTrailerHeader(p, k, v)
}
func (c *countProc) OnComplete(p *nbhttp.Parser) {
	c.s.events++
	c.s.completes++
	c.in.OnComplete(p)
}
func (c *countProc) Close(p *nbhttp.Parser, err error) { c.in.Close(p, err) }
func (c *countProc) Clean(p *nbhttp.Parser)            { c.in.Clean(p) }

func deliveredBody(body io.Reader) {
	s := cur
	if s == nil {
		return
	}
	s.sampleBody("in handler")
	if body == nil {
		return
	}
	n, _ := io.Copy(io.Discard, body)
	if int(n) > s.delivered {
		s.delivered = int(n)
	}
	if s.maxBody > 0 && int(n) > s.maxBody {
		s.violate("c08:delivered-body-exceeds-maxhttpbodysize", fmt.Sprintf("a body of %d bytes was delivered with MaxHTTPBodySize=%d", n, s.maxBody))
	}
}

func serverHandler(w http.ResponseWriter, req *http.Request) { deliveredBody(req.Body) }

func clientHandler(res *http.Response, err error) {
	if res != nil {
		deliveredBody(res.Body)
	}
}

// ---------------------------------------------------------------- engines

var engines = map[[2]int]*nbhttp.Engine{}

func engineFor(readLimit, maxBody int) *nbhttp.Engine {
	k := [2]int{readLimit, maxBody}
	if e := engines[k]; e != nil {
		return e
	}
	e := nbhttp.NewEngine(nbhttp.Config{Handler: http.HandlerFunc(serverHandler), ReadLimit: readLimit, MaxHTTPBodySize: maxBody, BodyAllocator: bodyTr})
	engines[k] = e
	return e
}

// cachedLen reads len(*parser.bytesCached) (unexported) — used only to tell a
// real carry-over excess from other buffers of the default pool being live.
func cachedLen(p *nbhttp.Parser) int {
	f := reflect.ValueOf(p).Elem().FieldByName("bytesCached")
	if !f.IsValid() || f.Kind() != reflect.Ptr || f.IsNil() {
		return -1
	}
	return len(*(*[]byte)(unsafe.Pointer(f.Pointer())))
}

var capLog = &h.CapLogger{}

// panicSite names the innermost nbio function on the logged stack that is not
// Parse's own recover block.
func panicSite(line string) string {
	const pfx = "github.com/lesismal/nbio/"
	for _, l := range strings.Split(line, "\n") {
		if !strings.HasPrefix(l, pfx) {
			continue
		}
		f := l[len(pfx):]
		if i := strings.LastIndex(f, "("); i > 0 {
			f = f[:i]
		}
		if strings.HasSuffix(f, ".Parse.func1") {
			continue
		}
		return f
	}
	return "unknown"
}

// errPrefixes are the data-free heads of nbio's formatted parse errors; the
// sentinel errors (no data inside) are used whole.
var errPrefixes = []string{"chunk size parse error", "chunk size greater than max int", "chunk size zero", "bad Content-Length",
	"unsupported transfer encoding", "too many transfer encodings", "invalid trailer", "bad trailer key", "malformed HTTP version",
	"length less than zero", "length greater than maxint", "parse", "strconv"}

// normErr maps an error text to a short class without input data in it.
func normErr(s string) string {
	for _, p := range errPrefixes {
		if strings.HasPrefix(s, p) {
			return strings.ReplaceAll(p, " ", "-")
		}
	}
	if strings.ContainsAny(s, "\"'0123456789%") || len(s) > 48 {
		// unknown formatted error: keep the first three words
		w := strings.Fields(s)
		if len(w) > 3 {
			w = w[:3]
		}
		s = strings.Join(w, " ")
		if i := strings.IndexAny(s, "\"'0123456789%"); i >= 0 {
			s = s[:i]
		}
	}
	return strings.ReplaceAll(strings.TrimSpace(s), " ", "-")
}

func segments(stream []byte, lens []int) [][]byte {
	if len(lens) == 0 {
		return [][]byte{stream}
	}
	var out [][]byte
	off := 0
	for _, n := range lens {
		if off >= len(stream) {
			break
		}
		if n <= 0 {
			n = 1
		}
		if off+n > len(stream) {
			n = len(stream) - off
		}
		out = append(out, stream[off:off+n])
		off += n
	}
	if off < len(stream) {
		out = append(out, stream[off:])
	}
	return out
}

type result struct {
	firstErr   string
	errAtByte  int
	completes  int
	events     int
	fedBytes   int
	carryPeak  int
	bodyPeak   int
	panicked   bool
	nontrivial bool
}

// runCase runs one case with all generic oracles. It is also what the
// watchdog re-runs alone.
func runCase(r *h.Run, c caseT, stream []byte) (res result) {
	st := &state{r: r, c: &c, maxBody: c.MaxBody, viol: map[string]bool{}}
	cur = st
	poolTr.reset()
	bodyTr.reset()
	capLog.Take()
	eng := engineFor(c.ReadLimit, c.MaxBody)
	var inner nbhttp.Processor
	if c.Client {
		inner = nbhttp.NewClientProcessor(&nbhttp.ClientConn{}, clientHandler)
	} else {
		inner = nbhttp.NewServerProcessor()
	}
	p := nbhttp.NewParser(&httpgen.NopConn{}, eng, &countProc{in: inner, s: st}, c.Client, nil)

	defer func() {
		if e := recover(); e != nil {
			res.panicked = true
			st.violate("c08:panic-escaped", fmt.Sprintf("panic escaped the parser API: %v\n%s", e, h.Stacks()))
		}
		cur = nil
	}()

	longest := 0
	failed := false
	eventsAtErr := 0
	for _, seg := range segments(stream, c.Segs) {
		if len(seg) > longest {
			longest = len(seg)
		}
		buf := append([]byte(nil), seg...)
		err := p.Parse(buf)
		res.fedBytes += len(seg)
		if failed {
			if err == nil {
				st.violate("c08:parse-accepts-input-after-error", fmt.Sprintf("after Parse had returned %q and CloseAndClean had been called, Parse of the next %d bytes (stream offset %d) returned nil", res.firstErr, len(seg), res.fedBytes-len(seg)))
			}
			if st.events != eventsAtErr {
				st.violate("c08:events-after-error", fmt.Sprintf("%d processor events after Parse had returned %q (stream offset %d)", st.events-eventsAtErr, res.firstErr, res.errAtByte))
				eventsAtErr = st.events
			}
			continue
		}
		// (c) bounds, sampled whenever the parser is at rest
		carry := poolTr.liveBytes()
		if carry > res.carryPeak {
			res.carryPeak = carry
		}
		if c.ReadLimit > 0 && carry > c.ReadLimit+longest {
			if cl := cachedLen(p); cl < 0 || cl > c.ReadLimit+longest {
				st.violate("c08:carryover-exceeds-readlimit", fmt.Sprintf("%d bytes retained in the default pool (carry-over buffer %d) after feeding %d bytes; ReadLimit=%d, longest segment fed=%d", carry, cl, res.fedBytes, c.ReadLimit, longest))
			} else {
				r.Count("other_default_pool_buffers_live", 1)
			}
		}
		st.sampleBody("after Parse")
		if err != nil {
			failed = true
			res.firstErr = err.Error()
			res.errAtByte = res.fedBytes
			eventsAtErr = st.events
			// what the engine does on a parse error: close the connection,
			// which cleans the parser
			p.CloseAndClean(err)
			eventsAtErr = st.events
		}
	}
	if !failed {
		p.CloseAndClean(io.EOF)
	}
	if n := poolTr.liveBytes() + bodyTr.liveBytes(); n > 0 {
		r.Count("cases_with_buffers_live_after_close", 1)
	}
	// (a) recovered panics
	if lines := h.PanicLines(capLog.Take()); len(lines) > 0 {
		res.panicked = true
		first := lines[0]
		if i := strings.Index(first, "\n"); i > 0 {
			first = first[:i]
		}
		st.violate("c08:panic-recovered:"+panicSite(lines[0]), fmt.Sprintf("nbio logged a recovered panic: %s\n%s", first, firstN(lines[0], 1800)))
	}
	res.completes = st.completes
	res.events = st.events
	res.bodyPeak = st.bodyPeak
	res.nontrivial = res.firstErr != "" || st.completes > 0
	return res
}

func firstN(s string, n int) string {
	if len(s) > n {
		return s[:n]
	}
	return s
}

// ---------------------------------------------------------------- corpus (d)

type entry struct {
	Class  string
	Client bool
	Data   string
	Expect string // error | no-message | observe
	Note   string
}

const (
	reqHead   = "POST /x HTTP/1.1\r\nHost: a\r\n"
	resHead   = "HTTP/1.1 200 OK\r\nServer: a\r\n"
	reqFollow = "GET /next HTTP/1.1\r\nHost: a\r\n\r\n"
	resFollow = "HTTP/1.1 200 OK\r\nContent-Length: 2\r\n\r\nok"
	chunks    = "5\r\nhello\r\n0\r\n\r\n"
)

func both(class, expect, note string, build func(head, follow string) string) []entry {
	return []entry{
		{Class: class, Client: false, Data: build(reqHead, reqFollow), Expect: expect, Note: note},
		{Class: class, Client: true, Data: build(resHead, resFollow), Expect: expect, Note: note},
	}
}

// fixedCorpus is the hand-written part of the framing-attack corpus.
func fixedCorpus() []entry {
	var out []entry
	cl := func(class, expect, v string) {
		out = append(out, both(class, expect, "Content-Length: "+v, func(hd, fo string) string {
			return hd + "Content-Length: " + v + "\r\n\r\nhello" + fo
		})...)
	}
	for _, v := range []string{"abc", "5a", "a5", "0x5", "1e3", "five", "5 a", "5\tb"} {
		cl("non-numeric-content-length", "error", v)
	}
	for _, v := range []string{"-5", "-1", "-9223372036854775808", "5-", "5-1", "--5", "- 5"} {
		cl("negative-content-length", "error", v)
	}
	// borderline spellings: observed, never asserted
	for _, v := range []string{"+5", "", " ", "-0", "05", "5,5", "5, 5", "5 5", "5.0", "5;q=1", "9223372036854775807", "9223372036854775808", "18446744073709551616"} {
		cl("borderline-content-length", "observe", v)
	}
	out = append(out, both("borderline-content-length", "observe", "two different Content-Length fields", func(hd, fo string) string {
		return hd + "Content-Length: 5\r\nContent-Length: 6\r\n\r\nhello" + fo
	})...)

	te := func(class, expect, v string) {
		out = append(out, both(class, expect, "Transfer-Encoding: "+v, func(hd, fo string) string {
			return hd + "Transfer-Encoding: " + v + "\r\n\r\n" + chunks + fo
		})...)
		out = append(out, both(class, expect, "Content-Length: 5 + Transfer-Encoding: "+v, func(hd, fo string) string {
			return hd + "Content-Length: 5\r\nTransfer-Encoding: " + v + "\r\n\r\nhello" + fo
		})...)
	}
	// a coding list whose other members the parser does not implement is unsupported as well:
	// accepting it as plain chunked hands the still-encoded bytes to the handler (a guess)
	for _, v := range []string{"gzip", "deflate", "compress", "chunked, gzip", "xchunked", "chunkedx", "chunk", "cow", "chunked;q=1", "gzip, chunked", "deflate, gzip, chunked", "x, Chunked ", "gzip,chunked"} {
		te("unsupported-transfer-encoding", "error", v)
	}
	te("repeated-transfer-encoding", "error", "chunked, chunked")
	for _, v := range []string{"identity", "identity, chunked", "", "\"chunked\""} {
		te("borderline-transfer-encoding", "observe", v)
	}
	for _, pair := range [][2]string{{"chunked", "chunked"}, {"gzip", "chunked"}, {"chunked", "gzip"}, {"chunked", "identity"}, {"identity", "chunked"}} {
		pair := pair
		out = append(out, both("repeated-transfer-encoding", "error", fmt.Sprintf("Transfer-Encoding: %s twice as %q", pair[0], pair), func(hd, fo string) string {
			return hd + "Transfer-Encoding: " + pair[0] + "\r\nTransfer-Encoding: " + pair[1] + "\r\n\r\n" + chunks + fo
		})...)
	}

	cs := func(class, expect, v string) {
		for pos, body := range []string{
			v + "\r\nhello\r\n0\r\n\r\n",
			"5\r\nhello\r\n" + v + "\r\nworld\r\n0\r\n\r\n",
			"5\r\nhello\r\n" + v + "\r\n\r\n",
		} {
			body := body
			out = append(out, both(class, expect, fmt.Sprintf("chunk-size %q as %s", v, []string{"first chunk", "second chunk", "last chunk"}[pos]), func(hd, fo string) string {
				return hd + "Transfer-Encoding: chunked\r\n\r\n" + body + fo
			})...)
		}
	}
	for _, v := range []string{"g", "xyz", "-5", "-0", ";a=b", "=5", "\"5\"", "\x00", "5g", "5xyz", "0x5", "5=a", "a-b"} {
		cs("non-hex-chunk-size", "error", v)
	}
	for _, v := range []string{"FFFFFFFFFFFFFFFFF", "10000000000000000", "8000000000000000", "FFFFFFFFFFFFFFFF", "ffffffffffffffffffffffff", "123456789abcdef01234"} {
		cs("overflowing-chunk-size", "error", v)
	}
	for _, v := range []string{"00000000000000005", "4000000000000000", "7fffffffffffffff", " 5", "", "5 5", "+5", "5\t"} {
		cs("borderline-chunk-size", "observe", v)
	}

	// shapes in which a bare LF sits where a CRLF is required and the bytes
	// after it are arranged so that a parser skipping over the LF still sees a
	// complete message
	out = append(out, both("missing-cr:chunk-size-line", "no-message", "bare LF ends the chunk-size line; 'AAAAA' is the chunk for an LF-terminating reader, 'BBBBB' for one that skips to the next CR", func(hd, fo string) string {
		return hd + "Transfer-Encoding: chunked\r\n\r\n5\nAAAAA\r\nBBBBB\r\n0\r\n\r\n" + fo
	})...)
	out = append(out, both("missing-cr:last-chunk-line", "no-message", "bare LF ends the last-chunk line", func(hd, fo string) string {
		return hd + "Transfer-Encoding: chunked\r\n\r\n5\r\nhello\r\n0\n\r\n\r\n" + fo
	})...)
	out = append(out, both("missing-cr:trailer-line", "no-message", "bare LF ends the first trailer line, a second field follows", func(hd, fo string) string {
		return hd + "Transfer-Encoding: chunked\r\nTrailer: A\r\n\r\n5\r\nhello\r\n0\r\nA: 1\nB: 2\r\n\r\n" + fo
	})...)
	out = append(out, both("missing-cr:header-line", "no-message", "bare LF ends a header line", func(hd, fo string) string {
		return hd + "X-A: 1\nContent-Length: 5\r\n\r\nhello" + fo
	})...)
	out = append(out, both("missing-lf:header-line", "no-message", "bare CR ends a header line", func(hd, fo string) string {
		return hd + "X-A: 1\rContent-Length: 5\r\n\r\nhello" + fo
	})...)
	out = append(out, entry{Class: "missing-cr:status-line", Client: true, Expect: "no-message", Note: "bare LF ends the status line",
		Data: "HTTP/1.1 200 OK\nContent-Length: 5\r\n\r\nhello" + resFollow})
	out = append(out, entry{Class: "missing-cr:request-line", Client: false, Expect: "no-message", Note: "bare LF ends the request line",
		Data: "POST /x HTTP/1.1\nHost: a\r\nContent-Length: 5\r\n\r\nhello" + reqFollow})
	return out
}

// missingEntry damages one framing CRLF of a generated message.
func missingEntry(r *h.Run, j int) entry {
	rng := r.Rand("c08-missing", j)
	client := j%2 == 1
	opts := httpgen.Opts{Response: client, Strict: true, MinMsgs: 1, MaxMsgs: 1, MaxBody: 40, AlphaBody: true}
	stream, msgs := httpgen.Stream(rng, opts)
	// the undamaged message must be one nbio parses as intended, otherwise a
	// completion could not be blamed on the removed byte: spellings that C07
	// reports as misparsed are not used as a base
	for msgs[0].Has("empty-reason") || msgs[0].Has("ows-htab-on-interpreted-field") {
		stream, msgs = httpgen.Stream(rng, opts)
	}
	m := msgs[0]
	pos := m.CRLF[rng.Intn(len(m.CRLF))]
	// prefer the rarer positions now and then
	if rng.Intn(3) == 0 {
		var rare []httpgen.Pos
		for _, p := range m.CRLF {
			if p.Kind != "header-line" {
				rare = append(rare, p)
			}
		}
		pos = rare[rng.Intn(len(rare))]
	}
	var data []byte
	class := "missing-cr:" + pos.Kind
	if rng.Intn(2) == 0 {
		data = append(append([]byte(nil), stream[:pos.Off]...), stream[pos.Off+1:]...)
	} else {
		class = "missing-lf:" + pos.Kind
		data = append(append([]byte(nil), stream[:pos.Off+1]...), stream[pos.Off+2:]...)
	}
	follow := reqFollow
	if client {
		follow = resFollow
	}
	data = append(data, follow...)
	return entry{Class: class, Client: client, Data: string(data), Expect: "no-message", Note: fmt.Sprintf("generated message, %s at offset %d removed", map[bool]string{true: "CR", false: "LF"}[strings.HasPrefix(class, "missing-cr")], pos.Off)}
}

func checkCorpus(r *h.Run, c caseT, res result) {
	switch c.Expect {
	case "observe":
		out := "rejected"
		if res.completes > 0 {
			out = "accepted"
		} else if res.firstErr == "" {
			out = "waiting"
		}
		r.Seen("borderline_outcome", c.Class+" ["+c.Note+"] "+out)
		r.Count("borderline_"+out, 1)
		return
	case "error", "no-message":
		if res.completes > 0 {
			r.Violate("c08:framing-accepted:"+c.Class, fmt.Sprintf("%s (%s): %d message(s) completed, error=%q\ninput: %s", c.Class, c.Note, res.completes, res.firstErr, c.Literal), c)
			return
		}
		if c.Expect == "error" && res.firstErr == "" {
			r.Violate("c08:framing-not-rejected:"+c.Class, fmt.Sprintf("%s (%s): the whole input including the end of the header section was fed and no error was returned\ninput: %s", c.Class, c.Note, c.Literal), c)
			return
		}
		if res.firstErr != "" {
			r.Count("corpus_rejected_with_error", 1)
		} else {
			r.Count("corpus_no_message_parser_waiting", 1)
		}
		r.Seen("corpus_class_checked", c.Class)
	}
}

// ---------------------------------------------------------------- case generation

var readLimits = []int{64, 1024, 64 * 1024}
var maxBodies = []int{0, 1, 100, 64 * 1024}

func randomBytes(rng interface{ Intn(int) int }, n int, alphabet string) []byte {
	b := make([]byte, n)
	for i := range b {
		if alphabet == "" {
			b[i] = byte(rng.Intn(256))
		} else {
			b[i] = alphabet[rng.Intn(len(alphabet))]
		}
	}
	return b
}

const httpish = "GETPOSTHEAD HTTP/1.1 200 OK\r\n\r\n:;,-=Content-LengthTransfer-Encodingchunked0123456789abcdefx \t"

func segmentation(rng interface{ Intn(int) int }, n int) ([]int, string) {
	switch rng.Intn(6) {
	case 0:
		return nil, "one-piece"
	case 1:
		if n <= 4096 {
			l := make([]int, n)
			for i := range l {
				l[i] = 1
			}
			return l, "byte-at-a-time"
		}
		fallthrough
	case 2:
		k := 1 + rng.Intn(16)
		var l []int
		for s := 0; s < n; s += k {
			l = append(l, k)
		}
		return l, fmt.Sprintf("fixed-%d", k)
	case 3:
		var l []int
		for s := 0; s < n; {
			k := 1 + rng.Intn(24)
			l = append(l, k)
			s += k
		}
		return l, "random-small"
	default:
		var l []int
		for s := 0; s < n; {
			k := 1 + rng.Intn(1+n/2)
			l = append(l, k)
			s += k
		}
		return l, "random-large"
	}
}

func genCase(r *h.Run, family string, i int) (caseT, []byte) {
	rng := r.Rand("c08-"+family, i)
	c := caseT{Family: family, Index: i, Client: rng.Intn(2) == 1,
		ReadLimit: readLimits[rng.Intn(len(readLimits))], MaxBody: maxBodies[rng.Intn(len(maxBodies))]}
	var stream []byte
	switch family {
	case "random":
		switch rng.Intn(4) {
		case 0:
			stream = randomBytes(rng, 1+rng.Intn(300), "")
		case 1:
			stream = randomBytes(rng, 1+rng.Intn(400), httpish)
		default:
			// valid prefix, random tail
			s, _ := httpgen.Stream(rng, httpgen.Opts{Response: c.Client, MaxMsgs: 2, MaxBody: 60})
			s = s[:rng.Intn(len(s)+1)]
			alpha := ""
			if rng.Intn(2) == 0 {
				alpha = httpish
			}
			stream = append(s, randomBytes(rng, rng.Intn(120), alpha)...)
		}
	case "mutated":
		s, _ := httpgen.Stream(rng, httpgen.Opts{Response: c.Client, MaxMsgs: 3, MaxBody: 150})
		n := rng.Intn(5) // 0 = the valid stream itself under small limits
		for k := 0; k < n; k++ {
			s, _ = httpgen.Mutate(rng, s)
		}
		stream = s
	case "limits":
		stream = limitsStream(rng, &c)
	}
	c.Segs, c.SegDesc = segmentation(rng, len(stream))
	if family == "limits" && rng.Intn(3) > 0 {
		// small segments make the carry-over buffer grow step by step
		k := 1 + rng.Intn(48)
		c.Segs = nil
		for s := 0; s < len(stream); s += k {
			c.Segs = append(c.Segs, k)
		}
		c.SegDesc = fmt.Sprintf("fixed-%d", k)
	}
	return c, stream
}

// limitsStream builds a well-formed message one of whose parts has a size
// around ReadLimit or MaxHTTPBodySize.
func limitsStream(rng interface{ Intn(int) int }, c *caseT) []byte {
	around := func(x int) int {
		if x <= 0 {
			x = 50
		}
		switch rng.Intn(6) {
		case 0:
			return x - 1
		case 1:
			return x
		case 2:
			return x + 1
		case 3:
			return 2*x + 3
		case 4:
			return x + 1 + rng.Intn(200)
		default:
			return 1 + rng.Intn(x+1)
		}
	}
	pickLimit := func() int {
		if c.MaxBody > 0 && rng.Intn(2) == 0 {
			return c.MaxBody
		}
		return c.ReadLimit
	}
	fill := func(n int) string {
		if n < 0 {
			n = 0
		}
		if n > 140000 {
			n = 140000
		}
		return string(randomBytes(rng, n, "abcdefghijklmnopqrstuvwxyz"))
	}
	head := reqHead
	if c.Client {
		head = resHead
	}
	follow := reqFollow
	if c.Client {
		follow = resFollow
	}
	var s string
	kind := rng.Intn(8)
	switch kind {
	case 0: // Content-Length body
		n := around(pickLimit())
		s = head + fmt.Sprintf("Content-Length: %d\r\n\r\n", n) + fill(n) + follow
		c.Note = fmt.Sprintf("Content-Length body of %d bytes", n)
	case 1: // chunked, one chunk
		n := around(pickLimit())
		s = head + "Transfer-Encoding: chunked\r\n\r\n" + fmt.Sprintf("%x\r\n", n) + fill(n) + "\r\n0\r\n\r\n" + follow
		c.Note = fmt.Sprintf("one chunk of %d bytes", n)
	case 2: // chunked, several chunks summing to around the limit
		total := around(pickLimit())
		s = head + "Transfer-Encoding: chunked\r\n\r\n"
		left := total
		for left > 0 {
			k := 1 + rng.Intn(left)
			if rng.Intn(2) == 0 && k > 40 {
				k = 1 + rng.Intn(40)
			}
			s += fmt.Sprintf("%x\r\n", k) + fill(k) + "\r\n"
			left -= k
			if len(s) > 200000 {
				break
			}
		}
		s += "0\r\n\r\n" + follow
		c.Note = fmt.Sprintf("chunks summing to %d bytes", total)
	case 3: // long header value
		n := around(c.ReadLimit)
		s = head + "X-Long: " + fill(n) + "\r\n\r\n" + follow
		c.Note = fmt.Sprintf("header value of %d bytes", n)
	case 4: // long target / long header name
		n := around(c.ReadLimit)
		if c.Client {
			s = "HTTP/1.1 200 OK\r\n" + fill(n) + ": v\r\n\r\n" + follow
		} else {
			s = "GET /" + fill(n) + " HTTP/1.1\r\nHost: a\r\n\r\n" + follow
		}
		c.Note = fmt.Sprintf("token of %d bytes", n)
	case 5: // long chunk extension / trailer value
		n := around(c.ReadLimit)
		if rng.Intn(2) == 0 {
			s = head + "Transfer-Encoding: chunked\r\n\r\n5;" + fill(n) + "\r\nhello\r\n0\r\n\r\n" + follow
			c.Note = fmt.Sprintf("chunk extension of %d bytes", n)
		} else {
			s = head + "Transfer-Encoding: chunked\r\nTrailer: T\r\n\r\n5\r\nhello\r\n0\r\nT: " + fill(n) + "\r\n\r\n" + follow
			c.Note = fmt.Sprintf("trailer value of %d bytes", n)
		}
	case 6: // a huge declared length, never satisfied
		n := 3*c.ReadLimit + rng.Intn(500)
		if n > 140000 {
			n = 140000
		}
		s = head + "Content-Length: 1000000000000000\r\n\r\n" + fill(n)
		c.Note = fmt.Sprintf("Content-Length 1e15 followed by %d bytes", n)
	default: // a huge chunk size, never satisfied
		n := 3*c.ReadLimit + rng.Intn(500)
		if n > 140000 {
			n = 140000
		}
		s = head + "Transfer-Encoding: chunked\r\n\r\n3fffffffffffffff\r\n" + fill(n)
		c.Note = fmt.Sprintf("chunk size 0x3fffffffffffffff followed by %d bytes", n)
	}
	return []byte(s)
}

// ---------------------------------------------------------------- hang watchdog (e)

type slot struct {
	c      caseT
	stream []byte
}

var (
	caseSeq   int64 // number of the case being run by the loop goroutine (0 = none)
	caseStart int64 // process CPU time (ns) when it started
	caseBytes int64
	curSlot   atomic.Value // *slot
)

const cpuFloor = 300 * time.Millisecond

// perByte is the calibrated median CPU cost per input byte (ns), measured
// over batches of cases.
var perByte int64 = 50

func budget(nbytes int) time.Duration {
	if nbytes < 64 {
		nbytes = 64
	}
	b := time.Duration(1000 * atomic.LoadInt64(&perByte) * int64(nbytes))
	if b < cpuFloor {
		b = cpuFloor
	}
	return b
}

// loopStatus extracts the scheduler status of the goroutine running caseLoop
// from a full goroutine dump.
func loopStatus(dump string) (status, stack string) {
	for _, g := range strings.Split(dump, "\n\n") {
		if strings.Contains(g, "main.caseLoop") {
			hd := g
			if i := strings.Index(hd, "\n"); i > 0 {
				hd = hd[:i]
			}
			if a, b := strings.Index(hd, "["), strings.Index(hd, "]"); a > 0 && b > a {
				status = hd[a+1 : b]
				if i := strings.Index(status, ","); i > 0 {
					status = status[:i]
				}
			}
			return status, g
		}
	}
	return "", ""
}

// watch supervises the loop goroutine. It returns when the loop is done, or
// after recording a hang.
func watch(r *h.Run, done chan struct{}) {
	var lastSeq int64
	var idleSamples int
	var lastCPU time.Duration
	var lastStack string
	tick := time.NewTicker(50 * time.Millisecond)
	defer tick.Stop()
	for {
		select {
		case <-done:
			return
		case <-tick.C:
		}
		seq := atomic.LoadInt64(&caseSeq)
		if seq == 0 {
			continue
		}
		now := h.CPUTime()
		if seq != lastSeq {
			lastSeq, idleSamples, lastCPU, lastStack = seq, 0, now, ""
			continue
		}
		used := now - time.Duration(atomic.LoadInt64(&caseStart))
		sl, _ := curSlot.Load().(*slot)
		if sl == nil {
			continue
		}
		// blocked (no CPU, goroutine parked in the same place): stable stuck state
		if now-lastCPU < 2*time.Millisecond {
			idleSamples++
		} else {
			idleSamples = 0
		}
		lastCPU = now
		if idleSamples > 0 && idleSamples%40 == 0 {
			status, stack := loopStatus(h.Stacks())
			parked := status != "" && status != "running" && status != "runnable" && !strings.HasPrefix(status, "syscall")
			if parked && stack == lastStack {
				r.Violate("c08:parse-blocked", fmt.Sprintf("the parser call has not returned, the process is idle and the goroutine is parked (%s) at the same place in two dumps 2 s apart\n%s", status, firstN(stack, 2500)), sl.c)
				r.Finish()
				os.Exit(0)
			}
			if parked {
				lastStack = stack
			}
		}
		// spinning: CPU budget exceeded while still inside the case
		if used > 2*time.Second && used > budget(len(sl.stream)) {
			rerunAlone(r, sl, used, false)
			r.Finish()
			os.Exit(0)
		}
	}
}

// rerunAlone re-runs a suspicious case in its own goroutine with ten times
// the budget. returned says whether the first run came back by itself.
func rerunAlone(r *h.Run, sl *slot, used time.Duration, returned bool) {
	b := 10 * budget(len(sl.stream))
	if b < 10*used && !returned {
		b = 10 * used
	}
	fin := make(chan result, 1)
	start := h.CPUTime()
	go func() {
		c := sl.c
		c.Note += " (re-run alone)"
		fin <- runCaseQuiet(r, c, sl.stream)
	}()
	mult := time.Duration(1)
	if !returned {
		mult = 2 // the first run is still burning CPU next to the re-run
	}
	for {
		select {
		case <-fin:
			r.Inconclusive(fmt.Sprintf("case %s/%d (%d bytes) used %v CPU (budget %v = 1000 x median per-byte cost, floor %v); re-run alone it returned after %v CPU", sl.c.Family, sl.c.Index, len(sl.stream), used, budget(len(sl.stream)), cpuFloor, h.CPUTime()-start))
			return
		case <-time.After(100 * time.Millisecond):
		}
		if h.CPUTime()-start > mult*b {
			status, stack := loopStatus(h.Stacks())
			r.Violate("c08:hang", fmt.Sprintf("Parse did not return: first run used %v CPU, the re-run alone used more than %v CPU (10x budget) without returning; loop goroutine %s\n%s", used, b, status, firstN(stack, 2500)), sl.c)
			return
		}
	}
}

// runCaseQuiet is runCase for the re-run: the oracles of the first run have
// already spoken, only the return matters.
func runCaseQuiet(r *h.Run, c caseT, stream []byte) result {
	eng := engineFor(c.ReadLimit, c.MaxBody)
	var inner nbhttp.Processor
	if c.Client {
		inner = nbhttp.NewClientProcessor(&nbhttp.ClientConn{}, func(*http.Response, error) {})
	} else {
		inner = nbhttp.NewServerProcessor()
	}
	p := nbhttp.NewParser(&httpgen.NopConn{}, eng, inner, c.Client, nil)
	var res result
	for _, seg := range segments(stream, c.Segs) {
		if err := p.Parse(append([]byte(nil), seg...)); err != nil {
			res.firstErr = err.Error()
			p.CloseAndClean(err)
		}
	}
	return res
}

// ---------------------------------------------------------------- main loop

type job struct {
	c      caseT
	stream []byte
	corpus bool
}

func caseLoop(r *h.Run, jobs func(yield func(job))) {
	var batchCPU time.Duration
	var batchBytes int64
	var batchN int
	var rates []int64
	seq := int64(0)
	jobs(func(j job) {
		seq++
		c := j.c
		c.Stream = base64.StdEncoding.EncodeToString(j.stream)
		c.Literal = h.Hex(j.stream, 500)
		if seq%200 == 1 {
			r.Begin(c)
		}
		sl := &slot{c: c, stream: j.stream}
		curSlot.Store(sl)
		t0 := h.CPUTime()
		atomic.StoreInt64(&caseStart, int64(t0))
		atomic.StoreInt64(&caseSeq, seq)
		res := runCase(r, c, j.stream)
		atomic.StoreInt64(&caseSeq, 0)
		used := h.CPUTime() - t0
		r.Eval(1)

		// (e) slow but returning
		if used > budget(len(j.stream)) {
			atomic.StoreInt64(&caseSeq, 0)
			rerunAlone(r, sl, used, true)
		}
		batchCPU += used
		batchBytes += int64(len(j.stream)) + 64
		batchN++
		if batchN == 100 {
			rates = append(rates, int64(batchCPU)/batchBytes)
			if len(rates) <= 41 {
				s := append([]int64(nil), rates...)
				sort.Slice(s, func(a, b int) bool { return s[a] < s[b] })
				m := s[len(s)/2]
				if m < 5 {
					m = 5
				}
				atomic.StoreInt64(&perByte, m)
			}
			batchCPU, batchBytes, batchN = 0, 0, 0
		}

		if res.nontrivial {
			r.Nontrivial(fmt.Sprintf("%s/%d/%s", c.Family, c.Index, c.SegDesc))
		}
		if res.firstErr != "" {
			r.Seen("error_text", normErr(res.firstErr))
			r.Count("cases_ending_in_error", 1)
			if strings.Contains(res.firstErr, "too long") {
				r.Count("cases_hitting_a_limit(ErrTooLong)", 1)
			}
		}
		r.Count("messages_completed", int64(res.completes))
		r.Count("bytes_fed", int64(res.fedBytes))
		r.Max("max_carryover_bytes_seen", int64(res.carryPeak))
		r.Max("max_live_body_bytes_seen", int64(res.bodyPeak))
		r.Seen("config_cell", fmt.Sprintf("ReadLimit=%d MaxHTTPBodySize=%d client=%v", c.ReadLimit, c.MaxBody, c.Client))
		r.Count("family_"+c.Family, 1)
		if j.corpus {
			checkCorpus(r, c, res)
		}
		if seq <= 3 {
			r.Sample(c)
		}
	})
	r.Max("max_calibrated_ns_per_byte", atomic.LoadInt64(&perByte))
}

func main() {
	r := h.Start("C08")
	defer r.Finish()
	logging.SetLogger(capLog)
	// both allocators wrap real mempool allocators, so behaviour is unchanged;
	// DefaultMemPool is a package variable and must be replaced before any
	// engine or parser exists
	poolTr = newTracker(mempool.DefaultMemPool)
	mempool.DefaultMemPool = poolTr
	bodyTr = newTracker(mempool.New(1024, 1024*1024*1024))

	if r.Phase == "e2e" {
		if r.Replay != "" {
			var c e2eCase
			if err := r.ReplayCase(&c); err != nil {
				fmt.Println("replay:", err)
				return
			}
			runE2E(r, c)
			return
		}
		n := r.N(54, 324)
		for i := 0; i < n; i++ {
			if !r.Mine(i) {
				continue
			}
			c := genE2E(r, i)
			r.Begin(c)
			runE2E(r, c)
		}
		return
	}
	done := make(chan struct{})
	if r.Replay != "" {
		var c caseT
		if err := r.ReplayCase(&c); err != nil {
			fmt.Println("replay:", err)
			return
		}
		stream, err := base64.StdEncoding.DecodeString(c.Stream)
		if err != nil {
			fmt.Println("replay:", err)
			return
		}
		go func() {
			caseLoop(r, func(yield func(job)) { yield(job{c: c, stream: stream, corpus: c.Family == "corpus"}) })
			close(done)
		}()
		watch(r, done)
		return
	}

	nRandom := r.N(20000, 1600000)
	nMutated := r.N(45000, 4000000)
	nLimits := r.N(12000, 800000)
	nMissing := r.N(4000, 240000)
	fixed := fixedCorpus()
	corpusSegs := []string{"one-piece", "byte-at-a-time", "random"}

	go func() {
		defer close(done)
		caseLoop(r, func(yield func(job)) {
			idx := 0
			// corpus first: fixed entries and damaged generated messages, each in three segmentations
			emit := func(e entry, ci int) {
				for si, sd := range corpusSegs {
					idx++
					if !r.Mine(idx) {
						continue
					}
					c := caseT{Family: "corpus", Index: ci*len(corpusSegs) + si, Client: e.Client, ReadLimit: 64 * 1024, MaxBody: 0,
						Class: e.Class, Expect: e.Expect, Note: e.Note, SegDesc: sd}
					stream := []byte(e.Data)
					switch sd {
					case "byte-at-a-time":
						c.Segs = make([]int, len(stream))
						for i := range c.Segs {
							c.Segs[i] = 1
						}
					case "random":
						rng := r.Rand("c08-corpus-seg", ci)
						for s := 0; s < len(stream); {
							k := 1 + rng.Intn(12)
							c.Segs = append(c.Segs, k)
							s += k
						}
					}
					yield(job{c: c, stream: stream, corpus: true})
				}
			}
			for i, e := range fixed {
				emit(e, i)
			}
			for j := 0; j < nMissing; j++ {
				emit(missingEntry(r, j), len(fixed)+j)
			}
			for _, fam := range []struct {
				name string
				n    int
			}{{"limits", nLimits}, {"random", nRandom}, {"mutated", nMutated}} {
				for i := 0; i < fam.n; i++ {
					idx++
					if !r.Mine(idx) {
						continue
					}
					c, stream := genCase(r, fam.name, i)
					yield(job{c: c, stream: stream})
				}
			}
		})
	}()
	watch(r, done)
}
