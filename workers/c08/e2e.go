package main

// Phase "e2e": "reports nothing further once it has returned an error" through
// the engine's own read loops. The in-memory phases call CloseAndClean after
// the first Parse error, as the poller's data handler does; whether every read
// loop of a started engine (non-blocking, blocking, mixed; plain and TLS;
// every epoll mode) stops feeding the parser and ends the connection is only
// visible end to end.
//
// One case = one engine cell and, per scenario, one raw connection that sends
//
//	GET /before (valid; must be answered: the path works)
//	a request with malformed framing metadata (a fixed list, each class
//	  decided as "rejected" by the in-memory phases)
//	GET /after (valid, pipelined behind it)
//
// The handler must never run for the malformed request nor for /after, and the
// server must end the connection - decided when the client's reader ended, or
// in the final history (no progress, idle) if it never does.

import (
	"bufio"
	"fmt"
	"net"
	"net/http"
	"strings"
	"sync"
	"sync/atomic"
	"time"

	"github.com/lesismal/nbio/nbhttp"

	"verif/internal/e2e"
	"verif/internal/h"
	"verif/internal/httpx"
)

type e2eCase struct {
	Index int        `json:"index"`
	E2E   bool       `json:"e2e"`
	Cell  httpx.Cell `json:"cell"`
	Cut   string     `json:"cut"` // whole | bytewise | lines
	Fill  bool       `json:"fillers"`
	Hold  bool       `json:"handler_held"` // a valid request whose handler is still running when the malformed bytes arrive
}

func genE2E(r *h.Run, idx int) e2eCase {
	rng := r.Rand("c08-e2e", idx)
	c := e2eCase{Index: idx, E2E: true}
	c.Cell = httpx.Cell{
		IOMod: []int{nbhttp.IOModNonBlocking, nbhttp.IOModBlocking, nbhttp.IOModMixed}[idx%3],
		Mode:  []string{"LT", "ET", "ONESHOT"}[(idx/3)%3],
		TLS:   (idx/9)%2 == 1,
	}
	c.Cut = []string{"whole", "bytewise", "lines"}[rng.Intn(3)]
	c.Fill = c.Cell.IOMod == nbhttp.IOModMixed && (idx/18)%2 == 0
	c.Hold = (idx/54)%2 == 1 || idx%5 == 4
	return c
}

type e2eScenario struct {
	Name string
	Req  string
}

func e2eScenarios() []e2eScenario {
	return []e2eScenario{
		{"content-length-negative", "POST /bad HTTP/1.1\r\nHost: x\r\nContent-Length: -5\r\n\r\nhello"},
		{"content-length-non-numeric", "POST /bad HTTP/1.1\r\nHost: x\r\nContent-Length: 5x\r\n\r\nhello"},
		{"transfer-encoding-unsupported", "POST /bad HTTP/1.1\r\nHost: x\r\nTransfer-Encoding: gzip\r\n\r\nhello"},
		{"transfer-encoding-repeated", "POST /bad HTTP/1.1\r\nHost: x\r\nTransfer-Encoding: chunked\r\nTransfer-Encoding: chunked\r\n\r\n5\r\nhello\r\n0\r\n\r\n"},
		{"chunk-size-non-hex", "POST /bad HTTP/1.1\r\nHost: x\r\nTransfer-Encoding: chunked\r\n\r\n5g\r\nhello\r\n0\r\n\r\n"},
		{"chunk-size-overflow", "POST /bad HTTP/1.1\r\nHost: x\r\nTransfer-Encoding: chunked\r\n\r\nFFFFFFFFFFFFFFFFFF\r\nhello\r\n0\r\n\r\n"},
		{"chunk-data-missing-crlf", "POST /bad HTTP/1.1\r\nHost: x\r\nTransfer-Encoding: chunked\r\n\r\n5\r\nhelloXY0\r\n\r\n"},
		{"header-line-bare-lf", "GET /bad HTTP/1.1\nHost: x\r\n\r\n"},
	}
}

var e2eProgress int64

func runE2E(r *h.Run, c e2eCase) {
	var mu sync.Mutex
	served := map[string][]string{} // remote addr -> paths the handler ran for
	gates := map[string]chan struct{}{}
	mux := http.NewServeMux()
	mux.HandleFunc("/", func(w http.ResponseWriter, rq *http.Request) {
		atomic.AddInt64(&e2eProgress, 1)
		mu.Lock()
		served[rq.RemoteAddr] = append(served[rq.RemoteAddr], rq.URL.Path)
		g := gates[rq.RemoteAddr]
		mu.Unlock()
		if rq.URL.Path == "/hold" && g != nil {
			// the connection's job queue stays busy while the malformed bytes arrive
			select {
			case <-g:
			case <-time.After(5 * time.Second):
			}
		}
		_, _ = w.Write([]byte("ok:" + rq.URL.Path))
	})
	eng := nbhttp.NewEngine(c.Cell.Config(mux))
	if err := eng.Start(); err != nil {
		r.Inconclusive(fmt.Sprintf("e2e case %d: engine start: %v", c.Index, err))
		return
	}
	defer eng.Stop()
	addr := httpx.Addr(eng, c.Cell)
	cell := c.Cell.String()
	cls := strings.Split(cell, "/")[0]
	if c.Cell.TLS {
		cls += "-tls"
	}
	if c.Fill {
		// the first two online connections of the mixed engine are served blocking: with two idle
		// fillers the scenario connections go to the poller
		for k := 0; k < 2; k++ {
			if fc, err := c.Cell.Dial(addr); err == nil {
				defer fc.Close()
			}
		}
		time.Sleep(20 * time.Millisecond)
		cell += "/poller-part"
	}
	for _, sc := range e2eScenarios() {
		r.Eval(1)
		nc, err := c.Cell.Dial(addr)
		if err != nil {
			r.Inconclusive(fmt.Sprintf("e2e case %d (%s): dial: %v", c.Index, cell, err))
			return
		}
		local := nc.LocalAddr().String()
		br := bufio.NewReader(nc)
		_ = nc.SetDeadline(time.Now().Add(10 * time.Second))
		if _, err := nc.Write([]byte("GET /before HTTP/1.1\r\nHost: x\r\n\r\n")); err != nil {
			nc.Close()
			r.Inconclusive(fmt.Sprintf("e2e case %d (%s): write: %v", c.Index, cell, err))
			continue
		}
		resp, err := http.ReadResponse(br, nil)
		if err != nil {
			nc.Close()
			r.Inconclusive(fmt.Sprintf("e2e case %d (%s) scenario %s: the valid request before the scenario was not answered: %v", c.Index, cell, sc.Name, err))
			continue
		}
		buf := make([]byte, 64)
		n, _ := resp.Body.Read(buf)
		resp.Body.Close()
		if string(buf[:n]) != "ok:/before" {
			nc.Close()
			r.Inconclusive(fmt.Sprintf("e2e case %d (%s): unexpected answer %q", c.Index, cell, buf[:n]))
			continue
		}
		_ = nc.SetDeadline(time.Time{})
		// reader: until the server ends the connection
		done := make(chan struct{})
		var got []byte
		go func() {
			defer close(done)
			tmp := make([]byte, 4096)
			for {
				n, err := br.Read(tmp)
				if n > 0 {
					atomic.AddInt64(&e2eProgress, 1)
					got = append(got, tmp[:n]...)
				}
				if err != nil {
					return
				}
			}
		}()
		wire := sc.Req + "GET /after HTTP/1.1\r\nHost: x\r\n\r\n"
		var gate chan struct{}
		if c.Hold {
			gate = make(chan struct{})
			mu.Lock()
			gates[local] = gate
			mu.Unlock()
			wire = "GET /hold HTTP/1.1\r\nHost: x\r\n\r\n" + wire
		}
		switch c.Cut {
		case "bytewise":
			for i := 0; i < len(wire); i++ {
				if _, err := nc.Write([]byte{wire[i]}); err != nil {
					break
				}
			}
		case "lines":
			for _, l := range strings.SplitAfter(wire, "\n") {
				if l == "" {
					continue
				}
				if _, err := nc.Write([]byte(l)); err != nil {
					break
				}
				time.Sleep(100 * time.Microsecond)
			}
		default:
			_, _ = nc.Write([]byte(wire))
		}
		if gate != nil {
			// everything is on its way: let the engine read it while the handler is still held
			time.Sleep(3 * time.Millisecond)
			close(gate)
			r.Count("e2e_scenarios_with_a_held_handler", 1)
		}
		ended := false
		select {
		case <-done:
			ended = true
		case <-time.After(300 * time.Millisecond):
			switch e2e.WaitQuiet(done, func() int64 { return atomic.LoadInt64(&e2eProgress) }, 60*time.Second) {
			case "done":
				ended = true
			case "quiet":
			default:
				nc.Close()
				<-done
				r.Inconclusive(fmt.Sprintf("e2e case %d (%s) scenario %s: neither ended nor quiet within 60 s", c.Index, cell, sc.Name))
				continue
			}
		}
		mu.Lock()
		paths := append([]string(nil), served[local]...)
		mu.Unlock()
		viol := func(sig, detail string) {
			gs := got
			if len(gs) > 200 {
				gs = gs[:200]
			}
			r.Violate(fmt.Sprintf("c08:e2e:%s:%s:%s", cls, sc.Name, sig), fmt.Sprintf("%s\nengine %s, written %s: %q then a pipelined GET /after\nhandler ran for %q; bytes received after the first response: %q", detail, cell, c.Cut, sc.Req, paths, gs), c)
		}
		bad := false
		for _, p := range paths {
			if p == "/bad" {
				viol("handler-ran-for-malformed-request", "the handler was invoked for the request with malformed framing metadata")
				bad = true
				break
			}
			if p == "/after" {
				viol("request-after-error-served", "the request pipelined behind the malformed one was parsed and served: the engine kept feeding the parser after it had returned an error")
				bad = true
				break
			}
		}
		if !bad && !ended {
			viol("connection-not-closed", "the server did not end the connection after the malformed request: the client's reader is still blocked in the final history (no progress, idle CPU, 3 s)")
			bad = true
		}
		if !bad {
			r.Nontrivial(fmt.Sprintf("e2e/%d/%s", c.Index, sc.Name))
		}
		nc.Close()
		<-done
	}
	r.Seen("e2e_cells", cell+"/"+c.Cut)
}

var _ net.Conn
