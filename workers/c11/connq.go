package main

// Workload "connq": the write queue of a core connection (nbio.Conn) on a real
// socket whose peer does not read. Write/Writev have to cache what the kernel
// does not take: the cache buffers come from Config.BodyAllocator (here the
// guard allocator), small writes are merged into the last queued buffer (which
// grows through Malloc+copy+Free or Append), the poller's flush writes from
// them and returns them, and Close / a failing flush return what is left.
//
// The oracle is the guard allocator (double free, append or write after free,
// found by the shadow state and the poison sweep). A read after free has no
// trace in the allocator - the kernel just copies poison - so the bytes the
// peer receives are compared with the bytes written as well.

import (
	"fmt"
	"io"
	"net"
	"os"
	"syscall"
	"time"

	"github.com/lesismal/nbio"

	"verif/internal/h"
)

type connqOp struct {
	Size  int `json:"size"`
	Parts int `json:"parts,omitempty"` // > 1: Writev with that many slices
}

type connqCase struct {
	Mode string    `json:"mode"`
	Ops  []connqOp `json:"ops"`
	End  string    `json:"end"` // drain | concurrent-drain | close-with-backlog | peer-close-with-backlog
	Part int       `json:"partial_read"`
}

func genConnQ(r *h.Run, i int) *caseT {
	rng := r.Rand("c11-connq", i)
	cc := &connqCase{
		Mode: []string{"LT", "ET", "ONESHOT"}[i%3],
		End:  []string{"drain", "concurrent-drain", "close-with-backlog", "peer-close-with-backlog"}[(i/3)%4],
	}
	// the first write fills the socket and leaves a backlog
	cc.Ops = append(cc.Ops, connqOp{Size: 300000 + rng.Intn(200000)})
	sizes := []int{1, 7, 100, 500, 1000, 1023, 1024, 1025, 2000, 4000, 10000, 30000, 65535, 65536, 70000}
	n := 3 + rng.Intn(22)
	small := rng.Intn(3) == 0 // runs of small writes: many merges into one tail buffer
	for k := 0; k < n; k++ {
		op := connqOp{Size: sizes[rng.Intn(len(sizes))]}
		if small {
			op.Size = sizes[rng.Intn(9)]
		}
		if rng.Intn(4) == 0 {
			op.Parts = 2 + rng.Intn(4)
		}
		cc.Ops = append(cc.Ops, op)
	}
	cc.Part = rng.Intn(400000)
	return &caseT{Workload: "connq", Index: i, ConnQ: cc,
		Readable: fmt.Sprintf("core write queue: mode=%s end=%s ops=%v", cc.Mode, cc.End, cc.Ops)}
}

func connqByte(k int) byte { return byte((k*7 + k/251) % 253) }

var connqEngines = map[string]*nbio.Engine{}

func (w *worker) connqEngine(mode string) *nbio.Engine {
	if g := connqEngines[mode]; g != nil {
		return g
	}
	cfg := nbio.Config{Name: "connq-" + mode, NPoller: 1, BodyAllocator: w.ga, MaxWriteBufferSize: 64 << 20}
	switch mode {
	case "ET":
		cfg.EpollMod = nbio.EPOLLET
	case "ONESHOT":
		cfg.EpollMod = nbio.EPOLLET
		cfg.EPOLLONESHOT = nbio.EPOLLONESHOT
	}
	g := nbio.NewEngine(cfg)
	g.OnClose(func(c *nbio.Conn, err error) {
		if ch, ok := c.Session().(chan struct{}); ok {
			close(ch)
		}
	})
	g.OnData(func(c *nbio.Conn, b []byte) {})
	if err := g.Start(); err != nil {
		return nil
	}
	connqEngines[mode] = g
	return g
}

func connqPair() (net.Conn, net.Conn, error) {
	fds, err := syscall.Socketpair(syscall.AF_UNIX, syscall.SOCK_STREAM, 0)
	if err != nil {
		return nil, nil, err
	}
	_ = syscall.SetsockoptInt(fds[0], syscall.SOL_SOCKET, syscall.SO_SNDBUF, 4096)
	mk := func(fd int) (net.Conn, error) {
		f := os.NewFile(uintptr(fd), "connq")
		defer f.Close()
		return net.FileConn(f)
	}
	a, err := mk(fds[0])
	if err != nil {
		syscall.Close(fds[1])
		return nil, nil, err
	}
	b, err := mk(fds[1])
	if err != nil {
		a.Close()
		return nil, nil, err
	}
	return a, b, nil
}

func (w *worker) runConnQ(c *caseT) {
	r := w.r
	cc := c.ConnQ
	g := w.connqEngine(cc.Mode)
	if g == nil {
		r.Inconclusive("connq: engine start failed")
		return
	}
	a, peer, err := connqPair()
	if err != nil {
		r.Inconclusive("connq: socketpair: " + err.Error())
		return
	}
	defer peer.Close()
	nbc, err := nbio.NBConn(a)
	if err != nil {
		r.Inconclusive("connq: NBConn: " + err.Error())
		return
	}
	closed := make(chan struct{})
	nbc.SetSession(closed)
	if _, err := g.AddConn(nbc); err != nil {
		r.Inconclusive("connq: AddConn: " + err.Error())
		return
	}

	// the peer's reader checks every byte against the stream position
	type rres struct {
		n   int
		bad int // first differing offset, -1 = none
		got byte
		err error
	}
	read := func(limit int, d time.Duration) rres {
		res := rres{bad: -1}
		buf := make([]byte, 64<<10)
		_ = peer.SetReadDeadline(time.Now().Add(d))
		for limit < 0 || res.n < limit {
			b := buf
			if limit >= 0 && limit-res.n < len(b) {
				b = b[:limit-res.n]
			}
			n, err := peer.Read(b)
			for k := 0; k < n && res.bad < 0; k++ {
				if b[k] != connqByte(w.connqBase+res.n+k) {
					res.bad, res.got = w.connqBase+res.n+k, b[k]
				}
			}
			res.n += n
			if err != nil {
				res.err = err
				break
			}
		}
		w.connqBase += res.n
		return res
	}
	w.connqBase = 0

	var conc chan rres
	if cc.End == "concurrent-drain" {
		conc = make(chan rres, 1)
		total := 0
		for _, op := range cc.Ops {
			total += op.Size
		}
		go func() { conc <- read(total, 30*time.Second) }()
	}

	written := 0
	for _, op := range cc.Ops {
		b := make([]byte, op.Size)
		for k := range b {
			b[k] = connqByte(written + k)
		}
		var n int
		var err error
		if op.Parts > 1 {
			var parts [][]byte
			rest := b
			for p := op.Parts; p > 1 && len(rest) > 0; p-- {
				cut := len(rest) / p
				parts = append(parts, rest[:cut])
				rest = rest[cut:]
			}
			parts = append(parts, rest)
			n, err = nbc.Writev(parts)
		} else {
			n, err = nbc.Write(b)
		}
		if err != nil || n != len(b) {
			r.Inconclusive(fmt.Sprintf("connq case %d: write of %d returned %d, %v", c.Index, len(b), n, err))
			_ = nbc.Close()
			<-closed
			w.finish(c, nil)
			return
		}
		written += n
	}
	bk := nbio.VerifBacklog(nbc)
	if bk.BufBytes > 0 {
		r.Count("connq_cases_with_backlog_after_writes", 1)
	}
	r.Max("connq_max_queued_bytes", int64(bk.BufBytes))

	waitClosed := func() bool {
		select {
		case <-closed:
			return true
		case <-time.After(20 * time.Second):
			return false
		}
	}
	check := func(res rres, want int, what string) {
		if res.bad >= 0 {
			w.violate(c, "c11:connq:stream-differs-from-written", fmt.Sprintf("%s: byte %d of the stream is %#x, written was %#x (a cached buffer was read after it had been returned, or two owners wrote it); %d bytes written in all, engine mode %s", what, res.bad, res.got, connqByte(res.bad), written, cc.Mode))
		} else if want >= 0 && res.n != want {
			if res.err != nil && os.IsTimeout(res.err) {
				r.Inconclusive(fmt.Sprintf("connq case %d: %s: %d of %d bytes within the watchdog time", c.Index, what, res.n, want))
			} else {
				w.violate(c, "c11:connq:stream-short", fmt.Sprintf("%s: the peer received %d of %d bytes and then %v", what, res.n, want, res.err))
			}
		}
	}

	switch cc.End {
	case "drain":
		check(read(written, 30*time.Second), written, "drain")
		_ = nbc.Close()
	case "concurrent-drain":
		check(<-conc, written, "concurrent drain")
		_ = nbc.Close()
	case "close-with-backlog":
		part := cc.Part
		if part > written {
			part = written
		}
		check(read(part, 30*time.Second), part, "partial read")
		_ = nbc.Close()
		if !waitClosed() {
			r.Inconclusive("connq: no close notification")
		}
		// what the kernel had taken is still delivered, in stream order
		res := read(-1, 10*time.Second)
		if res.err != io.EOF && res.err != nil && !os.IsTimeout(res.err) {
			res.err = nil
		}
		check(res, -1, "rest after Close")
	case "peer-close-with-backlog":
		part := cc.Part % 100000
		if part > written {
			part = written
		}
		check(read(part, 30*time.Second), part, "partial read")
		peer.Close()
		// the failing flush (or the hang-up event) ends the connection and returns the queue
	}
	if !waitClosed() {
		r.Inconclusive(fmt.Sprintf("connq case %d: the connection was not closed within the watchdog time", c.Index))
		_ = nbc.Close()
	}
	// a write after the close must not touch the queue
	_, _ = nbc.Write([]byte("after close"))
	r.Count("connq_bytes_written", int64(written))
	r.Seen("connq_cell", cc.Mode+"/"+cc.End)
	w.finish(c, nil)
}
