// C11 — pooled-buffer ownership: freed at most once, never used after free,
// never shared.
//
// The guard allocator (internal/guardalloc, shadow mode, or fault mode with
// --fault) is installed as mempool.DefaultMemPool, as Config.BodyAllocator of
// every engine and as Config.ReadBufferPool; every byte slice the harness is
// handed (net.Conn.Write input, request body buffers, WebSocket message and
// frame payloads) is checked against the shadow state, the bytes fed to the
// parsers live in allocator buffers that are freed as soon as Parse returns
// (what the engine's read buffer amounts to), and at the end of every case the
// quarantine is swept for modified poison. Workloads (no oracle of their own):
//
//	resp  the C09 handler programs (internal/respgen, same generator, same indices)
//	http  httpgen request/response streams, valid and mutated, random
//	      segmentation, through the real ServerProcessor/ClientProcessor; body
//	      read fully / partly / not at all / through RawBodyBuffers; keep-alive
//	      sequences; parse errors followed by CloseAndClean; MaxHTTPBodySize
//	      aborts; RetainHTTPBody on/off; close in the middle of a message
//	ws    WebSocket connections in memory: internal/wsref/nbdrive endpoints
//	      (server and client role) and connections upgraded in memory through
//	      Upgrader.Upgrade; fragmented, compressed, oversized and invalid input,
//	      every segmentation, payload release on/off, OnDataFrame on/off,
//	      WriteMessage in between, CloseAndClean in the middle of a message
//	sendq the asynchronous send queue of a blocking-mode WebSocket connection (sendq.go)
//	connq the write queue of a core connection on a real socket with a backlog (connq.go)
package main

import (
	"flag"
	"fmt"
	"os"
	"path/filepath"
	"strings"

	"verif/internal/guardalloc"
	"verif/internal/h"
	"verif/internal/respgen"
)

type caseT struct {
	Workload string           `json:"workload"` // resp | http | ws | sendq | connq
	Index    int              `json:"index"`
	Readable string           `json:"readable,omitempty"`
	Program  *respgen.Program `json:"program,omitempty"`
	HTTP     *httpCase        `json:"http,omitempty"`
	WS       *wsCase          `json:"ws,omitempty"`
	SendQ    *sendqCase       `json:"sendq,omitempty"`
	ConnQ    *connqCase       `json:"connq,omitempty"`
}

type worker struct {
	r   *h.Run
	env *respgen.Env
	ga  *guardalloc.Allocator

	reported map[string]bool
	cur      *caseT
	pending  []guardalloc.Report // reports of the case being run (harness-made ones included)

	httpEngines map[httpKey]*httpEngine
	httpSt      *httpState
	wsSt        *wsState
	upEngines   map[bool]*upEngine

	faultStopped bool
	connqBase    int // stream offset of the connq peer's reader
}

// sigOf builds the signature of one ownership report.
func sigOf(rep guardalloc.Report) string {
	site := rep.Site
	switch {
	case site == "":
		site = "freed-by:" + rep.FreeSite
	case site == "outside-nbio":
		// the offending call is the harness acting as the application (e.g.
		// returning a payload it owns): name who freed the buffer before
		site = "by-application:freed-by:" + rep.FreeSite
	}
	sig := "c11:" + rep.Kind + ":" + site
	if rep.Kind == guardalloc.KindDoubleFree && rep.Site != "outside-nbio" {
		sig += ":first-free:" + rep.FreeSite
	}
	return sig
}

// finish closes a case: sweep, collect the allocator's reports, turn them
// into violations, count.
func (w *worker) finish(c *caseT, extra []guardalloc.Report) {
	r := w.r
	cs := w.ga.EndCase()
	reps := append(extra, w.env.TakeGuard()...)
	r.Eval(1)
	r.Count("cases_"+c.Workload, 1)
	if cs.Mallocs >= 1 && cs.Frees >= 1 {
		r.Nontrivial(fmt.Sprintf("%s/%d", c.Workload, c.Index))
	}
	if cs.Leaked > 0 {
		// allowed by the statement: counted, never alarmed
		r.Count("regions_live_at_end_of_case(leaks,allowed)", int64(cs.Leaked))
		r.Count("cases_with_live_regions_at_end", 1)
		for _, s := range cs.LeakSites {
			r.Seen("leak_alloc_site", s)
		}
	}
	for _, rep := range reps {
		sig := sigOf(rep)
		r.Count("sig:"+sig, 1)
		r.Count("ownership_reports", 1)
		if w.reported[sig] {
			continue
		}
		w.reported[sig] = true
		r.Violate(sig, fmt.Sprintf("workload %s case %d: %s\n%s", c.Workload, c.Index, c.Readable, rep.Detail), *c)
	}
	if len(reps) > 0 {
		r.Count("cases_with_ownership_reports", 1)
	}
}

// violate reports a harness-side observation that proves a use after free
// (poison bytes in data delivered to the application).
func (w *worker) violate(c *caseT, sig, detail string) {
	w.r.Count("sig:"+sig, 1)
	if w.reported[sig] {
		return
	}
	w.reported[sig] = true
	w.r.Violate(sig, fmt.Sprintf("workload %s case %d: %s\n%s", c.Workload, c.Index, c.Readable, detail), *c)
}

func (w *worker) runResp(c *caseT) {
	out := w.env.Run(c.Program) // EndCase is done by Run; reports are in out.Guard
	r := w.r
	r.Eval(1)
	r.Count("cases_resp", 1)
	if out.Case.Mallocs >= 1 && out.Case.Frees >= 1 {
		r.Nontrivial(fmt.Sprintf("resp/%d", c.Index))
	}
	if out.Case.Leaked > 0 {
		r.Count("regions_live_at_end_of_case(leaks,allowed)", int64(out.Case.Leaked))
		r.Count("cases_with_live_regions_at_end", 1)
		for _, s := range out.Case.LeakSites {
			r.Seen("leak_alloc_site", s)
		}
	}
	if out.ReqBodyBad != "" {
		r.Count("resp_request_body_differs(observation)", 1)
	}
	for _, rep := range out.Guard {
		sig := sigOf(rep)
		r.Count("sig:"+sig, 1)
		r.Count("ownership_reports", 1)
		if w.reported[sig] {
			continue
		}
		w.reported[sig] = true
		// a smaller program with the same signature reads better
		minP := respgen.Minimize(c.Program, 150, func(q *respgen.Program) bool {
			o := w.env.Run(q)
			for _, g := range o.Guard {
				if sigOf(g) == sig {
					return true
				}
			}
			return false
		})
		detail := rep.Detail
		o := w.env.Run(minP)
		for _, g := range o.Guard {
			if sigOf(g) == sig {
				detail = g.Detail
				break
			}
		}
		mc := caseT{Workload: "resp", Index: c.Index, Readable: minP.String(), Program: minP}
		r.Violate(sig, fmt.Sprintf("workload resp case %d, minimal handler program: %s\n%s\ngenerated program: %s", c.Index, minP, detail, c.Program), mc)
	}
	if len(out.Guard) > 0 {
		r.Count("cases_with_ownership_reports", 1)
	}
}

func main() {
	fault := flag.Bool("fault", false, "guard allocator in fault mode (mmap + mprotect): any use after free kills the process")
	r := h.Start("C11")
	defer r.Finish()
	respgen.ScratchDir = scratchDir(r)
	// every second process runs with an allocator that moves a buffer when Append has to grow it
	// (new pointer, old buffer freed - what mempool.AlignedAllocator does): code that keeps the old
	// pointer uses a freed buffer there
	move := !*fault && r.Shard%2 == 1
	env, err := respgen.NewEnv(guardalloc.Options{Fault: *fault, QuarantineBytes: 64 << 20, MoveOnGrow: move})
	if err != nil {
		r.Inconclusive("cannot set up the scratch directory: " + err.Error())
		return
	}
	defer env.Close()
	w := &worker{r: r, env: env, ga: env.GA, reported: map[string]bool{}, httpEngines: map[httpKey]*httpEngine{}, upEngines: map[bool]*upEngine{}}
	if *fault {
		r.Seen("allocator_mode", "fault")
	} else {
		if move {
			r.Seen("allocator_mode", "shadow+move-on-grow")
		} else {
			r.Seen("allocator_mode", "shadow")
		}
	}

	run := func(c *caseT) {
		w.cur = c
		switch c.Workload {
		case "resp":
			w.runResp(c)
		case "http":
			w.runHTTP(c)
		case "ws":
			w.runWS(c)
		case "sendq":
			w.runSendQ(c)
		case "connq":
			w.runConnQ(c)
		}
		w.cur = nil
	}

	if r.Replay != "" {
		var c caseT
		if err := r.ReplayCase(&c); err != nil || c.Workload == "" {
			fmt.Fprintln(os.Stderr, "replay:", err)
			return
		}
		r.Begin(c)
		run(&c)
		w.stats()
		return
	}

	only := os.Getenv("C11_WORKLOAD") // debugging: restrict to one workload
	nResp := r.N(12000, 300000)
	nHTTP := r.N(25000, 1000000)
	nWS := r.N(12000, 500000)
	if *fault {
		// every allocation is a mapping and every case is recorded first: an eighth of the cases
		nResp, nHTTP, nWS = nResp/8, nHTTP/8, nWS/8
	}
	idx, done := 0, 0
	step := func(workload string, i int, gen func() *caseT) {
		idx++
		if !r.Mine(idx) || (only != "" && only != workload) {
			return
		}
		c := gen()
		// in fault mode a violation kills the process: every case is recorded
		if *fault || done%100 == 0 || caseBytes(c) > 1<<20 {
			r.Begin(*c)
		}
		if done < 3 {
			r.Sample(*c)
		}
		done++
		if *fault && done%50 == 0 && !w.faultStopped {
			// every region is a mapping and the kernel limits the number of
			// mappings per process (vm.max_map_count, 65530 by default): the
			// count is measured, and the shard stops long before the limit
			if n := mappings(); n > 30000 || w.ga.Stats().FaultMmapFailures > 0 {
				w.faultStopped = true
				r.Inconclusive(fmt.Sprintf("fault mode: the process holds %d memory mappings (leaked regions stay mapped), the remaining cases of this shard were not run", n))
			}
			r.Max("fault_mode_max_memory_mappings_seen", int64(mappings()))
		}
		if w.faultStopped {
			return
		}
		run(c)
	}
	for i := 0; i < nResp; i++ {
		i := i
		step("resp", i, func() *caseT {
			p := respgen.Gen(r.Rand("c09-program", i), env)
			return &caseT{Workload: "resp", Index: i, Readable: p.String(), Program: p}
		})
	}
	for i := 0; i < nHTTP; i++ {
		i := i
		step("http", i, func() *caseT { return genHTTP(r, i) })
	}
	for i := 0; i < nWS; i++ {
		i := i
		step("ws", i, func() *caseT { return genWS(r, i) })
	}
	nSendQ := r.N(1500, 60000)
	if *fault {
		nSendQ /= 8
	}
	for i := 0; i < nSendQ; i++ {
		i := i
		step("sendq", i, func() *caseT { return genSendQ(r, i) })
	}
	nConnQ := r.N(600, 24000)
	if *fault {
		nConnQ /= 8
	}
	for i := 0; i < nConnQ; i++ {
		i := i
		step("connq", i, func() *caseT { return genConnQ(r, i) })
	}
	w.ga.Sweep()
	for _, rep := range env.TakeGuard() {
		sig := sigOf(rep) + ":found-by-final-sweep"
		r.Count("sig:"+sig, 1)
		if !w.reported[sig] {
			w.reported[sig] = true
			r.Violate(sig, "found by the sweep of the whole quarantine at the end of the run (the write happened after the case that freed the buffer had ended):\n"+rep.Detail, nil)
		}
	}
	w.stats()
}

// mappings counts the lines of /proc/self/maps.
func mappings() int {
	b, err := os.ReadFile("/proc/self/maps")
	if err != nil {
		return 0
	}
	return strings.Count(string(b), "\n")
}

func caseBytes(c *caseT) int {
	switch {
	case c.Program != nil:
		t := 0
		for _, op := range c.Program.Ops {
			t += op.N
		}
		return t
	case c.HTTP != nil:
		return len(c.HTTP.Stream)
	case c.WS != nil:
		return len(c.WS.Wire)
	}
	return 0
}

func (w *worker) stats() {
	r := w.r
	st := w.ga.Stats()
	r.Count("guardalloc_mallocs", st.Mallocs)
	r.Count("guardalloc_frees", st.Frees)
	r.Count("guardalloc_appends", st.Appends)
	r.Count("guardalloc_reallocs", st.Reallocs)
	r.Count("guardalloc_grows", st.Grows)
	r.Count("guardalloc_foreign_frees(counted,not_alarmed)", st.ForeignFrees)
	r.Count("guardalloc_foreign_appends", st.ForeignAppends)
	r.Count("guardalloc_zero_capacity_frees(ignored)", st.ZeroCapFrees)
	r.Count("guardalloc_frees_of_regions_abandoned_by_growth", st.AbandonedFrees)
	r.Count("guardalloc_poisoned_bytes", st.PoisonedBytes)
	r.Count("guardalloc_swept_bytes", st.SweptBytes)
	r.Count("guardalloc_regions_evicted_from_quarantine", st.Evicted)
	r.Max("guardalloc_peak_live_regions", st.PeakLiveRegions)
	r.Max("guardalloc_peak_live_bytes", st.PeakLiveBytes)
	for _, p := range w.ga.SitePairs() {
		r.Seen("alloc_site|free_site", p)
	}
}

func scratchDir(r *h.Run) string {
	if r.Replay != "" {
		return filepath.Join(r.Out, "scratch-replay")
	}
	return filepath.Join(r.Out, fmt.Sprintf("scratch-%s-%d", r.Phase, r.Shard))
}

func firstLine(s string) string {
	if i := strings.Index(s, "\n"); i > 0 {
		return s[:i]
	}
	return s
}
