package main

import (
	"bytes"
	"encoding/base64"
	"fmt"
	"io"
	"net"
	"net/http"
	"syscall"
	"time"

	"github.com/lesismal/nbio/nbhttp"

	"verif/internal/guardalloc"
	"verif/internal/h"
	"verif/internal/httpgen"
)

type httpCase struct {
	Client     bool     `json:"client,omitempty"` // response stream through the ClientProcessor
	Stream     string   `json:"stream_b64"`
	Literal    string   `json:"stream_readable,omitempty"`
	Cuts       []int    `json:"cuts,omitempty"`
	Read       string   `json:"read"` // all | part | none | raw
	MaxBody    int      `json:"max_http_body_size"`
	Retain     bool     `json:"retain_http_body,omitempty"`
	Mutations  []string `json:"mutations,omitempty"`
	CloseAfter int      `json:"close_after_segments"` // -1: only at the end
	Respond    int      `json:"respond_bytes"`
	// WriteFail: the connection refuses every write (a peer that has reset it): the response
	// flush fails and the server takes its error path
	WriteFail bool `json:"conn_writes_fail,omitempty"`
}

type httpKey struct {
	maxBody int
	retain  bool
}

type httpEngine struct{ e *nbhttp.Engine }

type httpState struct {
	c            *caseT
	hc           *httpCase
	curLen       int64 // Content-Length of the request being handled (-1: unknown)
	retainedLeft []int // unread bytes of each retained body (-1: unknown)
	scan         bool  // the stream holds no poison byte: poison in delivered data proves a read after free
	scanFill     bool
	requests     int
	retained     []io.ReadCloser
	bodyRead     int
}

// checkConn is the net.Conn under every parser of the http and ws workloads.
type checkConn struct {
	ga      *guardalloc.Allocator
	wire    []byte
	keep    bool // keep the written bytes (ws: decoded later)
	written int
	closed  int
	onClose func()
	// failWrites: every write fails with a reset, as on a connection the peer has torn down
	failWrites bool
}

type cAddr struct{}

func (cAddr) Network() string { return "tcp" }
func (cAddr) String() string  { return "192.0.2.9:50000" }

func (c *checkConn) Read(b []byte) (int, error) { return 0, io.EOF }
func (c *checkConn) Write(b []byte) (int, error) {
	if !c.ga.CheckLive(b, "freed-buffer-handed-to-conn-write") && c.ga.FaultMode() {
		return len(b), nil // the bytes are inaccessible
	}
	if c.closed > 0 {
		return 0, net.ErrClosed
	}
	if c.failWrites {
		return 0, syscall.ECONNRESET
	}
	c.written += len(b)
	if c.keep {
		c.wire = append(c.wire, b...)
	}
	return len(b), nil
}
func (c *checkConn) Close() error {
	c.closed++
	if c.closed == 1 && c.onClose != nil {
		c.onClose()
	}
	return nil
}
func (c *checkConn) LocalAddr() net.Addr                { return cAddr{} }
func (c *checkConn) RemoteAddr() net.Addr               { return cAddr{} }
func (c *checkConn) SetDeadline(t time.Time) error      { return nil }
func (c *checkConn) SetReadDeadline(t time.Time) error  { return nil }
func (c *checkConn) SetWriteDeadline(t time.Time) error { return nil }

var respFill = bytes.Repeat([]byte("0123456789abcdef"), 5000)

func (w *worker) httpEngine(k httpKey) *nbhttp.Engine {
	if e := w.httpEngines[k]; e != nil {
		return e.e
	}
	inline := func(f func()) { f() }
	e := nbhttp.NewEngine(nbhttp.Config{
		Handler:         http.HandlerFunc(w.httpServe),
		BodyAllocator:   w.ga,
		ReadBufferPool:  w.ga,
		MaxHTTPBodySize: k.maxBody,
		RetainHTTPBody:  k.retain,
		ServerExecutor:  inline,
		ClientExecutor:  inline,
	})
	w.httpEngines[k] = &httpEngine{e: e}
	return e
}

// scanDelivered looks for allocator patterns in data nbio delivered.
func (w *worker) scanDelivered(what string, b []byte) {
	st := w.httpSt
	if st == nil || len(b) == 0 {
		return
	}
	if st.scan {
		if i := bytes.IndexByte(b, w.ga.Poison()); i >= 0 {
			w.violate(st.c, "c11:read-after-free:poison-in-delivered-"+what,
				fmt.Sprintf("the %s nbio delivered to the handler contains the poison byte 0x%02x at offset %d, the input stream contains no such byte: the bytes were read from a buffer after it had been freed\ndelivered: %s", what, w.ga.Poison(), i, h.Hex(b, 120)))
		}
	}
	if st.scanFill && bytes.IndexByte(b, w.ga.Fill()) >= 0 {
		w.r.Count("uninitialised_allocator_bytes_in_delivered_"+what+"(observation)", 1)
	}
}

func (w *worker) scanHeader(what string, hd http.Header) {
	for k, vv := range hd {
		w.scanDelivered(what, []byte(k))
		for _, v := range vv {
			w.scanDelivered(what, []byte(v))
		}
	}
}

func (w *worker) consumeBody(body io.ReadCloser) {
	st := w.httpSt
	hc := st.hc
	if body == nil {
		return
	}
	readN := 0
	if br, ok := body.(*nbhttp.BodyReader); ok {
		for _, b := range br.RawBodyBuffers() {
			live := w.ga.CheckLive(b, "freed-buffer-visible-to-handler")
			if hc.Read == "raw" && (live || !w.ga.FaultMode()) {
				w.scanDelivered("body", b)
				st.bodyRead += len(b)
			}
		}
	}
	switch hc.Read {
	case "all", "part":
		buf := make([]byte, 700)
		limit := 1 << 30
		if hc.Read == "part" {
			limit = 37
		}
		n := 0
		for n < limit {
			k, err := body.Read(buf)
			if k > 0 {
				w.scanDelivered("body", buf[:k])
				n += k
			}
			if err != nil || k == 0 {
				break
			}
		}
		st.bodyRead += n
		readN = n
	}
	if hc.Retain && !hc.Client {
		// RetainHTTPBody is a server-side option: the application keeps the body
		st.retained = append(st.retained, body)
		left := -1
		if st.curLen >= 0 {
			left = int(st.curLen) - readN // (what the handler read through Read; raw access consumes nothing)
		}
		st.retainedLeft = append(st.retainedLeft, left)
	}
}

func (w *worker) httpServe(rw http.ResponseWriter, req *http.Request) {
	st := w.httpSt
	if st == nil {
		return
	}
	st.requests++
	w.scanDelivered("request-line", []byte(req.Method))
	w.scanDelivered("request-line", []byte(req.RequestURI))
	w.scanHeader("header", req.Header)
	st.curLen = req.ContentLength
	w.consumeBody(req.Body)
	w.scanHeader("trailer", req.Trailer)
	if n := st.hc.Respond; n > 0 {
		_, _ = rw.Write(respFill[:n])
	}
}

func (w *worker) httpClientHandler(res *http.Response, err error) {
	st := w.httpSt
	if st == nil || res == nil {
		return
	}
	st.requests++
	w.scanDelivered("status-line", []byte(res.Status))
	w.scanHeader("header", res.Header)
	st.curLen = -1
	w.consumeBody(res.Body)
	w.scanHeader("trailer", res.Trailer)
}

// releaseRetained is the application giving back the bodies it was allowed to
// keep (RetainHTTPBody): they must still be live, then they are closed.
func (w *worker) releaseRetained() {
	st := w.httpSt
	for i, b := range st.retained {
		if br, ok := b.(*nbhttp.BodyReader); ok {
			for _, raw := range br.RawBodyBuffers() {
				w.ga.CheckLive(raw, "retained-body-buffer-freed-by-nbio")
			}
		}
		// the application reads what it had left unread: a body the library has taken back
		// meanwhile (its buffers returned, the reader emptied) has nothing left to give
		if want := st.retainedLeft[i]; want > 0 {
			got := 0
			buf := make([]byte, 4096)
			for {
				k, err := b.Read(buf)
				got += k
				if err != nil || k == 0 {
					break
				}
			}
			if got != want {
				w.violate(st.c, "c11:retained-body-taken-back-before-the-application-closed-it", fmt.Sprintf("RetainHTTPBody: the application kept a request body with %d unread bytes; when it read them after the handler had returned, it got %d - the library had released the body (another owner while the application still holds it)", want, got))
			}
		}
		_ = b.Close()
	}
	st.retained = nil
	st.retainedLeft = nil
}

func (w *worker) runHTTP(c *caseT) {
	hc := c.HTTP
	stream, err := base64.StdEncoding.DecodeString(hc.Stream)
	if err != nil {
		w.r.Inconclusive("bad stream in case: " + err.Error())
		return
	}
	st := &httpState{c: c, hc: hc,
		scan:     bytes.IndexByte(stream, w.ga.Poison()) < 0,
		scanFill: bytes.IndexByte(stream, w.ga.Fill()) < 0}
	w.httpSt = st
	w.env.Log.Take()
	w.env.TakeGuard()
	eng := w.httpEngine(httpKey{hc.MaxBody, hc.Retain})
	conn := &checkConn{ga: w.ga, failWrites: hc.WriteFail}
	var proc nbhttp.Processor
	if hc.Client {
		proc = nbhttp.NewClientProcessor(&nbhttp.ClientConn{}, w.httpClientHandler)
	} else {
		proc = nbhttp.NewServerProcessor()
	}
	p := nbhttp.NewParser(conn, eng, proc, hc.Client, nil)
	closed := false
	var firstErr error
	for i, seg := range httpgen.Split(stream, hc.Cuts) {
		if hc.CloseAfter >= 0 && i == hc.CloseAfter && !closed {
			// the connection goes away in the middle of the stream
			p.CloseAndClean(io.EOF)
			closed = true
			w.r.Count("http_closed_mid_stream", 1)
		}
		// the read buffer: valid during Parse only, then returned to its pool
		pb := w.ga.Malloc(len(seg))
		copy(*pb, seg)
		err := p.Parse(*pb)
		w.ga.Free(pb)
		w.releaseRetained()
		if err != nil && firstErr == nil {
			firstErr = err
			if !closed {
				p.CloseAndClean(err) // what the engine does on a parse error
				closed = true
			}
		}
	}
	if !closed {
		p.CloseAndClean(io.EOF)
	}
	w.releaseRetained()
	w.httpSt = nil
	r := w.r
	r.Count("http_messages_delivered", int64(st.requests))
	r.Count("http_body_bytes_delivered", int64(st.bodyRead))
	if firstErr != nil {
		r.Count("http_cases_ending_in_parse_error", 1)
		if firstErr == nbhttp.ErrTooLong {
			r.Count("http_cases_aborted_by_a_limit(ErrTooLong)", 1)
		}
	}
	if lines := h.PanicLines(w.env.Log.Take()); len(lines) > 0 {
		r.Count("http_recovered_panics_logged(observation,C08)", 1)
	}
	r.Seen("http_cell", fmt.Sprintf("client=%v read=%s maxbody=%d retain=%v mutated=%v closed-mid=%v err=%v", hc.Client, hc.Read, hc.MaxBody, hc.Retain, len(hc.Mutations) > 0, hc.CloseAfter >= 0, firstErr != nil))
	w.finish(c, nil)
}

func genHTTP(r *h.Run, i int) *caseT {
	rng := r.Rand("c11-http", i)
	hc := &httpCase{CloseAfter: -1}
	hc.Client = rng.Intn(4) == 0
	maxBody := []int{60, 300, 300, 3000}[rng.Intn(4)]
	if rng.Intn(40) == 0 {
		maxBody = 70000
	}
	stream, _ := httpgen.Stream(rng, httpgen.Opts{Response: hc.Client, MaxMsgs: 4, MaxBody: maxBody})
	if rng.Intn(100) < 40 {
		for k := 1 + rng.Intn(3); k > 0; k-- {
			var m string
			stream, m = httpgen.Mutate(rng, stream)
			hc.Mutations = append(hc.Mutations, m)
		}
	}
	switch x := rng.Intn(100); {
	case x < 15:
	case x < 30 && len(stream) <= 1500:
		hc.Cuts = httpgen.EveryByte(len(stream))
	case x < 60:
		hc.Cuts = httpgen.RandomCuts(rng, len(stream), 1+rng.Intn(4))
	default:
		hc.Cuts = httpgen.RandomCuts(rng, len(stream), 1+rng.Intn(1+len(stream)/8))
	}
	hc.Read = []string{"all", "all", "part", "none", "raw"}[rng.Intn(5)]
	hc.MaxBody = []int{0, 0, 0, 100, 100, 1000}[rng.Intn(6)]
	hc.Retain = rng.Intn(100) < 30
	if rng.Intn(100) < 15 {
		hc.CloseAfter = rng.Intn(len(hc.Cuts) + 1)
	}
	hc.Respond = []int{0, 5, 5, 2000, 2000, 66000}[rng.Intn(6)]
	hc.WriteFail = !hc.Client && r.Rand("c11-http-writefail", i).Intn(6) == 0
	hc.Stream = base64.StdEncoding.EncodeToString(stream)
	hc.Literal = h.Hex(stream, 300)
	role := "server"
	if hc.Client {
		role = "client"
	}
	return &caseT{Workload: "http", Index: i, HTTP: hc,
		Readable: fmt.Sprintf("%s parser, %d stream bytes in %d segments, %d mutations, body read=%s, MaxHTTPBodySize=%d, RetainHTTPBody=%v, close after segment %d, handler writes %d bytes", role, len(stream), len(hc.Cuts)+1, len(hc.Mutations), hc.Read, hc.MaxBody, hc.Retain, hc.CloseAfter, hc.Respond)}
}
