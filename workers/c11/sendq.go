package main

// Workload "sendq": the asynchronous send queue of a blocking-mode WebSocket
// connection (websocket.NewServerConn/NewClientConn with asyncWrite). Frames
// are allocated by WriteMessage, queued, written by a drainer goroutine and
// freed by it; CloseAndClean frees what is still queued. The case kinds drive
// the hand-over between the two: the net.Conn under the connection blocks its
// Write on a gate, so that the close happens while the drainer holds the head
// frame, between two frames, after a write error, or after the drain.
//
// The oracle is the guard allocator: a frame freed twice (once by the drainer,
// once by the close path), freed and then handed to the conn, or written after
// its free is reported with both sites.

import (
	"errors"
	"fmt"
	"net"
	"sync"
	"sync/atomic"
	"time"

	"github.com/lesismal/nbio/nbhttp"
	"github.com/lesismal/nbio/nbhttp/websocket"

	"verif/internal/h"
)

type sendqCase struct {
	Client   bool   `json:"client"`
	Frames   int    `json:"frames"`
	Size     int    `json:"size"`
	Kind     string `json:"kind"`     // drain-then-close | close-while-head-blocked | close-between-frames | write-error | queue-full
	CloseAt  int    `json:"close_at"` // the conn write (0-based) during which the close happens
	Compress bool   `json:"compress"`
	MaxQueue int    `json:"max_queue"`
}

func genSendQ(r *h.Run, i int) *caseT {
	rng := r.Rand("c11-sendq", i)
	kinds := []string{"drain-then-close", "close-while-head-blocked", "close-between-frames", "write-error", "queue-full"}
	sc := &sendqCase{
		Client:   rng.Intn(4) == 0,
		Frames:   1 + rng.Intn(9),
		Size:     []int{0, 1, 10, 125, 126, 700, 5000, 70000}[rng.Intn(8)],
		Kind:     kinds[rng.Intn(len(kinds))],
		Compress: rng.Intn(4) == 0,
	}
	sc.CloseAt = rng.Intn(sc.Frames)
	if sc.Kind == "queue-full" {
		sc.MaxQueue = 1 + rng.Intn(3)
		sc.Frames = sc.MaxQueue + 1 + rng.Intn(4)
	}
	return &caseT{Workload: "sendq", Index: i, SendQ: sc,
		Readable: fmt.Sprintf("async send queue: client=%v frames=%d size=%d kind=%s close_at=%d compress=%v max_queue=%d", sc.Client, sc.Frames, sc.Size, sc.Kind, sc.CloseAt, sc.Compress, sc.MaxQueue)}
}

// gateConn is the net.Conn under the connection: every Write announces itself,
// waits for a token and then succeeds or fails as told.
type gateConn struct {
	w        *worker
	entered  chan int      // write number, sent when a Write has started
	token    chan error    // one token per Write: nil = succeed
	done     chan struct{} // closed at the end of the case
	writes   atomic.Int64  // writes that returned
	inWrite  atomic.Int64  // writes in progress
	closed   atomic.Bool
	mu       sync.Mutex
	received int
}

func (g *gateConn) Write(b []byte) (int, error) {
	g.inWrite.Add(1)
	defer g.inWrite.Add(-1)
	n := int(g.writes.Load())
	g.w.ga.CheckLive(b, "freed-buffer-handed-to-conn-write")
	g.entered <- n
	var err error
	select {
	case err = <-g.token:
	case <-g.done:
		// the case is over: a write nobody answers any more must not keep its goroutine (and the
		// quiet loop of this and later cases) waiting
		err = errors.New("gateConn: case over")
	}
	// the bytes are read again after the wait, as a kernel copying them late would
	g.w.ga.CheckLive(b, "buffer-freed-while-conn-write-in-progress")
	g.writes.Add(1)
	if err != nil {
		return 0, err
	}
	g.mu.Lock()
	g.received += len(b)
	g.mu.Unlock()
	return len(b), nil
}
func (g *gateConn) Read(b []byte) (int, error)       { return 0, errors.New("gateConn: not readable") }
func (g *gateConn) Close() error                     { g.closed.Store(true); return nil }
func (g *gateConn) LocalAddr() net.Addr              { return &net.TCPAddr{IP: net.IPv4(127, 0, 0, 1), Port: 1} }
func (g *gateConn) RemoteAddr() net.Addr             { return &net.TCPAddr{IP: net.IPv4(127, 0, 0, 1), Port: 2} }
func (g *gateConn) SetDeadline(time.Time) error      { return nil }
func (g *gateConn) SetReadDeadline(time.Time) error  { return nil }
func (g *gateConn) SetWriteDeadline(time.Time) error { return nil }

var sendqEngine *nbhttp.Engine

func (w *worker) runSendQ(c *caseT) {
	r := w.r
	sc := c.SendQ
	if sendqEngine == nil {
		sendqEngine = nbhttp.NewEngine(nbhttp.Config{BodyAllocator: w.ga, ReadBufferPool: w.ga})
	}
	u := websocket.NewUpgrader()
	u.Engine = sendqEngine
	u.BlockingModAsyncWrite = true
	u.BlockingModSendQueueMaxSize = uint16(sc.MaxQueue)
	u.BlockingModAsyncCloseDelay = time.Millisecond
	if sc.Compress {
		u.EnableCompression(true)
	}
	g := &gateConn{w: w, entered: make(chan int, 64), token: make(chan error, 64), done: make(chan struct{})}
	defer close(g.done)
	var wsc *websocket.Conn
	if sc.Client {
		wsc = websocket.NewClientConn(u, g, "", sc.Compress, true)
	} else {
		wsc = websocket.NewServerConn(u, g, "", sc.Compress, true)
	}
	wsc.EnableWriteCompression(sc.Compress)
	payload := make([]byte, sc.Size)
	for i := range payload {
		payload[i] = byte('a' + i%23)
	}

	waitEntered := func() bool {
		select {
		case <-g.entered:
			return true
		case <-time.After(10 * time.Second):
			return false
		}
	}
	// quiet: no write in progress and none started for a while (the drainer has
	// left its loop or is parked for good)
	quiet := func() {
		stable := 0
		// (a wait of the harness, not a verdict: bounded by time, the sleeps below take a
		// millisecond each on a loaded machine)
		for t0 := time.Now(); stable < 3 && time.Since(t0) < 400*time.Millisecond; {
			if g.inWrite.Load() == 0 && len(g.entered) == 0 {
				stable++
			} else {
				stable = 0
				select {
				case <-g.entered:
					g.token <- nil
				default:
				}
			}
			time.Sleep(100 * time.Microsecond)
		}
	}

	queued, full := 0, 0
	for i := 0; i < sc.Frames; i++ {
		err := wsc.WriteMessage(websocket.BinaryMessage, payload)
		switch {
		case err == nil:
			queued++
		case errors.Is(err, websocket.ErrMessageSendQuqueIsFull):
			full++
		}
		if i == 0 && !waitEntered() { // the drainer holds the head frame now
			r.Inconclusive("sendq: the drainer never called the conn's Write")
			g.token <- errors.New("abort")
			return
		}
	}
	inflight := true // write 0 is waiting for its token
	switch sc.Kind {
	case "drain-then-close", "queue-full":
		for k := 0; k < queued; k++ {
			if !inflight && !waitEntered() {
				break
			}
			g.token <- nil
			inflight = false
		}
		quiet()
		wsc.CloseAndClean(errors.New("closed by the harness"))
	case "close-while-head-blocked":
		// the close frees what is queued while the drainer is inside Write with the head frame
		wsc.CloseAndClean(errors.New("closed by the harness"))
		g.token <- nil
		quiet()
	case "close-between-frames":
		// some frames are written; the close happens while write close_at is in progress
		at := sc.CloseAt
		if at >= queued {
			at = queued - 1
		}
		for k := 0; k < at; k++ {
			g.token <- nil
			if !waitEntered() {
				break
			}
		}
		wsc.CloseAndClean(errors.New("closed by the harness"))
		g.token <- nil
		quiet()
	case "write-error":
		at := sc.CloseAt
		if at >= queued {
			at = queued - 1
		}
		for k := 0; k < at; k++ {
			g.token <- nil
			if !waitEntered() {
				break
			}
		}
		g.token <- errors.New("write failed")
		quiet()
		// the reader of a blocking-mode connection ends with CloseAndClean
		wsc.CloseAndClean(errors.New("read failed"))
		quiet()
	}
	// a message written after the close must not reach the conn nor leak a use after free
	_ = wsc.WriteMessage(websocket.BinaryMessage, payload)
	quiet()
	r.Count("sendq_frames_queued", int64(queued))
	r.Count("sendq_queue_full_refusals", int64(full))
	r.Count("sendq_conn_writes", g.writes.Load())
	r.Seen("sendq_cell", fmt.Sprintf("kind=%s client=%v compress=%v", sc.Kind, sc.Client, sc.Compress))
	w.finish(c, nil)
}
