package main

import (
	"bytes"
	"encoding/base64"
	"fmt"
	"io"
	"math/rand"
	"net"
	"net/http"
	"reflect"
	"strings"
	"unsafe"

	"github.com/lesismal/nbio/nbhttp"
	"github.com/lesismal/nbio/nbhttp/websocket"

	"verif/internal/h"
	"verif/internal/wsref"
	"verif/internal/wsref/nbdrive"
)

type wsSend struct {
	AtSegment int `json:"at_segment"` // WriteMessage after this many segments have been fed
	Type      int `json:"type"`
	N         int `json:"n"`
}

type wsCase struct {
	// Upgrade: the connection is created by Upgrader.Upgrade from an HTTP
	// request parsed in memory (blocking-mode code path: handlers run through
	// Engine.SyncCall); otherwise an nbdrive endpoint (NewServerConn /
	// NewClientConn, handlers run as jobs on the connection's executor).
	Upgrade     bool   `json:"upgrade,omitempty"`
	Handshake   string `json:"handshake,omitempty"` // ok | piggyback (frames in the same read as the handshake) | split | bad-version | no-key | post
	Client      bool   `json:"client,omitempty"`
	Compression bool   `json:"compression,omitempty"`
	MaxFrame    int    `json:"max_frame,omitempty"`
	MsgLimit    int    `json:"msg_limit"`
	ReadLimit   int    `json:"read_limit,omitempty"`
	Release     bool   `json:"release_payload,omitempty"` // ReleasePayload / ReleaseWebsocketPayload
	AppFrees    bool   `json:"app_frees,omitempty"`       // release off: the application returns the payload itself
	DataFrame   bool   `json:"on_data_frame,omitempty"`

	Wire      string      `json:"wire_b64"`
	Frames    []string    `json:"frames,omitempty"`
	Seg       nbdrive.Seg `json:"segmentation"`
	StopAfter int         `json:"stop_after_segments"` // CloseAndClean after this many segments; -1: at the end
	// Scan: every frame of the input is valid, so every delivered payload is
	// one of the generated ones (none of which holds the poison byte): poison
	// in a delivered payload then proves a read after free. Off as soon as the
	// input holds a protocol violation (wrong masking or bytes that are no
	// deflate stream can legitimately turn into any byte).
	Scan  bool     `json:"scan_payloads_for_poison,omitempty"`
	Sends []wsSend `json:"sends,omitempty"`
}

type wsState struct {
	c         *caseT
	wc        *wsCase
	messages  int
	frames    int
	scan      bool
	delivered int
}

type upEngine struct{ e *nbhttp.Engine }

// setReleasePayload does what Upgrader.Upgrade does for the connections it
// creates (`wsc.releasePayload = u.ReleasePayload || engine.ReleaseWebsocketPayload`);
// NewServerConn/NewClientConn leave the unexported field false.
func setReleasePayload(c *websocket.Conn, v bool) bool {
	f := reflect.ValueOf(c).Elem().FieldByName("releasePayload")
	if !f.IsValid() || f.Kind() != reflect.Bool || !f.CanAddr() {
		return false
	}
	*(*bool)(unsafe.Pointer(f.UnsafeAddr())) = v
	return true
}

// payload delivered to the application: must be live, must not hold poison.
func (w *worker) wsDelivered(what string, p *[]byte) {
	st := w.wsSt
	if st == nil || p == nil {
		return
	}
	b := *p
	if !w.ga.CheckLive(b, "freed-buffer-delivered-to-"+what) && w.ga.FaultMode() {
		return // the bytes are inaccessible
	}
	st.delivered += len(b)
	// data frames of compressed messages are delivered compressed: any byte may occur
	if st.scan && !(what == "on-data-frame" && st.wc.Compression) {
		if i := bytes.IndexByte(b, w.ga.Poison()); i >= 0 {
			w.violate(st.c, "c11:read-after-free:poison-in-payload-delivered-to-"+what,
				fmt.Sprintf("the payload handed to %s contains the poison byte 0x%02x at offset %d of %d; no payload in the input contains that byte: it was read from a buffer after the buffer had been freed\npayload: %s", what, w.ga.Poison(), i, len(b), h.Hex(b, 100)))
		}
	}
	if !st.wc.Release && st.wc.AppFrees {
		// release is off: the application owns the buffer and returns it
		w.ga.Free(p)
	}
}

func (w *worker) wsHandlers(u *websocket.Upgrader) {
	u.OnMessagePtr(func(c *websocket.Conn, mt websocket.MessageType, p *[]byte) {
		if w.wsSt != nil {
			w.wsSt.messages++
		}
		w.wsDelivered("on-message", p)
	})
	if w.wsSt.wc.DataFrame {
		u.OnDataFramePtr(func(c *websocket.Conn, mt websocket.MessageType, fin bool, p *[]byte) {
			if w.wsSt != nil {
				w.wsSt.frames++
			}
			w.wsDelivered("on-data-frame", p)
		})
	}
}

var wsSendFill = func() []byte {
	b := make([]byte, 1<<18)
	for i := range b {
		b[i] = byte('A' + (i*3+i/61)%50)
	}
	return b
}()

func (w *worker) upEngine(release bool) *nbhttp.Engine {
	if e := w.upEngines[release]; e != nil {
		return e.e
	}
	inline := func(f func()) { f() }
	e := nbhttp.NewEngine(nbhttp.Config{
		Handler:                 http.HandlerFunc(w.upgradeServe),
		BodyAllocator:           w.ga,
		ReadBufferPool:          w.ga,
		ReleaseWebsocketPayload: release,
		ServerExecutor:          inline,
		ClientExecutor:          inline,
	})
	w.upEngines[release] = &upEngine{e: e}
	return e
}

var curUpgrader *websocket.Upgrader
var curUpgraded *websocket.Conn

var upgradeCount int

func (w *worker) upgradeServe(rw http.ResponseWriter, req *http.Request) {
	if curUpgrader == nil {
		return
	}
	// every third upgrade answers with response headers of its own, one of them long enough for
	// the handshake buffer to grow (and, with an allocator that moves on growth, to move) while a
	// header value is being copied
	var hdr http.Header
	upgradeCount++
	if upgradeCount%3 == 0 {
		hdr = http.Header{}
		hdr.Set("X-Session-Ticket", strings.Repeat("t", []int{100, 900, 1000, 2000, 5000}[upgradeCount/3%5]))
		hdr.Set("X-After", "value-after-the-long-one")
		w.r.Count("upgrades_with_long_response_headers", 1)
	}
	c, err := curUpgrader.Upgrade(rw, req, hdr)
	if err == nil {
		curUpgraded = c
	}
}

func handshakeBytes(kind string, compression bool) []byte {
	var sb strings.Builder
	method := "GET"
	if kind == "post" {
		method = "POST"
	}
	sb.WriteString(method + " /ws HTTP/1.1\r\nHost: verif\r\nConnection: Upgrade\r\nUpgrade: websocket\r\n")
	if kind == "bad-version" {
		sb.WriteString("Sec-WebSocket-Version: 8\r\n")
	} else {
		sb.WriteString("Sec-WebSocket-Version: 13\r\n")
	}
	if kind != "no-key" {
		sb.WriteString("Sec-WebSocket-Key: dGhlIHNhbXBsZSBub25jZQ==\r\n")
	}
	if compression {
		sb.WriteString("Sec-WebSocket-Extensions: permessage-deflate; client_max_window_bits\r\n")
	}
	if kind == "post" {
		sb.WriteString("Content-Length: 0\r\n")
	}
	sb.WriteString("\r\n")
	return []byte(sb.String())
}

// feed hands one read's worth of bytes to parse from a buffer that is only
// valid during the call, like the engine's read buffer.
func (w *worker) feed(parse func([]byte) error, seg []byte) error {
	pb := w.ga.Malloc(len(seg))
	copy(*pb, seg)
	err := parse(*pb)
	w.ga.Free(pb)
	return err
}

func (w *worker) runWS(c *caseT) {
	wc := c.WS
	wire, err := base64.StdEncoding.DecodeString(wc.Wire)
	if err != nil {
		w.r.Inconclusive("bad wire in case: " + err.Error())
		return
	}
	st := &wsState{c: c, wc: wc, scan: wc.Scan}
	w.wsSt = st
	w.env.Log.Take()
	w.env.TakeGuard()
	r := w.r
	cuts := wc.Seg.Cuts(len(wire))
	segs := [][]byte{}
	prev := 0
	for _, x := range cuts {
		if x > prev && x < len(wire) {
			segs = append(segs, wire[prev:x])
			prev = x
		}
	}
	if prev < len(wire) || len(wire) == 0 {
		segs = append(segs, wire[prev:])
	}

	doSends := func(write func(mt websocket.MessageType, data []byte) error, seg int) {
		for _, s := range wc.Sends {
			if s.AtSegment == seg {
				_ = write(websocket.MessageType(s.Type), wsSendFill[:s.N])
				r.Count("ws_write_message_calls", 1)
			}
		}
	}

	if !wc.Upgrade {
		cfg := nbdrive.Config{Client: wc.Client, Compression: wc.Compression, MaxFrame: wc.MaxFrame, ReadLimit: wc.ReadLimit, MsgLimit: wc.MsgLimit,
			NoOutObs: true, Allocator: w.ga, AfterMessage: func(p *[]byte) {}}
		ep := nbdrive.New(cfg)
		w.wsHandlers(ep.U)
		ep.Conn.Conn = &wrapConn{Conn: ep.Conn.Conn, w: w}
		if wc.Release {
			if !setReleasePayload(ep.Conn, true) {
				r.Count("ws_release_payload_field_not_found", 1)
			}
		}
		stopped := false
		for i, seg := range segs {
			if wc.StopAfter >= 0 && i == wc.StopAfter {
				ep.Finish()
				stopped = true
				r.Count("ws_closed_mid_stream", 1)
			}
			_ = w.feed(ep.Feed, seg)
			doSends(func(mt websocket.MessageType, d []byte) error { return ep.Write(int(mt), d) }, i+1)
		}
		if !stopped {
			ep.Finish()
		}
		if ep.ParseErr != nil {
			r.Count("ws_cases_failed_by_nbio(parse_error)", 1)
			r.Seen("ws_error", normWSErr(ep.ParseErr.Error()))
		}
		if len(ep.JobPanics) > 0 {
			r.Count("ws_panics_in_handler_jobs(observation)", 1)
		}
	} else {
		u := websocket.NewUpgrader()
		u.Engine = w.upEngine(wc.Release)
		u.CheckOrigin = func(*http.Request) bool { return true }
		u.BlockingModAsyncWrite = false
		u.BlockingModHandleRead = false
		u.KeepaliveTime = 0
		if wc.MsgLimit >= 0 {
			u.MessageLengthLimit = wc.MsgLimit
		}
		if wc.Compression {
			u.EnableCompression(true)
		}
		w.wsHandlers(u)
		curUpgrader, curUpgraded = u, nil
		conn := &checkConn{ga: w.ga}
		parser := nbhttp.NewParser(conn, u.Engine, nbhttp.NewServerProcessor(), false, nil)
		var pc nbhttp.ParserCloser = parser
		closed := false
		closeAll := func(err error) {
			if !closed {
				closed = true
				pc.CloseAndClean(err)
			}
		}
		conn.onClose = func() {}
		hs := handshakeBytes(wc.Handshake, wc.Compression)
		var reads [][]byte
		switch wc.Handshake {
		case "piggyback":
			first := append(append([]byte{}, hs...), segs[0]...)
			reads = append([][]byte{first}, segs[1:]...)
		case "split":
			reads = append([][]byte{hs[:len(hs)/2], hs[len(hs)/2:]}, segs...)
		default:
			reads = append([][]byte{hs}, segs...)
		}
		for i, seg := range reads {
			if wc.StopAfter >= 0 && i == wc.StopAfter+1 {
				closeAll(io.EOF)
				r.Count("ws_closed_mid_stream", 1)
			}
			err := w.feed(pc.Parse, seg)
			// what the engine's blocking read loop does once the parser has been upgraded
			if parser != nil && parser.ParserCloser != nil {
				pc = parser.ParserCloser
				parser.CloseAndClean(nil)
				parser = nil
				r.Count("ws_connections_upgraded_in_memory", 1)
			}
			if err != nil {
				closeAll(err)
			}
			if curUpgraded != nil {
				doSends(curUpgraded.WriteMessage, i)
			}
		}
		closeAll(io.EOF)
		curUpgrader, curUpgraded = nil, nil
	}
	w.wsSt = nil
	r.Count("ws_messages_delivered", int64(st.messages))
	r.Count("ws_data_frames_delivered", int64(st.frames))
	r.Count("ws_payload_bytes_delivered", int64(st.delivered))
	if lines := h.PanicLines(w.env.Log.Take()); len(lines) > 0 {
		r.Count("ws_recovered_panics_logged(observation)", 1)
	}
	r.Seen("ws_cell", fmt.Sprintf("upgrade=%v client=%v compression=%v release=%v appfrees=%v dataframe=%v stop=%v", wc.Upgrade, wc.Client, wc.Compression, wc.Release, wc.AppFrees, wc.DataFrame, wc.StopAfter >= 0))
	w.finish(c, nil)
}

// wrapConn adds the liveness check to nbdrive's recording conn.
type wrapConn struct {
	net.Conn
	w *worker
}

func (c *wrapConn) Write(b []byte) (int, error) {
	if !c.w.ga.CheckLive(b, "freed-buffer-handed-to-conn-write") && c.w.ga.FaultMode() {
		return len(b), nil // the bytes are inaccessible
	}
	return c.Conn.Write(b)
}

func normWSErr(s string) string {
	if i := strings.IndexAny(s, "0123456789"); i > 0 {
		s = s[:i]
	}
	if len(s) > 60 {
		s = s[:60]
	}
	return strings.TrimSpace(s)
}

// ---------------------------------------------------------------- generation

func wsPayload(rng *rand.Rand, n int, text bool) []byte {
	b := make([]byte, n)
	if text || rng.Intn(2) == 0 {
		// printable, compressible
		words := []string{"nbio ", "websocket ", "0123456789", "aaaaaaaa", "\n", "lorem ipsum "}
		out := b[:0]
		for len(out) < n {
			out = append(out, words[rng.Intn(len(words))]...)
		}
		return out[:n]
	}
	for i := range b {
		b[i] = byte(rng.Intn(0x7f)) // never the poison or fill byte
	}
	return b
}

func genWS(r *h.Run, i int) *caseT {
	rng := r.Rand("c11-ws", i)
	wc := &wsCase{StopAfter: -1, Scan: true}
	wc.Upgrade = rng.Intn(100) < 30
	if wc.Upgrade {
		wc.Handshake = []string{"ok", "ok", "ok", "piggyback", "piggyback", "split", "bad-version", "no-key", "post"}[rng.Intn(9)]
	} else {
		wc.Client = rng.Intn(100) < 30
	}
	wc.Compression = rng.Intn(100) < 40
	wc.MaxFrame = []int{0, 0, 1024, 125}[rng.Intn(4)]
	wc.MsgLimit = []int{-1, -1, 0, 1000, 70000}[rng.Intn(5)]
	if rng.Intn(8) == 0 {
		wc.ReadLimit = []int{512, 4096}[rng.Intn(2)]
	}
	wc.Release = rng.Intn(2) == 0
	wc.AppFrees = !wc.Release && rng.Intn(2) == 0
	wc.DataFrame = rng.Intn(100) < 35
	masked := !wc.Client
	key := func() [4]byte {
		return [4]byte{byte(rng.Intn(256)), byte(rng.Intn(256)), byte(rng.Intn(256)), byte(rng.Intn(256))}
	}
	sizes := []int{0, 1, 2, 125, 126, 127, 200, 1000, 1023, 1024, 1025, 4000, 32767, 32768, 32769, 65535, 65536, 70001}
	var frames []wsref.Frame
	note := func(s string) { wc.Frames = append(wc.Frames, s) }
	nItems := 1 + rng.Intn(6)
	for k := 0; k < nItems; k++ {
		switch x := rng.Intn(100); {
		case x < 55: // a data message
			n := sizes[rng.Intn(len(sizes))]
			if rng.Intn(3) == 0 {
				n = rng.Intn(300)
			}
			if wc.MsgLimit > 0 && rng.Intn(3) == 0 {
				n = wc.MsgLimit - 1 + rng.Intn(3)
			}
			text := rng.Intn(2) == 0
			typ := byte(wsref.OpBinary)
			if text {
				typ = wsref.OpText
			}
			o := wsref.FragmentOpts{Masked: masked, NextKey: key, Compressed: wc.Compression && rng.Intn(2) == 0, Level: 1}
			payload := wsPayload(rng, n, text)
			plen := n
			if o.Compressed {
				plen = len(wsref.Deflate(payload, 1))
			}
			for c := rng.Intn(4); c > 0 && plen > 0; c-- {
				o.Cuts = append(o.Cuts, rng.Intn(plen+1))
			}
			sortInts(o.Cuts)
			fs := wsref.Fragment(wsref.Message{Type: typ, Payload: payload}, o)
			// sometimes a control frame between the fragments
			if len(fs) > 1 && rng.Intn(3) == 0 {
				ping := wsref.Frame{Fin: true, Opcode: wsref.OpPing, Masked: masked, Key: key(), Payload: wsPayload(rng, rng.Intn(126), true)}
				fs = append(fs[:1], append([]wsref.Frame{ping}, fs[1:]...)...)
			}
			frames = append(frames, fs...)
			note(fmt.Sprintf("message type=%d len=%d frames=%d compressed=%v", typ, n, len(fs), o.Compressed))
		case x < 70: // control frames
			op := []byte{wsref.OpPing, wsref.OpPong, wsref.OpPing}[rng.Intn(3)]
			n := []int{0, 1, 50, 125}[rng.Intn(4)]
			frames = append(frames, wsref.Frame{Fin: true, Opcode: op, Masked: masked, Key: key(), Payload: wsPayload(rng, n, true)})
			note(fmt.Sprintf("control op=%d len=%d", op, n))
		case x < 78: // close
			var p []byte
			switch rng.Intn(4) {
			case 0:
			case 1:
				p = []byte{3} // one byte: invalid
			case 2:
				p = wsref.ClosePayload(1000, "bye")
			default:
				p = wsref.ClosePayload(1001, strings.Repeat("r", rng.Intn(124)))
			}
			frames = append(frames, wsref.Frame{Fin: true, Opcode: wsref.OpClose, Masked: masked, Key: key(), Payload: p})
			note(fmt.Sprintf("close len=%d", len(p)))
		default: // protocol violations and resource errors
			f := wsref.Frame{Fin: true, Opcode: wsref.OpBinary, Masked: masked, Key: key(), Payload: wsPayload(rng, rng.Intn(200), false)}
			what := ""
			switch rng.Intn(9) {
			case 0:
				f.Opcode, what = 3, "reserved opcode"
			case 1:
				f.Rsv2, what = true, "rsv2"
			case 2:
				f.Opcode, what = wsref.OpCont, "continuation without a message"
			case 3:
				f.Fin, what = false, "unfinished message followed by a new one"
				frames = append(frames, f)
				f = wsref.Frame{Fin: true, Opcode: wsref.OpText, Masked: masked, Key: key(), Payload: []byte("new")}
			case 4:
				f.Opcode, f.Payload, what = wsref.OpText, []byte{'a', 0xff, 0xfe, 'b'}, "invalid utf-8"
			case 5:
				f.Opcode, f.Payload, what = wsref.OpPing, wsPayload(rng, 126+rng.Intn(100), true), "oversized control frame"
			case 6:
				f.Opcode, f.Fin, what = wsref.OpPing, false, "fragmented control frame"
			case 7:
				f.Rsv1, f.Payload, what = true, wsPayload(rng, 30+rng.Intn(100), false), "rsv1 with bytes that are no deflate stream"
			default:
				f.Masked, what = !masked, "wrong masking for the role"
			}
			frames = append(frames, f)
			note("violation: " + what)
			wc.Scan = false
		}
	}
	wire := wsref.Encode(frames)
	if rng.Intn(100) < 12 && len(wire) > 3 {
		wire = wire[:len(wire)-1-rng.Intn(minInt(len(wire)-1, 40))] // the stream ends in the middle of a frame
		note("truncated")
	}
	switch x := rng.Intn(100); {
	case x < 15:
		wc.Seg = nbdrive.Seg{Kind: "whole"}
	case x < 30 && len(wire) <= 3000:
		wc.Seg = nbdrive.Seg{Kind: "bytes"}
	case x < 45:
		wc.Seg = nbdrive.Seg{Kind: "chunks", N: 1 + rng.Intn(700)}
	default:
		wc.Seg = nbdrive.Seg{Kind: "random", N: 1 + rng.Intn(12), Seed: rng.Int63()}
	}
	nseg := len(wc.Seg.Cuts(len(wire))) + 1
	if rng.Intn(100) < 25 {
		wc.StopAfter = rng.Intn(nseg + 1)
	}
	for k := rng.Intn(3); k > 0; k-- {
		s := wsSend{AtSegment: rng.Intn(nseg + 1), Type: []int{1, 2, 2, 9}[rng.Intn(4)]}
		s.N = []int{0, 1, 125, 126, 1000, 1024, 1025, 32768, 32769, 70000}[rng.Intn(10)]
		if s.Type == 9 && s.N > 125 {
			s.N = 125
		}
		wc.Sends = append(wc.Sends, s)
	}
	wc.Wire = base64.StdEncoding.EncodeToString(wire)
	how := "nbdrive"
	if wc.Upgrade {
		how = "Upgrade(" + wc.Handshake + ")"
	}
	return &caseT{Workload: "ws", Index: i, WS: wc,
		Readable: fmt.Sprintf("%s client=%v compression=%v max_frame=%d msg_limit=%d release=%v app_frees=%v on_data_frame=%v, %d inbound bytes (%s) cut %s, stop after %d, sends %v",
			how, wc.Client, wc.Compression, wc.MaxFrame, wc.MsgLimit, wc.Release, wc.AppFrees, wc.DataFrame, len(wire), strings.Join(wc.Frames, "; "), wc.Seg.Kind, wc.StopAfter, wc.Sends)}
}

func sortInts(a []int) {
	for i := 1; i < len(a); i++ {
		for j := i; j > 0 && a[j] < a[j-1]; j-- {
			a[j], a[j-1] = a[j-1], a[j]
		}
	}
}

func minInt(a, b int) int {
	if a < b {
		return a
	}
	return b
}
