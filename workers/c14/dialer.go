package main

// Phase "dialer": the same callback clauses for connections nbio makes itself
// (websocket.Dialer on a client engine). The peer is a by-hand server: it
// answers the handshake and, in the same write, sends its first messages - the
// case in which "the open callback completes before any message callback" has
// something to decide on the client side - then more messages, then ends the
// connection with a close frame or by closing the socket. The client's
// callbacks are stamped with one atomic clock and an inside-counter:
//
//	no message callback starts before the open callback has returned (and the
//	session the open callback set is visible in it),
//	message callbacks do not overlap and come in wire order,
//	exactly one close callback, after them (decided when it arrived, or in the
//	final history).

import (
	"bufio"
	"crypto/sha1"
	"encoding/base64"
	"fmt"
	"net"
	"strings"
	"sync"
	"sync/atomic"
	"time"

	"github.com/lesismal/nbio"
	"github.com/lesismal/nbio/nbhttp"
	"github.com/lesismal/nbio/nbhttp/websocket"

	"verif/internal/e2e"
	"verif/internal/h"
	"verif/internal/wsref"
)

type dialerCase struct {
	Index  int    `json:"index"`
	Dialer bool   `json:"dialer"`
	Mode   string `json:"mode"`
	Conns  int    `json:"conns"`
	First  int    `json:"messages_with_the_handshake_response"`
	Later  int    `json:"messages_later"`
	OpenUs int    `json:"open_handler_us"`
	End    string `json:"end"` // close-frame | tcp-close
	Seed   int64  `json:"seed"`
}

func genDialer(r *h.Run, idx int) dialerCase {
	rng := r.Rand("c14-dialer", idx)
	return dialerCase{Index: idx, Dialer: true, Mode: modes[idx%3], Conns: 1 + rng.Intn(6), First: 1 + rng.Intn(4), Later: rng.Intn(6),
		OpenUs: []int{0, 0, 200, 2000, 20000}[rng.Intn(5)], End: []string{"close-frame", "tcp-close"}[rng.Intn(2)], Seed: rng.Int63()}
}

type dialEv struct {
	t    int64
	what string // open-begin | open-end | msg-begin | msg-end | close
	seq  int
}

type dialLog struct {
	mu     sync.Mutex
	evs    []dialEv
	inside int32
	closed chan struct{}
}

var dialProgress int64

// dialServe is the by-hand server side of one connection.
func dialServe(nc net.Conn, c dialerCase, id int) {
	defer nc.Close()
	br := bufio.NewReader(nc)
	key := ""
	for {
		l, err := br.ReadString('\n')
		if err != nil {
			return
		}
		if i := strings.Index(l, ":"); i > 0 && strings.EqualFold(strings.TrimSpace(l[:i]), "Sec-WebSocket-Key") {
			key = strings.TrimSpace(l[i+1:])
		}
		if l == "\r\n" {
			break
		}
	}
	sum := sha1.Sum([]byte(key + "258EAFA5-E914-47DA-95CA-C5AB0DC85B11"))
	resp := "HTTP/1.1 101 Switching Protocols\r\nUpgrade: websocket\r\nConnection: Upgrade\r\nSec-WebSocket-Accept: " + base64.StdEncoding.EncodeToString(sum[:]) + "\r\n\r\n"
	msg := func(k int) wsref.Frame {
		return wsref.Frame{Fin: true, Opcode: wsref.OpText, Payload: []byte(fmt.Sprintf("c%d.m%d", id, k))}
	}
	var first []wsref.Frame
	for k := 0; k < c.First; k++ {
		first = append(first, msg(k))
	}
	// the handshake response and the first messages leave in one write
	if _, err := nc.Write(append([]byte(resp), wsref.Encode(first)...)); err != nil {
		return
	}
	for k := c.First; k < c.First+c.Later; k++ {
		time.Sleep(time.Duration(200+37*k) * time.Microsecond)
		if _, err := nc.Write(wsref.Encode([]wsref.Frame{msg(k)})); err != nil {
			return
		}
	}
	if c.End == "close-frame" {
		_, _ = nc.Write(wsref.Encode([]wsref.Frame{{Fin: true, Opcode: wsref.OpClose, Payload: wsref.ClosePayload(1000, "")}}))
		// the client answers and closes; wait for the end of the stream
		_ = nc.SetReadDeadline(time.Now().Add(20 * time.Second))
		buf := make([]byte, 512)
		for {
			if _, err := br.Read(buf); err != nil {
				return
			}
		}
	}
}

func runDialerCase(r *h.Run, c dialerCase) {
	r.Eval(1)
	ln, err := net.Listen("tcp", "127.0.0.1:0")
	if err != nil {
		r.Inconclusive("dialer phase: listen: " + err.Error())
		return
	}
	defer ln.Close()
	var accN int32
	go func() {
		for {
			nc, err := ln.Accept()
			if err != nil {
				return
			}
			id := int(atomic.AddInt32(&accN, 1)) - 1
			go dialServe(nc, c, id)
		}
	}()
	cfg := nbhttp.Config{Name: "c14-dialer", NPoller: 2}
	switch c.Mode {
	case "ET":
		cfg.EpollMod = nbio.EPOLLET
	case "ONESHOT":
		cfg.EpollMod = nbio.EPOLLET
		cfg.EPOLLONESHOT = nbio.EPOLLONESHOT
	}
	eng := nbhttp.NewEngine(cfg)
	if err := eng.Start(); err != nil {
		r.Inconclusive("dialer phase: engine start: " + err.Error())
		return
	}
	defer eng.Stop()
	var clock int64
	var lmu sync.Mutex
	logs := map[*websocket.Conn]*dialLog{}
	get := func(wc *websocket.Conn) *dialLog {
		lmu.Lock()
		defer lmu.Unlock()
		l := logs[wc]
		if l == nil {
			l = &dialLog{closed: make(chan struct{})}
			logs[wc] = l
		}
		return l
	}
	add := func(l *dialLog, what string, seq int) {
		l.mu.Lock()
		l.evs = append(l.evs, dialEv{atomic.AddInt64(&clock, 1), what, seq})
		l.mu.Unlock()
		atomic.AddInt64(&dialProgress, 1)
	}
	type marker struct{ n int }
	u := websocket.NewUpgrader()
	u.OnOpen(func(wc *websocket.Conn) {
		l := get(wc)
		add(l, "open-begin", 0)
		if c.OpenUs > 0 {
			time.Sleep(time.Duration(c.OpenUs) * time.Microsecond)
		}
		wc.SetSession(&marker{1})
		add(l, "open-end", 0)
	})
	u.OnMessage(func(wc *websocket.Conn, mt websocket.MessageType, data []byte) {
		l := get(wc)
		in := atomic.AddInt32(&l.inside, 1)
		seq := -1
		if i := strings.LastIndex(string(data), ".m"); i >= 0 {
			fmt.Sscanf(string(data[i+2:]), "%d", &seq)
		}
		add(l, "msg-begin", seq)
		if in > 1 {
			add(l, "overlap", seq)
		}
		if _, ok := wc.Session().(*marker); !ok {
			add(l, "no-session", seq)
		}
		add(l, "msg-end", seq)
		atomic.AddInt32(&l.inside, -1)
	})
	u.OnClose(func(wc *websocket.Conn, err error) {
		l := get(wc)
		add(l, "close", int(atomic.LoadInt32(&l.inside)))
		select {
		case <-l.closed:
		default:
			close(l.closed)
		}
	})
	var wg sync.WaitGroup
	var cmu sync.Mutex
	var conns []*websocket.Conn
	for k := 0; k < c.Conns; k++ {
		wg.Add(1)
		go func() {
			defer wg.Done()
			d := &websocket.Dialer{Engine: eng, Upgrader: u, DialTimeout: 10 * time.Second}
			wc, _, err := d.Dial("ws://"+ln.Addr().String()+"/ws", nil)
			if err != nil || wc == nil {
				r.Inconclusive(fmt.Sprintf("dialer case %d: Dial: %v", c.Index, err))
				return
			}
			cmu.Lock()
			conns = append(conns, wc)
			cmu.Unlock()
		}()
	}
	wg.Wait()
	if len(conns) != c.Conns {
		return
	}
	cls := "dialer:" + c.Mode
	for _, wc := range conns {
		l := get(wc)
		switch e2e.WaitQuiet(l.closed, func() int64 { return atomic.LoadInt64(&dialProgress) }, 60*time.Second) {
		case "done":
		case "quiet":
			l.mu.Lock()
			evs := fmt.Sprint(l.evs)
			l.mu.Unlock()
			r.Violate("c14:"+cls+":close-callback-count", fmt.Sprintf("the server ended the connection (%s) after %d messages; the history is final (no progress, idle CPU, 3 s) and the client's close callback has not run\nevents: %s", c.End, c.First+c.Later, evs), c)
			return
		default:
			r.Inconclusive(fmt.Sprintf("dialer case %d: neither closed nor quiet", c.Index))
			return
		}
	}
	// a second close callback would come shortly after the first, if at all
	time.Sleep(5 * time.Millisecond)
	for _, wc := range conns {
		l := get(wc)
		l.mu.Lock()
		evs := append([]dialEv(nil), l.evs...)
		l.mu.Unlock()
		render := func() string {
			var sb strings.Builder
			for _, e := range evs {
				fmt.Fprintf(&sb, " %s(%d)@%d", e.what, e.seq, e.t)
			}
			return sb.String()
		}
		viol := func(sig, detail string) {
			r.Violate("c14:"+cls+":"+sig, fmt.Sprintf("%s\nclient connection made with websocket.Dialer (engine %s); the server sent %d messages together with its handshake response and %d later, then ended the connection (%s); the open handler takes %d us\nevents (what(seq)@clock):%s", detail, c.Mode, c.First, c.Later, c.End, c.OpenUs, render()), c)
		}
		openEnd, closes, lastSeq, msgs := false, 0, -1, 0
		for _, e := range evs {
			switch e.what {
			case "open-end":
				openEnd = true
			case "msg-begin":
				if !openEnd {
					viol("message-callback-before-open-callback-completed", fmt.Sprintf("the message callback for message %d started before the open callback had returned", e.seq))
					return
				}
				if closes > 0 {
					viol("message-callback-after-close-callback", fmt.Sprintf("message %d was delivered after the close callback", e.seq))
					return
				}
				if e.seq != lastSeq+1 {
					viol("message-callbacks-out-of-wire-order", fmt.Sprintf("message %d was delivered after message %d", e.seq, lastSeq))
					return
				}
				lastSeq = e.seq
				msgs++
			case "overlap":
				viol("message-callbacks-overlap", "two message callbacks of one connection were running at the same time")
				return
			case "no-session":
				viol("session-set-by-open-callback-not-visible", fmt.Sprintf("the message callback for message %d did not see the session the open callback had set", e.seq))
				return
			case "close":
				closes++
				if e.seq > 0 {
					viol("close-callback-overlaps-message-callback", "the close callback ran while a message callback of the connection was inside")
					return
				}
			}
		}
		if closes != 1 {
			viol("close-callback-count", fmt.Sprintf("%d close callbacks", closes))
			return
		}
		r.Count("dialer_messages_delivered", int64(msgs))
		if msgs == c.First+c.Later {
			r.Count("dialer_connections_with_every_message_delivered", 1)
		}
	}
	r.Nontrivial(fmt.Sprintf("dialer/%d", c.Index))
	r.Seen("dialer_cells", fmt.Sprintf("%s/%s/open=%dus", c.Mode, c.End, c.OpenUs))
}
