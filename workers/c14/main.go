// C14 - WebSocket callbacks ordered and exactly-once; concurrent writes stay
// whole. A server built on nbhttp.Engine + websocket.Upgrader (or a net/http
// server handing its connections to the Upgrader) records every OnOpen /
// OnMessage / OnClose with one logical clock and an inside-counter per
// connection. Raw clients (by-hand upgrade handshake over net.Conn / crypto/tls,
// frames through internal/wsref) send numbered messages - some fragmented,
// pings interleaved - and decode the frame stream the server produces while
// 2-32 goroutines call WriteMessage concurrently with messages larger than the
// frame limit. Monitors: open.exit < first message.entry; message callbacks
// never overlap and arrive in wire order; exactly one close callback, after
// every message callback that ran; on the wire every data message's fragments
// are contiguous (only control frames in between), every message whose
// WriteMessage returned nil appears exactly once and intact (when the
// connection was kept open until the writers' end marker arrived), per-writer
// order preserved. Completeness is decided when the awaited event arrived or
// in a final (quiescent) history.
package main

import (
	"fmt"
	"math/rand"
	"os"
	"strings"
	"sync/atomic"
	"time"

	"github.com/lesismal/nbio"
	"github.com/lesismal/nbio/logging"
	"github.com/lesismal/nbio/nbhttp"
	"github.com/lesismal/nbio/nbhttp/websocket"

	"verif/internal/e2e"
	"verif/internal/h"
	"verif/internal/httpx"
)

type caseT struct {
	Index     int    `json:"index"`
	Path      string `json:"path"`   // poller | blocking-parser | std-readloop | std-manual-readloop | transfer-blocking | transfer-std | mixed
	Mode      string `json:"mode"`   // LT | ET | ONESHOT (the engine that polls / serves)
	TLS       bool   `json:"tls"`    // engine-served paths only
	Queued    bool   `json:"queued"` // BlockingModAsyncWrite
	Conns     int    `json:"conns"`
	Writers   int    `json:"writers"`
	PerWriter int    `json:"messages_per_writer"`
	FrameMax  int    `json:"max_frame_payload"`
	InMsgs    int    `json:"inbound_messages"`
	End       string `json:"end"` // client-close-frame | client-tcp-close | server-close | engine-stop | server-closeandclean
	OpenJit   int    `json:"open_handler_us"`
	MsgJit    bool   `json:"message_handler_jitter"`
	Delay     bool   `json:"delay_points"`
	Seed      int64  `json:"seed"`
}

var paths = []string{"poller", "blocking-parser", "std-readloop", "transfer-blocking", "std-manual-readloop", "transfer-std", "mixed"}
var modes = []string{"LT", "ET", "ONESHOT"}
var ends = []string{"client-close-frame", "client-close-frame", "client-close-frame", "client-tcp-close", "server-close", "engine-stop", "client-close-frame", "server-closeandclean"}

func genCase(r *h.Run, idx int) caseT {
	rng := r.Rand("c14-"+r.Phase, idx)
	c := caseT{Index: idx, Seed: rng.Int63()}
	c.Path = paths[idx%len(paths)]
	c.Mode = modes[(idx/len(paths))%3]
	c.Queued = (idx/(len(paths)*3))%2 == 0
	c.End = ends[rng.Intn(len(ends))]
	switch c.Path {
	case "poller", "blocking-parser", "transfer-blocking", "mixed":
		c.TLS = rng.Intn(3) == 0
	}
	c.Conns = 1 + rng.Intn(4)
	if c.Path == "mixed" {
		c.Conns = 3 + rng.Intn(3) // the first two are served blocking, the others by the poller
	}
	c.Writers = []int{2, 3, 4, 8, 16, 32}[rng.Intn(6)]
	c.FrameMax = []int{512, 1024, 2048, 4096}[rng.Intn(4)]
	c.PerWriter = 2 + rng.Intn(6)
	if c.Writers*c.PerWriter*c.Conns > 400 {
		c.PerWriter = max(2, 400/(c.Writers*c.Conns))
	}
	c.InMsgs = 4 + rng.Intn(40)
	c.OpenJit = []int{0, 0, 50, 500, 3000}[rng.Intn(5)]
	c.MsgJit = rng.Intn(2) == 0
	c.Delay = rng.Intn(3) != 0
	if r.Phase == "race" {
		c.Conns = min(c.Conns, 2)
		c.InMsgs = min(c.InMsgs, 12)
	}
	return c
}

// pathClass names the upgrade path in signatures about callbacks.
func pathClass(p string) string {
	switch p {
	case "std-readloop", "std-manual-readloop":
		return "std-readloop"
	case "transfer-blocking", "transfer-std":
		return "transferred"
	}
	return p
}

var progress int64

func prog() int64 { return atomic.LoadInt64(&progress) }
func bump()       { atomic.AddInt64(&progress, 1) }

var capLog = &h.CapLogger{}

func installDelays(c caseT) func() {
	if !c.Delay {
		return func() {}
	}
	d := e2e.NewDelayer(c.Seed, 2, 200)
	nbio.VerifSetPoint(func(name string, cn *nbio.Conn) {
		if name == "execute.afterAppend" || name == "execute.afterJob" {
			d.Hit()
		}
	})
	websocket.VerifSetPoint(func(name string) {
		if name == "ws.sendq.afterWrite" {
			d.Hit()
		}
	})
	return func() {
		nbio.VerifSetPoint(nil)
		websocket.VerifSetPoint(func(string) {})
	}
}

func engineConfig(c caseT, cell httpx.Cell) nbhttp.Config {
	conf := cell.Config(nil)
	conf.MaxWebsocketFramePayloadSize = c.FrameMax
	return conf
}

// runningStacks returns the stacks of the goroutines that are running or
// runnable right now (other than the caller).
func runningStacks() string {
	var out []string
	for _, p := range strings.Split(h.Stacks(), "\n\n") {
		if (strings.Contains(p, "[running]") || strings.Contains(p, "[runnable")) && !strings.Contains(p, "runningStacks") {
			if len(p) > 1500 {
				p = p[:1500]
			}
			out = append(out, p)
		}
	}
	return strings.Join(out, "\n\n")
}

func guarded(r *h.Run, c caseT) {
	v := h.Guard(6*time.Minute, prog, func() { runCase(r, c) })
	cls := pathClass(c.Path)
	switch v.Kind {
	case "":
		return
	case "deadlock":
		r.Violate(fmt.Sprintf("c14:%s:hang-goroutines-blocked-in-nbio", cls), v.Detail+fmt.Sprintf("\ncase %+v", c), c)
	case "spin":
		// the verdict is about the process: blame nbio only if a goroutine is
		// running inside nbio frames; otherwise say what is running
		run := runningStacks()
		if strings.Contains(run, "github.com/lesismal/nbio") {
			r.Violate(fmt.Sprintf("c14:%s:spin-no-progress", cls), v.Detail+"\nrunning goroutines:\n"+run, c)
		} else {
			fmt.Printf("case %d: process spins, no running goroutine inside nbio; running goroutines:\n%s\n", c.Index, run)
			r.Inconclusive(fmt.Sprintf("case %d: the process burns CPU without progress but no running goroutine is inside nbio frames (see the shard log)", c.Index))
		}
	default:
		r.Inconclusive(fmt.Sprintf("case %d: %s", c.Index, v.Detail))
	}
	r.Inconclusive(fmt.Sprintf("shard stopped after case %d (process state unrecoverable)", c.Index))
	r.Finish()
	os.Exit(0)
}

func main() {
	r := h.Start("C14")
	defer r.Finish()
	logging.SetLogger(capLog)
	_, _ = httpx.Cert()
	if r.Phase == "dialer" {
		if r.Replay != "" {
			var c dialerCase
			if err := r.ReplayCase(&c); err != nil {
				fmt.Println("replay:", err)
				return
			}
			for i := 0; i < 5 && r.Violations() == 0; i++ {
				runDialerCase(r, c)
			}
			return
		}
		n := r.N(240, 4800)
		for i := 0; i < n; i++ {
			if !r.Mine(i) {
				continue
			}
			c := genDialer(r, i)
			r.Begin(c)
			runDialerCase(r, c)
			if i < 2 {
				r.Sample(c)
			}
		}
		return
	}
	if r.Phase == "qclose" {
		if r.Replay != "" {
			var c qcloseCase
			if err := r.ReplayCase(&c); err != nil {
				fmt.Println("replay:", err)
				return
			}
			for i := 0; i < 5 && r.Violations() == 0; i++ {
				runQCloseCase(r, c)
			}
			return
		}
		n := r.N(144, 2880)
		for i := 0; i < n; i++ {
			if !r.Mine(i) {
				continue
			}
			c := genQClose(r, i)
			r.Begin(c)
			runQCloseCase(r, c)
			if i < 2 {
				r.Sample(c)
			}
		}
		return
	}
	if r.Replay != "" {
		var c caseT
		if err := r.ReplayCase(&c); err != nil {
			fmt.Println("replay:", err)
			return
		}
		r.Begin(c)
		guarded(r, c)
		return
	}
	n := r.N(840, 12600)
	if r.Phase == "race" {
		n = 252
	}
	for i := 0; i < n; i++ {
		if !r.Mine(i) {
			continue
		}
		c := genCase(r, i)
		r.Begin(c)
		t0 := time.Now()
		guarded(r, c)
		if d := time.Since(t0); d > 8*time.Second {
			fmt.Printf("slow case %d: %v %+v\n", c.Index, d, c)
		}
		if i < 3 {
			r.Sample(c)
		}
	}
	_ = rand.Int
}
