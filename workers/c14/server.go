package main

import (
	"encoding/binary"
	"errors"
	"fmt"
	"github.com/lesismal/nbio"
	"math/rand"
	"net"
	"net/http"
	"runtime"
	"sync"
	"sync/atomic"
	"time"

	"github.com/lesismal/nbio/nbhttp"
	"github.com/lesismal/nbio/nbhttp/websocket"

	"verif/internal/e2e"
	"verif/internal/h"
	"verif/internal/httpx"
	"verif/internal/outb"
)

const hdrLen = 16

// message layouts (both directions): magic(4) conn(2) writer(2) seq(4) len(4) | pattern(id)
func inID(salt uint32, conn int, seq int) uint32 {
	return salt | 1<<23 | uint32(conn&0x7f)<<16 | uint32(seq&0xffff)
}
func outID(salt uint32, conn, writer, seq int) uint32 {
	return salt | uint32(conn&0x7f)<<16 | uint32(writer&0x3f)<<10 | uint32(seq&0x3ff)
}

func buildMsg(magic string, id uint32, conn, writer, seq, n int) []byte {
	b := make([]byte, hdrLen+n)
	copy(b, magic)
	binary.BigEndian.PutUint16(b[4:], uint16(conn))
	binary.BigEndian.PutUint16(b[6:], uint16(writer))
	binary.BigEndian.PutUint32(b[8:], uint32(seq))
	binary.BigEndian.PutUint32(b[12:], uint32(n))
	outb.Fill(b[hdrLen:], id, 0)
	return b
}

type msgHdr struct {
	Magic             string
	Conn, Writer, Seq int
	Len               int
}

func parseHdr(b []byte) (msgHdr, bool) {
	if len(b) < hdrLen {
		return msgHdr{}, false
	}
	return msgHdr{Magic: string(b[:4]), Conn: int(binary.BigEndian.Uint16(b[4:])), Writer: int(binary.BigEndian.Uint16(b[6:])), Seq: int(binary.BigEndian.Uint32(b[8:])), Len: int(binary.BigEndian.Uint32(b[12:]))}, true
}

type wkey struct{ w, s int }

// connRec is what the server side knows about one WebSocket connection.
type connRec struct {
	key string // the client's address as the server sees it
	wsc *websocket.Conn

	insideOpen  int32
	insideMsg   int32
	insideFrame int32
	insideClose int32
	openEntry   int64
	openExit    int64
	nextSeq     int64
	msgRan      int64
	closeCalls  int32
	closeEntry  int64
	closed      chan struct{}
	closeOnce   sync.Once
	forced      int32 // the application called the exported CloseAndClean itself: only the close count is asserted from then on

	mu          sync.Mutex
	written     map[wkey]bool // WriteMessage returned nil
	failed      int
	writersDone chan struct{}
	endErr      error
}

type env struct {
	r    *h.Run
	c    caseT
	log  *e2e.Log
	cls  string
	end  string // effective way the connections end
	salt uint32

	recs    sync.Map // server-side remote addr -> *connRec
	byWsc   sync.Map // *websocket.Conn -> *connRec
	idxOf   sync.Map // client local addr -> conn index
	viol    int32
	stopped int32 // the engine was stopped by the workload

	eng *nbhttp.Engine
	up  *websocket.Upgrader
}

func (e *env) violate(sig, detail string) {
	atomic.AddInt32(&e.viol, 1)
	e.r.Violate(sig, detail+fmt.Sprintf("\nupgrade path %s, epoll mode %s, tls %v, queued writes requested %v (the case config replays the workload; the schedule itself is not reproducible)", e.c.Path, e.c.Mode, e.c.TLS, e.c.Queued), e.c)
}

func (e *env) rec(c *websocket.Conn) *connRec {
	if v, ok := e.byWsc.Load(c); ok {
		return v.(*connRec)
	}
	key := "?"
	if ra := c.RemoteAddr(); ra != nil {
		key = ra.String()
	}
	n := &connRec{key: key, wsc: c, closed: make(chan struct{}), written: map[wkey]bool{}, writersDone: make(chan struct{})}
	v, loaded := e.byWsc.LoadOrStore(c, n)
	if !loaded {
		e.recs.Store(key, n)
	}
	return v.(*connRec)
}

func (e *env) connIdx(rec *connRec) int {
	if v, ok := e.idxOf.Load(rec.key); ok {
		return v.(int)
	}
	return -1
}

func (e *env) wmode(rec *connRec) string {
	if rec != nil && rec.wsc != nil && rec.wsc.IsAsyncWrite() {
		return "sendq"
	}
	return "direct"
}

// serverState describes the server's end of a client's connection for a
// violation report: is the close frame still unread in the kernel, or was it
// consumed without the connection being closed?
func (e *env) serverState(clientLocal string) string {
	v, ok := e.recs.Load(clientLocal)
	if !ok {
		return "no server-side record for this client"
	}
	rec := v.(*connRec)
	if rec.wsc == nil {
		return "no websocket.Conn recorded"
	}
	var under net.Conn = rec.wsc.Conn
	if hc, ok := under.(*nbhttp.Conn); ok {
		under = hc.Conn
	}
	st := fmt.Sprintf("underlying %T, callbacks: open exit t=%d, %d messages delivered, close calls %d", under, atomic.LoadInt64(&rec.openExit), atomic.LoadInt64(&rec.msgRan), atomic.LoadInt32(&rec.closeCalls))
	if nc, ok := under.(*nbio.Conn); ok {
		cl, _ := nc.IsClosed()
		q, err := outb.InQ(nc.Hash())
		st += fmt.Sprintf("; nbio.Conn fd %d IsClosed=%v FIONREAD=%d (%v) pending read events=%d queued jobs=%d", nc.Hash(), cl, q, err, nbio.VerifReadEvents(nc), nbio.VerifJobs(nc))
	}
	return st
}

func (e *env) onOpen(c *websocket.Conn) {
	bump()
	rec := e.rec(c)
	atomic.AddInt32(&rec.insideOpen, 1)
	atomic.StoreInt64(&rec.openEntry, e.log.Add("open.entry", rec.key, 0, fmt.Sprintf("async-write=%v blocking=%v", c.IsAsyncWrite(), c.IsBlockingMod())))
	e.r.Seen("upgrade_path_x_write_mode", pathClass(e.c.Path)+"/"+e.wmode(rec))
	// the writers are independent of the callbacks: they start right away
	go e.runWriters(rec)
	if e.c.OpenJit > 0 {
		time.Sleep(time.Duration(e.c.OpenJit) * time.Microsecond)
	} else {
		runtime.Gosched()
	}
	atomic.AddInt32(&rec.insideOpen, -1)
	atomic.StoreInt64(&rec.openExit, e.log.Add("open.exit", rec.key, 0, ""))
}

// onDataFrame (registered in half of the cases, next to the message callback): the
// per-frame callback is a message-level callback too - it must not start before the
// open callback has returned, frames of one connection are handed over one at a
// time, and none after the close callback.
func (e *env) onDataFrame(c *websocket.Conn, mt websocket.MessageType, fin bool, data []byte) {
	bump()
	rec := e.rec(c)
	in := atomic.AddInt32(&rec.insideFrame, 1)
	defer atomic.AddInt32(&rec.insideFrame, -1)
	cls := e.clsOf(rec)
	e.r.Count("data_frame_callbacks", 1)
	if atomic.LoadInt64(&rec.openExit) == 0 {
		t := e.log.Add("dataframe.entry", rec.key, 0, fmt.Sprintf("len=%d fin=%v", len(data), fin))
		e.violate("c14:"+cls+":data-frame-callback-before-open-callback-returned", fmt.Sprintf("connection %s: a data-frame callback (%d bytes, fin=%v) was entered at t=%d while the open callback (entered t=%d) had not returned\nevents of the connection:\n%s", rec.key, len(data), fin, t, atomic.LoadInt64(&rec.openEntry), e.log.Slice(rec.key, 40)))
	}
	if in > 1 {
		e.violate("c14:"+cls+":data-frame-callbacks-overlap", fmt.Sprintf("%d data-frame callbacks of connection %s run at the same time\nevents of the connection:\n%s", in, rec.key, e.log.Slice(rec.key, 40)))
	}
	if ce := atomic.LoadInt64(&rec.closeEntry); ce != 0 && atomic.LoadInt32(&rec.forced) == 0 {
		e.violate("c14:"+cls+":data-frame-callback-after-close-callback", fmt.Sprintf("connection %s: a data-frame callback was entered after the close callback (t=%d)\nevents of the connection:\n%s", rec.key, ce, e.log.Slice(rec.key, 40)))
	}
}

func (e *env) onMessage(c *websocket.Conn, mt websocket.MessageType, data []byte) {
	bump()
	rec := e.rec(c)
	in := atomic.AddInt32(&rec.insideMsg, 1)
	hd, ok := parseHdr(data)
	t := e.log.Add("message.entry", rec.key, int64(hd.Seq), fmt.Sprintf("len=%d inside=%d", len(data), in))
	defer func() {
		atomic.AddInt64(&rec.msgRan, 1)
		e.log.Add("message.exit", rec.key, int64(hd.Seq), "")
		atomic.AddInt32(&rec.insideMsg, -1)
	}()
	cls := e.clsOf(rec)
	if in > 1 {
		e.violate("c14:"+cls+":message-callbacks-overlap", fmt.Sprintf("%d message callbacks of connection %s run at the same time (entered for message seq %d)\nevents of the connection:\n%s", in, rec.key, hd.Seq, e.log.Slice(rec.key, 40)))
	}
	if atomic.LoadInt64(&rec.openExit) == 0 {
		e.violate("c14:"+cls+":message-callback-before-open-callback-returned", fmt.Sprintf("connection %s: the message callback for seq %d was entered at t=%d while the open callback (entered t=%d) had not returned\nevents of the connection:\n%s", rec.key, hd.Seq, t, atomic.LoadInt64(&rec.openEntry), e.log.Slice(rec.key, 40)))
	}
	if ce := atomic.LoadInt64(&rec.closeEntry); ce != 0 && atomic.LoadInt32(&rec.forced) == 0 {
		e.violate("c14:"+cls+":message-callback-after-close-callback", fmt.Sprintf("connection %s: the message callback for seq %d was entered at t=%d, after the close callback (t=%d)\nevents of the connection:\n%s", rec.key, hd.Seq, t, ce, e.log.Slice(rec.key, 40)))
	}
	idx := e.connIdx(rec)
	if !ok || hd.Magic != "C14I" {
		e.violate("c14:"+cls+":unknown-message-delivered", fmt.Sprintf("connection %s: a message the client never sent was delivered: %d bytes starting %s\n%s", rec.key, len(data), h.Hex(data, 64), e.log.Slice(rec.key, 30)))
		return
	}
	want := atomic.LoadInt64(&rec.nextSeq)
	switch {
	case int64(hd.Seq) < want:
		e.violate("c14:"+cls+":message-order", fmt.Sprintf("connection %s: message seq %d delivered after seq %d (messages are sent in increasing order; a repeated or reordered delivery)\nevents of the connection:\n%s", rec.key, hd.Seq, want-1, e.log.Slice(rec.key, 40)))
	case int64(hd.Seq) > want:
		e.violate("c14:"+cls+":message-skipped", fmt.Sprintf("connection %s: message seq %d delivered while seq %d..%d were never delivered\nevents of the connection:\n%s", rec.key, hd.Seq, want, hd.Seq-1, e.log.Slice(rec.key, 40)))
	}
	atomic.StoreInt64(&rec.nextSeq, int64(hd.Seq)+1)
	if hd.Conn != idx && idx >= 0 {
		e.violate("c14:"+cls+":message-of-another-connection", fmt.Sprintf("connection %s (client #%d) got a message that client #%d sent", rec.key, idx, hd.Conn))
	} else if hd.Len != len(data)-hdrLen {
		e.violate("c14:"+cls+":message-corrupt", fmt.Sprintf("connection %s: message seq %d announces %d payload bytes, %d delivered", rec.key, hd.Seq, hd.Len, len(data)-hdrLen))
	} else if is := e2e.CheckBody(data[hdrLen:], inID(e.salt, hd.Conn, hd.Seq), hd.Len); is != nil {
		e.violate("c14:"+cls+":message-corrupt", fmt.Sprintf("connection %s: message seq %d: %s", rec.key, hd.Seq, is.Detail))
	}
	e.r.Count("inbound_messages_delivered", 1)
	if e.c.MsgJit {
		switch (hd.Seq*7 + idx) % 4 {
		case 0:
			runtime.Gosched()
		case 1:
			time.Sleep(time.Duration(20+hd.Seq%200) * time.Microsecond)
		}
	}
	if e.end == "server-closeandclean" && hd.Seq == e.c.InMsgs/2 {
		// the exported CloseAndClean (nbhttp.ParserCloser) called by the application
		// while the engine's own close path will call it too: still one close callback
		e.log.Add("server.closeandclean", rec.key, int64(hd.Seq), "")
		atomic.StoreInt32(&rec.forced, 1)
		go c.CloseAndClean(errors.New("application cleanup"))
	}
	if e.end == "server-close" && hd.Seq == e.c.InMsgs/2 {
		e.log.Add("server.close", rec.key, int64(hd.Seq), "")
		if hd.Seq%2 == 0 {
			go func() { _ = c.Close() }()
		} else {
			_ = c.Close()
		}
	}
}

// onPing: control-frame callbacks go through the same per-connection queue as
// the message callbacks: they must not overlap them, and a ping is handled in
// wire order (after every message completed before it).
func (e *env) onPing(c *websocket.Conn, data string) {
	bump()
	rec := e.rec(c)
	in := atomic.AddInt32(&rec.insideMsg, 1)
	t := e.log.Add("ping.entry", rec.key, 0, fmt.Sprintf("%q inside=%d", data, in))
	defer func() {
		e.log.Add("ping.exit", rec.key, 0, "")
		atomic.AddInt32(&rec.insideMsg, -1)
	}()
	cls := e.clsOf(rec)
	if in > 1 {
		e.violate("c14:"+cls+":ping-callback-overlaps-message-callback", fmt.Sprintf("connection %s: the ping callback (%q) was entered at t=%d while %d other callback(s) of the connection were running\nevents of the connection:\n%s", rec.key, data, t, in-1, e.log.Slice(rec.key, 40)))
	}
	var seq, i, last int
	if n, _ := fmt.Sscanf(data, "p%d.%d.%d", &seq, &i, &last); n == 3 {
		need := int64(seq)
		if last == 1 {
			need++
		}
		if got := atomic.LoadInt64(&rec.nextSeq); got < need && atomic.LoadInt32(&rec.forced) == 0 {
			e.violate("c14:"+cls+":ping-callback-before-earlier-message-callback", fmt.Sprintf("connection %s: the ping %q was sent after message seq %d was complete on the wire, but its callback was entered at t=%d when only %d messages had been delivered\nevents of the connection:\n%s", rec.key, data, need-1, t, got, e.log.Slice(rec.key, 40)))
		}
	}
	e.r.Count("ping_callbacks", 1)
	_ = c.WriteMessage(websocket.PongMessage, []byte(data))
}

func (e *env) onClose(c *websocket.Conn, err error) {
	bump()
	rec := e.rec(c)
	atomic.AddInt32(&rec.insideClose, 1)
	n := atomic.AddInt32(&rec.closeCalls, 1)
	t := e.log.Add("close.entry", rec.key, int64(n), fmt.Sprintf("err=%v", err))
	if n == 1 {
		atomic.StoreInt64(&rec.closeEntry, t)
	}
	cls := e.clsOf(rec)
	if n > 1 {
		e.violate("c14:"+cls+":close-callback-count", fmt.Sprintf("connection %s: the close callback ran %d times\nevents of the connection:\n%s", rec.key, n, e.log.Slice(rec.key, 40)))
	}
	if m := atomic.LoadInt32(&rec.insideMsg); m > 0 && atomic.LoadInt32(&rec.forced) == 0 {
		e.violate("c14:"+cls+":close-callback-overlaps-message-callback", fmt.Sprintf("connection %s: the close callback was entered at t=%d while %d message callback(s) were still running\nevents of the connection:\n%s", rec.key, t, m, e.log.Slice(rec.key, 40)))
	}
	if atomic.LoadInt32(&rec.insideOpen) > 0 || atomic.LoadInt64(&rec.openExit) == 0 {
		e.r.Count("close_callback_while_open_callback_running(not asserted)", 1)
	}
	runtime.Gosched()
	e.log.Add("close.exit", rec.key, int64(n), "")
	atomic.AddInt32(&rec.insideClose, -1)
	rec.closeOnce.Do(func() { close(rec.closed) })
}

// runWriters: 2-32 goroutines call WriteMessage concurrently with messages
// that are mostly larger than the frame limit; after all of them returned an
// end marker is written (it is FIFO-behind everything they wrote).
func (e *env) runWriters(rec *connRec) {
	c := e.c
	idx := -1
	for i := 0; i < 200 && idx < 0; i++ { // the client registers its address before it sends the handshake
		idx = e.connIdx(rec)
		if idx < 0 {
			time.Sleep(time.Millisecond)
		}
	}
	var wg sync.WaitGroup
	for w := 0; w < c.Writers; w++ {
		wg.Add(1)
		go func(w int) {
			defer wg.Done()
			rng := rand.New(rand.NewSource(c.Seed ^ int64(idx+1)<<32 ^ int64(w+1)*0x9E3779B9))
			for s := 0; s < c.PerWriter; s++ {
				var n int
				switch rng.Intn(8) {
				case 0:
					n = rng.Intn(c.FrameMax / 2) // single frame
				case 1:
					n = c.FrameMax - hdrLen + rng.Intn(3) - 1 // at the limit
				default:
					n = c.FrameMax + 1 + rng.Intn(5*c.FrameMax)
				}
				if n < 0 {
					n = 0
				}
				// every third writer uses the frame-level call for messages of one frame: it must not
				// cut into the fragment sequence of another goroutine's WriteMessage either
				viaFrame := w%3 == 2
				if viaFrame {
					n = rng.Intn(c.FrameMax / 2)
				}
				msg := buildMsg("C14O", outID(e.salt, idx, w, s), idx, w, s, n)
				var err error
				if viaFrame && len(msg) <= c.FrameMax {
					err = rec.wsc.WriteFrame(websocket.BinaryMessage, true, true, msg)
					e.r.Count("messages_written_with_WriteFrame", 1)
				} else {
					err = rec.wsc.WriteMessage(websocket.BinaryMessage, msg)
				}
				bump()
				rec.mu.Lock()
				if err == nil {
					rec.written[wkey{w, s}] = true
				} else {
					rec.failed++
				}
				rec.mu.Unlock()
				if err != nil {
					e.log.Add("write.error", rec.key, int64(w<<16|s), err.Error())
				}
				if rng.Intn(3) == 0 {
					runtime.Gosched()
				}
			}
		}(w)
	}
	wg.Wait()
	end := buildMsg("C14E", 0, idx, 0, 0, 0)
	rec.endErr = rec.wsc.WriteMessage(websocket.BinaryMessage, end)
	e.log.Add("writers.done", rec.key, 0, fmt.Sprintf("end marker err=%v", rec.endErr))
	bump()
	close(rec.writersDone)
}

// startServer builds the server of the case's upgrade path. It returns the
// address and a stop function (idempotent).
func (e *env) startServer() (addr string, stop func(), err error) {
	c := e.c
	up := websocket.NewUpgrader()
	up.BlockingModAsyncWrite = c.Queued
	up.OnOpen(e.onOpen)
	up.OnMessage(e.onMessage)
	if c.Seed%2 == 0 {
		up.OnDataFrame(e.onDataFrame)
	}
	up.SetPingHandler(e.onPing)
	up.OnClose(e.onClose)
	up.CheckOrigin = func(r *http.Request) bool { return true }
	e.up = up
	upgrade := func(w http.ResponseWriter, r *http.Request) {
		var err error
		switch c.Path {
		case "transfer-blocking", "transfer-std":
			_, err = up.UpgradeAndTransferConnToPoller(w, r, nil)
		case "std-manual-readloop":
			var wsc *websocket.Conn
			wsc, err = up.UpgradeWithoutHandlingReadForConnFromSTDServer(w, r, nil)
			if err == nil {
				go wsc.HandleRead(4096)
			}
		default:
			_, err = up.Upgrade(w, r, nil)
		}
		if err != nil {
			e.log.Add("upgrade.error", r.RemoteAddr, 0, err.Error())
		}
	}
	mux := http.NewServeMux()
	mux.HandleFunc("/ws", upgrade)
	var once sync.Once
	switch c.Path {
	case "poller", "blocking-parser", "transfer-blocking", "mixed":
		iomod := map[string]int{"poller": nbhttp.IOModNonBlocking, "blocking-parser": nbhttp.IOModBlocking, "transfer-blocking": nbhttp.IOModBlocking, "mixed": nbhttp.IOModMixed}[c.Path]
		cell := httpx.Cell{IOMod: iomod, TLS: c.TLS, Mode: c.Mode}
		conf := engineConfig(c, cell)
		conf.Handler = mux
		eng := nbhttp.NewEngine(conf)
		up.Engine = eng
		e.eng = eng
		if err := eng.Start(); err != nil {
			return "", nil, err
		}
		return httpx.Addr(eng, cell), func() { once.Do(eng.Stop) }, nil
	default:
		// a net/http server hands its connections to the Upgrader; the helper
		// engine supplies timers, allocator and (transfer-std) the poller
		cell := httpx.Cell{IOMod: nbhttp.IOModNonBlocking, Mode: c.Mode}
		conf := engineConfig(c, cell)
		conf.Addrs = nil
		eng := nbhttp.NewEngine(conf)
		up.Engine = eng
		e.eng = eng
		if err := eng.Start(); err != nil {
			return "", nil, err
		}
		ln, err := net.Listen("tcp", "127.0.0.1:0")
		if err != nil {
			eng.Stop()
			return "", nil, err
		}
		srv := &http.Server{Handler: mux}
		go func() { _ = srv.Serve(ln) }()
		return ln.Addr().String(), func() {
			once.Do(func() {
				_ = srv.Close()
				eng.Stop()
			})
		}, nil
	}
}
