package main

import (
	"fmt"
	"math/rand"
	"sync"
	"sync/atomic"
	"time"

	"verif/internal/e2e"
	"verif/internal/h"
)

func (e *env) clsOf(rec *connRec) string {
	if e.c.Path == "mixed" && rec != nil && rec.wsc != nil {
		if rec.wsc.IsBlockingMod() {
			return "blocking-parser"
		}
		return "poller"
	}
	return e.cls
}

func runCase(r *h.Run, c caseT) {
	r.Eval(1)
	e := &env{r: r, c: c, log: e2e.NewLog(40000), cls: pathClass(c.Path), end: c.End, salt: uint32(c.Index&0xff) << 24}
	if e.cls == "transferred" && c.Mode == "ONESHOT" {
		// the Upgrader gives transferred connections a different executor in one-shot mode
		e.cls = "transferred-oneshot"
	}
	if e.end == "server-closeandclean" && c.Path == "mixed" {
		e.end = "server-close"
	}
	if e.end == "engine-stop" && (c.Path == "std-readloop" || c.Path == "std-manual-readloop") {
		e.end = "server-close" // the engine does not own these connections
	}
	undo := installDelays(c)
	defer undo()
	addr, stop, err := e.startServer()
	if err != nil {
		r.Inconclusive(fmt.Sprintf("case %d: start: %v", c.Index, err))
		return
	}
	defer stop()
	var wg sync.WaitGroup
	states := make([]*clientState, c.Conns)
	for i := 0; i < c.Conns; i++ {
		wg.Add(1)
		go func(i int) {
			defer wg.Done()
			rng := rand.New(rand.NewSource(c.Seed ^ int64(i+1)*0x9E3779B97F4A7C))
			states[i] = e.runClient(i, rng, addr, stop)
		}(i)
	}
	wg.Wait()

	// ---- every connection that was opened gets exactly one close callback.
	// Connections ended by Stop are outside the property's quantifier
	// ("connections ending while their engine is running"): for them a second
	// close callback is still a violation, a missing one is only counted.
	stopEnded := atomic.LoadInt32(&e.stopped) == 1
	var recs []*connRec
	e.recs.Range(func(k, v interface{}) bool { recs = append(recs, v.(*connRec)); return true })
	for _, rec := range recs {
		if atomic.LoadInt32(&rec.closeCalls) > 0 {
			continue
		}
		switch e2e.WaitQuiet(rec.closed, prog, 150*time.Second) {
		case "quiet":
			if stopEnded {
				r.Count("stop_ended_connections_without_close_callback(not asserted)", 1)
			} else {
				e.violate("c14:"+e.clsOf(rec)+":close-callback-count", fmt.Sprintf("connection %s: the connection has ended (the client saw the end of the stream / closed it) but the close callback never ran: the history is final (process idle, no progress for 3 s)\nevents of the connection:\n%s", rec.key, e.log.Slice(rec.key, 40)))
			}
		case "watchdog":
			r.Inconclusive(fmt.Sprintf("case %d: watchdog while waiting for a close callback", c.Index))
		}
	}
	// let the writers return (they fail fast once the connection is closed)
	for _, rec := range recs {
		if atomic.LoadInt64(&rec.openEntry) == 0 {
			// a callback arrived for a connection whose open callback never ran
			// (the upgrade failed half-way, e.g. while the engine was stopping)
			r.Count("connections_with_callbacks_but_no_open_callback(not asserted)", 1)
			continue
		}
		select {
		case <-rec.writersDone:
		case <-time.After(30 * time.Second):
			r.Inconclusive(fmt.Sprintf("case %d: writers did not return", c.Index))
			fmt.Printf("case %d: writers did not return; goroutines:\n%s\n", c.Index, h.Stacks())
			return
		}
	}
	stop()
	bump()
	if c.Queued {
		time.Sleep(150 * time.Millisecond) // the queued mode closes through a 100 ms timer: let a late second close callback show
	}

	complete := 0
	ordered := 0
	fragmented := int64(0)
	for _, rec := range recs {
		cls := e.clsOf(rec)
		if n := atomic.LoadInt32(&rec.closeCalls); n > 1 {
			// reported when it happened
			_ = n
		}
		ran := atomic.LoadInt64(&rec.msgRan)
		if ran >= 2 {
			ordered++
		}
		idx := e.connIdx(rec)
		if idx < 0 || idx >= len(states) || states[idx] == nil {
			continue
		}
		cs := states[idx]
		fragmented += atomic.LoadInt64(&cs.fragMsgs)
		select {
		case <-cs.endSeen:
		default:
			continue // the connection ended before the end marker: safety clauses only
		}
		if cs.streamBad {
			continue // reported; the rest of that stream was not interpreted
		}
		// the end marker arrived: everything written before it with a nil error must have arrived
		rec.mu.Lock()
		var lost []wkey
		for k := range rec.written {
			if cs.got[k] == 0 {
				lost = append(lost, k)
			}
		}
		nw := len(rec.written)
		rec.mu.Unlock()
		if len(lost) > 0 && !cs.streamBad {
			e.violate("c14:"+e.wmode(rec)+":message-lost", fmt.Sprintf("connection %s: %d of %d messages whose WriteMessage returned nil never arrived although the end marker written after them did, e.g. writer %d seq %d\nevents of the connection:\n%s", rec.key, len(lost), nw, lost[0].w, lost[0].s, e.log.Slice(rec.key, 30)))
		}
		for _, g := range cs.gaps {
			rec.mu.Lock()
			ok := rec.written[g]
			rec.mu.Unlock()
			_ = ok // a gap of a successfully written message is reported as lost above
		}
		if cs.sentAll && cs.sentClose && e.end == "client-close-frame" {
			// the close frame is behind every message on the wire
			if ran != int64(c.InMsgs) && atomic.LoadInt32(&rec.closeCalls) > 0 {
				e.violate("c14:"+cls+":messages-not-delivered-before-close", fmt.Sprintf("connection %s: the client sent %d messages and then a close frame; %d message callbacks ran before the close callback\nevents of the connection:\n%s", rec.key, c.InMsgs, ran, e.log.Slice(rec.key, 40)))
			} else {
				complete++
			}
		}
		r.Max("max_concurrent_writers", int64(c.Writers))
	}
	r.Count("connections_run", int64(len(recs)))
	r.Count("connections_complete(all inbound delivered, all outbound verified, close handshake)", int64(complete))
	r.Seen("end_kinds", e.end)
	if pl := h.PanicLines(capLog.Take()); len(pl) > 0 {
		r.Count("panics_recovered_and_logged_by_nbio", int64(len(pl)))
		for i, l := range pl {
			if i < 2 {
				fmt.Printf("case %d: nbio logged a recovered panic:\n%s\n", c.Index, l)
			}
		}
	}
	if atomic.LoadInt32(&e.viol) == 0 && fragmented > 0 && ordered > 0 && c.Writers >= 2 {
		r.Nontrivial(fmt.Sprint(c.Index))
	}
}
