// Phase qclose - "none is lost" in the queued write mode when the application
// closes the connection right behind its last message. In the queued mode
// WriteMessage returns once the frames are in the send queue and Conn.Close
// postpones the real close by BlockingModAsyncCloseDelay so that the drainer
// can put them on the wire. A case configures a delay of 30 s, lets the server
// write (one large frame / two messages / a fragmented message to a client that
// starts reading only after Close has returned; or a tiny message to a client
// that reads at once) and call Close, and the client then reads the stream.
//
// Verdict (one-sided, like C16's "never early"): the stream ended before every
// message whose WriteMessage returned nil had arrived AND the end was observed
// less than half the configured delay after Close was *called* - the delayed
// close cannot have fired yet, so the messages were dropped by the close
// itself. An early end observed later than that is inconclusive (slow machine),
// never a violation.
package main

import (
	"bufio"
	"fmt"
	"io"
	"net"
	"net/http"
	"sync"
	"sync/atomic"
	"time"

	"github.com/lesismal/nbio/nbhttp"
	"github.com/lesismal/nbio/nbhttp/websocket"

	"verif/internal/h"
	"verif/internal/httpx"
	"verif/internal/wsref"
)

type qcloseCase struct {
	Index int    `json:"index"`
	Path  string `json:"path"`  // std (net/http server + Upgrade) | blocking (nbhttp IOModBlocking)
	Shape string `json:"shape"` // single | two | fragmented | tiny | tiny-burst
	Size  int    `json:"size"`
	Seed  int64  `json:"seed"`
}

const qcloseDelay = 30 * time.Second

func genQClose(r *h.Run, idx int) qcloseCase {
	rng := r.Rand("c14-qclose", idx)
	c := qcloseCase{Index: idx, Seed: rng.Int63()}
	c.Path = []string{"std", "blocking"}[idx%2]
	c.Shape = []string{"single", "tiny", "two", "fragmented", "tiny-burst", "single"}[(idx/2)%6]
	switch c.Shape {
	case "tiny":
		c.Size = 1 + rng.Intn(2000)
	case "tiny-burst":
		c.Size = 1 + rng.Intn(300)
	default:
		c.Size = 6<<20 + rng.Intn(6<<20)
	}
	return c
}

func qcPayload(seed int64, k, n int) []byte {
	b := make([]byte, n)
	x := uint64(seed) + uint64(k)*0x9E3779B97F4A7C15
	for i := range b {
		x = x*6364136223846793005 + 1442695040888963407
		b[i] = byte(x >> 56)
	}
	return b
}

func runQCloseCase(r *h.Run, c qcloseCase) {
	r.Eval(1)
	// what the server writes
	var msgs [][]byte
	frameMax := 16 << 20
	switch c.Shape {
	case "single", "tiny":
		msgs = [][]byte{qcPayload(c.Seed, 0, c.Size)}
	case "two":
		msgs = [][]byte{qcPayload(c.Seed, 0, c.Size/2), qcPayload(c.Seed, 1, c.Size-c.Size/2)}
	case "fragmented":
		frameMax = 64 << 10
		msgs = [][]byte{qcPayload(c.Seed, 0, c.Size)}
	case "tiny-burst":
		for k := 0; k < 5; k++ {
			msgs = append(msgs, qcPayload(c.Seed, k, c.Size+k))
		}
	}
	paused := c.Shape == "single" || c.Shape == "two" || c.Shape == "fragmented"

	var closeCalled int64 // unix nanos right before Close was called
	closeReturned := make(chan struct{})
	var accepted int32 // messages whose WriteMessage returned nil
	var writeErr atomic.Value
	var asyncWrite int32
	var once sync.Once

	up := websocket.NewUpgrader()
	up.BlockingModAsyncWrite = true
	up.BlockingModAsyncCloseDelay = qcloseDelay
	up.CheckOrigin = func(r *http.Request) bool { return true }
	up.OnMessage(func(wc *websocket.Conn, mt websocket.MessageType, data []byte) {
		once.Do(func() {
			if wc.IsAsyncWrite() {
				atomic.StoreInt32(&asyncWrite, 1)
			}
			for _, m := range msgs {
				if err := wc.WriteMessage(websocket.BinaryMessage, m); err != nil {
					writeErr.Store(err.Error())
					break
				}
				atomic.AddInt32(&accepted, 1)
			}
			atomic.StoreInt64(&closeCalled, time.Now().UnixNano())
			_ = wc.Close()
			close(closeReturned)
			bump()
		})
	})
	mux := http.NewServeMux()
	mux.HandleFunc("/ws", func(w http.ResponseWriter, rq *http.Request) { _, _ = up.Upgrade(w, rq, nil) })

	var addr string
	var stop func()
	switch c.Path {
	case "blocking":
		cell := httpx.Cell{IOMod: nbhttp.IOModBlocking, Mode: "LT"}
		conf := cell.Config(mux)
		conf.MaxWebsocketFramePayloadSize = frameMax
		eng := nbhttp.NewEngine(conf)
		up.Engine = eng
		if err := eng.Start(); err != nil {
			r.Inconclusive("qclose: engine start: " + err.Error())
			return
		}
		addr, stop = httpx.Addr(eng, cell), eng.Stop
	default:
		cell := httpx.Cell{IOMod: nbhttp.IOModNonBlocking, Mode: "LT"}
		conf := cell.Config(nil)
		conf.Addrs = nil
		conf.MaxWebsocketFramePayloadSize = frameMax
		eng := nbhttp.NewEngine(conf)
		up.Engine = eng
		if err := eng.Start(); err != nil {
			r.Inconclusive("qclose: engine start: " + err.Error())
			return
		}
		ln, err := net.Listen("tcp", "127.0.0.1:0")
		if err != nil {
			eng.Stop()
			r.Inconclusive("qclose: listen: " + err.Error())
			return
		}
		srv := &http.Server{Handler: mux}
		go func() { _ = srv.Serve(ln) }()
		addr, stop = ln.Addr().String(), func() { _ = srv.Close(); eng.Stop() }
	}
	defer stop()

	nc, err := net.DialTimeout("tcp", addr, 5*time.Second)
	if err != nil {
		r.Inconclusive("qclose: dial: " + err.Error())
		return
	}
	defer nc.Close()
	br := bufio.NewReaderSize(nc, 64<<10)
	if err := handshake(nc, br, c.Index); err != nil {
		r.Inconclusive("qclose: handshake: " + err.Error())
		return
	}
	goFrame := wsref.AppendFrame(nil, &wsref.Frame{Fin: true, Opcode: wsref.OpBinary, Masked: true, Key: [4]byte{1, 2, 3, 4}, Payload: []byte("go")})
	if _, err := nc.Write(goFrame); err != nil {
		r.Inconclusive("qclose: send: " + err.Error())
		return
	}
	if paused {
		// the client starts reading only when Close has returned on the server
		select {
		case <-closeReturned:
		case <-time.After(20 * time.Second):
			// a server blocked inside WriteMessage/Close with a reader that waits is not this phase's clause
			r.Inconclusive(fmt.Sprintf("qclose case %d: the server's WriteMessage+Close had not returned after 20 s (queued mode: %v)", c.Index, atomic.LoadInt32(&asyncWrite) == 1))
			return
		}
	}
	// read the frame stream until every message arrived or the stream ends
	_ = nc.SetReadDeadline(time.Now().Add(qcloseDelay / 3))
	var got [][]byte
	var cur []byte
	inMsg := false
	var endErr error
	hdr := make([]byte, 14)
	for len(got) < len(msgs) {
		if _, err := io.ReadFull(br, hdr[:2]); err != nil {
			endErr = err
			break
		}
		fin, op := hdr[0]&0x80 != 0, hdr[0]&0x0f
		n := uint64(hdr[1] & 0x7f)
		if hdr[1]&0x80 != 0 {
			r.Violate("c14:qclose:masked-server-frame", fmt.Sprintf("case %+v", c), c)
			return
		}
		if n == 126 {
			if _, err := io.ReadFull(br, hdr[:2]); err != nil {
				endErr = err
				break
			}
			n = uint64(hdr[0])<<8 | uint64(hdr[1])
		} else if n == 127 {
			if _, err := io.ReadFull(br, hdr[:8]); err != nil {
				endErr = err
				break
			}
			n = 0
			for i := 0; i < 8; i++ {
				n = n<<8 | uint64(hdr[i])
			}
		}
		if n > 64<<20 {
			r.Violate("c14:qclose:frame-stream-corrupt", fmt.Sprintf("frame announces %d bytes; case %+v", n, c), c)
			return
		}
		p := make([]byte, n)
		if _, err := io.ReadFull(br, p); err != nil {
			endErr = err
			break
		}
		bump()
		switch {
		case op >= 8:
			continue // control frames are not this phase's business
		case op == 0 && !inMsg, op != 0 && inMsg:
			r.Violate("c14:qclose:frame-stream-corrupt", fmt.Sprintf("opcode %d, message in progress %v; case %+v", op, inMsg, c), c)
			return
		}
		cur = append(cur, p...)
		inMsg = !fin
		if fin {
			got = append(got, cur)
			cur = nil
		}
	}
	sinceClose := time.Duration(-1)
	if cc := atomic.LoadInt64(&closeCalled); cc != 0 {
		sinceClose = time.Since(time.Unix(0, cc))
	}
	acc := int(atomic.LoadInt32(&accepted))
	for i, g := range got {
		if string(g) != string(msgs[i]) {
			r.Violate(fmt.Sprintf("c14:qclose:%s:message-altered", c.Shape), fmt.Sprintf("message %d arrived with %d bytes, %d were written, or with other content; case %+v", i, len(g), len(msgs[i]), c), c)
			return
		}
	}
	if we, _ := writeErr.Load().(string); we != "" {
		r.Inconclusive(fmt.Sprintf("qclose case %d: WriteMessage failed: %s", c.Index, we))
		return
	}
	if atomic.LoadInt32(&asyncWrite) != 1 {
		r.Inconclusive(fmt.Sprintf("qclose case %d: the connection is not in the queued write mode", c.Index))
		return
	}
	if len(got) < acc {
		if isTimeout(endErr) {
			// nothing arrives and nothing ends: decided elsewhere (a stalled drainer is not a lost-at-close case)
			r.Inconclusive(fmt.Sprintf("qclose case %d: %d of %d messages after %v of silence", c.Index, len(got), acc, qcloseDelay/3))
			return
		}
		if sinceClose >= 0 && sinceClose < qcloseDelay/2 {
			r.Violate(fmt.Sprintf("c14:qclose:%s:accepted-message-lost-at-close", c.Shape),
				fmt.Sprintf("queued write mode, BlockingModAsyncCloseDelay %v: %d message(s) were accepted by WriteMessage (nil), then Close was called; the client's stream ended (%v) %v after Close was called with %d complete message(s) and %d bytes of the next one\ncase %+v",
					qcloseDelay, acc, endErr, sinceClose, len(got), len(cur), c), c)
			return
		}
		r.Inconclusive(fmt.Sprintf("qclose case %d: stream ended early but %v after Close was called", c.Index, sinceClose))
		return
	}
	<-closeReturned
	r.Seen("qclose_cells", c.Path+"/"+c.Shape)
	r.Count("qclose_messages_complete_after_close", int64(len(got)))
	r.Nontrivial(fmt.Sprintf("qclose-%d", c.Index))
}
