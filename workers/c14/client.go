package main

import (
	"bufio"
	"errors"
	"fmt"
	"io"
	"math/rand"
	"net"
	"net/http"
	"os"
	"sort"
	"strings"
	"sync"
	"sync/atomic"
	"time"

	"verif/internal/e2e"
	"verif/internal/h"
	"verif/internal/httpx"
	"verif/internal/wsref"
)

const watchdogIO = 120 * time.Second

// clientState is what one raw client observed.
type clientState struct {
	idx   int
	local string
	nc    net.Conn

	mu        sync.Mutex
	got       map[wkey]int // writer message -> times received
	lastSeq   map[int]int  // writer -> last seq received
	gaps      []wkey       // messages skipped on the wire (must have failed at the writer)
	endSeen   chan struct{}
	endOnce   sync.Once
	readDone  chan struct{}
	readErr   error
	closeCode int
	frames    int64
	dataMsgs  int64
	fragMsgs  int64 // messages that arrived in >= 2 frames
	sentAll   bool
	sentClose bool
	streamBad bool
}

func isTimeout(err error) bool {
	var ne net.Error
	return errors.As(err, &ne) && ne.Timeout()
}

// handshake performs the opening handshake by hand.
func handshake(nc net.Conn, br *bufio.Reader, ci int) error {
	_ = nc.SetDeadline(time.Now().Add(watchdogIO))
	_, err := fmt.Fprintf(nc, "GET /ws?c=%d HTTP/1.1\r\nHost: verif\r\nUpgrade: websocket\r\nConnection: Upgrade\r\nSec-WebSocket-Key: dGhlIHNhbXBsZSBub25jZQ==\r\nSec-WebSocket-Version: 13\r\n\r\n", ci)
	if err != nil {
		return err
	}
	resp, err := http.ReadResponse(br, nil)
	if err != nil {
		return err
	}
	if resp.StatusCode != 101 {
		return fmt.Errorf("upgrade answered with status %d", resp.StatusCode)
	}
	if got := resp.Header.Get("Sec-WebSocket-Accept"); got != "s3pPLMBiTxaQ9kYGzzhZRbK+xOo=" {
		return fmt.Errorf("Sec-WebSocket-Accept %q", got)
	}
	_ = nc.SetDeadline(time.Time{})
	return nil
}

// reader decodes the server's frame stream and applies the wire oracle.
func (e *env) reader(cs *clientState, br *bufio.Reader) {
	defer close(cs.readDone)
	var buf []byte
	chunk := make([]byte, 32<<10)
	type asm struct {
		op     byte
		parts  int
		ctrl   int
		data   []byte
		frames []string
	}
	var cur *asm
	recent := []string{}
	note := func(f *wsref.Frame) {
		s := fmt.Sprintf("{op=%d fin=%v len=%d %s}", f.Opcode, f.Fin, len(f.Payload), h.Hex(f.Payload, 16))
		recent = append(recent, s)
		if len(recent) > 12 {
			recent = recent[1:]
		}
	}
	wmode := func() string {
		if v, ok := e.recs.Load(cs.local); ok {
			return e.wmode(v.(*connRec))
		}
		return "direct"
	}
	bad := func(sym, detail string) {
		cs.streamBad = true
		cs.endOnce.Do(func() { close(cs.endSeen) }) // nothing after this point is interpreted: do not wait for the end marker
		e.violate("c14:"+wmode()+":"+sym, fmt.Sprintf("client #%d (%s): %s\nlast frames received: %s\nserver-side events of the connection:\n%s", cs.idx, cs.local, detail, strings.Join(recent, " "), e.log.Slice(cs.local, 25)))
	}
	for {
		for {
			f, n, err := wsref.Decode(buf)
			if err == wsref.ErrShort {
				break
			}
			if err != nil {
				bad("frame-stream-undecodable", fmt.Sprintf("the frame stream cannot be decoded: %v", err))
				return
			}
			buf = buf[n:]
			atomic.AddInt64(&cs.frames, 1)
			bump()
			note(&f)
			if cs.streamBad {
				continue
			}
			switch {
			case f.IsControl():
				if cur != nil {
					cur.ctrl++
				}
				if f.Opcode == wsref.OpClose {
					if len(f.Payload) >= 2 {
						cs.closeCode = int(f.Payload[0])<<8 | int(f.Payload[1])
					} else {
						cs.closeCode = 1005
					}
				}
			case f.Opcode == wsref.OpCont:
				if cur == nil {
					bad("fragments-interleaved", "a continuation frame arrived while no message was in progress (its message was cut by another one)")
					continue
				}
				cur.parts++
				cur.data = append(cur.data, f.Payload...)
			default:
				if cur != nil {
					hd, _ := parseHdr(cur.data)
					nh, _ := parseHdr(f.Payload)
					bad("fragments-interleaved", fmt.Sprintf("a new data message (first frame of writer %d seq %d) started after %d frame(s) of the unfinished message of writer %d seq %d: the fragments of one WriteMessage call are not contiguous on the wire (another call's frames cut in, or the remaining fragments were never sent)", nh.Writer, nh.Seq, cur.parts, hd.Writer, hd.Seq))
					continue
				}
				cur = &asm{op: f.Opcode, parts: 1, data: append([]byte(nil), f.Payload...)}
			}
			if cur != nil && f.IsData() && f.Fin {
				m := cur
				cur = nil
				atomic.AddInt64(&cs.dataMsgs, 1)
				e.r.Seen("fragments_per_message", fmt.Sprint(min(m.parts, 8)))
				e.r.Seen("control_frames_between_fragments", fmt.Sprint(m.ctrl))
				e.r.Count("outbound_fragments_seen", int64(m.parts))
				if m.parts >= 2 {
					atomic.AddInt64(&cs.fragMsgs, 1)
				}
				hd, ok := parseHdr(m.data)
				switch {
				case ok && hd.Magic == "C14E":
					cs.endOnce.Do(func() { close(cs.endSeen) })
				case !ok || hd.Magic != "C14O":
					bad("unknown-message-on-the-wire", fmt.Sprintf("a message nobody wrote arrived: %d bytes starting %s", len(m.data), h.Hex(m.data, 48)))
				case hd.Conn != cs.idx:
					bad("message-of-another-connection", fmt.Sprintf("a message written to connection #%d (writer %d seq %d) arrived on connection #%d", hd.Conn, hd.Writer, hd.Seq, cs.idx))
				default:
					if hd.Len != len(m.data)-hdrLen {
						bad("message-corrupt", fmt.Sprintf("message of writer %d seq %d announces %d payload bytes, %d arrived in %d frames", hd.Writer, hd.Seq, hd.Len, len(m.data)-hdrLen, m.parts))
						continue
					}
					if is := e2e.CheckBody(m.data[hdrLen:], outID(e.salt, hd.Conn, hd.Writer, hd.Seq), hd.Len); is != nil {
						bad("message-corrupt", fmt.Sprintf("message of writer %d seq %d (%d frames): %s", hd.Writer, hd.Seq, m.parts, is.Detail))
						continue
					}
					k := wkey{hd.Writer, hd.Seq}
					cs.mu.Lock()
					cs.got[k]++
					dup := cs.got[k] > 1
					last, seen := cs.lastSeq[hd.Writer]
					if !seen {
						last = -1
					}
					if hd.Seq > last {
						for s := last + 1; s < hd.Seq; s++ {
							cs.gaps = append(cs.gaps, wkey{hd.Writer, s})
						}
						cs.lastSeq[hd.Writer] = hd.Seq
					}
					cs.mu.Unlock()
					if dup {
						bad("message-duplicated", fmt.Sprintf("message of writer %d seq %d arrived twice", hd.Writer, hd.Seq))
					} else if hd.Seq < last {
						bad("per-writer-order", fmt.Sprintf("message of writer %d seq %d arrived after seq %d of the same writer", hd.Writer, hd.Seq, last))
					}
					e.r.Count("outbound_messages_verified", 1)
				}
			}
		}
		_ = cs.nc.SetReadDeadline(time.Now().Add(watchdogIO))
		n, err := br.Read(chunk)
		buf = append(buf, chunk[:n]...)
		if err != nil {
			cs.readErr = err
			return
		}
	}
}

// sender writes the numbered inbound messages, some fragmented, with pings
// between fragments, in random TCP segments. stopAfter < InMsgs cuts it short.
func (e *env) sender(cs *clientState, rng *rand.Rand, from, stopAfter int) error {
	c := e.c
	key := func() [4]byte {
		var k [4]byte
		rng.Read(k[:])
		return k
	}
	for seq := from; seq < c.InMsgs && seq < stopAfter; seq++ {
		var n int
		switch rng.Intn(10) {
		case 0:
			n = 0
		case 1:
			n = 4000 + rng.Intn(200) // around the blocking read buffer
		case 2:
			n = 20000 + rng.Intn(80000)
		default:
			n = rng.Intn(3000)
		}
		msg := buildMsg("C14I", inID(e.salt, cs.idx, seq), cs.idx, 0, seq, n)
		var cuts []int
		if rng.Intn(2) == 0 {
			for i := 0; i < 1+rng.Intn(3); i++ {
				cuts = append(cuts, rng.Intn(len(msg)+1))
			}
			sort.Ints(cuts)
		}
		frames := wsref.Fragment(wsref.Message{Type: wsref.OpBinary, Payload: msg}, wsref.FragmentOpts{Cuts: cuts, Masked: true, NextKey: key})
		var wire []byte
		for i := range frames {
			wire = wsref.AppendFrame(wire, &frames[i])
			if rng.Intn(4) == 0 {
				last := 0
				if i == len(frames)-1 {
					last = 1
				}
				ping := wsref.Frame{Fin: true, Opcode: wsref.OpPing, Masked: true, Key: key(), Payload: []byte(fmt.Sprintf("p%d.%d.%d", seq, i, last))}
				wire = wsref.AppendFrame(wire, &ping)
				e.r.Count("pings_interleaved", 1)
			}
		}
		if len(frames) > 1 {
			e.r.Count("inbound_messages_fragmented", 1)
		}
		_ = cs.nc.SetWriteDeadline(time.Now().Add(watchdogIO))
		if rng.Intn(3) == 0 {
			for off := 0; off < len(wire); {
				k := 1 + rng.Intn(1500)
				if k > len(wire)-off {
					k = len(wire) - off
				}
				if _, err := cs.nc.Write(wire[off : off+k]); err != nil {
					return err
				}
				off += k
			}
		} else if _, err := cs.nc.Write(wire); err != nil {
			return err
		}
		bump()
	}
	return nil
}

func (e *env) sendClose(cs *clientState, rng *rand.Rand) {
	var k [4]byte
	rng.Read(k[:])
	f := wsref.Frame{Fin: true, Opcode: wsref.OpClose, Masked: true, Key: k, Payload: wsref.ClosePayload(1000, "done")}
	_ = cs.nc.SetWriteDeadline(time.Now().Add(watchdogIO))
	_, _ = cs.nc.Write(wsref.AppendFrame(nil, &f))
	cs.sentClose = true
}

// runClient drives one connection through the case's history.
func (e *env) runClient(ci int, rng *rand.Rand, addr string, stopEngine func()) *clientState {
	c := e.c
	cell := httpx.Cell{TLS: c.TLS}
	nc, err := cell.Dial(addr)
	if err != nil {
		if atomic.LoadInt32(&e.stopped) == 0 {
			e.r.Inconclusive(fmt.Sprintf("case %d: dial: %v", c.Index, err))
		} else {
			e.r.Count("clients_that_came_after_the_engine_was_stopped", 1)
		}
		return nil
	}
	cs := &clientState{idx: ci, nc: nc, local: nc.LocalAddr().String(), got: map[wkey]int{}, lastSeq: map[int]int{}, endSeen: make(chan struct{}), readDone: make(chan struct{})}
	e.idxOf.Store(cs.local, ci)
	br := bufio.NewReaderSize(nc, 32<<10)
	if err := handshake(nc, br, ci); err != nil {
		nc.Close()
		if atomic.LoadInt32(&e.stopped) == 0 {
			e.r.Inconclusive(fmt.Sprintf("case %d: handshake: %v", c.Index, err))
		}
		return nil
	}
	go e.reader(cs, br)
	end := e.end
	switch end {
	case "client-close-frame":
		if err := e.sender(cs, rng, 0, c.InMsgs); err == nil {
			cs.sentAll = true
		}
		// keep the connection open until the writers' end marker has arrived
		switch e2e.WaitQuiet(orDone(cs.endSeen, cs.readDone), prog, 150*time.Second) {
		case "quiet":
			select {
			case <-cs.endSeen:
			default:
				if cs.streamBad {
					break
				}
				cls := "direct"
				if v, ok := e.recs.Load(cs.local); ok {
					cls = e.wmode(v.(*connRec))
				}
				e.violate("c14:"+cls+":messages-never-sent", fmt.Sprintf("client #%d (%s): the connection is open and the client keeps reading, but the end marker written after all writers returned never arrived: the history is final (process idle, no progress for 3 s); %d data messages and %d frames were received\nserver-side events of the connection:\n%s", ci, cs.local, atomic.LoadInt64(&cs.dataMsgs), atomic.LoadInt64(&cs.frames), e.log.Slice(cs.local, 30)))
			}
		case "watchdog":
			e.r.Inconclusive(fmt.Sprintf("case %d: watchdog while waiting for the end marker", c.Index))
		}
		e.sendClose(cs, rng)
	case "client-tcp-close":
		stopAfter := rng.Intn(c.InMsgs + 1)
		_ = e.sender(cs, rng, 0, stopAfter)
		if rng.Intn(2) == 0 {
			select {
			case <-cs.endSeen:
			case <-cs.readDone:
			case <-time.After(time.Duration(rng.Intn(20)) * time.Millisecond):
			}
		}
		_ = nc.Close()
	case "server-close", "server-closeandclean":
		_ = e.sender(cs, rng, 0, c.InMsgs)
	case "engine-stop":
		stopAfter := rng.Intn(c.InMsgs + 1)
		_ = e.sender(cs, rng, 0, stopAfter)
		if ci == 0 {
			atomic.StoreInt32(&e.stopped, 1)
			e.log.Add("engine.stop", "", 0, "")
			stopEngine()
			bump()
		}
		_ = e.sender(cs, rng, stopAfter, c.InMsgs) // whatever still goes through
	}
	// the stream must end now (server closes after the close handshake, the
	// client closed, the server closed, or the engine stopped)
	switch e2e.WaitQuiet(cs.readDone, prog, 150*time.Second) {
	case "quiet":
		if end == "client-close-frame" && cs.sentClose {
			// Not a clause of this property (it orders callbacks and keeps written messages whole;
			// that the socket is closed after the close handshake is said nowhere): counted and
			// described, not alarmed. Seen about once in fifty quick runs on the mixed / transferred
			// paths: the close callback has run and the nbio connection is closed, yet the peer sees
			// no end of stream - something else in the process still holds the socket.
			e.r.Count("observation:connection_left_open_after_close_handshake(not asserted)", 1)
			fmt.Printf("=== observation, case %d: client #%d (%s) sent a close frame (1000) after the whole history; the server never closed the connection (final history)\nserver side: %s\nkernel: %s\n%s\n", c.Index, ci, cs.local, e.serverState(cs.local), socketHolders(nc), e.log.Slice(cs.local, 30))
		} else {
			e.r.Count("connections_still_open_at_quiescence(not asserted)", 1)
		}
		_ = nc.Close()
		<-cs.readDone
	case "watchdog":
		e.r.Inconclusive(fmt.Sprintf("case %d: watchdog while waiting for the end of the stream", c.Index))
		_ = nc.Close()
		<-cs.readDone
	}
	_ = nc.Close()
	return cs
}

func orDone(a, b <-chan struct{}) <-chan struct{} {
	out := make(chan struct{})
	go func() {
		select {
		case <-a:
		case <-b:
		}
		close(out)
	}()
	return out
}

var _ = io.EOF

// socketHolders reports, for the server side of a loopback TCP connection of this process, the
// kernel's state of both ends and which descriptors of the process refer to the server-side
// socket. Diagnostics only.
func socketHolders(nc net.Conn) string {
	la, ok1 := nc.LocalAddr().(*net.TCPAddr)
	ra, ok2 := nc.RemoteAddr().(*net.TCPAddr)
	if !ok1 || !ok2 {
		return "n/a"
	}
	b, err := os.ReadFile("/proc/net/tcp")
	if err != nil {
		return "n/a"
	}
	lp, rp := fmt.Sprintf(":%04X", la.Port), fmt.Sprintf(":%04X", ra.Port)
	out := ""
	inode := ""
	for _, l := range strings.Split(string(b), "\n") {
		f := strings.Fields(l)
		if len(f) < 10 {
			continue
		}
		if strings.HasSuffix(f[1], lp) && strings.HasSuffix(f[2], rp) {
			out += " client-side state=" + f[3]
		}
		if strings.HasSuffix(f[1], rp) && strings.HasSuffix(f[2], lp) {
			out += " server-side state=" + f[3] + " inode=" + f[9]
			inode = f[9]
		}
	}
	if inode != "" && inode != "0" {
		ents, _ := os.ReadDir("/proc/self/fd")
		for _, en := range ents {
			if l, err := os.Readlink("/proc/self/fd/" + en.Name()); err == nil && l == "socket:["+inode+"]" {
				out += " held-by-fd=" + en.Name()
			}
		}
	}
	if out == "" {
		return "no such connection in /proc/net/tcp"
	}
	return out
}
