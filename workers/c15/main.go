// C15 - WebSocket size limits. In-memory: the reference codec builds messages
// whose size straddles MessageLengthLimit (one frame, fragments, compressed
// frames that inflate past the limit), control frames above 125 bytes, and
// input that outgrows ReadLimit; nbio's Parse is driven with an inline
// executor over a tracking allocator (installed as Config.BodyAllocator, it
// wraps a real nbio allocator) that measures the live buffers of the
// connection.
package main

import (
	"bytes"
	"encoding/hex"
	"errors"
	"fmt"
	"math/rand"
	"strings"
	"time"

	"github.com/lesismal/nbio/mempool"
	"github.com/lesismal/nbio/nbhttp"
	"github.com/lesismal/nbio/nbhttp/websocket"

	"verif/internal/h"
	"verif/internal/wsref"
	"verif/internal/wsref/nbdrive"
)

// ---------------------------------------------------------------- tracking allocator

// tracker wraps a real allocator and keeps the set of live buffers. "Live
// bytes" is the sum of len() of the live buffers, evaluated at every
// allocator call and at every callback.
type tracker struct {
	inner mempool.Allocator
	live  map[*[]byte]struct{}
	// the buffer Parse allocates or appends to first is the input cache
	expectCache bool
	cache       *[]byte

	peak       int
	peakAt     string
	cachePeak  int
	mallocs    int
	frees      int
	foreign    int
	peakDetail string
}

func newTracker(inner mempool.Allocator) *tracker {
	return &tracker{inner: inner, live: map[*[]byte]struct{}{}}
}

func (t *tracker) measure(at string) {
	sum := 0
	for p := range t.live {
		sum += len(*p)
	}
	if sum > t.peak {
		t.peak = sum
		t.peakAt = at
		var sb strings.Builder
		for p := range t.live {
			tag := ""
			if p == t.cache {
				tag = "(input cache)"
			}
			fmt.Fprintf(&sb, " len=%d,cap=%d%s", len(*p), cap(*p), tag)
		}
		t.peakDetail = sb.String()
	}
	if t.cache != nil {
		if _, ok := t.live[t.cache]; ok && len(*t.cache) > t.cachePeak {
			t.cachePeak = len(*t.cache)
		}
	}
}

func (t *tracker) adopt(old, p *[]byte) {
	if old != nil && old != p {
		delete(t.live, old)
	}
	t.live[p] = struct{}{}
	if t.expectCache {
		t.cache = p
		t.expectCache = false
	} else if old != nil && t.cache == old {
		t.cache = p
	}
}

func (t *tracker) Malloc(size int) *[]byte {
	p := t.inner.Malloc(size)
	t.mallocs++
	t.adopt(nil, p)
	t.measure("Malloc")
	return p
}

func (t *tracker) Realloc(buf *[]byte, size int) *[]byte {
	p := t.inner.Realloc(buf, size)
	t.adopt(buf, p)
	t.measure("Realloc")
	return p
}

func (t *tracker) Append(buf *[]byte, more ...byte) *[]byte {
	p := t.inner.Append(buf, more...)
	t.adopt(buf, p)
	t.measure("Append")
	return p
}

func (t *tracker) AppendString(buf *[]byte, more string) *[]byte {
	p := t.inner.AppendString(buf, more)
	t.adopt(buf, p)
	t.measure("AppendString")
	return p
}

func (t *tracker) Free(buf *[]byte) {
	if buf == nil {
		return
	}
	t.measure("Free")
	if _, ok := t.live[buf]; ok {
		delete(t.live, buf)
		t.frees++
	} else {
		t.foreign++
	}
	if t.cache == buf {
		t.cache = nil
	}
	t.inner.Free(buf)
}

// handOver: the buffer was delivered to the application, which owns it now.
func (t *tracker) handOver(p *[]byte) {
	t.measure("OnMessage")
	if p == nil {
		return
	}
	if _, ok := t.live[p]; ok {
		delete(t.live, p)
		t.inner.Free(p)
	}
}

// ---------------------------------------------------------------- cases

type caseT struct {
	Kind  string `json:"kind"` // plain | compressed | control-send | control-recv | readlimit | ping-interleaved
	Index int    `json:"index"`
	L     int    `json:"limit"`
	Pool  string `json:"pool"` // mempool | aligned
	// ReadLimit: 0 = fitted to the wire image (never triggers)
	ReadLimit int    `json:"read_limit,omitempty"`
	Client    bool   `json:"client,omitempty"`
	Type      int    `json:"type,omitempty"`
	Size      int    `json:"size,omitempty"`  // plain/readlimit: message size; compressed: inflated size; control: payload size
	Frags     int    `json:"frags,omitempty"` // number of frames the message is cut into
	FragSeed  int64  `json:"frag_seed,omitempty"`
	Content   string `json:"content,omitempty"` // zero | compressible | utf8 | random
	Level     int    `json:"level,omitempty"`
	Final     bool   `json:"bfinal_ending,omitempty"` // DEFLATE stream ends with a BFINAL=1 block (RFC 7692 7.2.3.4)
	Op        int    `json:"op,omitempty"`            // control opcode
	Via       string `json:"via,omitempty"`           // control-send: "" = WriteMessage | frame = WriteFrame | close = WriteClose
	// Between (control-recv): the control frame arrives between the fragments of a data message
	Between bool `json:"between_fragments,omitempty"`
	// FramesOnly (plain, one frame): the endpoint has a data-frame callback and no message callback
	FramesOnly bool        `json:"frames_only,omitempty"`
	Seg        nbdrive.Seg `json:"seg"`
	// informational
	WireHex string `json:"wire_hex,omitempty"`
	WireLen int    `json:"wire_len,omitempty"`
	Cuts    []int  `json:"cuts,omitempty"`
}

var (
	run *h.Run
	lg  *h.CapLogger
	wd  *nbdrive.Watchdog
)

const sentinel = "S"

func violate(sig, detail string, c caseT, wire []byte, cuts []int) {
	c.WireLen = len(wire)
	if len(wire) > 0 && len(wire) <= 2048 {
		c.WireHex = hex.EncodeToString(wire)
	}
	if len(cuts) > 0 && len(cuts) <= 64 {
		c.Cuts = cuts
	}
	run.Violate(sig, detail, c)
}

func pool(name string) mempool.Allocator {
	if name == "aligned" {
		return mempool.NewAligned()
	}
	// the shape of mempool.DefaultMemPool, but private to the case
	return mempool.New(1024, 1<<30)
}

func sizeClass(size, L int) string {
	switch {
	case size < L-1:
		return "<L-1"
	case size == L-1:
		return "L-1"
	case size == L:
		return "L"
	case size == L+1:
		return "L+1"
	case size <= L+1024:
		return "L+2..L+1024"
	case size <= 10*L:
		return "..10L"
	}
	return ">10L"
}

type outcome struct {
	e      *nbdrive.Endpoint
	tr     *tracker
	wire   []byte
	cuts   []int
	maxSeg int
	msgs   []wsref.Message
	closes []int // codes of the close frames nbio wrote (-1: no code)
	pongs  int
	rl     int
}

// drive feeds wire to a fresh endpoint with the tracking allocator.
func drive(c caseT, wire []byte) outcome {
	tr := newTracker(pool(c.Pool))
	rl := c.ReadLimit
	if rl == 0 {
		rl = len(wire) + 1
	}
	cfg := nbdrive.Config{Client: c.Client, Compression: c.Kind == "compressed" || c.Kind == "compressed-unfinished", MsgLimit: c.L, ReadLimit: rl, Allocator: tr}
	if c.FramesOnly {
		// a data-frame callback only, no message callback: nothing is assembled by nbio
		cfg.FramesOnly = true
	} else {
		cfg.AfterMessage = tr.handOver
	}
	e := nbdrive.New(cfg)
	cuts := c.Seg.Cuts(len(wire))
	prev := 0
	feed := func(seg []byte) {
		tr.expectCache = true
		_ = e.Feed(seg)
		tr.expectCache = false
		tr.measure("after Parse")
	}
	for _, at := range cuts {
		if at <= prev || at >= len(wire) {
			continue
		}
		feed(wire[prev:at])
		prev = at
	}
	if prev < len(wire) {
		feed(wire[prev:])
	}
	o := outcome{e: e, tr: tr, wire: wire, cuts: cuts, maxSeg: nbdrive.MaxSegment(len(wire), cuts), msgs: e.Messages(), rl: rl}
	for _, ob := range e.Obs {
		if ob.Kind == nbdrive.ObsFrameOut {
			switch ob.Frame.Opcode {
			case wsref.OpClose:
				code := -1
				if len(ob.Frame.Payload) >= 2 {
					code = int(ob.Frame.Payload[0])<<8 | int(ob.Frame.Payload[1])
				}
				o.closes = append(o.closes, code)
				run.Seen("close_codes_written", fmt.Sprint(code))
			case wsref.OpPong:
				o.pongs++
			}
		}
	}
	if e.ParseErr != nil {
		run.Seen("parse_errors", e.ParseErr.Error())
	}
	run.Eval(1)
	run.Count("parse_calls", int64(e.ParseCalls))
	run.Count("allocator_mallocs", int64(tr.mallocs))
	return o
}

func (o *outcome) describe() string {
	var sb strings.Builder
	fmt.Fprintf(&sb, "nbio: ParseErr=%v connClosed=%d failedAfter=%d/%d bytes, close codes written %v, %d callbacks:", o.e.ParseErr, o.e.ConnClosed, o.e.FailFed, len(o.wire), o.closes, len(o.msgs))
	for _, m := range o.msgs {
		fmt.Fprintf(&sb, " (type %d, %d bytes)", m.Type, len(m.Payload))
	}
	fmt.Fprintf(&sb, "; allocator: peak live %d bytes at %s [%s], input cache peak %d, read limit %d, longest read %d", o.tr.peak, o.tr.peakAt, o.tr.peakDetail, o.tr.cachePeak, o.rl, o.maxSeg)
	return sb.String()
}

// common checks: memory bounds, panics, nothing above the limit delivered.
func (o *outcome) common(c caseT, how string) bool {
	ok := true
	L := c.L
	for _, m := range o.msgs {
		run.Count("messages_delivered", 1)
		if L > 0 && len(m.Payload) > L {
			violate("c15:"+how+":over-limit-message-delivered", fmt.Sprintf("MessageLengthLimit=%d, OnMessage received %d bytes\n%s", L, len(m.Payload), o.describe()), c, o.wire, o.cuts)
			ok = false
			break
		}
	}
	// buffered unparsed input never exceeds the read limit: the limit is applied before a read is
	// appended to the cache; only a first read (nothing cached yet) is taken as it is
	cacheBound := o.rl
	if o.maxSeg > cacheBound {
		cacheBound = o.maxSeg
	}
	if o.tr.cachePeak > cacheBound {
		violate("c15:"+how+":input-cache-over-read-limit", fmt.Sprintf("input cache grew to %d bytes; ReadLimit=%d, longest read %d\n%s", o.tr.cachePeak, o.rl, o.maxSeg, o.describe()), c, o.wire, o.cuts)
		ok = false
	}
	run.Max("max_input_cache_permille_of_bound", int64(o.tr.cachePeak*1000/cacheBound))
	// nothing larger than the limit is buffered: a frame whose declared length passes the limit is
	// refused at its header, so the cache never holds more than an incomplete frame within the
	// limit (payload + 14 header bytes) and one read
	if L > 0 && o.tr.cachePeak > L+14+o.maxSeg {
		violate("c15:"+how+":over-limit-frame-buffered", fmt.Sprintf("input cache grew to %d bytes although MessageLengthLimit=%d (longest read %d): a frame over the limit was buffered instead of being refused at its header\n%s", o.tr.cachePeak, L, o.maxSeg, o.describe()), c, o.wire, o.cuts)
		ok = false
	}
	if L > 0 {
		bound := 2*L + o.rl + o.maxSeg + 4096
		run.Max("max_peak_live_permille_of_bound", int64(o.tr.peak*1000/bound))
		if o.tr.peak > bound {
			violate("c15:"+how+":peak-live-bytes-over-bound", fmt.Sprintf("peak live bytes %d > 2*%d + %d + %d + 4096 = %d\n%s", o.tr.peak, L, o.rl, o.maxSeg, bound, o.describe()), c, o.wire, o.cuts)
			ok = false
		}
	}
	if len(o.e.JobPanics) > 0 {
		violate("c15:"+how+":panic-in-handler-job", o.e.JobPanics[0], c, o.wire, o.cuts)
		ok = false
	}
	o.e.Finish()
	if p := h.PanicLines(lg.Take()); len(p) > 0 {
		violate("c15:"+how+":panic-recovered", p[0], c, o.wire, o.cuts)
		ok = false
	}
	return ok
}

func has1009(codes []int) bool {
	for _, c := range codes {
		if c == 1009 {
			return true
		}
	}
	return false
}

// expectRefused: the message is over the limit.
func (o *outcome) expectRefused(c caseT, how string, size int) bool {
	if len(o.msgs) > 0 {
		// (a delivery above the limit is reported by common())
		for _, m := range o.msgs {
			if len(m.Payload) > c.L {
				return false
			}
		}
		violate("c15:"+how+":over-limit-message-partly-delivered", fmt.Sprintf("a %d-byte message (limit %d) must not produce a callback\n%s", size, c.L, o.describe()), c, o.wire, o.cuts)
		return false
	}
	if !o.e.Failed() {
		violate("c15:"+how+":over-limit-message-not-refused", fmt.Sprintf("a %d-byte message (limit %d) was fully fed; nbio neither failed nor delivered\n%s", size, c.L, o.describe()), c, o.wire, o.cuts)
		return false
	}
	if !has1009(o.closes) {
		violate("c15:"+how+":refused-without-close-1009", fmt.Sprintf("a %d-byte message (limit %d) was refused, but no close frame with code 1009 was written\n%s", size, c.L, o.describe()), c, o.wire, o.cuts)
		return false
	}
	run.Count("over_limit_refused_with_1009", 1)
	return true
}

// expectDelivered: the message is within the limit and must arrive, followed
// by the sentinel.
func (o *outcome) expectDelivered(c caseT, how string, m wsref.Message) bool {
	if o.e.Failed() || len(o.msgs) == 0 {
		what := "message-below-limit-refused"
		if len(m.Payload) == c.L {
			what = "message-of-exactly-limit-size-refused"
		}
		violate("c15:"+how+":"+what, fmt.Sprintf("a %d-byte message (limit %d) must be delivered\n%s", len(m.Payload), c.L, o.describe()), c, o.wire, o.cuts)
		return false
	}
	if len(o.msgs) != 2 || o.msgs[0].Type != m.Type || !bytes.Equal(o.msgs[0].Payload, m.Payload) || string(o.msgs[1].Payload) != sentinel {
		violate("c15:"+how+":message-within-limit-wrong-delivery", fmt.Sprintf("expected the %d-byte message and the sentinel\n%s", len(m.Payload), o.describe()), c, o.wire, o.cuts)
		return false
	}
	run.Count("within_limit_delivered", 1)
	return true
}

func content(c caseT, n int) []byte {
	kind := c.Content
	if kind == "" {
		kind = nbdrive.PayRandom
		if c.Type == wsref.OpText {
			kind = nbdrive.PayText
		}
	}
	return nbdrive.GenPayload(kind, n, c.FragSeed+1)
}

func cutsFor(rng *rand.Rand, n, frags int) []int {
	var cuts []int
	for i := 1; i < frags; i++ {
		cuts = append(cuts, rng.Intn(n+1))
	}
	for a := 1; a < len(cuts); a++ {
		for b := a; b > 0 && cuts[b] < cuts[b-1]; b-- {
			cuts[b], cuts[b-1] = cuts[b-1], cuts[b]
		}
	}
	return cuts
}

func keyGen(rng *rand.Rand) func() [4]byte {
	return func() [4]byte {
		var k [4]byte
		rng.Read(k[:])
		return k
	}
}

func runPlain(c caseT) {
	rng := rand.New(rand.NewSource(c.FragSeed))
	masked := !c.Client
	m := wsref.Message{Type: byte(c.Type), Payload: content(c, c.Size)}
	frames := wsref.Fragment(m, wsref.FragmentOpts{Cuts: cutsFor(rng, c.Size, c.Frags), Masked: masked, NextKey: keyGen(rng)})
	frames = append(frames, wsref.Frame{Fin: true, Opcode: wsref.OpBinary, Masked: masked, Key: [4]byte{1, 2, 3, 4}, Payload: []byte(sentinel)})
	o := drive(c, wsref.Encode(frames))
	how := "single-frame"
	if c.Frags > 1 {
		how = "fragmented"
	}
	if c.FramesOnly {
		how = "frames-only"
	}
	ok := true
	if c.Size > c.L {
		ok = o.expectRefused(c, how, c.Size)
	} else {
		ok = o.expectDelivered(c, how, m)
	}
	ok = o.common(c, how) && ok
	run.Seen("cells", fmt.Sprintf("%s/L=%d/%s/%s/frags=%d", how, c.L, c.Pool, sizeClass(c.Size, c.L), c.Frags))
	if ok {
		run.Nontrivial(fmt.Sprintf("plain/%d", c.Index))
	}
}

func runCompressed(c caseT) {
	rng := rand.New(rand.NewSource(c.FragSeed))
	masked := !c.Client
	m := wsref.Message{Type: byte(c.Type), Payload: content(c, c.Size)}
	cp := wsref.Deflate(m.Payload, c.Level)
	if c.Final {
		cp = wsref.DeflateFinal(m.Payload, c.Level)
	}
	frames := wsref.Fragment(wsref.Message{Type: m.Type, Payload: cp}, wsref.FragmentOpts{Cuts: cutsFor(rng, len(cp), c.Frags), Masked: masked, NextKey: keyGen(rng)})
	frames[0].Rsv1 = true
	frames = append(frames, wsref.Frame{Fin: true, Opcode: wsref.OpBinary, Masked: masked, Key: [4]byte{1, 2, 3, 4}, Payload: []byte(sentinel)})
	o := drive(c, wsref.Encode(frames))
	how := "compressed"
	if c.Final {
		how = "compressed-bfinal"
	}
	ok := true
	switch {
	case c.Size > c.L:
		ok = o.expectRefused(c, how, c.Size)
		if ok {
			run.Count("inflating_past_limit_refused", 1)
		}
	case len(cp) > c.L:
		// the wire form of a message within the limit is itself above the limit;
		// nbio applies the limit to the assembled wire payload as well: no verdict
		run.Count("unasserted:compressed_form_longer_than_limit", 1)
		if o.e.Failed() {
			run.Count("unasserted:compressed_form_longer_than_limit:refused", 1)
		}
		ok = false
	default:
		ok = o.expectDelivered(c, how, m)
	}
	ok = o.common(c, how) && ok
	run.Seen("cells", fmt.Sprintf("%s/L=%d/%s/%s/frags=%d", how, c.L, c.Pool, sizeClass(c.Size, c.L), c.Frags))
	if ok {
		run.Nontrivial(fmt.Sprintf("compressed/%d", c.Index))
	}
}

// runCompressedUnfinished: a compressed message that never ends. Its fragments
// are each within the limit, their sum is 3-10 times the limit: nothing above
// the limit may be buffered while waiting for a FIN that never comes - the
// connection must be failed (1009) as soon as the assembled length passes the
// limit.
func runCompressedUnfinished(c caseT) {
	rng := rand.New(rand.NewSource(c.FragSeed))
	masked := !c.Client
	raw := make([]byte, c.Size)
	rng.Read(raw) // incompressible: the deflate output is about as long
	cp := wsref.Deflate(raw, 1)
	step := c.L * 3 / 4
	if step < 1 {
		step = 1
	}
	var cuts []int
	for p := step; p < len(cp); p += step {
		cuts = append(cuts, p)
	}
	frames := wsref.Fragment(wsref.Message{Type: byte(c.Type), Payload: cp}, wsref.FragmentOpts{Cuts: cuts, Masked: masked, NextKey: keyGen(rng)})
	frames[0].Rsv1 = true
	frames[len(frames)-1].Fin = false // the message is never finished
	o := drive(c, wsref.Encode(frames))
	how := "compressed-unfinished"
	ok := o.expectRefused(c, how, len(cp))
	ok = o.common(c, how) && ok
	run.Seen("cells", fmt.Sprintf("%s/L=%d/%s/frags=%d", how, c.L, c.Pool, len(frames)))
	if ok {
		run.Nontrivial(fmt.Sprintf("compressed-unfinished/%d", c.Index))
	}
}

// runTopBit: a data frame whose 64-bit length field has the most significant bit set, followed by
// c.Size bytes. It must be refused at its header - nothing of what follows may be buffered beyond
// the limit.
func runTopBit(c caseT) {
	masked := !c.Client
	f := wsref.Frame{Fin: true, Opcode: byte(c.Type), Masked: masked, Key: [4]byte{5, 5, 5, 5}, LenBits: 64, DeclLen: 1<<63 | uint64(c.Size), DeclOverride: true}
	wire := wsref.AppendFrame(nil, &f)
	wire = append(wire, content(c, c.Size)...)
	o := drive(c, wire)
	how := "len64-top-bit"
	ok := true
	if !o.e.Failed() {
		violate("c15:"+how+":not-refused", fmt.Sprintf("a frame announcing 2^63+%d bytes was fully fed (%d bytes after the header); nbio neither failed nor delivered\n%s", c.Size, c.Size, o.describe()), c, o.wire, o.cuts)
		ok = false
	}
	if len(o.msgs) > 0 {
		violate("c15:"+how+":delivered", o.describe(), c, o.wire, o.cuts)
		ok = false
	}
	ok = o.common(c, how) && ok
	if ok {
		run.Nontrivial(fmt.Sprintf("topbit/%d", c.Index))
	}
}

func runControlSend(c caseT) {
	tr := newTracker(pool(c.Pool))
	e := nbdrive.New(nbdrive.Config{Client: c.Client, MsgLimit: c.L, Allocator: tr})
	p := nbdrive.GenPayload(nbdrive.PayText, c.Size, 7)
	if c.Op == wsref.OpClose && c.Size >= 2 {
		p = wsref.ClosePayload(1000, string(p[2:]))
	}
	var err error
	api := "WriteMessage"
	switch c.Via {
	case "frame":
		// the exported single-frame call is a send path of its own
		api = "WriteFrame"
		err = e.Conn.WriteFrame(websocket.MessageType(c.Op), true, true, p)
	case "close":
		api = "WriteClose"
		reason := ""
		if len(p) > 2 {
			reason = string(p[2:])
		}
		err = e.Conn.WriteClose(1000, reason)
		p = wsref.ClosePayload(1000, reason)
	default:
		err = e.Write(c.Op, p)
	}
	run.Eval(1)
	ok := true
	if len(p) > 125 {
		if err == nil || len(e.Out) > 0 {
			violate("c15:control-send:over-125-not-refused"+map[string]string{"": "", "frame": ":write-frame", "close": ":write-close"}[c.Via], fmt.Sprintf("%s(opcode %d, %d bytes) returned %v and wrote %d bytes", api, c.Op, len(p), err, len(e.Out)), c, e.Out, nil)
			ok = false
		} else {
			run.Count("control_send_refused", 1)
			if !errors.Is(err, websocket.ErrControlMessageTooBig) {
				run.Count("control_send_refused_with_other_error", 1)
			}
		}
	} else {
		fr, rest, derr := e.OutFrames()
		if err != nil || derr != nil || rest != 0 || len(fr) != 1 || int(fr[0].Opcode) != c.Op || !fr[0].Fin || !bytes.Equal(fr[0].Payload, p) {
			violate("c15:control-send:within-125-not-sent", fmt.Sprintf("%s(opcode %d, %d bytes) returned %v; wire decodes to %d frames (rest %d, %v)", api, c.Op, len(p), err, len(fr), rest, derr), c, e.Out, nil)
			ok = false
		} else {
			run.Count("control_send_accepted", 1)
		}
	}
	e.Finish()
	if ok {
		run.Nontrivial(fmt.Sprintf("control-send/%d", c.Index))
	}
}

func runControlRecv(c caseT) {
	rng := rand.New(rand.NewSource(c.FragSeed))
	masked := !c.Client
	p := nbdrive.GenPayload(nbdrive.PayText, c.Size, 9)
	if c.Op == wsref.OpClose && c.Size >= 2 {
		p = wsref.ClosePayload(1000, string(p[2:]))
	}
	f := wsref.Frame{Fin: true, Opcode: byte(c.Op), Masked: masked, Key: keyGen(rng)(), Payload: p}
	frames := []wsref.Frame{f, {Fin: true, Opcode: wsref.OpBinary, Masked: masked, Key: [4]byte{1, 2, 3, 4}, Payload: []byte(sentinel)}}
	wantMsgs := 1
	if c.Between {
		// the control frame arrives while a fragmented message is in progress
		frames = []wsref.Frame{
			{Fin: false, Opcode: wsref.OpBinary, Masked: masked, Key: [4]byte{9, 8, 7, 6}, Payload: []byte("ab")},
			f,
			{Fin: true, Opcode: wsref.OpCont, Masked: masked, Key: [4]byte{5, 4, 3, 2}, Payload: []byte("cd")},
			{Fin: true, Opcode: wsref.OpBinary, Masked: masked, Key: [4]byte{1, 2, 3, 4}, Payload: []byte(sentinel)},
		}
		wantMsgs = 2
	}
	o := drive(c, wsref.Encode(frames))
	how := "control-recv"
	ok := true
	if c.Size > 125 {
		switch {
		case !o.e.Failed():
			violate("c15:control-recv:over-125-not-refused", fmt.Sprintf("control frame opcode %d with %d bytes\n%s", c.Op, c.Size, o.describe()), c, o.wire, o.cuts)
			ok = false
		case o.pongs > 0 || len(o.msgs) > 0:
			violate("c15:control-recv:over-125-processed", fmt.Sprintf("control frame opcode %d with %d bytes\n%s", c.Op, c.Size, o.describe()), c, o.wire, o.cuts)
			ok = false
		default:
			run.Count("control_recv_refused", 1)
		}
	} else {
		switch c.Op {
		case wsref.OpPing:
			if o.pongs != 1 || o.e.Failed() || len(o.msgs) != wantMsgs {
				violate("c15:control-recv:within-125-not-processed", fmt.Sprintf("ping with %d bytes\n%s", c.Size, o.describe()), c, o.wire, o.cuts)
				ok = false
			}
		case wsref.OpPong:
			if o.e.Failed() || len(o.msgs) != wantMsgs {
				violate("c15:control-recv:within-125-not-processed", fmt.Sprintf("pong with %d bytes\n%s", c.Size, o.describe()), c, o.wire, o.cuts)
				ok = false
			}
		case wsref.OpClose:
			want := 1000
			if c.Size < 2 {
				want = -1
			}
			if len(o.closes) != 1 || o.closes[0] != want {
				violate("c15:control-recv:within-125-not-processed", fmt.Sprintf("close with %d bytes\n%s", c.Size, o.describe()), c, o.wire, o.cuts)
				ok = false
			}
		}
		if ok {
			run.Count("control_recv_accepted", 1)
		}
	}
	ok = o.common(c, how) && ok
	if ok {
		run.Nontrivial(fmt.Sprintf("control-recv/%d", c.Index))
	}
}

// runReadLimit: one message in one frame, fed in reads of a given size, with a
// read limit around the frame size. Only the cache bound and "no delivery once
// failed" are asserted, plus delivery when the whole image fits.
func runReadLimit(c caseT) {
	masked := !c.Client
	m := wsref.Message{Type: wsref.OpBinary, Payload: content(c, c.Size)}
	frames := wsref.Fragment(m, wsref.FragmentOpts{Masked: masked, NextKey: func() [4]byte { return [4]byte{9, 9, 9, 9} }})
	frames = append(frames, wsref.Frame{Fin: true, Opcode: wsref.OpBinary, Masked: masked, Key: [4]byte{1, 2, 3, 4}, Payload: []byte(sentinel)})
	o := drive(c, wsref.Encode(frames))
	how := "readlimit"
	ok := true
	for _, ob := range o.e.Obs {
		if ob.Kind == nbdrive.ObsMessage && ob.AfterFail {
			violate("c15:readlimit:delivery-after-failure", o.describe(), c, o.wire, o.cuts)
			ok = false
			break
		}
	}
	if errors.Is(o.e.ParseErr, nbhttp.ErrTooLong) {
		run.Count("read_limit_hit", 1)
	} else if len(o.wire) <= c.ReadLimit {
		if !o.expectDelivered(c, how, m) {
			ok = false
		}
	} else if !o.e.Failed() {
		run.Count("read_limit_not_hit_image_longer_than_limit", 1)
	}
	hit := errors.Is(o.e.ParseErr, nbhttp.ErrTooLong)
	ok = o.common(c, how) && ok
	if ok && (hit || len(o.wire) <= c.ReadLimit) {
		run.Nontrivial(fmt.Sprintf("readlimit/%d", c.Index))
	}
}

// runPingInterleaved: observation only. nbio adds the length of every frame,
// control frames included, to the length of the message under assembly before
// comparing with the limit.
func runPingInterleaved(c caseT) {
	rng := rand.New(rand.NewSource(c.FragSeed))
	masked := !c.Client
	m := wsref.Message{Type: wsref.OpBinary, Payload: content(c, c.Size)}
	fr := wsref.Fragment(m, wsref.FragmentOpts{Cuts: []int{c.Size - 1}, Masked: masked, NextKey: keyGen(rng)})
	frames := []wsref.Frame{fr[0], {Fin: true, Opcode: wsref.OpPing, Masked: masked, Key: [4]byte{5, 6, 7, 8}, Payload: []byte("ping-payload")}, fr[1]}
	frames = append(frames, wsref.Frame{Fin: true, Opcode: wsref.OpBinary, Masked: masked, Key: [4]byte{1, 2, 3, 4}, Payload: []byte(sentinel)})
	o := drive(c, wsref.Encode(frames))
	// a control frame is not part of the message: the message is exactly at the limit and must be
	// delivered (the statement bounds messages, and C13 has the same sequence as a valid one)
	ok := o.expectDelivered(c, "ping-interleaved", m)
	ok = o.common(c, "ping-interleaved") && ok
	if ok {
		run.Nontrivial(fmt.Sprintf("ping-interleaved/%d", c.Index))
	}
}

func runCase(c caseT) {
	wd.Enter(c)
	defer wd.Leave()
	switch c.Kind {
	case "plain":
		runPlain(c)
	case "compressed-unfinished":
		runCompressedUnfinished(c)
	case "len64-top-bit":
		runTopBit(c)
	case "compressed":
		runCompressed(c)
	case "control-send":
		runControlSend(c)
	case "control-recv":
		runControlRecv(c)
	case "readlimit":
		runReadLimit(c)
	case "ping-interleaved":
		runPingInterleaved(c)
	}
}

// ---------------------------------------------------------------- workload

var limits = []int{1, 125, 126, 1000, 1024, 65536, 100000}

const absCap = 64 << 20

func segFor(rng *rand.Rand, approxWire int) nbdrive.Seg {
	switch x := rng.Intn(8); {
	case x == 0:
		return nbdrive.Seg{Kind: "whole"}
	case x == 1 && approxWire <= 3000:
		return nbdrive.Seg{Kind: "bytes"}
	case x == 2:
		return nbdrive.Seg{Kind: "chunks", N: []int{2, 7, 100, 1000, 4096}[rng.Intn(5)]}
	}
	return nbdrive.Seg{Kind: "random", N: 1 + rng.Intn(10), Seed: rng.Int63()}
}

func main() {
	run = h.Start("C15")
	defer run.Finish()
	lg = nbdrive.InstallLogger()
	wd = nbdrive.StartWatchdog(run, "c15")
	wd.SpinCPU = 20 * time.Second
	if run.Replay != "" {
		var c caseT
		if err := run.ReplayCase(&c); err != nil {
			fmt.Println("replay:", err)
			return
		}
		c.WireHex, c.Cuts, c.WireLen = "", nil, 0
		runCase(c)
		return
	}
	idx := 0
	n := 0
	step := func(c caseT, big bool) {
		idx++
		c.Index = idx
		if !run.Mine(idx) {
			return
		}
		n++
		if big || n%200 == 1 {
			run.Begin(c)
		}
		runCase(c)
		if n%500 == 2 {
			run.Sample(c)
		}
	}
	rounds := run.N(24, 500)
	pools := []string{"mempool", "aligned"}
	for round := 0; round < rounds; round++ {
		for _, L := range limits {
			for _, pl := range pools {
				// ---- plain: L-1, L, L+1 in 1..5 frames
				for _, d := range []int{-1, 0, 1} {
					size := L + d
					if size < 1 {
						continue
					}
					for frags := 1; frags <= 5; frags++ {
						rng := run.Rand("c15-plain", idx+1)
						c := caseT{Kind: "plain", L: L, Pool: pl, Client: rng.Intn(2) == 0, Type: 1 + rng.Intn(2), Size: size, Frags: frags, FragSeed: rng.Int63()}
						c.Seg = segFor(rng, size)
						step(c, false)
						if frags == 1 {
							// the same frame for an endpoint with a data-frame callback only
							c.FramesOnly = true
							step(c, false)
						}
					}
				}
				// ---- compressed: inflating to L-1, L, L+1, L+24, 10L, 1000L, and random sizes just above L
				sizes := []int{L - 1, L, L + 1, L + 24, 10 * L}
				rng0 := run.Rand("c15-sizes", round*1000+L)
				for k := 0; k < 6; k++ {
					sizes = append(sizes, L+2+rng0.Intn(2048))
				}
				sizes = append(sizes, L+rng0.Intn(L+1), 2*L+rng0.Intn(3*L+1))
				for _, size := range sizes {
					if size < 1 {
						continue
					}
					for _, frags := range []int{1, 3} {
						rng := run.Rand("c15-comp", idx+1)
						c := caseT{Kind: "compressed", L: L, Pool: pl, Client: rng.Intn(2) == 0, Type: 1 + rng.Intn(2), Size: size, Frags: frags, FragSeed: rng.Int63(), Level: -2 + rng.Intn(12)}
						c.Content = []string{nbdrive.PayZero, nbdrive.PayCompressible, nbdrive.PayZero}[rng.Intn(3)]
						if c.Level == 0 || c.Level == -2 {
							// levels that hardly compress: keep those for sizes whose wire form has a chance to fit
							c.Content = nbdrive.PayZero
						}
						c.Seg = segFor(rng, size/50)
						step(c, false)
						if size >= L-1 && size <= L+2 && c.Level != 0 && c.Level != -2 {
							// the same message with the stream ended by a BFINAL=1 block: the
							// decompressor hands out the last bytes together with end-of-stream
							c2 := c
							c2.Final = true
							step(c2, false)
						}
					}
				}
				// ---- a length with the top bit set, followed by 8-64 x the limit
				if L >= 16 {
					rng := run.Rand("c15-topbit", idx+1)
					size := (8 + rng.Intn(57)) * L
					if size > absCap {
						size = absCap
					}
					c := caseT{Kind: "len64-top-bit", L: L, Pool: pl, Client: rng.Intn(2) == 0, Type: 1 + rng.Intn(2), Size: size, Content: nbdrive.PayZero}
					c.Seg = segFor(rng, size)
					step(c, false)
				}
				// ---- a compressed message that never ends: fragments within the limit, 3-10 x the limit in sum
				if L >= 16 {
					rng := run.Rand("c15-unfinished", idx+1)
					size := (3 + rng.Intn(8)) * L
					if size > absCap {
						size = absCap
					}
					c := caseT{Kind: "compressed-unfinished", L: L, Pool: pl, Client: rng.Intn(2) == 0, Type: 1 + rng.Intn(2), Size: size, FragSeed: rng.Int63()}
					c.Seg = segFor(rng, size)
					step(c, false)
				}
				// ---- the bomb: 1000*L, capped
				if round < run.N(1, 3) {
					size := 1000 * L
					if size > absCap {
						size = absCap
					}
					rng := run.Rand("c15-bomb", idx+1)
					c := caseT{Kind: "compressed", L: L, Pool: pl, Client: rng.Intn(2) == 0, Type: wsref.OpBinary, Size: size, Frags: 1 + 2*rng.Intn(2), FragSeed: rng.Int63(), Level: 1 + rng.Intn(9), Content: nbdrive.PayZero}
					c.Seg = segFor(rng, 100000)
					step(c, true)
				}
				// ---- ping between the fragments of a message of exactly L bytes (observation)
				if L >= 2 {
					rng := run.Rand("c15-ping", idx+1)
					step(caseT{Kind: "ping-interleaved", L: L, Pool: pl, Client: rng.Intn(2) == 0, Size: L, FragSeed: rng.Int63(), Seg: segFor(rng, L)}, false)
				}
			}
		}
		// ---- control frames, send and receive
		for _, pl := range pools {
			for _, op := range []int{wsref.OpClose, wsref.OpPing, wsref.OpPong} {
				for _, size := range []int{0, 1, 2, 124, 125, 126, 127, 128, 1000, 65535, 65536} {
					for _, client := range []bool{false, true} {
						step(caseT{Kind: "control-send", L: 1 << 22, Pool: pl, Client: client, Op: op, Size: size}, false)
						if !(op == wsref.OpClose && size == 1) {
							step(caseT{Kind: "control-send", L: 1 << 22, Pool: pl, Client: client, Op: op, Size: size, Via: "frame"}, false)
						}
						if op == wsref.OpClose && size != 1 {
							step(caseT{Kind: "control-send", L: 1 << 22, Pool: pl, Client: client, Op: op, Size: size, Via: "close"}, false)
						}
						if op == wsref.OpClose && size == 1 {
							continue // a 1-byte close body is C13's business
						}
						rng := run.Rand("c15-ctl", idx+1)
						step(caseT{Kind: "control-recv", L: 1 << 22, Pool: pl, Client: client, Op: op, Size: size, FragSeed: rng.Int63(), Seg: segFor(rng, size)}, false)
						step(caseT{Kind: "control-recv", L: 1 << 22, Pool: pl, Client: client, Op: op, Size: size, FragSeed: rng.Int63(), Seg: segFor(rng, size), Between: true}, false)
					}
				}
			}
		}
		// ---- read limit
		for _, pl := range pools {
			for _, rl := range []int{16, 64, 1000, 4096, 70000} {
				for _, size := range []int{1, rl / 2, rl - 15, rl - 14, rl, rl + 1, 4 * rl} {
					if size < 1 {
						continue
					}
					for _, seg := range []nbdrive.Seg{{Kind: "whole"}, {Kind: "bytes"}, {Kind: "chunks", N: 7}, {Kind: "chunks", N: rl/2 + 1}, {Kind: "chunks", N: rl}, {Kind: "chunks", N: 2 * rl}} {
						if seg.Kind == "bytes" && size > 20000 {
							continue
						}
						rng := run.Rand("c15-rl", idx+1)
						step(caseT{Kind: "readlimit", L: 1 << 22, Pool: pl, ReadLimit: rl, Client: rng.Intn(2) == 0, Size: size, FragSeed: rng.Int63(), Seg: seg}, false)
					}
				}
			}
		}
	}
}
