// C06 — HTTP/1.x parsing is independent of segmentation.
//
// Differential monitor against the same parser fed in one piece. Two passes
// per stream: (events) a recording nbhttp.Processor logs every callback;
// (delivered) the real ServerProcessor / ClientProcessor run and the
// *http.Request / *http.Response handed to the handler is logged. For every
// segmentation the log and the error outcome must equal the one-piece parse.
package main

import (
	"bytes"
	"encoding/base64"
	"fmt"
	"io"
	"net"
	"net/http"
	"reflect"
	"sort"
	"strconv"
	"strings"

	"github.com/lesismal/nbio/logging"
	"github.com/lesismal/nbio/nbhttp"

	"verif/internal/h"
	"verif/internal/httpgen"
)

type caseT struct {
	Kind      string   `json:"kind"` // request | response
	Index     int      `json:"index"`
	Mutations []string `json:"mutations,omitempty"`
	Stream    string   `json:"stream_b64"`
	Literal   string   `json:"stream_readable,omitempty"`
	Pass      string   `json:"pass,omitempty"` // events | delivered
	Cuts      []int    `json:"cuts,omitempty"` // the segmentation that differed
	Family    string   `json:"family,omitempty"`
	ReadLimit int      `json:"read_limit,omitempty"` // Config.ReadLimit of the engine (0: 1 GiB)
	BodyLimit int      `json:"body_limit,omitempty"` // Config.MaxHTTPBodySize of the engine (0: none)
}

// ---------------------------------------------------------------- recording processor

type recorder struct {
	log      []byte
	body     []byte
	inBody   bool
	events   int
	complete int
	// upgrade: a message with an Upgrade header hands the connection over at its end
	upgradeNext bool
	upgraded    []byte
}

func (r *recorder) reset() {
	r.upgradeNext = false
	r.upgraded = r.upgraded[:0]
	r.log = r.log[:0]
	r.body = r.body[:0]
	r.inBody = false
	r.events = 0
	r.complete = 0
}

func (r *recorder) flushBody() {
	if r.inBody {
		r.log = append(r.log, "B "...)
		r.log = strconv.AppendQuote(r.log, string(r.body))
		r.log = append(r.log, '\n')
		r.body = r.body[:0]
		r.inBody = false
	}
}

func (r *recorder) ev(tag string, parts ...string) {
	r.flushBody()
	r.events++
	r.log = append(r.log, tag...)
	for _, p := range parts {
		r.log = append(r.log, ' ')
		r.log = strconv.AppendQuote(r.log, p)
	}
	r.log = append(r.log, '\n')
}

func (r *recorder) OnMethod(p *nbhttp.Parser, m string)        { r.ev("M", m) }
func (r *recorder) OnURL(p *nbhttp.Parser, u string) error     { r.ev("U", u); return nil }
func (r *recorder) OnProto(p *nbhttp.Parser, s string) error   { r.ev("P", s); return nil }
func (r *recorder) OnStatus(p *nbhttp.Parser, c int, s string) { r.ev("S", strconv.Itoa(c), s) }
func (r *recorder) OnHeader(p *nbhttp.Parser, k, v string) {
	r.ev("H", k, v)
	if strings.EqualFold(k, "Upgrade") {
		r.upgradeNext = true
	}
}
func (r *recorder) OnContentLength(p *nbhttp.Parser, n int)       { r.ev("L", strconv.Itoa(n)) }
func (r *recorder) OnTrailerHeader(p *nbhttp.Parser, k, v string) { r.ev("T", k, v) }
func (r *recorder) OnBody(p *nbhttp.Parser, d []byte) error {
	r.events++
	r.inBody = true
	r.body = append(r.body, d...)
	return nil
}
func (r *recorder) OnComplete(p *nbhttp.Parser) {
	r.ev("C")
	r.complete++
	if r.upgradeNext {
		// the message asked for another protocol and the application takes the connection over
		// synchronously: every byte behind the message belongs to the new protocol, whatever
		// read it arrived in
		r.upgradeNext = false
		p.ParserCloser = &recCloser{r: r}
	}
}

// recCloser is the protocol a connection was upgraded to: it records the bytes handed over.
type recCloser struct{ r *recorder }

func (c *recCloser) UnderlayerConn() net.Conn { return nil }
func (c *recCloser) Parse(data []byte) error {
	// (segmentation decides how the bytes are split over calls: one joined line at the end)
	c.r.upgraded = append(c.r.upgraded, data...)
	return nil
}
func (c *recCloser) CloseAndClean(err error)          {}
func (r *recorder) Close(p *nbhttp.Parser, err error) {}
func (r *recorder) Clean(p *nbhttp.Parser)            {}

var tagNames = map[byte]string{'M': "method", 'U': "url", 'P': "proto", 'S': "status", 'H': "header", 'L': "content-length",
	'B': "body", 'T': "trailer", 'C': "complete", 'Q': "request-line", 'R': "status-line", 'h': "header", 't': "trailer", 'b': "body", 'E': "message-end"}

// ---------------------------------------------------------------- delivered pass

func writeHeader(log []byte, tag string, hd http.Header) []byte {
	keys := make([]string, 0, len(hd))
	for k := range hd {
		keys = append(keys, k)
	}
	sort.Strings(keys)
	for _, k := range keys {
		log = append(log, tag...)
		log = append(log, ' ')
		log = strconv.AppendQuote(log, k)
		for _, v := range hd[k] {
			log = append(log, ' ')
			log = strconv.AppendQuote(log, v)
		}
		log = append(log, '\n')
	}
	return log
}

var deliv *recorder // the recorder the engine handler writes to (single goroutine)

func serverHandler(w http.ResponseWriter, req *http.Request) {
	r := deliv
	r.events++
	r.complete++
	r.log = append(r.log, "Q "...)
	r.log = strconv.AppendQuote(r.log, req.Method)
	r.log = append(r.log, ' ')
	r.log = strconv.AppendQuote(r.log, req.RequestURI)
	r.log = append(r.log, ' ')
	r.log = strconv.AppendQuote(r.log, req.Proto)
	r.log = append(r.log, ' ')
	r.log = strconv.AppendQuote(r.log, req.Host)
	r.log = append(r.log, fmt.Sprintf(" close=%v cl=%d te=%q\n", req.Close, req.ContentLength, req.TransferEncoding)...)
	r.log = writeHeader(r.log, "h", req.Header)
	var body []byte
	if req.Body != nil {
		body, _ = io.ReadAll(req.Body)
	}
	r.log = append(r.log, "b "...)
	r.log = strconv.AppendQuote(r.log, string(body))
	r.log = append(r.log, '\n')
	r.log = writeHeader(r.log, "t", req.Trailer)
	r.log = append(r.log, "E\n"...)
}

func clientHandler(res *http.Response, err error) {
	r := deliv
	r.events++
	r.complete++
	if res == nil {
		r.log = append(r.log, fmt.Sprintf("R nil err=%v\nE\n", err)...)
		return
	}
	r.log = append(r.log, "R "...)
	r.log = append(r.log, strconv.Itoa(res.StatusCode)...)
	r.log = append(r.log, ' ')
	r.log = strconv.AppendQuote(r.log, res.Status)
	r.log = append(r.log, ' ')
	r.log = strconv.AppendQuote(r.log, res.Proto)
	r.log = append(r.log, fmt.Sprintf(" cl=%d\n", res.ContentLength)...)
	r.log = writeHeader(r.log, "h", res.Header)
	var body []byte
	if res.Body != nil {
		body, _ = io.ReadAll(res.Body)
	}
	r.log = append(r.log, "b "...)
	r.log = strconv.AppendQuote(r.log, string(body))
	r.log = append(r.log, '\n')
	r.log = writeHeader(r.log, "t", res.Trailer)
	r.log = append(r.log, "E\n"...)
}

// ---------------------------------------------------------------- running the parser

var engine *nbhttp.Engine
var curReadLimit int // read limit of the stream being checked (0: the default engine)
var curBodyLimit int // Config.MaxHTTPBodySize of the stream being checked (0: none)

var stateNames = []string{"Close", "MethodBefore", "Method", "PathBefore", "Path", "ProtoBefore", "Proto", "ProtoLF",
	"ClientProtoBefore", "ClientProto", "StatusCodeBefore", "StatusCode", "StatusBefore", "Status", "StatusLF",
	"HeaderKeyBefore", "HeaderValueLF", "HeaderKey", "HeaderValueBefore", "HeaderValue", "BodyContentLength",
	"HeaderOverLF", "BodyChunkSizeBefore", "BodyChunkSize", "BodyChunkSizeLF", "BodyChunkData", "BodyChunkDataCR",
	"BodyChunkDataLF", "BodyTrailerHeaderValueLF", "BodyTrailerHeaderKeyBefore", "BodyTrailerHeaderKey",
	"BodyTrailerHeaderValueBefore", "BodyTrailerHeaderValue", "TailCR", "TailLF"}

// parserState reads the unexported state field (observation only: which
// parser states the cut positions landed in).
func parserState(p *nbhttp.Parser) string {
	f := reflect.ValueOf(p).Elem().FieldByName("state")
	if !f.IsValid() {
		return "?"
	}
	n := int(f.Int())
	if n >= 0 && n < len(stateNames) {
		return stateNames[n]
	}
	return strconv.Itoa(n)
}

type outcome struct {
	log      []byte
	err      string
	events   int
	complete int
	stateAt1 string // parser state after the first segment
}

// parse feeds the segments to a fresh parser and stops at the first error,
// which is what the engine does (it closes the connection).
// limited returns an engine like the default one with the given read limit.
var limitedEngines = map[[2]int]*nbhttp.Engine{}

func limited(n, body int) *nbhttp.Engine {
	k := [2]int{n, body}
	if e := limitedEngines[k]; e != nil {
		return e
	}
	if len(limitedEngines) > 64 {
		limitedEngines = map[[2]int]*nbhttp.Engine{}
	}
	if n == 0 {
		n = 1 << 30
	}
	e := nbhttp.NewEngine(nbhttp.Config{Handler: http.HandlerFunc(serverHandler), ReadLimit: n, MaxHTTPBodySize: body})
	limitedEngines[k] = e
	return e
}

func parse(rec *recorder, pass string, client bool, segs [][]byte, wantState bool) outcome {
	rec.reset()
	conn := &httpgen.NopConn{}
	var proc nbhttp.Processor
	if pass == "events" {
		proc = rec
	} else {
		deliv = rec
		if client {
			proc = nbhttp.NewClientProcessor(&nbhttp.ClientConn{}, clientHandler)
		} else {
			proc = nbhttp.NewServerProcessor()
		}
	}
	eng := engine
	if curReadLimit > 0 || curBodyLimit > 0 {
		eng = limited(curReadLimit, curBodyLimit)
	}
	p := nbhttp.NewParser(conn, eng, proc, client, nil)
	var o outcome
	for i, s := range segs {
		// the parser may keep a reference only until it returns; hand it a
		// private copy like a read buffer would be
		buf := append([]byte(nil), s...)
		err := p.Parse(buf)
		// scribble over the buffer: the parser must not depend on it later
		for j := range buf {
			buf[j] = 0xAA
		}
		if i == 0 && wantState {
			o.stateAt1 = parserState(p)
		}
		if err != nil {
			o.err = err.Error()
			break
		}
	}
	rec.flushBody()
	if len(rec.upgraded) > 0 {
		rec.log = append(rec.log, "UPGRADED "...)
		rec.log = strconv.AppendQuote(rec.log, string(rec.upgraded))
		rec.log = append(rec.log, '\n')
	}
	o.log = append([]byte(nil), rec.log...)
	o.events = rec.events
	o.complete = rec.complete
	return o
}

func firstDiff(a, b []byte) (what string, line int, la, lb string) {
	al := strings.Split(string(a), "\n")
	bl := strings.Split(string(b), "\n")
	for i := 0; i < len(al) || i < len(bl); i++ {
		var x, y string
		if i < len(al) {
			x = al[i]
		}
		if i < len(bl) {
			y = bl[i]
		}
		if x != y {
			t := x
			if t == "" {
				t = y
			}
			w := "?"
			if t != "" {
				if n, ok := tagNames[t[0]]; ok {
					w = n
				}
			}
			if x == "" && i >= len(al)-1 {
				w = "extra-" + w
			} else if y == "" && i >= len(bl)-1 {
				w = "missing-" + w
			}
			return w, i, x, y
		}
	}
	return "", -1, "", ""
}

var capLog = &h.CapLogger{}

type checker struct {
	r        *h.Run
	c        caseT
	stream   []byte
	client   bool
	rec      *recorder
	base     map[string]outcome
	compared int
	failed   map[string]bool
}

func (ck *checker) one(pass, family string, cuts []int) {
	segs := httpgen.Split(ck.stream, cuts)
	o := parse(ck.rec, pass, ck.client, segs, family == "single" && pass == "events")
	ck.compared++
	ck.r.Count("parses", 1)
	if o.stateAt1 != "" {
		ck.r.Seen("state_at_cut", o.stateAt1)
	}
	b := ck.base[pass]
	if bytes.Equal(o.log, b.log) && o.err == b.err {
		return
	}
	what, line, lb, ls := firstDiff(b.log, o.log)
	sig := "c06:" + ck.c.Kind + ":" + pass
	if what == "" {
		sig += ":error-differs"
	} else {
		sig += "-differ:" + what
	}
	if ck.failed[sig] {
		ck.r.Count("further_differing_segmentations", 1)
		return
	}
	ck.failed[sig] = true
	c := ck.c
	c.Pass = pass
	c.Cuts = cuts
	c.Family = family
	var segq []string
	for i, s := range segs {
		if i >= 6 {
			segq = append(segq, "…")
			break
		}
		segq = append(segq, strconv.Quote(string(s)))
	}
	detail := fmt.Sprintf("%s stream (%d bytes), pass=%s, segmentation %s cuts=%v\none piece: error=%q, %d events\nsegmented: error=%q, %d events\nfirst differing log line %d:\n  one piece: %s\n  segmented: %s\nsegments: %s",
		ck.c.Kind, len(ck.stream), pass, family, trunc(cuts, 12), b.err, b.events, o.err, o.events, line, lb, ls, strings.Join(segq, " | "))
	ck.r.Violate(sig, detail, c)
}

func trunc(c []int, n int) []int {
	if len(c) > n {
		return c[:n]
	}
	return c
}

// errPrefixes are the data-free heads of nbio's formatted parse errors; the
// sentinel errors (no data inside) are used whole.
var errPrefixes = []string{"chunk size parse error", "chunk size greater than max int", "chunk size zero", "bad Content-Length",
	"unsupported transfer encoding", "too many transfer encodings", "invalid trailer", "bad trailer key", "malformed HTTP version",
	"length less than zero", "length greater than maxint", "parse", "strconv"}

// normErr maps an error text to a short class without input data in it.
func normErr(s string) string {
	for _, p := range errPrefixes {
		if strings.HasPrefix(s, p) {
			return strings.ReplaceAll(p, " ", "-")
		}
	}
	if strings.ContainsAny(s, "\"'0123456789%") || len(s) > 48 {
		// unknown formatted error: keep the first three words
		w := strings.Fields(s)
		if len(w) > 3 {
			w = w[:3]
		}
		s = strings.Join(w, " ")
		if i := strings.IndexAny(s, "\"'0123456789%"); i >= 0 {
			s = s[:i]
		}
	}
	return strings.ReplaceAll(strings.TrimSpace(s), " ", "-")
}

func runStream(r *h.Run, c caseT, stream []byte, rng func(string) []int, pairs bool, nRandom int, wantMsgs int) {
	ck := &checker{r: r, c: c, stream: stream, client: c.Kind == "response", rec: &recorder{}, base: map[string]outcome{}, failed: map[string]bool{}}
	curReadLimit, curBodyLimit = c.ReadLimit, c.BodyLimit
	defer func() { curReadLimit, curBodyLimit = 0, 0 }()
	if c.BodyLimit > 0 {
		r.Count("streams_with_a_body_limit_equal_to_their_longest_body", 1)
	}
	if c.ReadLimit > 0 {
		r.Count("streams_with_a_read_limit_equal_to_their_length", 1)
	}
	r.Eval(1)
	L := len(stream)
	for _, pass := range []string{"events", "delivered"} {
		ck.base[pass] = parse(ck.rec, pass, ck.client, [][]byte{stream}, false)
	}
	be := ck.base["events"]
	r.Count("messages_completed_in_one_piece", int64(be.complete))
	if be.err != "" {
		r.Count("streams_rejected", 1)
		r.Seen("error_text", normErr(be.err))
	} else {
		r.Count("streams_accepted", 1)
	}
	if wantMsgs > 0 {
		if be.complete == wantMsgs && be.err == "" {
			r.Count("grammar_streams_fully_parsed", 1)
		} else {
			r.Count("grammar_streams_not_fully_parsed", 1)
			r.Seen("grammar_stream_problem", normErr(be.err))
		}
	}
	if c.Cuts != nil {
		// replay of one recorded segmentation
		for _, pass := range []string{"events", "delivered"} {
			ck.one(pass, "replay", c.Cuts)
		}
		return
	}
	for _, pass := range []string{"events", "delivered"} {
		for cut := 1; cut < L; cut++ {
			ck.one(pass, "single", []int{cut})
		}
		if L > 1 {
			ck.one(pass, "byte-at-a-time", httpgen.EveryByte(L))
		}
		for k := 0; k < nRandom; k++ {
			ck.one(pass, "random", rng(fmt.Sprintf("%s-%d", pass, k)))
		}
		if pairs && L <= 200 {
			for a := 1; a < L; a++ {
				for b := a + 1; b < L; b++ {
					ck.one(pass, "pair", []int{a, b})
				}
			}
			r.Count("streams_with_all_pairs", 1)
		}
	}
	if ck.compared >= 4 && (be.complete >= 1 || (be.err != "" && be.events >= 1)) {
		r.Nontrivial(fmt.Sprintf("%s/%d", c.Kind, c.Index))
	}
	if lines := h.PanicLines(capLog.Take()); len(lines) > 0 {
		// C08 decides panics; here they are only counted
		r.Count("recovered_panics_seen", int64(len(lines)))
	}
}

func main() {
	r := h.Start("C06")
	defer r.Finish()
	logging.SetLogger(capLog)
	engine = nbhttp.NewEngine(nbhttp.Config{Handler: http.HandlerFunc(serverHandler), ReadLimit: 1 << 30})

	if r.Replay != "" {
		var c caseT
		if err := r.ReplayCase(&c); err != nil {
			fmt.Println("replay:", err)
			return
		}
		stream, err := base64.StdEncoding.DecodeString(c.Stream)
		if err != nil {
			fmt.Println("replay:", err)
			return
		}
		if c.Cuts == nil {
			c.Cuts = []int{}
		}
		runStream(r, c, stream, nil, false, 0, 0)
		return
	}

	n := r.N(1536, 20000)
	nRandom := r.N(6, 12)
	mine := 0
	for i := 0; i < n; i++ {
		if !r.Mine(i) {
			continue
		}
		rng := r.Rand("c06", i)
		kind := "request"
		if i%2 == 1 {
			kind = "response"
		}
		maxBody := 120
		maxMsgs := 5
		short := i%4 == 0 // a quarter of the streams are kept short enough for all pairs of cuts
		if short {
			maxBody = 24
			maxMsgs = 2
		}
		stream, msgs := httpgen.Stream(rng, httpgen.Opts{Response: kind == "response", MaxBody: maxBody, MaxMsgs: maxMsgs, Damage: true})
		c := caseT{Kind: kind, Index: i}
		for _, m := range msgs {
			for _, f := range m.Feat {
				if strings.HasPrefix(f, "damage:") {
					c.Mutations = append(c.Mutations, f)
				}
			}
		}
		if rng.Intn(100) < 45 {
			nm := 1 + rng.Intn(2)
			for k := 0; k < nm; k++ {
				var how string
				stream, how = httpgen.Mutate(rng, stream)
				c.Mutations = append(c.Mutations, how)
			}
			r.Count("streams_mutated", 1)
		} else {
			r.Count("streams_from_grammar", 1)
		}
		for _, m := range msgs {
			for _, f := range m.Feat {
				r.Seen("grammar_feature", f)
			}
		}
		if kind == "request" && len(c.Mutations) == 0 && i%5 == 2 {
			// the last request switches protocols and the client does not wait for the answer:
			// the first bytes of the new protocol follow in the same stream
			up := "GET /chat HTTP/1.1\r\nHost: verif\r\nUpgrade: websocket\r\nConnection: Upgrade\r\nSec-WebSocket-Version: 13\r\n\r\n"
			tail := make([]byte, 1+rng.Intn(40))
			rng.Read(tail)
			stream = append(append(stream, up...), tail...)
			c.Mutations = append(c.Mutations, "upgrade-request-with-bytes-behind-it")
			r.Count("streams_ending_in_an_upgrade", 1)
		}
		if i%3 == 1 {
			// a read limit the stream just meets: what is retained between reads plus the next read
			// never exceeds the stream itself, so no segmentation may be refused for its length
			// when the one-piece parse is not (and the limit is in force in every state)
			c.ReadLimit = len(stream)
		}
		if i%4 == 2 {
			// a body limit the longest body of the stream just meets (shorter ones are below it): whether a
			// body is accepted or refused for its size must not depend on where the reads fall
			for _, m := range msgs {
				if m.BodyLen > c.BodyLimit {
					c.BodyLimit = m.BodyLen
				}
			}
			if c.BodyLimit > 1 && i%8 == 6 {
				c.BodyLimit-- // the longest body is one byte over the limit
			}
		}
		c.Stream = base64.StdEncoding.EncodeToString(stream)
		c.Literal = h.Hex(stream, 600)
		mine++
		if mine%100 == 1 {
			r.Begin(c)
		}
		pairs := r.Thorough() || short
		want := 0
		if len(c.Mutations) == 0 {
			want = len(msgs)
		}
		L := len(stream)
		runStream(r, c, stream, func(tag string) []int {
			rr := r.Rand("c06-cuts-"+tag, i)
			return httpgen.RandomCuts(rr, L, 2+rr.Intn(7))
		}, pairs, nRandom, want)
		if mine <= 2 {
			r.Sample(c)
		}
	}
}
