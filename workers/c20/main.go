// C20 — allocator contracts: reference-model monitor (shadow copies) over
// random allocator programs, plus pairwise-disjointness sweeps.
package main

import (
	"bytes"
	"flag"
	"fmt"
	"math/rand"
	"runtime"
	"sort"
	"sync"
	"sync/atomic"
	"unsafe"

	"github.com/lesismal/nbio/mempool"

	"verif/internal/h"
)

type allocSpec struct {
	Name string
	New  func() mempool.Allocator
	// sizes at which the implementation changes behaviour
	Edges    []int
	NoZero   bool // TraceDebugger cannot take cap-0 buffers
	NoRelloc bool
}

var specs = []allocSpec{
	{Name: "mempool(64,64K)", New: func() mempool.Allocator { return mempool.New(64, 64*1024) }, Edges: []int{64, 65536}},
	{Name: "mempool(1024,1G)", New: func() mempool.Allocator { return mempool.New(1024, 1<<30) }, Edges: []int{1024}},
	{Name: "mempool(1,1)", New: func() mempool.Allocator { return mempool.New(1, 1) }, Edges: []int{1, 2}},
	{Name: "mempool(4096,8192)", New: func() mempool.Allocator { return mempool.New(4096, 8192) }, Edges: []int{4096, 8192}},
	{Name: "mempool(0,0)=defaults", New: func() mempool.Allocator { return mempool.New(0, 0) }, Edges: []int{64, 65536}},
	{Name: "DefaultMemPool", New: func() mempool.Allocator { return mempool.DefaultMemPool }, Edges: []int{1024}},
	{Name: "aligned", New: func() mempool.Allocator { return mempool.NewAligned() }, Edges: []int{32, 64, 128, 16384, 32768}},
	{Name: "std", New: func() mempool.Allocator { return mempool.NewSTD() }, Edges: []int{32, 4096}},
	{Name: "trace(mempool(64,4096))", New: func() mempool.Allocator { return mempool.NewTraceDebuger(mempool.New(64, 4096)) }, Edges: []int{64, 4096}, NoZero: true, NoRelloc: true},
	{Name: "trace(aligned)", New: func() mempool.Allocator { return mempool.NewTraceDebuger(mempool.NewAligned()) }, Edges: []int{32, 32768}, NoZero: true, NoRelloc: true},
}

type opRec struct {
	Op   string `json:"op"`
	Buf  int    `json:"buf,omitempty"`
	Size int    `json:"size,omitempty"`
}

type caseT struct {
	Alloc      string  `json:"alloc"`
	Mode       string  `json:"mode"`
	Index      int     `json:"index"`
	Ops        int     `json:"ops"`
	MaxSize    int     `json:"max_size"`
	Goroutines int     `json:"goroutines"`
	Trace      []opRec `json:"trace_tail,omitempty"`
}

type live struct {
	id     int
	p      *[]byte
	shadow []byte
}

func pat(id, i int) byte { return byte(id*131 + i*7 + 13) }

func fill(b []byte, id, from int) {
	for i := from; i < len(b); i++ {
		b[i] = pat(id, i)
	}
}

func base(p *[]byte) uintptr {
	if cap(*p) == 0 {
		return 0
	}
	return uintptr(unsafe.Pointer(unsafe.SliceData(*p)))
}

type prog struct {
	r       *h.Run
	spec    *allocSpec
	a       mempool.Allocator
	rng     *rand.Rand
	c       caseT
	lives   []*live
	nextID  int
	trace   []opRec
	freed   map[uintptr]bool
	grew    bool
	reused  bool
	multi   bool
	failed  bool
	maxLive int
	// shared across goroutines in concurrent mode: registry for global
	// disjointness sweeps
	reg *registry
	gid int
}

type registry struct {
	mu sync.Mutex
	m  map[*live]int
}

func (pg *prog) note(op string, buf, size int) {
	if len(pg.trace) >= 40 {
		copy(pg.trace, pg.trace[1:])
		pg.trace = pg.trace[:39]
	}
	pg.trace = append(pg.trace, opRec{op, buf, size})
}

func (pg *prog) fail(sig, detail string) {
	if pg.failed {
		return
	}
	pg.failed = true
	c := pg.c
	c.Trace = append([]opRec(nil), pg.trace...)
	pg.r.Violate("c20:"+pg.spec.Name+":"+sig, detail, c)
}

func (pg *prog) size() int {
	mx := pg.c.MaxSize
	switch pg.rng.Intn(10) {
	case 0:
		if pg.spec.NoZero {
			return 1
		}
		return 0
	case 1:
		return 1
	case 2, 3:
		k := 5 + pg.rng.Intn(16)
		n := (1 << k) + pg.rng.Intn(3) - 1
		if n > mx {
			n = mx
		}
		return n
	case 4, 5:
		e := pg.spec.Edges[pg.rng.Intn(len(pg.spec.Edges))]
		n := e + pg.rng.Intn(5) - 2
		if n < 1 {
			n = 1
		}
		if n > mx {
			n = mx
		}
		return n
	case 6:
		return 1 + pg.rng.Intn(mx)
	default:
		return 1 + pg.rng.Intn(300)
	}
}

func (pg *prog) checkOne(l *live, when string) bool {
	if !bytes.Equal(*l.p, l.shadow) {
		i := 0
		for i < len(*l.p) && i < len(l.shadow) && (*l.p)[i] == l.shadow[i] {
			i++
		}
		pg.fail("content-changed", fmt.Sprintf("%s: live buffer #%d (len %d, shadow len %d) differs from its shadow at byte %d", when, l.id, len(*l.p), len(l.shadow), i))
		return false
	}
	return true
}

func (pg *prog) sweep() {
	if len(pg.lives) >= 2 {
		pg.multi = true
	}
	for _, l := range pg.lives {
		if !pg.checkOne(l, "sweep") {
			return
		}
	}
	type rg struct {
		lo, hi uintptr
		id     int
	}
	var rs []rg
	for _, l := range pg.lives {
		if cap(*l.p) > 0 {
			b := base(l.p)
			rs = append(rs, rg{b, b + uintptr(cap(*l.p)), l.id})
		}
	}
	sort.Slice(rs, func(i, j int) bool { return rs[i].lo < rs[j].lo })
	for i := 1; i < len(rs); i++ {
		if rs[i].lo < rs[i-1].hi {
			pg.fail("overlap", fmt.Sprintf("live buffers #%d [%#x,%#x) and #%d [%#x,%#x) share memory", rs[i-1].id, rs[i-1].lo, rs[i-1].hi, rs[i].id, rs[i].lo, rs[i].hi))
			return
		}
	}
	pg.r.Count("sweeps", 1)
}

func (pg *prog) step() {
	maxLive := 24
	var choice int
	if len(pg.lives) == 0 {
		choice = 0
	} else if len(pg.lives) >= maxLive {
		choice = 4
	} else {
		choice = pg.rng.Intn(9)
	}
	switch {
	case choice <= 1: // Malloc
		n := pg.size()
		pg.note("malloc", pg.nextID, n)
		p := pg.a.Malloc(n)
		if p == nil {
			pg.fail("malloc-nil", fmt.Sprintf("Malloc(%d) returned nil", n))
			return
		}
		if len(*p) != n {
			pg.fail("malloc-len", fmt.Sprintf("Malloc(%d) returned len %d (cap %d)", n, len(*p), cap(*p)))
			return
		}
		if b := base(p); b != 0 && pg.freed[b] {
			pg.reused = true
			delete(pg.freed, b)
		}
		l := &live{id: pg.nextID, p: p}
		pg.nextID++
		fill(*p, l.id, 0)
		l.shadow = append([]byte(nil), *p...)
		pg.lives = append(pg.lives, l)
		pg.r.Count("malloc", 1)
	case choice <= 3: // Append / AppendString
		l := pg.lives[pg.rng.Intn(len(pg.lives))]
		n := pg.size()
		if len(l.shadow)+n > 2*pg.c.MaxSize {
			n = 1
		}
		more := make([]byte, n)
		for i := range more {
			more[i] = pat(l.id+77, len(l.shadow)+i)
		}
		oldCap := cap(*l.p)
		oldBase := base(l.p)
		var np *[]byte
		if choice == 2 {
			pg.note("append", l.id, n)
			np = pg.a.Append(l.p, more...)
		} else {
			pg.note("appendstring", l.id, n)
			np = pg.a.AppendString(l.p, string(more))
		}
		if np == nil {
			pg.fail("append-nil", "Append returned nil")
			return
		}
		if len(l.shadow)+n > oldCap {
			pg.grew = true
			if oldBase != 0 && base(np) != oldBase {
				// the old block may have been returned to the pool
				pg.freed[oldBase] = true
			}
		}
		l.p = np
		l.shadow = append(l.shadow, more...)
		if !pg.checkOne(l, fmt.Sprintf("after Append(+%d)", n)) {
			return
		}
		pg.r.Count("append", 1)
	case choice == 4 || choice == 5: // Free
		i := pg.rng.Intn(len(pg.lives))
		l := pg.lives[i]
		if !pg.checkOne(l, "before Free") {
			return
		}
		pg.note("free", l.id, len(l.shadow))
		if b := base(l.p); b != 0 {
			pg.freed[b] = true
		}
		pg.a.Free(l.p)
		pg.lives[i] = pg.lives[len(pg.lives)-1]
		pg.lives = pg.lives[:len(pg.lives)-1]
		pg.r.Count("free", 1)
	case choice == 6 && !pg.spec.NoRelloc: // Realloc
		l := pg.lives[pg.rng.Intn(len(pg.lives))]
		n := pg.size()
		pg.note("realloc", l.id, n)
		oldLen := len(l.shadow)
		oldCap := cap(*l.p)
		oldBase := base(l.p)
		np := pg.a.Realloc(l.p, n)
		if np == nil {
			pg.fail("realloc-nil", "Realloc returned nil")
			return
		}
		if len(*np) != n {
			pg.fail("realloc-len", fmt.Sprintf("Realloc(len %d -> %d) returned len %d", oldLen, n, len(*np)))
			return
		}
		keep := oldLen
		if n < keep {
			keep = n
		}
		if !bytes.Equal((*np)[:keep], l.shadow[:keep]) {
			pg.fail("realloc-prefix", fmt.Sprintf("Realloc(len %d -> %d) did not preserve the common prefix", oldLen, n))
			return
		}
		if n > oldCap {
			pg.grew = true
			if oldBase != 0 && base(np) != oldBase {
				pg.freed[oldBase] = true
			}
		}
		l.p = np
		if n > oldLen {
			fill(*np, l.id+31, oldLen)
		}
		l.shadow = append(l.shadow[:0], *np...)
		pg.r.Count("realloc", 1)
	default: // read-modify: overwrite a live buffer in place (owner writes must not leak elsewhere)
		l := pg.lives[pg.rng.Intn(len(pg.lives))]
		if len(*l.p) > 0 {
			k := pg.rng.Intn(len(*l.p))
			(*l.p)[k] ^= 0x5a
			l.shadow[k] ^= 0x5a
		}
	}
	if len(pg.lives) > pg.maxLive {
		pg.maxLive = len(pg.lives)
	}
}

func (pg *prog) run() {
	defer func() {
		if e := recover(); e != nil {
			pg.fail("panic", fmt.Sprintf("allocator call panicked: %v\n%s", e, h.Stacks()[:1500]))
			pg.lives = nil
		}
	}()
	for i := 0; i < pg.c.Ops && !pg.failed; i++ {
		pg.step()
		if i%16 == 15 {
			pg.sweep()
		}
	}
	if !pg.failed {
		pg.sweep()
	}
	// release everything so pooled allocators shared between programs see frees too
	for _, l := range pg.lives {
		if !pg.failed {
			pg.checkOne(l, "final")
		}
		pg.a.Free(l.p)
	}
	pg.lives = nil
}

func runCase(r *h.Run, c caseT) {
	var spec *allocSpec
	for i := range specs {
		if specs[i].Name == c.Alloc {
			spec = &specs[i]
		}
	}
	if spec == nil {
		return
	}
	a := spec.New()
	r.Eval(1)
	if c.Mode == "single" {
		pg := &prog{r: r, spec: spec, a: a, rng: r.Rand("c20-"+c.Alloc, c.Index), c: c, freed: map[uintptr]bool{}}
		pg.run()
		if pg.grew && pg.reused && pg.multi && !pg.failed {
			r.Nontrivial(fmt.Sprintf("%s/%s/%d", c.Alloc, c.Mode, c.Index))
		}
		r.Max("max_live_buffers", int64(pg.maxLive))
		return
	}
	if c.Mode == "handoff" {
		runHandoff(r, spec, a, c)
		return
	}
	// concurrent: goroutines own their buffers, share the allocator
	var wg sync.WaitGroup
	pgs := make([]*prog, c.Goroutines)
	for g := 0; g < c.Goroutines; g++ {
		pgs[g] = &prog{r: r, spec: spec, a: a, rng: r.Rand(fmt.Sprintf("c20-%s-g%d", c.Alloc, g), c.Index), c: c, freed: map[uintptr]bool{}, gid: g}
		pgs[g].nextID = g * 1000003
		wg.Add(1)
		go func(pg *prog) {
			defer wg.Done()
			pg.run()
		}(pgs[g])
	}
	wg.Wait()
	ok := true
	grew, reused, multi := false, false, false
	for _, pg := range pgs {
		if pg.failed {
			ok = false
		}
		grew = grew || pg.grew
		reused = reused || pg.reused
		multi = multi || pg.multi
	}
	if ok && grew && reused && multi {
		r.Nontrivial(fmt.Sprintf("%s/%s/%d", c.Alloc, c.Mode, c.Index))
	}
}

// runHandoff: buffers are allocated by one goroutine and checked, grown and freed
// by another (what nbio does: the poller allocates, an executor goroutine frees).
// With per-P pools a Malloc then regularly takes a header another goroutine has
// just put back; whatever Free does to a buffer after it has handed it to the pool
// hits a buffer that is live again. Every buffer carries its own pattern; its
// length and contents are checked right after Malloc, on receipt, after a short
// hold and after an optional Append, before it is freed.
func runHandoff(r *h.Run, spec *allocSpec, a mempool.Allocator, c caseT) {
	type item struct {
		p  *[]byte
		id int
		n  int
	}
	var failed int32
	fail := func(sig, detail string) {
		if atomic.CompareAndSwapInt32(&failed, 0, 1) {
			r.Violate("c20:"+spec.Name+":handoff:"+sig, detail, c)
		}
	}
	check := func(it item, when string) bool {
		b := *it.p
		if len(b) != it.n {
			fail("length-of-live-buffer-changed", fmt.Sprintf("buffer #%d: Malloc(%d), length %d %s", it.id, it.n, len(b), when))
			return false
		}
		for i := range b {
			if b[i] != pat(it.id, i) {
				fail("contents-of-live-buffer-changed", fmt.Sprintf("buffer #%d (%d bytes): byte %d is %#x, written %#x, %s", it.id, it.n, i, b[i], pat(it.id, i), when))
				return false
			}
		}
		return true
	}
	ch := make(chan item, 32)
	var prod, cons sync.WaitGroup
	var pairs int64
	for g := 0; g < c.Goroutines; g++ {
		prod.Add(1)
		go func(g int) {
			defer prod.Done()
			defer func() {
				if e := recover(); e != nil {
					fail("panic", fmt.Sprintf("allocator call panicked: %v", e))
				}
			}()
			rng := r.Rand(fmt.Sprintf("c20-handoff-%s-p%d", c.Alloc, g), c.Index)
			for i := 0; i < c.Ops && atomic.LoadInt32(&failed) == 0; i++ {
				n := 1 + rng.Intn(256)
				if i%64 == 0 {
					n = 1 + rng.Intn(c.MaxSize)
				}
				it := item{p: a.Malloc(n), id: g*10000019 + i, n: n}
				if len(*it.p) != n {
					fail("malloc-length", fmt.Sprintf("Malloc(%d) returned a buffer of length %d", n, len(*it.p)))
					return
				}
				fill(*it.p, it.id, 0)
				if !check(it, "right after Malloc and fill") {
					return
				}
				ch <- it
			}
		}(g)
		cons.Add(1)
		go func(g int) {
			defer cons.Done()
			defer func() {
				if e := recover(); e != nil {
					fail("panic", fmt.Sprintf("allocator call panicked: %v", e))
				}
				for range ch {
				}
			}()
			k := 0
			for it := range ch {
				k++
				if atomic.LoadInt32(&failed) != 0 {
					continue
				}
				if !check(it, "when its consumer received it") {
					continue
				}
				if k%4 == 0 {
					runtime.Gosched()
					if !check(it, "after a yield in its consumer") {
						continue
					}
				}
				if k%8 == 0 {
					add := 1 + k%97
					old := it.n
					it.p = a.Append(it.p, make([]byte, add)...)
					it.n += add
					if len(*it.p) != it.n {
						fail("append-length", fmt.Sprintf("Append of %d bytes to a buffer of %d: length %d", add, old, len(*it.p)))
						continue
					}
					fill(*it.p, it.id, old)
					if !check(it, "after Append in its consumer") {
						continue
					}
				}
				a.Free(it.p)
				atomic.AddInt64(&pairs, 1)
			}
		}(g)
	}
	prod.Wait()
	close(ch)
	cons.Wait()
	r.Count("handoff_malloc_free_pairs", atomic.LoadInt64(&pairs))
	if atomic.LoadInt32(&failed) == 0 {
		r.Nontrivial(fmt.Sprintf("%s/%s/%d", c.Alloc, c.Mode, c.Index))
	}
}

func main() {
	concOnly := flag.Bool("concurrent-only", false, "run only the concurrent programs")
	r := h.Start("C20")
	defer r.Finish()
	if r.Replay != "" {
		var c caseT
		if err := r.ReplayCase(&c); err != nil {
			fmt.Println("replay:", err)
			return
		}
		c.Trace = nil
		runCase(r, c)
		return
	}
	nSingle := r.N(400, 4000)
	nConc := r.N(12, 160)
	ops := r.N(500, 1200)
	maxSize := r.N(1<<18, 1<<20)
	idx := 0
	for si := range specs {
		if !*concOnly {
			for i := 0; i < nSingle; i++ {
				idx++
				if !r.Mine(idx) {
					continue
				}
				ms := maxSize
				if i%3 != 0 {
					ms = 1 << 14 // most programs stay small so that pooled size classes are revisited often
				}
				c := caseT{Alloc: specs[si].Name, Mode: "single", Index: i, Ops: ops, MaxSize: ms}
				if i%50 == 0 {
					r.Begin(c)
				}
				runCase(r, c)
				if i == 0 {
					r.Sample(c)
				}
			}
		}
		for i := 0; i < nConc; i++ {
			idx++
			if !r.Mine(idx) {
				continue
			}
			c := caseT{Alloc: specs[si].Name, Mode: "concurrent", Index: i, Ops: ops, MaxSize: 1 << 14, Goroutines: 16}
			r.Begin(c)
			runCase(r, c)
			if i == 0 {
				r.Sample(c)
			}
		}
		hops, hcases := r.N(20000, 50000), r.N(12, 24)
		if *concOnly {
			hops, hcases = 3000, 4 // the race-detector phase
		}
		for i := 0; i < hcases; i++ {
			idx++
			if !r.Mine(idx) {
				continue
			}
			c := caseT{Alloc: specs[si].Name, Mode: "handoff", Index: i, Ops: hops, MaxSize: 1 << 14, Goroutines: 8}
			r.Begin(c)
			runCase(r, c)
		}
	}
}
