// C12 - WebSocket message round trip. Differential monitor against the
// independent codec in internal/wsref, in memory (no sockets):
//
//	send: nbio WriteMessage -> captured wire bytes -> reference decoder
//	recv: reference encoder (fragments, interleaved pings/pongs, masking,
//	      permessage-deflate) -> segmentation -> nbio Parse -> OnMessage
//	loop: nbio sender -> bytes -> segmentation -> nbio receiver of the other role
package main

import (
	"bytes"
	"encoding/hex"
	"fmt"
	"math/rand"
	"strings"
	"time"

	"verif/internal/h"
	"verif/internal/wsref"
	"verif/internal/wsref/nbdrive"
)

type msgSpec struct {
	Type int    `json:"type"` // 1 text, 2 binary
	Kind string `json:"kind"`
	Len  int    `json:"len"`
	Seed int64  `json:"seed"`
}

func (m msgSpec) build() wsref.Message {
	return wsref.Message{Type: byte(m.Type), Payload: nbdrive.GenPayload(m.Kind, m.Len, m.Seed)}
}

// caseT is self-contained: running it needs nothing but its fields.
type caseT struct {
	Dir   string         `json:"dir"` // send | recv | loop
	Index int            `json:"index"`
	Cfg   nbdrive.Config `json:"cfg"` // the nbio endpoint under test (sender for send/loop, receiver for recv)
	Msgs  []msgSpec      `json:"msgs"`
	// recv: how the reference sender behaves
	FragSeed int64 `json:"frag_seed,omitempty"`
	RefLevel int   `json:"ref_level,omitempty"`
	// recv, loop: how the wire is cut into reads; Kind "allsingle" runs every single cut
	Seg nbdrive.Seg `json:"seg"`
	// informational, attached to violations with a small wire image
	WireHex string `json:"wire_hex,omitempty"`
	Cuts    []int  `json:"cuts,omitempty"`
}

var (
	run *h.Run
	lg  *h.CapLogger
	wd  *nbdrive.Watchdog
)

func roleName(client bool) string {
	if client {
		return "client"
	}
	return "server"
}

func lenClass(n, mf int) string {
	if mf <= 0 {
		mf = 32768
	}
	switch {
	case n == 0:
		return "0"
	case n < 8:
		return "1-7"
	case n <= 125:
		return "8-125"
	case n <= 127:
		return "126-127"
	case n < 65535:
		if n > mf {
			return "128-65534,fragmented"
		}
		return "128-65534"
	case n <= 65536:
		return "65535-65536"
	case n < 1<<20:
		return "64K-1M"
	}
	return ">=1M"
}

func violate(sig, detail string, c caseT, wire []byte, cuts []int) {
	if len(wire) > 0 && len(wire) <= 4096 {
		c.WireHex = hex.EncodeToString(wire)
	}
	if len(cuts) > 0 && len(cuts) <= 64 {
		c.Cuts = cuts
	}
	run.Violate(sig, detail, c)
}

func checkPanics(c caseT, where string) {
	lines := lg.Take()
	if p := h.PanicLines(lines); len(p) > 0 {
		run.Violate("c12:"+where+":panic-recovered", "nbio recovered a panic:\n"+p[0], c)
	}
}

// ---------------------------------------------------------------- send

// checkWire decodes what an nbio sender wrote and compares it with what was
// written. It returns false when a violation was recorded.
func checkWire(c caseT, dir string, s *nbdrive.Endpoint, msgs []wsref.Message) bool {
	frames, rest, err := s.OutFrames()
	if err != nil || rest != 0 {
		violate("c12:"+dir+":wire-undecodable", fmt.Sprintf("reference decoder: err=%v, %d trailing bytes after %d frames", err, rest, len(frames)), c, s.Out, nil)
		return false
	}
	mf := c.Cfg.MaxFrame
	if mf <= 0 {
		mf = 32768
	}
	run.Count("frames_decoded_from_nbio", int64(len(frames)))
	var got []wsref.Message
	var cur *wsref.Message
	var curComp bool
	first := true
	for i := range frames {
		f := &frames[i]
		if f.Masked != c.Cfg.Client {
			violate("c12:"+dir+":mask-bit-wrong-for-role", fmt.Sprintf("frame %d written by the %s has MASK=%v", i, roleName(c.Cfg.Client), f.Masked), c, s.Out, nil)
			return false
		}
		if f.Masked && len(frames) <= 4 {
			run.Seen("mask_keys", hex.EncodeToString(f.Key[:]))
		}
		if len(f.Payload) > mf {
			violate("c12:"+dir+":fragment-over-frame-limit", fmt.Sprintf("frame %d carries %d payload bytes, MaxWebsocketFramePayloadSize=%d", i, len(f.Payload), mf), c, nil, nil)
			return false
		}
		if f.Rsv2 || f.Rsv3 {
			violate("c12:"+dir+":rsv2-or-rsv3-set", fmt.Sprintf("frame %d", i), c, s.Out, nil)
			return false
		}
		if !f.Minimal() {
			violate("c12:"+dir+":non-minimal-length-encoding", fmt.Sprintf("frame %d: %d-bit length field for %d bytes", i, f.LenBits, f.DeclLen), c, s.Out, nil)
			return false
		}
		if f.IsControl() {
			violate("c12:"+dir+":unexpected-control-frame", fmt.Sprintf("frame %d opcode %d", i, f.Opcode), c, s.Out, nil)
			return false
		}
		if first {
			if f.Opcode != wsref.OpText && f.Opcode != wsref.OpBinary {
				violate("c12:"+dir+":first-frame-opcode", fmt.Sprintf("frame %d starts a message with opcode %d", i, f.Opcode), c, s.Out, nil)
				return false
			}
			if f.Rsv1 && !c.Cfg.Compression {
				violate("c12:"+dir+":rsv1-without-negotiated-compression", fmt.Sprintf("frame %d", i), c, s.Out, nil)
				return false
			}
			cur = &wsref.Message{Type: f.Opcode}
			curComp = f.Rsv1
			if f.Rsv1 {
				run.Count("compressed_messages_on_wire", 1)
			}
		} else {
			if f.Opcode != wsref.OpCont {
				violate("c12:"+dir+":continuation-opcode", fmt.Sprintf("frame %d inside a message has opcode %d", i, f.Opcode), c, s.Out, nil)
				return false
			}
			if f.Rsv1 {
				violate("c12:"+dir+":rsv1-on-non-first-frame", fmt.Sprintf("frame %d", i), c, s.Out, nil)
				return false
			}
			run.Count("continuation_frames_from_nbio", 1)
		}
		cur.Payload = append(cur.Payload, f.Payload...)
		first = f.Fin
		if f.Fin {
			if curComp {
				out, err := wsref.Inflate(cur.Payload, -1)
				if err != nil {
					violate("c12:"+dir+":compressed-message-does-not-inflate", fmt.Sprintf("message %d: %v", len(got), err), c, s.Out, nil)
					return false
				}
				cur.Payload = out
			}
			got = append(got, *cur)
			cur = nil
		}
	}
	if cur != nil {
		violate("c12:"+dir+":last-message-not-finished", "the final frame written has FIN=0", c, s.Out, nil)
		return false
	}
	if len(got) != len(msgs) {
		violate("c12:"+dir+":message-count", fmt.Sprintf("wrote %d messages, wire decodes to %d", len(msgs), len(got)), c, s.Out, nil)
		return false
	}
	for i := range msgs {
		if got[i].Type != msgs[i].Type {
			violate("c12:"+dir+":type-mismatch", fmt.Sprintf("message %d written as type %d, on the wire type %d", i, msgs[i].Type, got[i].Type), c, s.Out, nil)
			return false
		}
		if !bytes.Equal(got[i].Payload, msgs[i].Payload) {
			violate("c12:"+dir+":payload-mismatch", fmt.Sprintf("message %d: wrote %d bytes, wire decodes to %d bytes; first difference at %d", i, len(msgs[i].Payload), len(got[i].Payload), firstDiff(got[i].Payload, msgs[i].Payload)), c, s.Out, nil)
			return false
		}
	}
	run.Count("messages_decoded_from_nbio", int64(len(got)))
	return true
}

func firstDiff(a, b []byte) int {
	n := len(a)
	if len(b) < n {
		n = len(b)
	}
	for i := 0; i < n; i++ {
		if a[i] != b[i] {
			return i
		}
	}
	return n
}

func buildMsgs(c caseT) []wsref.Message {
	msgs := make([]wsref.Message, len(c.Msgs))
	for i, m := range c.Msgs {
		msgs[i] = m.build()
	}
	return msgs
}

func sendAll(c caseT, dir string, msgs []wsref.Message) (*nbdrive.Endpoint, bool) {
	cfg := c.Cfg
	cfg.NoOutObs = true
	s := nbdrive.New(cfg)
	for i, m := range msgs {
		if err := s.Write(int(m.Type), m.Payload); err != nil {
			violate("c12:"+dir+":write-message-error", fmt.Sprintf("WriteMessage(type %d, %d bytes) of message %d returned %v", m.Type, len(m.Payload), i, err), c, nil, nil)
			return s, false
		}
	}
	return s, true
}

func nonEmpty(msgs []wsref.Message) int {
	n := 0
	for _, m := range msgs {
		if len(m.Payload) > 0 {
			n++
		}
	}
	return n
}

func runSend(c caseT) {
	msgs := buildMsgs(c)
	s, ok := sendAll(c, "send", msgs)
	run.Eval(1)
	if ok {
		ok = checkWire(c, "send", s, msgs)
	}
	s.Finish()
	checkPanics(c, "send")
	if ok {
		for _, m := range c.Msgs {
			run.Seen("cells", fmt.Sprintf("send/%s/comp=%v/mf=%d/len=%s", roleName(c.Cfg.Client), c.Cfg.Compression, c.Cfg.MaxFrame, lenClass(m.Len, c.Cfg.MaxFrame)))
		}
		if len(msgs) > 0 {
			run.Nontrivial(fmt.Sprintf("send/%d", c.Index))
		}
	}
}

// ---------------------------------------------------------------- receive side

// compareDelivered checks the OnMessage sequence against what was sent.
func compareDelivered(c caseT, dir string, e *nbdrive.Endpoint, exp []wsref.Message, wire []byte, cuts []int) bool {
	ok := true
	if e.ParseErr != nil {
		violate("c12:"+dir+":parse-error-on-valid-stream", fmt.Sprintf("Parse returned %q after %d of %d bytes", e.ParseErr, e.FailFed, len(wire)), c, wire, cuts)
		run.Seen("parse_errors", e.ParseErr.Error())
		ok = false
	} else if e.ConnClosed > 0 {
		violate("c12:"+dir+":connection-closed-on-valid-stream", fmt.Sprintf("nbio closed the underlying connection after %d of %d bytes (OnClose err: %v)", e.FailFed, len(wire), e.OnCloseErr), c, wire, cuts)
		ok = false
	}
	got := e.Messages()
	i, j := 0, 0
	missingEmpty := 0
	for i < len(exp) && j < len(got) {
		if exp[i].Type == got[j].Type && bytes.Equal(exp[i].Payload, got[j].Payload) {
			i++
			j++
			continue
		}
		if len(exp[i].Payload) == 0 {
			missingEmpty++
			i++
			continue
		}
		if !ok {
			return false
		}
		if exp[i].Type != got[j].Type && bytes.Equal(exp[i].Payload, got[j].Payload) {
			violate("c12:"+dir+":type-mismatch", fmt.Sprintf("message %d sent as type %d delivered as type %d", i, exp[i].Type, got[j].Type), c, wire, cuts)
		} else if len(exp[i].Payload) == len(got[j].Payload) {
			violate("c12:"+dir+":payload-corrupted", fmt.Sprintf("message %d (%d bytes): delivered payload differs from byte %d on", i, len(exp[i].Payload), firstDiff(exp[i].Payload, got[j].Payload)), c, wire, cuts)
		} else {
			violate("c12:"+dir+":payload-length-mismatch", fmt.Sprintf("message %d: sent %d bytes, callback %d got %d bytes (first difference at %d)", i, len(exp[i].Payload), j, len(got[j].Payload), firstDiff(exp[i].Payload, got[j].Payload)), c, wire, cuts)
		}
		return false
	}
	for ; i < len(exp); i++ {
		if len(exp[i].Payload) == 0 {
			missingEmpty++
			continue
		}
		if ok {
			violate("c12:"+dir+":message-not-delivered", fmt.Sprintf("message %d (type %d, %d bytes) never reached OnMessage; %d callbacks for %d messages", i, exp[i].Type, len(exp[i].Payload), len(got), len(exp)), c, wire, cuts)
		}
		return false
	}
	if j < len(got) {
		if ok {
			violate("c12:"+dir+":extra-message-delivered", fmt.Sprintf("%d callbacks for %d messages; extra callback %d has type %d and %d bytes", len(got), len(exp), j, got[j].Type, len(got[j].Payload)), c, wire, cuts)
		}
		return false
	}
	run.Count("messages_delivered_and_compared", int64(len(got)))
	if missingEmpty > 0 {
		run.Count("empty_messages_not_delivered", int64(missingEmpty))
		if ok {
			violate("c12:"+dir+":empty-message-not-delivered", fmt.Sprintf("%d zero-length message(s) never reached OnMessage; every non-empty message was delivered correctly (%d callbacks for %d messages), Parse returned no error", missingEmpty, len(got), len(exp)), c, wire, cuts)
		}
		return false
	}
	return ok
}

// refEncode is the reference sender for the recv direction.
func refEncode(c caseT, msgs []wsref.Message) (wire []byte, nctl int, ncomp int, nfrag int) {
	rng := rand.New(rand.NewSource(c.FragSeed))
	masked := !c.Cfg.Client // the reference plays the other role
	key := func() [4]byte {
		var k [4]byte
		switch rng.Intn(8) {
		case 0: // all-zero key is legal
		case 1:
			k = [4]byte{0xff, 0xff, 0xff, 0xff}
		default:
			rng.Read(k[:])
		}
		return k
	}
	ctl := func() wsref.Frame {
		op := byte(wsref.OpPing)
		if rng.Intn(2) == 0 {
			op = wsref.OpPong
		}
		n := []int{0, 1, 5, 124, 125}[rng.Intn(5)]
		p := make([]byte, n)
		rng.Read(p)
		nctl++
		return wsref.Frame{Fin: true, Opcode: op, Masked: masked, Key: key(), Payload: p}
	}
	var frames []wsref.Frame
	for _, m := range msgs {
		if rng.Intn(4) == 0 {
			frames = append(frames, ctl())
		}
		comp := c.Cfg.Compression && rng.Intn(10) < 7
		plen := len(m.Payload)
		var pre []byte
		if comp {
			pre = wsref.Deflate(m.Payload, c.RefLevel)
			plen = len(pre)
			ncomp++
		}
		var cuts []int
		switch rng.Intn(4) {
		case 0: // single frame
		default:
			k := 1 + rng.Intn(4)
			for i := 0; i < k; i++ {
				switch rng.Intn(6) {
				case 0:
					cuts = append(cuts, 0) // empty first fragment
				case 1:
					cuts = append(cuts, plen) // empty last fragment
				default:
					cuts = append(cuts, rng.Intn(plen+1))
				}
			}
			sortInts(cuts)
		}
		var fr []wsref.Frame
		if comp {
			// fragment the already compressed bytes
			fr = wsref.Fragment(wsref.Message{Type: m.Type, Payload: pre}, wsref.FragmentOpts{Cuts: cuts, Masked: masked, NextKey: key})
			fr[0].Rsv1 = true
		} else {
			fr = wsref.Fragment(m, wsref.FragmentOpts{Cuts: cuts, Masked: masked, NextKey: key})
		}
		if len(fr) > 1 {
			nfrag++
		}
		for i := range fr {
			if i > 0 && rng.Intn(3) == 0 {
				frames = append(frames, ctl())
			}
			frames = append(frames, fr[i])
		}
	}
	if rng.Intn(4) == 0 {
		frames = append(frames, ctl())
	}
	// the reference validates its own output: a recv case never contains an invalid stream
	if v := wsref.Validate(frames, wsref.Options{Compression: c.Cfg.Compression}); !v.Valid || len(v.Unasserted) > 0 {
		panic(fmt.Sprintf("reference encoder produced an invalid stream: %+v", v))
	}
	return wsref.Encode(frames), nctl, ncomp, nfrag
}

func sortInts(a []int) {
	for i := 1; i < len(a); i++ {
		for j := i; j > 0 && a[j] < a[j-1]; j-- {
			a[j], a[j-1] = a[j-1], a[j]
		}
	}
}

// receive runs one receiver over wire with the given cuts and compares.
func receive(c caseT, dir string, cfg nbdrive.Config, wire []byte, cuts []int, exp []wsref.Message) bool {
	cfg.NoOutObs = false
	e := nbdrive.New(cfg)
	e.FeedAll(wire, cuts)
	run.Eval(1)
	run.Count("parse_calls", int64(e.ParseCalls))
	ok := compareDelivered(c, dir, e, exp, wire, cuts)
	for _, o := range e.Obs {
		if o.Kind == nbdrive.ObsFrameOut && o.Frame.Opcode == wsref.OpPong {
			run.Count("pongs_written_by_nbio", 1)
		}
	}
	if len(e.JobPanics) > 0 {
		run.Violate("c12:"+dir+":panic-in-handler-job", e.JobPanics[0], c)
		ok = false
	}
	e.Finish()
	checkPanics(c, dir)
	return ok
}

func receiveSegs(c caseT, dir string, cfg nbdrive.Config, wire []byte, exp []wsref.Message) bool {
	if c.Seg.Kind == "allsingle" && len(wire) > 2048 {
		// all single cuts only for wire images up to 2 KiB
		return receive(c, dir, cfg, wire, nbdrive.Seg{Kind: "random", N: 8, Seed: c.FragSeed}.Cuts(len(wire)), exp)
	}
	if c.Seg.Kind == "allsingle" {
		ok := true
		for at := 1; at < len(wire); at++ {
			if !receive(c, dir, cfg, wire, []int{at}, exp) {
				ok = false
				break
			}
		}
		run.Count("all_single_cut_sweeps", 1)
		return ok
	}
	return receive(c, dir, cfg, wire, c.Seg.Cuts(len(wire)), exp)
}

func runRecv(c caseT) {
	msgs := buildMsgs(c)
	wire, nctl, ncomp, nfrag := refEncode(c, msgs)
	run.Count("ref_control_frames_interleaved", int64(nctl))
	run.Count("ref_compressed_messages", int64(ncomp))
	run.Count("ref_fragmented_messages", int64(nfrag))
	ok := receiveSegs(c, "recv", c.Cfg, wire, msgs)
	if ok {
		for _, m := range c.Msgs {
			run.Seen("cells", fmt.Sprintf("recv/%s/comp=%v/len=%s/seg=%s", roleName(c.Cfg.Client), c.Cfg.Compression, lenClass(m.Len, 1<<30), c.Seg.Kind))
		}
	}
	if ok && nonEmpty(msgs) > 0 {
		run.Nontrivial(fmt.Sprintf("recv/%d", c.Index))
	}
}

func runLoop(c caseT) {
	msgs := buildMsgs(c)
	s, ok := sendAll(c, "loop", msgs)
	if !ok {
		s.Finish()
		return
	}
	wire := s.Out
	s.Finish()
	rcfg := nbdrive.Config{Client: !c.Cfg.Client, Compression: c.Cfg.Compression, MsgLimit: c.Cfg.MsgLimit, ReadLimit: c.Cfg.ReadLimit}
	ok = receiveSegs(c, "loop", rcfg, wire, msgs)
	if ok {
		for _, m := range c.Msgs {
			run.Seen("cells", fmt.Sprintf("loop/%s->%s/comp=%v/mf=%d/len=%s/seg=%s", roleName(c.Cfg.Client), roleName(!c.Cfg.Client), c.Cfg.Compression, c.Cfg.MaxFrame, lenClass(m.Len, c.Cfg.MaxFrame), c.Seg.Kind))
		}
	}
	if ok && nonEmpty(msgs) > 0 {
		run.Nontrivial(fmt.Sprintf("loop/%d", c.Index))
	}
}

func runCase(c caseT) {
	wd.Enter(c)
	defer wd.Leave()
	switch c.Dir {
	case "send":
		runSend(c)
	case "recv":
		runRecv(c)
	case "loop":
		runLoop(c)
	}
}

// ---------------------------------------------------------------- case generation

var frameLimits = []int{1, 125, 1024, 32768, 65536, 1 << 17} // (the last two: frames in the 64-bit length class, one of exactly 65536 bytes)

func pickLen(rng *rand.Rand, mf int) int {
	if mf <= 0 {
		mf = 32768
	}
	switch rng.Intn(10) {
	case 0:
		return 0
	case 1, 2:
		return []int{1, 2, 3, 4, 5, 7, 8, 9, 15, 16, 17, 63, 64, 65, 71, 72, 73, 125, 126, 127, 128}[rng.Intn(21)]
	case 3:
		return []int{65535, 65536, 65537}[rng.Intn(3)]
	case 4, 5:
		return []int{mf - 1, mf, mf + 1, 2*mf - 1, 2 * mf, 2*mf + 1}[rng.Intn(6)]
	case 6:
		l := frameLimits[rng.Intn(len(frameLimits))]
		return []int{l - 1, l, l + 1, 2*l - 1, 2*l + 1}[rng.Intn(5)]
	case 7:
		return rng.Intn(300)
	case 8:
		return rng.Intn(5000)
	}
	return rng.Intn(70000)
}

func pickKind(rng *rand.Rand, typ int) string {
	if typ == wsref.OpText {
		return []string{nbdrive.PayText, nbdrive.PayText, nbdrive.PayCompressible, nbdrive.PayZero}[rng.Intn(4)]
	}
	return []string{nbdrive.PayRandom, nbdrive.PayRandom, nbdrive.PayText, nbdrive.PayCompressible, nbdrive.PayZero}[rng.Intn(5)]
}

func genCase(i int, big bool) caseT {
	rng := run.Rand("c12", i)
	c := caseT{Index: i, Dir: []string{"send", "recv", "loop"}[rng.Intn(3)]}
	c.Cfg.Client = rng.Intn(2) == 0
	c.Cfg.Compression = rng.Intn(2) == 0
	if c.Cfg.Compression {
		c.Cfg.LevelSet = true
		c.Cfg.Level = -2 + rng.Intn(12)
	}
	c.RefLevel = -2 + rng.Intn(12)
	c.FragSeed = rng.Int63()
	c.Cfg.MaxFrame = []int{1, 125, 1024, 32768, 0, 65536}[rng.Intn(6)]
	c.Cfg.MsgLimit = []int{0, 1 << 26}[rng.Intn(2)]
	total := 0
	if big {
		// a few MiB-sized messages; never with a 1- or 125-byte frame limit (millions of frames)
		c.Cfg.MaxFrame = []int{1024, 32768, 0}[rng.Intn(3)]
		n := []int{1 << 20, 1<<20 + 1, 4 << 20, 4<<20 - 1, 3<<20 + 12345}[rng.Intn(5)]
		typ := 1 + rng.Intn(2)
		c.Msgs = []msgSpec{{Type: typ, Kind: pickKind(rng, typ), Len: n, Seed: rng.Int63()}}
		if rng.Intn(2) == 0 {
			c.Msgs = append(c.Msgs, msgSpec{Type: 2, Kind: nbdrive.PayRandom, Len: 10, Seed: rng.Int63()})
		}
		c.Seg = []nbdrive.Seg{{Kind: "whole"}, {Kind: "chunks", N: 65536}, {Kind: "chunks", N: 4096}, {Kind: "random", N: 40, Seed: rng.Int63()}}[rng.Intn(4)]
		return c
	}
	nm := 1 + rng.Intn(4)
	for k := 0; k < nm; k++ {
		typ := 1 + rng.Intn(2)
		n := pickLen(rng, c.Cfg.MaxFrame)
		total += n
		c.Msgs = append(c.Msgs, msgSpec{Type: typ, Kind: pickKind(rng, typ), Len: n, Seed: rng.Int63()})
	}
	if c.Cfg.MaxFrame == 1 && total > 20000 {
		c.Cfg.MaxFrame = 125
	}
	switch x := rng.Intn(10); {
	case x == 0:
		c.Seg = nbdrive.Seg{Kind: "whole"}
	case x <= 2 && total <= 40000:
		c.Seg = nbdrive.Seg{Kind: "bytes"}
	case x == 3 && total <= 1500:
		c.Seg = nbdrive.Seg{Kind: "allsingle"}
	case x <= 5:
		c.Seg = nbdrive.Seg{Kind: "chunks", N: []int{2, 3, 7, 13, 1000, 4096}[rng.Intn(6)]}
	default:
		c.Seg = nbdrive.Seg{Kind: "random", N: 1 + rng.Intn(40), Seed: rng.Int63()}
	}
	return c
}

// fixedCases are the boundary lengths of the property text, in every
// configuration cell, independent of the seed.
func fixedCases(start int) []caseT {
	var out []caseT
	idx := start
	lens := func(mf int) []int {
		l := []int{0, 1, 125, 126, 127, 65535, 65536}
		if mf > 0 {
			l = append(l, mf-1, mf, mf+1, 2*mf-1, 2*mf+1)
		}
		return l
	}
	for _, dir := range []string{"send", "recv", "loop"} {
		for _, client := range []bool{false, true} {
			for _, comp := range []bool{false, true} {
				for _, mf := range frameLimits {
					if dir == "recv" && mf != 1024 {
						continue // the frame limit only concerns the sender
					}
					for _, n := range lens(mf) {
						if mf == 1 && n > 20000 {
							continue
						}
						for typ := 1; typ <= 2; typ++ {
							kind := nbdrive.PayText
							if typ == 2 {
								kind = nbdrive.PayRandom
							}
							c := caseT{Dir: dir, Index: idx, Msgs: []msgSpec{{Type: typ, Kind: kind, Len: n, Seed: int64(idx)*7919 + 1}}, FragSeed: int64(idx) * 31, RefLevel: idx%12 - 2}
							c.Cfg = nbdrive.Config{Client: client, Compression: comp, MaxFrame: mf, MsgLimit: 1 << 26}
							if comp {
								c.Cfg.LevelSet = true
								c.Cfg.Level = idx%12 - 2
							}
							c.Seg = nbdrive.Seg{Kind: "random", N: 6, Seed: int64(idx)}
							if n <= 130 && dir != "send" {
								c.Seg = nbdrive.Seg{Kind: "allsingle"}
							}
							out = append(out, c)
							idx++
						}
					}
				}
			}
		}
	}
	return out
}

func main() {
	run = h.Start("C12")
	defer run.Finish()
	lg = nbdrive.InstallLogger()
	wd = nbdrive.StartWatchdog(run, "c12")
	wd.SpinCPU = 30 * time.Second
	if run.Phase == "conc" {
		if run.Replay != "" {
			var c concCase
			if err := run.ReplayCase(&c); err != nil {
				fmt.Println("replay:", err)
				return
			}
			runConc(c)
			return
		}
		n := run.N(400, 8000)
		for i := 0; i < n; i++ {
			if !run.Mine(i) {
				continue
			}
			c := genConc(i)
			run.Begin(c)
			wd.Enter(c)
			runConc(c)
			wd.Leave()
			if i < 2 {
				run.Sample(c)
			}
		}
		return
	}
	if run.Replay != "" {
		var c caseT
		if err := run.ReplayCase(&c); err != nil {
			fmt.Println("replay:", err)
			return
		}
		c.WireHex, c.Cuts = "", nil
		runCase(c)
		return
	}
	nBig := run.N(9, 240)
	nRand := run.N(50000, 900000)
	idx := 0
	for i := 0; i < nBig; i++ {
		idx++
		if !run.Mine(idx) {
			continue
		}
		c := genCase(idx, true)
		run.Begin(c)
		runCase(c)
		if i == 0 {
			run.Sample(c)
		}
	}
	fixed := fixedCases(1000000)
	for k, c := range fixed {
		idx++
		if !run.Mine(idx) {
			continue
		}
		if k%200 < run.Shards {
			run.Begin(c)
		}
		runCase(c)
	}
	for i := 0; i < nRand; i++ {
		idx++
		if !run.Mine(idx) {
			continue
		}
		c := genCase(idx, false)
		if i%200 < run.Shards {
			run.Begin(c)
		}
		runCase(c)
		if i < 3*run.Shards && strings.Contains("recv loop", c.Dir) {
			run.Sample(c)
		}
	}
}
