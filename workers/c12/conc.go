package main

// Phase "conc": the round trip under concurrency. The main phase runs one
// connection at a time per process, so everything the websocket package shares
// between connections (the pools of flate readers and writers, the engine's
// buffer pool) is only ever used by one connection. Here G goroutines each own
// a sender endpoint and a receiver endpoint of the opposite role (in memory,
// inline executor) and run their message sequences at the same time: every
// message written must be delivered to the paired receiver exactly once, in
// order, with the same type and payload - whatever the other connections of
// the process are doing.

import (
	"bytes"
	"fmt"
	"math/rand"
	"sync"

	"verif/internal/h"
	"verif/internal/wsref"
	"verif/internal/wsref/nbdrive"
)

type concCase struct {
	Index int   `json:"index"`
	Conc  bool  `json:"conc"`
	G     int   `json:"goroutines"`
	Msgs  int   `json:"messages_per_goroutine"`
	Seed  int64 `json:"seed"`
}

func genConc(i int) concCase {
	rng := run.Rand("c12-conc", i)
	return concCase{Index: i, Conc: true, G: 2 + rng.Intn(7), Msgs: 10 + rng.Intn(50), Seed: rng.Int63()}
}

type concResult struct {
	sig, detail string
	delivered   int
	compressed  bool
}

func concWorker(c concCase, g int, start <-chan struct{}) (res concResult) {
	rng := rand.New(rand.NewSource(c.Seed + int64(g)*104729))
	client := g%2 == 0
	comp := g%4 != 3
	res.compressed = comp
	mf := []int{0, 0, 125, 1000, 4096}[rng.Intn(5)]
	scfg := nbdrive.Config{Client: client, Compression: comp, MaxFrame: mf, MsgLimit: 0, NoOutObs: true}
	if comp && rng.Intn(2) == 0 {
		scfg.LevelSet, scfg.Level = true, []int{-2, 1, 6, 9}[rng.Intn(4)]
	}
	s := nbdrive.New(scfg)
	rcv := nbdrive.New(nbdrive.Config{Client: !client, Compression: comp, MsgLimit: 0, NoOutObs: true})
	defer func() {
		if p := recover(); p != nil {
			res.sig, res.detail = "panic", fmt.Sprintf("goroutine %d (sender role %s, compression %v): panic %v", g, roleName(client), comp, p)
		}
	}()
	defer s.Finish()
	defer rcv.Finish()
	var sent []wsref.Message
	fed := 0
	<-start
	for i := 0; i < c.Msgs; i++ {
		n := []int{0, 1, 10, 125, 126, 700, 5000, 20000, 70000}[rng.Intn(9)]
		kind := []string{nbdrive.PayCompressible, nbdrive.PayCompressible, nbdrive.PayRandom}[rng.Intn(3)]
		typ := byte(2)
		if kind != nbdrive.PayRandom && rng.Intn(2) == 0 {
			typ = 1
		}
		data := nbdrive.GenPayload(kind, n, rng.Int63())
		if err := s.Write(int(typ), data); err != nil {
			res.sig, res.detail = "write-message-error", fmt.Sprintf("goroutine %d: WriteMessage(type %d, %d bytes) of message %d returned %v", g, typ, n, i, err)
			return
		}
		sent = append(sent, wsref.Message{Type: typ, Payload: data})
		// what the sender wrote so far goes to the receiver, cut at a random offset
		wire := s.Out[fed:]
		fed = len(s.Out)
		if len(wire) > 1 && rng.Intn(2) == 0 {
			cut := 1 + rng.Intn(len(wire)-1)
			_ = rcv.Feed(wire[:cut])
			wire = wire[cut:]
		}
		_ = rcv.Feed(wire)
		if rcv.ParseErr != nil {
			res.sig, res.detail = "parse-error-on-valid-stream", fmt.Sprintf("goroutine %d (sender role %s, compression %v): Parse returned %v while message %d (type %d, %d bytes) was being fed; %d messages delivered so far", g, roleName(client), comp, rcv.ParseErr, i, typ, n, len(rcv.Messages()))
			return
		}
	}
	got := rcv.Messages()
	res.delivered = len(got)
	if rcv.ConnClosed > 0 {
		res.sig, res.detail = "connection-closed-on-valid-stream", fmt.Sprintf("goroutine %d: the receiver closed its connection (%v); %d of %d messages delivered", g, rcv.OnCloseErr, len(got), len(sent))
		return
	}
	if len(got) != len(sent) {
		res.sig, res.detail = "message-count-differs", fmt.Sprintf("goroutine %d (sender role %s, compression %v): %d messages written, %d delivered", g, roleName(client), comp, len(sent), len(got))
		return
	}
	for i := range sent {
		if got[i].Type != sent[i].Type || !bytes.Equal(got[i].Payload, sent[i].Payload) {
			res.sig, res.detail = "message-differs", fmt.Sprintf("goroutine %d (sender role %s, compression %v): message %d written as type %d with %d bytes, delivered as type %d with %d bytes (first difference at offset %d)", g, roleName(client), comp, i, sent[i].Type, len(sent[i].Payload), got[i].Type, len(got[i].Payload), firstDiff(got[i].Payload, sent[i].Payload))
			return
		}
	}
	return
}

func runConc(c concCase) {
	start := make(chan struct{})
	results := make([]concResult, c.G)
	var wg sync.WaitGroup
	for g := 0; g < c.G; g++ {
		wg.Add(1)
		go func(g int) {
			defer wg.Done()
			results[g] = concWorker(c, g, start)
		}(g)
	}
	close(start)
	wg.Wait()
	run.Eval(c.G)
	ok := true
	total, ncomp := 0, 0
	for _, res := range results {
		if res.sig != "" {
			ok = false
			run.Violate("c12:conc:"+res.sig, fmt.Sprintf("%d connections of one process exchanging messages at the same time\n%s", c.G, res.detail), c)
			break
		}
		total += res.delivered
		if res.compressed {
			ncomp++
		}
	}
	lines := lg.Take()
	if ok {
		if p := h.PanicLines(lines); len(p) > 0 {
			run.Violate("c12:conc:panic-recovered", "nbio recovered a panic:\n"+p[0], c)
			ok = false
		}
	}
	if ok {
		run.Count("conc_messages_compared", int64(total))
		run.Count("conc_connections_with_compression", int64(ncomp))
		run.Max("conc_max_concurrent_connections", int64(c.G))
		if total > 0 {
			run.Nontrivial(fmt.Sprintf("conc/%d", c.Index))
		}
	}
}
