package main

// Phase "conc": several writers and the poller's flush work on one connection
// at the same time, with an OnWrittenSize handler registered (a delay point
// inside the write and flush paths). The exact model of the other phases needs
// one writer; here only the clauses that hold for every interleaving are
// checked, on accessor snapshots taken under the connection mutex:
//
//   - the backlog counter equals the unsent bytes in queued buffers,
//   - the held bytes never exceed the bound,
//   - after the backlog has drained the counter is 0 and a write of exactly
//     the bound is accepted (the full budget is available again),
//   - the stream the peer received is the interleaving of whole calls
//     (CheckStream) - a byte that left the queue without reaching the peer
//     shows up here as well.

import (
	"fmt"
	"sync"
	"sync/atomic"
	"time"

	"github.com/lesismal/nbio"

	"verif/internal/h"
	"verif/internal/outb"
)

func genConc(r *h.Run, idx int) caseT {
	rng := r.Rand("c17-conc", idx)
	c := caseT{Index: idx, Seed: rng.Int63()}
	c.Cfg.Net = nets[idx%2]
	c.Cfg.Mode = modes[(idx/2)%3]
	c.Cfg.MaxWB = []int{65536, 200000, 1 << 20}[(idx/6)%3]
	c.Cfg.NPoller = 1
	c.Cfg.SndBuf = 8192
	c.Cfg.Written = true
	c.Cycles = r.N(3, 8)
	return c
}

func runConc(r *h.Run, c caseT) {
	r.Eval(1)
	env, err := outb.NewEnv(c.Cfg)
	if err != nil {
		r.Inconclusive(fmt.Sprintf("case %d: engine start: %v", c.Index, err))
		return
	}
	defer env.Stop()
	srv := make(chan *nbio.Conn, 4)
	env.OnOpen = func(cn *nbio.Conn) {
		_ = cn.SetWriteBuffer(c.Cfg.SndBuf)
		srv <- cn
	}
	peer, err := env.Dial()
	if err != nil {
		r.Inconclusive(fmt.Sprintf("case %d: dial: %v", c.Index, err))
		return
	}
	defer peer.Close()
	var cn *nbio.Conn
	select {
	case cn = <-srv:
	case <-time.After(10 * time.Second):
		r.Inconclusive(fmt.Sprintf("case %d: accept not observed", c.Index))
		return
	}
	max := c.Cfg.MaxWB
	sig := func(s string) string { return fmt.Sprintf("c17:%s:conc:%s", c.Cfg.Mode, s) }
	var failed int32
	fail := func(s, d string) {
		if atomic.CompareAndSwapInt32(&failed, 0, 1) {
			r.Violate(sig(s), d+fmt.Sprintf("\nconfig %s max=%d, OnWrittenSize handler registered, 3 writers", c.Cfg.Cell(), max), c)
		}
	}
	check := func(when string) nbio.VerifBacklogInfo {
		s := nbio.VerifBacklog(cn)
		if s.Closed {
			return s
		}
		if s.Left != s.BufBytes {
			fail("counter-drift", fmt.Sprintf("%s: backlog counter %d != %d unsent bytes in queued buffers (entries %d)", when, s.Left, s.BufBytes, s.Entries))
		}
		if s.BufBytes > max {
			fail("bound-exceeded", fmt.Sprintf("%s: %d accepted-but-unsent bytes are held, the configured maximum is %d", when, s.BufBytes, max))
		}
		r.Count("snapshots_checked", 1)
		return s
	}

	// the peer reads slowly, so that flush runs again and again on a short queue
	var stream []byte
	var smu sync.Mutex
	var gotN int64
	var fast int32
	readerDone := make(chan struct{})
	go func() {
		defer close(readerDone)
		buf := make([]byte, 16<<10)
		for {
			n, err := peer.Read(buf)
			if n > 0 {
				smu.Lock()
				stream = append(stream, buf[:n]...)
				smu.Unlock()
				atomic.AddInt64(&gotN, int64(n))
				atomic.AddInt64(&progress, int64(n))
			}
			if err != nil {
				return
			}
			if atomic.LoadInt32(&fast) == 0 {
				time.Sleep(100 * time.Microsecond)
			}
		}
	}()

	var mu sync.Mutex
	var calls []outb.Call
	var accepted int64
	overflow := false
	for cyc := 0; cyc < c.Cycles && atomic.LoadInt32(&failed) == 0 && !overflow; cyc++ {
		atomic.StoreInt32(&fast, 0)
		var wg sync.WaitGroup
		stop := int32(0)
		for wr := 0; wr < 3; wr++ {
			wg.Add(1)
			go func(wr int) {
				defer wg.Done()
				rng := r.Rand(fmt.Sprintf("c17-conc-w%d-%d", wr, cyc), c.Index)
				for k := 0; k < 400 && atomic.LoadInt32(&stop) == 0; k++ {
					// stay well below the bound: an overflow would end the case
					if s := nbio.VerifBacklog(cn); s.Closed || s.BufBytes > max/2 {
						if s.Closed {
							return
						}
						time.Sleep(200 * time.Microsecond)
						continue
					}
					n := 16 + rng.Intn(3000)
					if rng.Intn(6) == 0 {
						n = 16 + rng.Intn(12000)
					}
					if n > max/8 {
						n = max / 8
					}
					op := outb.Op{Kind: "write", Sizes: []int{n}}
					if rng.Intn(4) == 0 {
						op = outb.Op{Kind: "writev", Sizes: []int{n / 2, n - n/2}}
					}
					cl := outb.DoOp(cn, op, wr, cyc*1000+k)
					atomic.AddInt64(&progress, 1)
					mu.Lock()
					calls = append(calls, cl)
					if cl.Err == "" {
						accepted += int64(cl.N)
					}
					if cl.Err == nbio.ErrOverflow.Error() {
						overflow = true
					}
					mu.Unlock()
					if cl.Open {
						atomic.StoreInt32(&stop, 1)
						return
					}
				}
			}(wr)
		}
		monDone := make(chan struct{})
		go func() {
			defer close(monDone)
			for atomic.LoadInt32(&stop) == 0 {
				check("while three writers and the poller work on the connection")
				time.Sleep(150 * time.Microsecond)
			}
		}()
		wg.Wait()
		atomic.StoreInt32(&stop, 1)
		<-monDone
		if overflow || atomic.LoadInt32(&failed) != 0 {
			break
		}
		if cl, _ := cn.IsClosed(); cl {
			break
		}
		// drain: the peer reads at full speed until the queue is empty
		atomic.StoreInt32(&fast, 1)
		drained := false
		stable := 0
		var last int64 = -1
		for i := 0; i < 8000; i++ {
			s := nbio.VerifBacklog(cn)
			if s.Closed {
				break
			}
			if s.BufBytes == 0 && s.FileBytes == 0 && s.Entries == 0 {
				drained = true
				break
			}
			g := atomic.LoadInt64(&gotN)
			if g == last {
				stable++
			} else {
				stable = 0
			}
			last = g
			if stable > 600 {
				break
			}
			time.Sleep(5 * time.Millisecond)
		}
		if !drained {
			if cl, _ := cn.IsClosed(); !cl {
				r.Inconclusive(fmt.Sprintf("case %d: drain did not complete (C04 decides stalls)", c.Index))
			}
			return
		}
		s := check("after the backlog drained")
		if atomic.LoadInt32(&failed) != 0 {
			break
		}
		if s.Left != 0 {
			fail("counter-drift", fmt.Sprintf("after the backlog drained (no queue entry left) the backlog counter is %d", s.Left))
			break
		}
		// the full budget is available again
		if max <= 1<<20 {
			cl := outb.DoOp(cn, outb.Op{Kind: "write", Sizes: []int{max}}, 9, cyc)
			mu.Lock()
			calls = append(calls, cl)
			mu.Unlock()
			if cl.Err == nbio.ErrOverflow.Error() {
				fail("fitting-write-rejected", fmt.Sprintf("after the backlog drained a Write of exactly the bound (%d bytes) failed with the overflow error; counter before the call %d", max, s.Left))
				break
			}
			if cl.Err != "" {
				break
			}
			r.Count("full_budget_writes_accepted", 1)
		}
	}
	// final drain and stream check
	atomic.StoreInt32(&fast, 1)
	complete := false
	if cl, _ := cn.IsClosed(); !cl && atomic.LoadInt32(&failed) == 0 {
		stable := 0
		var last int64 = -1
		for i := 0; i < 8000; i++ {
			s := nbio.VerifBacklog(cn)
			if s.Closed {
				break
			}
			g := atomic.LoadInt64(&gotN)
			if s.BufBytes == 0 && s.FileBytes == 0 && s.Entries == 0 {
				if o, _ := outb.OutQ(cn.Hash()); o == 0 {
					if g == last {
						stable++
					} else {
						stable = 0
					}
					if stable >= 3 {
						complete = true
						break
					}
				}
			}
			last = g
			time.Sleep(5 * time.Millisecond)
		}
	}
	_ = cn.Close()
	select {
	case <-readerDone:
	case <-time.After(10 * time.Second):
		peer.Close()
		<-readerDone
	}
	if atomic.LoadInt32(&failed) != 0 {
		return
	}
	mu.Lock()
	cs := append([]outb.Call(nil), calls...)
	mu.Unlock()
	smu.Lock()
	st := stream
	smu.Unlock()
	if is := outb.CheckStream(cs, st, complete && !overflow); is != nil {
		fail("stream:"+is.Sig, is.Detail)
		return
	}
	if !complete {
		r.Count("cases_checked_as_prefix", 1)
	}
	r.Count("conc_calls", int64(len(cs)))
	r.Count("conc_written_reports", atomic.LoadInt64(&env.WrittenCalls))
	r.Count("bytes_delivered", int64(len(st)))
	r.Seen("conc_cells", fmt.Sprintf("%s/max=%d", c.Cfg.Cell(), max))
	if atomic.LoadInt64(&env.WrittenCalls) > 0 && len(cs) > 0 {
		r.Nontrivial(fmt.Sprintf("conc/%d", c.Index))
	}
}
