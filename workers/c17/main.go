// C17 - write-buffer bound. One connection, one writer (so the model is
// exact). Phase shim: the syscall shim gives the "kernel" room for exactly
// Budget bytes, so the harness knows the true backlog B = accepted - handed to
// the kernel and can place writes exactly at the bound. After every call the
// accessor snapshot (taken under the connection mutex) is checked against the
// model. Phase real: the same invariants with a really full socket.
package main

import (
	"bytes"
	"errors"
	"fmt"
	"io"
	"net"
	"os"
	"sync/atomic"
	"time"

	"github.com/lesismal/nbio"

	"verif/internal/h"
	"verif/internal/outb"
)

type caseT struct {
	Index  int      `json:"index"`
	Cfg    outb.Cfg `json:"cfg"`
	Cycles int      `json:"cycles"`
	Seed   int64    `json:"seed"`
	// Trace is filled for violations: the last steps
	Trace []string `json:"trace,omitempty"`
}

var nets = []string{"tcp", "unix"}
var modes = []string{"LT", "ET", "ONESHOT"}
var bounds = []int{1, 100, 4096, 65536, 1 << 20, 70000, 200000}

var progress int64

func genCase(r *h.Run, phase string, idx int) caseT {
	rng := r.Rand("c17-"+phase, idx)
	c := caseT{Index: idx, Seed: rng.Int63()}
	c.Cfg.Net = nets[idx%2]
	c.Cfg.Mode = modes[(idx/2)%3]
	c.Cfg.MaxWB = bounds[(idx/6)%len(bounds)]
	c.Cfg.NPoller = 1
	c.Cycles = r.N(40, 300)
	if phase == "real" {
		c.Cycles = r.N(6, 30)
	}
	return c
}

type world struct {
	r      *h.Run
	c      caseT
	env    *outb.Env
	cn     *nbio.Conn
	fd     int
	pol    *outb.Policy
	peer   net.Conn
	gotN   int64
	trace  []string
	failed bool
	// model
	accepted int64 // bytes of calls that returned nil
	seq      int
	calls    []outb.Call
	closed   bool
}

func (w *world) note(f string, a ...interface{}) {
	s := fmt.Sprintf(f, a...)
	if len(w.trace) >= 30 {
		copy(w.trace, w.trace[1:])
		w.trace = w.trace[:29]
	}
	w.trace = append(w.trace, s)
}

func (w *world) fail(sig, detail string) {
	if w.failed {
		return
	}
	w.failed = true
	c := w.c
	c.Trace = append([]string(nil), w.trace...)
	w.r.Violate(fmt.Sprintf("c17:%s:%s", w.c.Cfg.Mode, sig), detail+fmt.Sprintf("\nconfig %s max=%d", w.c.Cfg.Cell(), w.c.Cfg.MaxWB), c)
}

// snapshot returns the accessor state together with a kernel-side byte count
// that did not move while the snapshot was taken.
func (w *world) snapshot() (nbio.VerifBacklogInfo, int64, bool) {
	for i := 0; i < 200; i++ {
		var k1 int64
		if w.pol != nil {
			k1 = atomic.LoadInt64(&w.pol.KernelIn)
		}
		s := nbio.VerifBacklog(w.cn)
		var k2 int64
		if w.pol != nil {
			k2 = atomic.LoadInt64(&w.pol.KernelIn)
		}
		if k1 == k2 {
			return s, k1, true
		}
	}
	return nbio.VerifBacklogInfo{}, 0, false
}

// invariants checks the accounting clauses on a consistent snapshot.
func (w *world) invariants(when string) (nbio.VerifBacklogInfo, bool) {
	s, k, ok := w.snapshot()
	if !ok {
		return s, false
	}
	if s.Closed {
		return s, true
	}
	max := w.c.Cfg.MaxWB
	if s.Left != s.BufBytes {
		w.fail("counter-drift", fmt.Sprintf("%s: backlog counter %d != %d unsent bytes in queued buffers (entries %d)", when, s.Left, s.BufBytes, s.Entries))
		return s, true
	}
	if max > 0 && s.BufBytes > max {
		w.fail("bound-exceeded", fmt.Sprintf("%s: %d accepted-but-unsent bytes are held, the configured maximum is %d", when, s.BufBytes, max))
		return s, true
	}
	if w.pol != nil {
		model := w.accepted - k
		if model != int64(s.BufBytes)+s.FileBytes {
			w.fail("model-mismatch", fmt.Sprintf("%s: accepted %d - handed to the kernel %d = %d, but the queue holds %d buffer + %d file bytes", when, w.accepted, k, model, s.BufBytes, s.FileBytes))
			return s, true
		}
	}
	w.r.Count("snapshots_checked", 1)
	return s, true
}

// do performs one op and checks the acceptance clause. exact says the backlog
// cannot change concurrently (kernel budget is 0), so the decision is exact.
func (w *world) do(op outb.Op, exact bool) {
	before, ok := w.invariants("before call")
	if !ok || w.failed {
		return
	}
	n := op.Total()
	cl := outb.DoOp(w.cn, op, 0, w.seq)
	w.seq++
	atomic.AddInt64(&progress, 1)
	w.calls = append(w.calls, cl)
	max := w.c.Cfg.MaxWB
	w.note("%s(%v)=%d,%q backlog-before=%d exact=%v", op.Kind, op.Sizes, cl.N, cl.Err, before.BufBytes, exact)
	isOverflow := cl.Err == nbio.ErrOverflow.Error()
	countsAgainstBound := op.Kind != "sendfile"
	if cl.Err == "" {
		w.accepted += int64(n)
	}
	switch {
	case isOverflow:
		w.r.Count("overflow_rejections", 1)
		if !countsAgainstBound {
			w.fail("overflow-from-sendfile", fmt.Sprintf("Sendfile of %d returned the overflow error", n))
			return
		}
		if before.BufBytes+n <= max {
			w.fail("fitting-write-rejected", fmt.Sprintf("%s of %d bytes with at most %d bytes of backlog (max %d) failed with the overflow error", op.Kind, n, before.BufBytes, max))
			return
		}
		// overflow is fatal for the connection
		w.closed = true
		if cl2, _ := w.cn.IsClosed(); !cl2 {
			w.fail("overflow-without-close", fmt.Sprintf("%s of %d bytes failed with the overflow error but the connection is still open", op.Kind, n))
			return
		}
		for i := 0; i < 400 && len(w.env.Closes(w.cn)) == 0; i++ {
			time.Sleep(5 * time.Millisecond)
		}
		ce := w.env.Closes(w.cn)
		if len(ce) == 1 && !errors.Is(ce[0], nbio.ErrOverflow) {
			w.fail("overflow-close-error", fmt.Sprintf("connection closed after overflow reports %v", ce[0]))
		}
	case cl.Err == "":
		if max > 0 && countsAgainstBound && exact && before.BufBytes+n > max {
			w.fail("exceeding-write-accepted", fmt.Sprintf("%s of %d bytes accepted with %d bytes of backlog: %d > max %d", op.Kind, n, before.BufBytes, before.BufBytes+n, max))
			return
		}
		if max > 0 && countsAgainstBound && before.BufBytes+n <= max {
			w.r.Count("fitting_writes_accepted", 1)
		}
		w.invariants("after accepted call")
	default:
		if cl.Open {
			w.closed = true
		}
		// retryable errors accept cl.N bytes
		if !cl.Open && cl.N > 0 {
			w.accepted += int64(cl.N)
		}
		if !cl.Open && countsAgainstBound && (max <= 0 || before.BufBytes+n <= max) {
			// "a write that fits is always accepted": a transient refusal of the kernel is what the
			// write cache is for; the caller has no event to wait for
			w.fail("fitting-write-not-accepted", fmt.Sprintf("%s of %d bytes with at most %d bytes of backlog (max %d) returned %d, %q: the write fits and was not accepted", op.Kind, n, before.BufBytes, max, cl.N, cl.Err))
			return
		}
	}
}

// stallInfo describes the state in which a drain made no progress.
func (w *world) stallInfo() string {
	s := nbio.VerifBacklog(w.cn)
	out := fmt.Sprintf("%s queue: %d buffer + %d file bytes in %d entries, write interest armed=%v, closed=%v; peer got %d", w.c.Cfg.Cell(), s.BufBytes, s.FileBytes, s.Entries, s.WriteArmed, s.Closed, atomic.LoadInt64(&w.gotN))
	if w.peer != nil {
		out += "; peer " + outb.FdDiag(w.peer)
	}
	if p := w.pol; p != nil {
		out += fmt.Sprintf("; shim: calls=%d eagain=%d short=%d edges=%d budget=%d kernel_in=%d", atomic.LoadInt64(&p.Calls), atomic.LoadInt64(&p.EAGAIN), atomic.LoadInt64(&p.Short), atomic.LoadInt64(&p.Edges), atomic.LoadInt64(&p.Budget), atomic.LoadInt64(&p.KernelIn))
	}
	return out
}

func (w *world) drainAll() bool {
	// give the kernel unlimited room and wait until the queue is empty
	if w.pol != nil {
		atomic.StoreInt64(&w.pol.Budget, 1<<40)
		w.pol.Kick(w.fd)
	}
	stable := 0
	var last int64 = -1
	for i := 0; i < 4000; i++ {
		s := nbio.VerifBacklog(w.cn)
		if s.Closed {
			return false
		}
		if s.BufBytes == 0 && s.FileBytes == 0 {
			if w.pol != nil {
				atomic.StoreInt64(&w.pol.Budget, 0)
			}
			return true
		}
		g := atomic.LoadInt64(&w.gotN)
		if g == last {
			stable++
		} else {
			stable = 0
		}
		last = g
		if stable > 600 {
			return false
		}
		time.Sleep(5 * time.Millisecond)
	}
	return false
}

func runCase(r *h.Run, c caseT) {
	r.Eval(1)
	env, err := outb.NewEnv(c.Cfg)
	if err != nil {
		r.Inconclusive(fmt.Sprintf("case %d: engine start: %v", c.Index, err))
		return
	}
	defer env.Stop()
	w := &world{r: r, c: c, env: env}
	shim := r.Phase == "shim"
	srv := make(chan *nbio.Conn, 4)
	env.OnOpen = func(cn *nbio.Conn) {
		if shim {
			w.pol = outb.NewPolicy(cn, "budget", c.Cfg.Mode, c.Seed)
			outb.SetPolicy(cn.Hash(), w.pol)
		}
		srv <- cn
	}
	peer, err := env.Dial()
	if err != nil {
		r.Inconclusive(fmt.Sprintf("case %d: dial: %v", c.Index, err))
		return
	}
	defer peer.Close()
	select {
	case w.cn = <-srv:
	case <-time.After(10 * time.Second):
		r.Inconclusive(fmt.Sprintf("case %d: accept not observed", c.Index))
		return
	}
	w.fd = w.cn.Hash()
	defer outb.DropPolicy(w.fd, w.cn)
	w.peer = peer
	// the received bytes are kept in chunks and joined once the reader has ended: growing one
	// slice of hundreds of MB (allocate + copy, in all shards at the same moment) stalled the
	// reader for seconds on a loaded machine and looked like a drain that does not move
	var stream []byte
	var chunks [][]byte
	pause := int32(0)
	if !shim {
		pause = 1
	}
	readerDone := make(chan struct{})
	var readerErr error // why the peer's reader ended (read after readerDone is closed)
	go func() {
		defer close(readerDone)
		buf := make([]byte, 64<<10)
		for {
			for atomic.LoadInt32(&pause) == 1 {
				time.Sleep(200 * time.Microsecond)
			}
			n, err := peer.Read(buf)
			if n > 0 {
				chunks = append(chunks, append([]byte(nil), buf[:n]...))
				atomic.AddInt64(&w.gotN, int64(n))
				atomic.AddInt64(&progress, int64(n))
			}
			if err != nil {
				readerErr = err
				return
			}
		}
	}()

	rng := r.Rand("c17-run", c.Index)
	max := c.Cfg.MaxWB
	mkOp := func(n int) outb.Op {
		if n <= 0 {
			n = 1
		}
		switch rng.Intn(3) {
		case 0:
			k := 1 + rng.Intn(4)
			if k > n {
				k = n
			}
			ss := make([]int, k)
			left := n
			for i := 0; i < k-1; i++ {
				ss[i] = rng.Intn(left - (k - 1 - i) + 1)
				left -= ss[i]
			}
			ss[k-1] = left
			return outb.Op{Kind: "writev", Sizes: ss}
		default:
			return outb.Op{Kind: "write", Sizes: []int{n}}
		}
	}
	overflowSeen, fullDrains := 0, 0
	for cyc := 0; cyc < c.Cycles && !w.failed && !w.closed; cyc++ {
		if shim {
			// kernel has no room: everything accepted is queued, the model is exact
			atomic.StoreInt64(&w.pol.Budget, 0)
			// optional: the first write of the cycle finds some room (partial direct write)
			if rng.Intn(3) == 0 {
				atomic.StoreInt64(&w.pol.Budget, int64(1+rng.Intn(max+1)))
			}
			steps := 1 + rng.Intn(6)
			for i := 0; i < steps && !w.failed && !w.closed; i++ {
				s, ok := w.invariants("cycle")
				if !ok {
					break
				}
				room := max - s.BufBytes
				exact := atomic.LoadInt64(&w.pol.Budget) <= 0
				var n int
				last := cyc == c.Cycles-1 && i == steps-1
				switch x := rng.Intn(10); {
				case x < 4 && room > 0:
					n = 1 + rng.Intn(room) // fits
				case x < 6 && room > 0:
					n = room // exactly to the bound
				case x == 6 && rng.Intn(2) == 0:
					// queue a file range behind/among buffers: not counted against the bound
					w.do(outb.Op{Kind: "sendfile", Sizes: []int{1 + rng.Intn(50000)}}, exact)
					continue
				case last:
					n = room + 1 // one byte too many: must overflow and close
				default:
					if room > 0 {
						n = 1 + rng.Intn(room)
					} else {
						// full: partially drain instead
						atomic.StoreInt64(&w.pol.Budget, int64(1+rng.Intn(max)))
						w.pol.Kick(w.fd)
						time.Sleep(time.Millisecond)
						continue
					}
				}
				if n > room && !exact {
					continue // an over-the-bound write is only decidable with an exact model
				}
				if n > 4<<20 {
					n = 4 << 20
				}
				w.do(mkOp(n), exact)
				if n > room {
					overflowSeen++
				}
			}
			if w.failed || w.closed {
				break
			}
			if rng.Intn(2) == 0 {
				// partial drain: room for k bytes appears
				s := nbio.VerifBacklog(w.cn)
				if q := int64(s.BufBytes) + s.FileBytes; q > 0 {
					atomic.StoreInt64(&w.pol.Budget, 1+rng.Int63n(q))
					w.pol.Kick(w.fd)
					for i := 0; i < 2000 && atomic.LoadInt64(&w.pol.Budget) > 0; i++ {
						time.Sleep(500 * time.Microsecond)
					}
					atomic.StoreInt64(&w.pol.Budget, 0)
					w.invariants("after partial drain")
				}
			} else {
				if !w.drainAll() {
					if cl, _ := w.cn.IsClosed(); !cl {
						r.Inconclusive(fmt.Sprintf("case %d: drain did not complete (C04 decides stalls): %s", c.Index, w.stallInfo()))
						if os.Getenv("C17_STACKS") != "" {
							fmt.Printf("=== case %d stacks at the stall\n%s\n", c.Index, h.Stacks())
						}
					}
					break
				}
				fullDrains++
				w.invariants("after full drain")
				// the full budget is available again
				if max <= 4<<20 && !w.failed {
					w.do(mkOp(max), true)
					if len(w.calls) > 0 && w.calls[len(w.calls)-1].Err == nbio.ErrOverflow.Error() && !w.failed {
						// (fail() has been raised by do() as fitting-write-rejected)
					}
					if !w.closed && !w.failed {
						if !w.drainAll() {
							break
						}
					}
				}
			}
		} else {
			// real kernel: the peer is paused, fill until the bound is reached
			atomic.StoreInt32(&pause, 1)
			for i := 0; i < 400 && !w.failed && !w.closed; i++ {
				s, ok := w.invariants("fill")
				if !ok {
					break
				}
				room := max - s.BufBytes
				n := 1 + rng.Intn(70000)
				if n > max {
					n = 1 + rng.Intn(max) // a single write above the bound is refused up front
				}
				if s.BufBytes > 0 && rng.Intn(4) == 0 && room > 0 {
					n = room
				}
				last := cyc == c.Cycles-1
				if s.BufBytes > 0 && n > room && !last {
					// the backlog can only shrink concurrently, so a fitting write stays fitting
					if room <= 0 {
						break
					}
					n = 1 + rng.Intn(room)
				}
				// with the peer paused and a non-empty backlog nothing drains: exact
				w.do(mkOp(n), s.BufBytes > 0)
				if s.BufBytes > 0 && n > room {
					overflowSeen++
				}
			}
			if w.failed || w.closed {
				break
			}
			atomic.StoreInt32(&pause, 0)
			if !w.drainAll() {
				if cl, _ := w.cn.IsClosed(); !cl {
					r.Inconclusive(fmt.Sprintf("case %d: drain did not complete (C04 decides stalls): %s", c.Index, w.stallInfo()))
				}
				break
			}
			fullDrains++
			w.invariants("after full drain")
		}
	}
	atomic.StoreInt32(&pause, 0)
	if w.pol != nil {
		atomic.StoreInt64(&w.pol.Budget, 1<<40)
		w.pol.Kick(w.fd)
	}
	finalDrained := true
	if !w.closed && !w.failed {
		finalDrained = w.drainAll()
	}
	_ = w.cn.Close()
	readerForced, readerShort := false, false
	forcedInfo := ""
	select {
	case <-readerDone:
	case <-time.After(10 * time.Second):
		readerForced = true
		cl, _ := w.cn.IsClosed()
		forcedInfo = fmt.Sprintf("10 s after Close returned the peer's reader had not seen the end of the stream; received so far %d; nbio IsClosed=%v; kernel:%s; peer %s\n%s", atomic.LoadInt64(&w.gotN), cl, outb.TCPStates(peer), outb.FdDiag(peer), h.Stacks())
		peer.Close()
		<-readerDone
	}
	atomic.AddInt64(&progress, 1)
	stream = bytes.Join(chunks, nil)
	chunks = nil
	atomic.AddInt64(&progress, 1)
	if w.failed {
		return
	}
	if finalDrained && !w.closed {
		// nbio's responsibility ends at the syscall boundary, which the shim observes exactly: when
		// every accepted byte was handed to the kernel but the peer's reader ended before it had
		// them all, the loss is on the harness side of that boundary (reader ended by the harness
		// or by an error of its own) and the stream can only be checked as a prefix
		short := false
		if w.pol != nil {
			k := atomic.LoadInt64(&w.pol.KernelIn)
			short = k >= w.accepted && int64(len(stream)) < k
		}
		if readerForced || (readerErr != nil && readerErr != io.EOF) || short {
			finalDrained = false
			readerShort = true
			r.Count("reader_ended_before_kernel_bytes_arrived", 1)
			r.Inconclusive(fmt.Sprintf("case %d: the peer's reader ended (%v, forced=%v) with %d bytes received, %d accepted; stream checked as a prefix", c.Index, readerErr, readerForced, len(stream), w.accepted))
			if forcedInfo != "" {
				fmt.Printf("=== case %d: %s\n", c.Index, forcedInfo)
			}
		}
	}
	// the stream itself must still be intact (C01 oracle, prefix when overflow closed it)
	if !finalDrained && !w.closed && !readerShort {
		// the queue was not empty when the harness closed the connection: the stream is a prefix
		// at best, and whether the drain stalled is C04's question
		r.Inconclusive(fmt.Sprintf("case %d: final drain did not complete (C04 decides stalls); stream checked as a prefix: %s", c.Index, w.stallInfo()))
	}
	if is := outb.CheckStream(w.calls, stream, !w.closed && finalDrained); is != nil {
		c2 := c
		c2.Trace = w.trace
		r.Violate(fmt.Sprintf("c17:%s:stream:%s", c.Cfg.Mode, is.Sig), is.Detail, c2)
		return
	}
	r.Seen("cells", fmt.Sprintf("%s/max=%d", c.Cfg.Cell(), max))
	r.Count("calls", int64(len(w.calls)))
	r.Count("full_drains", int64(fullDrains))
	if w.pol != nil {
		r.Count("shim_calls", w.pol.Calls)
		r.Count("shim_short_transfers", w.pol.Short)
		r.Count("shim_eagain", w.pol.EAGAIN)
	}
	if fullDrains > 0 && (overflowSeen > 0 || len(w.calls) > 10) {
		r.Nontrivial(fmt.Sprint(c.Index))
	}
}

func guarded(r *h.Run, c caseT) {
	v := h.Guard(5*time.Minute, func() int64 { return atomic.LoadInt64(&progress) }, func() {
		if r.Phase == "conc" {
			runConc(r, c)
		} else {
			runCase(r, c)
		}
	})
	switch v.Kind {
	case "":
		return
	case "deadlock":
		r.Violate(fmt.Sprintf("c17:%s:deadlock-no-progress", c.Cfg.Mode), v.Detail, c)
	default:
		// a spinning poller while the shim refuses everything is expected in LT/ONESHOT
		r.Inconclusive(fmt.Sprintf("case %d: %s: %s", c.Index, v.Kind, firstLine(v.Detail)))
	}
	outb.Cleanup()
	r.Finish()
	os.Exit(0)
}

func firstLine(s string) string {
	for i := 0; i < len(s); i++ {
		if s[i] == '\n' {
			return s[:i]
		}
	}
	return s
}

func main() {
	r := h.Start("C17")
	defer r.Finish()
	defer outb.Cleanup()
	if r.Phase == "shim" {
		outb.InstallShim()
	}
	if r.Replay != "" {
		var c caseT
		if err := r.ReplayCase(&c); err != nil {
			fmt.Println("replay:", err)
			return
		}
		c.Trace = nil
		guarded(r, c)
		return
	}
	n := r.N(168, 1680)
	if r.Phase == "real" {
		n = r.N(84, 840)
	}
	if r.Phase == "conc" {
		n = r.N(72, 720)
	}
	for i := 0; i < n; i++ {
		if !r.Mine(i) {
			continue
		}
		c := genCase(r, r.Phase, i)
		if r.Phase == "conc" {
			c = genConc(r, i)
		}
		r.Begin(c)
		guarded(r, c)
		if i < 2 {
			r.Sample(c)
		}
	}
	if r.Phase == "shim" && outb.ShimReached == 0 {
		r.Inconclusive("syscall shim was never reached: hook not reached")
	}
}
