// C05 - per-connection job serialization (Conn.Execute / Conn.MustExecute).
//
// History monitor: every submission and every job run is stamped with one
// atomic logical clock; an "inside" counter per connection is incremented by
// every job. The oracle runs on the final history (decided at quiescence, see
// settle) and checks exactly-once, mutual exclusion, real-time FIFO (sweep,
// cross-checked with porcupine on small histories) and the closed-connection
// clauses. Seeded delays are installed at the hand-over points
// execute.afterAppend / execute.afterJob / close.beforeTeardown.
//
// Schedules are not reproducible: a replay re-runs the recorded case
// configuration (same submitter programs, same delays policy) and may or may
// not hit the same interleaving; the offending slice of the history is stored
// in the violation detail.
package main

import (
	"flag"
	"fmt"
	"net"
	"runtime"
	"sort"
	"strings"
	"sync"
	"sync/atomic"
	"time"

	"github.com/lesismal/nbio"
	"github.com/lesismal/nbio/logging"
	"github.com/lesismal/nbio/taskpool"

	"verif/internal/h"
	"verif/internal/hist"
)

// ---------------------------------------------------------------- case

type caseT struct {
	Index      int    `json:"index"`
	Executor   string `json:"executor"` // inline (nbio's default) | goroutine | taskpool
	PoolN      int    `json:"pool_n,omitempty"`
	PoolQ      int    `json:"pool_q,omitempty"`
	Conns      int    `json:"conns"`
	Submitters int    `json:"submitters"`
	Jobs       int    `json:"jobs_per_submitter"`
	JobDur     string `json:"job_duration"` // zero | gosched | sleep | mixed
	Pace       string `json:"pace"`         // none | gosched | sleep | mixed
	HookMode   string `json:"hook_delays"`  // none | gosched | sleep | mixed
	HookPm     int    `json:"hook_permille"`
	Procs      int    `json:"gomaxprocs"`
	Close      string `json:"close"` // none | race | before
	MustPct    int    `json:"must_pct"`
	PanicPct   int    `json:"panic_pct"`
	NestedPct  int    `json:"nested_pct"`
	Note       string `json:"note,omitempty"`
}

const replayNote = "schedules are not reproducible: replay re-runs this configuration (same seed-derived submitter programs and delay policy); the interleaving may differ"

func pick(rng interface{ Intn(int) int }, xs ...string) string { return xs[rng.Intn(len(xs))] }

func genCase(r *h.Run, i int) caseT {
	rng := r.Rand("c05/case", i)
	c := caseT{Index: i, Note: replayNote}
	c.Executor = pick(rng, "inline", "goroutine", "taskpool")
	if c.Executor == "taskpool" {
		c.PoolN = []int{2, 3, 4, 8, 16}[rng.Intn(5)]
		c.PoolQ = []int{0, 1, 16, 1024}[rng.Intn(4)]
	}
	c.Conns = 1 + rng.Intn(4)
	if rng.Intn(3) == 0 {
		c.Conns = 1
	}
	c.Submitters = []int{1, 2, 2, 3, 4, 6, 8, 12, 16}[rng.Intn(9)]
	if i%5 == 0 {
		// small history: every connection stays within the porcupine cross-check limit
		c.Conns = 1
		c.Submitters = 1 + rng.Intn(6)
		c.Jobs = 2 + rng.Intn(4)
	} else {
		total := 100 + rng.Intn(500)
		c.Jobs = total/c.Submitters + 1
	}
	c.JobDur = pick(rng, "zero", "zero", "gosched", "sleep", "mixed")
	c.Pace = pick(rng, "none", "gosched", "sleep", "mixed", "mixed")
	c.HookMode = pick(rng, "none", "gosched", "sleep", "mixed", "mixed")
	c.HookPm = []int{50, 200, 500, 1000}[rng.Intn(4)]
	c.Procs = []int{1, 2, 16}[rng.Intn(3)]
	switch rng.Intn(5) {
	case 0, 1:
		c.Close = "race"
	case 2:
		if rng.Intn(3) == 0 {
			c.Close = "before"
		} else {
			c.Close = "race"
		}
	default:
		c.Close = "none"
	}
	c.MustPct = []int{0, 0, 10, 30}[rng.Intn(4)]
	c.PanicPct = []int{0, 0, 2, 10}[rng.Intn(4)]
	c.NestedPct = []int{0, 0, 5, 20}[rng.Intn(4)]
	return c
}

// ---------------------------------------------------------------- run-time state

var clock atomic.Int64

func tick() int64 { return clock.Add(1) }

type jobRec struct {
	id     int
	conn   int
	sub    int // submitter index; -1 = sentinel from the main goroutine; -2 = submitted from inside a job
	must   bool
	panics bool
	nested bool // this job submits a child while it runs
	dur    int

	call, ret atomic.Int64
	issued    atomic.Bool
	accepted  atomic.Bool
	nStart    atomic.Int32
	nEnd      atomic.Int32
	start     [2]atomic.Int64
	end       [2]atomic.Int64
}

type connState struct {
	idx      int
	c        *nbio.Conn
	client   net.Conn
	inside   atomic.Int32
	inflight atomic.Int32
	appended atomic.Int64
	started  atomic.Int64
	ended    atomic.Int64
	// witness is written by every job WITHOUT synchronisation of its own: jobs
	// of one connection are serialized and ordered by the connection mutex, so
	// on correct code this is race-free; two drainers would make the race
	// detector (race phase) report inside (*Conn).execute.
	witness int64

	closeCall, closeRet atomic.Int64
	onClose             atomic.Int64
	// closeJobRan: tick at which the close handling ran - a job the close callback queues with
	// MustExecute, as nbhttp does with its own close handling
	closeJobRan   atomic.Int64
	harnessCloses bool
}

type env struct {
	c     caseT
	conns []*connState
	jobs  []jobRec
	// id allocation: [0, nSub) submitters, then nested children, then sentinels
	nSub       int
	nestedNext atomic.Int64
	nestedEnd  int
	sentNext   int

	inlineKind bool
	hookSeed   uint64
	hookCtr    atomic.Uint64
	hookMode   int
	hookPm     uint64

	issued      atomic.Int64
	accepted    atomic.Int64
	endedTotal  atomic.Int64
	execPending atomic.Int64
	gens        atomic.Int64
	maxInside   atomic.Int32
	maxQueue    atomic.Int64
	handover    atomic.Int64 // drainer about to find the queue empty while another submit is in flight
	appendBusy  atomic.Int64 // append observed while a job of that connection was running
	sigs        [18][7]atomic.Int32
	overlapMu   sync.Mutex
	overlapNote []string
	panicsRun   atomic.Int64
	nestedDone  atomic.Int64
	abandoned   atomic.Bool
}

var curEnv atomic.Pointer[env]

func splitmix(x uint64) uint64 {
	x += 0x9E3779B97F4A7C15
	x = (x ^ (x >> 30)) * 0xBF58476D1CE4E5B9
	x = (x ^ (x >> 27)) * 0x94D049BB133111EB
	return x ^ (x >> 31)
}

func modeNum(s string) int {
	switch s {
	case "gosched":
		return 1
	case "sleep":
		return 2
	case "mixed":
		return 3
	}
	return 0
}

func doDelay(mode int, x uint64) {
	if mode == 3 {
		mode = 1 + int((x>>20)%3) // gosched | sleep | spin
		if mode == 3 {
			n := 50 + int((x>>24)%2000)
			s := 0
			for i := 0; i < n; i++ {
				s += i
			}
			_ = s
			return
		}
	}
	switch mode {
	case 1:
		for k := 1 + int((x>>10)%8); k > 0; k-- {
			runtime.Gosched()
		}
	case 2:
		time.Sleep(time.Duration(1+(x>>10)%40) * time.Microsecond)
	}
}

func (e *env) delay() {
	if e.hookMode == 0 {
		return
	}
	x := splitmix(e.hookSeed + e.hookCtr.Add(1))
	if x%1000 >= e.hookPm {
		return
	}
	doDelay(e.hookMode, x)
}

func qBucket(q int64) int {
	switch {
	case q <= 0:
		return 0
	case q <= 3:
		return int(q)
	case q <= 7:
		return 4
	case q <= 15:
		return 5
	}
	return 6
}

var qBucketName = []string{"0", "1", "2", "3", "4-7", "8-15", "16+"}

func (e *env) find(c *nbio.Conn) *connState {
	for _, cs := range e.conns {
		if cs.c == c {
			return cs
		}
	}
	return nil
}

// hook is installed once per process; it consults the current case.
func hook(name string, c *nbio.Conn) {
	e := curEnv.Load()
	if e == nil {
		return
	}
	cs := e.find(c)
	if cs == nil {
		return
	}
	switch name {
	case "execute.afterAppend":
		cs.appended.Add(1)
		q := int64(nbio.VerifJobs(c)) // taken under the connection mutex; the hook runs outside it
		for {
			m := e.maxQueue.Load()
			if q <= m || e.maxQueue.CompareAndSwap(m, q) {
				break
			}
		}
		if cs.inside.Load() > 0 {
			e.appendBusy.Add(1)
		}
	case "execute.afterJob":
		remaining := cs.appended.Load() - cs.started.Load()
		others := int(cs.inflight.Load())
		if e.inlineKind {
			others-- // the drainer itself is a submitter whose Execute has not returned
		}
		if others < 0 {
			others = 0
		}
		if others > 17 {
			others = 17
		}
		e.sigs[others][qBucket(remaining)].Add(1)
		if remaining <= 0 && others >= 1 {
			e.handover.Add(1)
		}
	case "close.beforeTeardown":
	default:
		return
	}
	e.delay()
}

// ---------------------------------------------------------------- logger

type logger struct {
	panics atomic.Int64
	mu     sync.Mutex
	other  []string
}

func (l *logger) Debug(string, ...interface{}) {}
func (l *logger) Info(string, ...interface{})  {}
func (l *logger) Warn(string, ...interface{})  {}
func (l *logger) Error(format string, v ...interface{}) {
	if strings.HasPrefix(format, "conn execute failed") {
		l.panics.Add(1)
		return
	}
	l.mu.Lock()
	if len(l.other) < 8 {
		s := fmt.Sprintf(format, v...)
		if len(s) > 600 {
			s = s[:600]
		}
		l.other = append(l.other, s)
	}
	l.mu.Unlock()
}

var lg = &logger{}

// ---------------------------------------------------------------- job + submit

func (e *env) jobFunc(rec *jobRec) func() {
	cs := e.conns[rec.conn]
	return func() {
		n := cs.inside.Add(1)
		t := tick()
		if k := rec.nStart.Add(1); k <= 2 {
			rec.start[k-1].Store(t)
		}
		cs.started.Add(1)
		if n > 1 {
			for {
				m := e.maxInside.Load()
				if n <= m || e.maxInside.CompareAndSwap(m, n) {
					break
				}
			}
			e.overlapMu.Lock()
			if len(e.overlapNote) < 4 {
				e.overlapNote = append(e.overlapNote, fmt.Sprintf("job %d started at tick %d on conn %d while %d other job(s) of that connection were inside", rec.id, t, rec.conn, n-1))
			}
			e.overlapMu.Unlock()
		}
		cs.witness++
		defer func() {
			t2 := tick()
			if k := rec.nEnd.Add(1); k <= 2 {
				rec.end[k-1].Store(t2)
			}
			cs.ended.Add(1)
			e.endedTotal.Add(1)
			cs.inside.Add(-1)
		}()
		switch rec.dur {
		case 1:
			runtime.Gosched()
		case 2:
			time.Sleep(time.Duration(1+rec.id%20) * time.Microsecond)
		case 3:
			s := 0
			for i := 0; i < 300+rec.id%1500; i++ {
				s += i
			}
			_ = s
		}
		if rec.nested {
			// a job may submit to its own connection; it can never become the
			// head (the list is non-empty while a job runs)
			id := int(e.nestedNext.Add(1)) - 1
			if id < e.nestedEnd {
				ch := &e.jobs[id]
				ch.id, ch.conn, ch.sub, ch.dur = id, rec.conn, -2, 0
				e.submit(ch)
				e.nestedDone.Add(1)
			}
		}
		if rec.panics {
			e.panicsRun.Add(1)
			panic("c05: deliberate job panic")
		}
	}
}

func (e *env) submit(rec *jobRec) {
	cs := e.conns[rec.conn]
	fn := e.jobFunc(rec)
	rec.issued.Store(true)
	cs.inflight.Add(1)
	var ok bool
	if rec.must {
		rec.call.Store(tick())
		cs.c.MustExecute(fn)
		rec.ret.Store(tick())
		ok = true
	} else {
		rec.call.Store(tick())
		ok = cs.c.Execute(fn)
		rec.ret.Store(tick())
	}
	cs.inflight.Add(-1)
	if ok {
		rec.accepted.Store(true)
		e.accepted.Add(1)
	}
	e.issued.Add(1)
}

// ---------------------------------------------------------------- the case

const watchdog = 45 * time.Second

// watchdogsFired counts cases abandoned by a watchdog in this process; after a
// few of them the remaining cases are skipped (reported as inconclusive) so
// that what was found so far is still written out.
var watchdogsFired atomic.Int32

func waitTimeout(wg *sync.WaitGroup, d time.Duration) bool {
	ch := make(chan struct{})
	go func() { wg.Wait(); close(ch) }()
	select {
	case <-ch:
		return true
	case <-time.After(d):
		return false
	}
}

func runCase(r *h.Run, c caseT) {
	r.Begin(c)
	r.Eval(1)
	if c.Procs > 0 {
		runtime.GOMAXPROCS(c.Procs)
	}
	defer runtime.GOMAXPROCS(runtime.NumCPU())

	e := &env{c: c}
	e.inlineKind = c.Executor == "inline"
	e.hookSeed = uint64(r.Rand("c05/hook", c.Index).Int63())
	e.hookMode = modeNum(c.HookMode)
	e.hookPm = uint64(c.HookPm)
	e.nSub = c.Submitters * c.Jobs
	e.nestedNext.Store(int64(e.nSub))
	e.nestedEnd = 2 * e.nSub
	e.sentNext = e.nestedEnd
	e.jobs = make([]jobRec, e.nestedEnd+3*c.Conns+4)
	panicsLoggedBefore := lg.panics.Load()

	// One poller, and every connection is made to deliver one byte before the
	// case starts: that proves the poller goroutine is inside its loop. (On
	// the pinned tree a Stop that overtakes a poller goroutine which has not
	// yet executed its `p.shutdown = false` prologue hangs forever - a C18
	// matter that must not leak into C05 runs.)
	g := nbio.NewEngine(nbio.Config{Name: "c05", Network: "tcp", Addrs: []string{"127.0.0.1:0"}, NPoller: 1})
	opened := make(chan *nbio.Conn, 16)
	gotData := make(chan *nbio.Conn, 16)
	g.OnOpen(func(nc *nbio.Conn) { opened <- nc })
	g.OnData(func(nc *nbio.Conn, data []byte) {
		select {
		case gotData <- nc:
		default:
		}
	})
	g.OnClose(func(nc *nbio.Conn, err error) {
		if ee := curEnv.Load(); ee != nil {
			if cs := ee.find(nc); cs != nil {
				cs.onClose.Store(tick())
				// the close callback runs after the closed flag was set: whatever the queue holds
				// behind this job was appended to a closed connection
				nc.MustExecute(func() { cs.closeJobRan.CompareAndSwap(0, tick()) })
			}
		}
	})
	var pool *taskpool.TaskPool
	switch c.Executor {
	case "inline":
		def := g.Execute // nbio's own default: inline with recover
		g.Execute = func(f func()) {
			e.gens.Add(1)
			e.execPending.Add(1)
			defer e.execPending.Add(-1)
			def(f)
		}
	case "goroutine":
		g.Execute = func(f func()) {
			e.gens.Add(1)
			e.execPending.Add(1)
			go func() {
				defer e.execPending.Add(-1)
				f()
			}()
		}
	case "taskpool":
		pool = taskpool.New(c.PoolN, c.PoolQ)
		g.Execute = func(f func()) {
			e.gens.Add(1)
			e.execPending.Add(1)
			pool.Go(func() {
				defer e.execPending.Add(-1)
				f()
			})
		}
	}
	if err := g.Start(); err != nil {
		r.Inconclusive(fmt.Sprintf("case=%d engine start failed: %v", c.Index, err))
		return
	}
	teardown := func() {
		curEnv.Store(nil)
		for _, cs := range e.conns {
			if cs.client != nil {
				_ = cs.client.Close()
			}
		}
		done := make(chan struct{})
		go func() { g.Stop(); close(done) }()
		select {
		case <-done:
		case <-time.After(30 * time.Second):
			r.Inconclusive(fmt.Sprintf("case=%d Engine.Stop did not return within the watchdog (not a C05 verdict)", c.Index))
			fmt.Printf("case=%d Engine.Stop stuck; goroutines:\n%s\n", c.Index, h.Stacks())
		}
		if pool != nil {
			pool.Stop() // only now: a drainer waiting in the pool queue is legitimate
		}
	}
	for i := 0; i < c.Conns; i++ {
		cl, err := net.Dial("tcp", g.Addrs[0])
		if err != nil {
			r.Inconclusive(fmt.Sprintf("case=%d dial failed: %v", c.Index, err))
			teardown()
			return
		}
		select {
		case nc := <-opened:
			e.conns = append(e.conns, &connState{idx: i, c: nc, client: cl})
		case <-time.After(20 * time.Second):
			_ = cl.Close()
			r.Inconclusive(fmt.Sprintf("case=%d accepted connection not reported by OnOpen within the watchdog", c.Index))
			teardown()
			return
		}
		_, _ = cl.Write([]byte{'x'})
		select {
		case <-gotData:
		case <-time.After(20 * time.Second):
			r.Inconclusive(fmt.Sprintf("case=%d the poller did not deliver the hand-shake byte within the watchdog", c.Index))
			teardown()
			return
		}
	}
	curEnv.Store(e)

	// ---- connections closed before any submission
	var closers []int
	crng := r.Rand("c05/close", c.Index)
	if c.Close != "none" {
		for i := range e.conns {
			if i == 0 || crng.Intn(2) == 0 {
				closers = append(closers, i)
				e.conns[i].harnessCloses = true
			}
		}
	}
	doClose := func(cs *connState) {
		cs.closeCall.Store(tick())
		_ = cs.c.Close()
		cs.closeRet.Store(tick())
	}
	if c.Close == "before" {
		for _, i := range closers {
			doClose(e.conns[i])
		}
	}

	// ---- phase 1: concurrent submitters (+ closers racing them)
	var wg sync.WaitGroup
	startGate := make(chan struct{})
	for s := 0; s < c.Submitters; s++ {
		wg.Add(1)
		go func(s int) {
			defer wg.Done()
			rng := r.Rand(fmt.Sprintf("c05/sub/%d", s), c.Index)
			durMode := modeNum(c.JobDur)
			paceMode := modeNum(c.Pace)
			<-startGate
			for j := 0; j < c.Jobs; j++ {
				id := s*c.Jobs + j
				rec := &e.jobs[id]
				rec.id, rec.sub = id, s
				rec.conn = rng.Intn(len(e.conns))
				rec.must = rng.Intn(100) < c.MustPct
				rec.panics = rng.Intn(100) < c.PanicPct
				rec.nested = rng.Intn(100) < c.NestedPct
				switch durMode {
				case 0:
					rec.dur = 0
				case 3:
					rec.dur = rng.Intn(4)
				default:
					rec.dur = durMode
				}
				x := uint64(rng.Int63())
				// pacing lets the queue run empty between submissions: that is
				// what produces drainer exits racing new appends
				if paceMode != 0 && x%4 != 0 {
					doDelay(paceMode, x)
				}
				e.submit(rec)
			}
		}(s)
	}
	if c.Close == "race" {
		total := int64(e.nSub)
		for _, i := range closers {
			cs := e.conns[i]
			at := int64(crng.Intn(int(total))) // after this many submissions have been issued
			wg.Add(1)
			go func() {
				defer wg.Done()
				<-startGate
				for spins := 0; e.issued.Load() < at && !e.abandoned.Load(); spins++ {
					runtime.Gosched()
					if spins > 2000 {
						time.Sleep(50 * time.Microsecond) // submitters are slow (or stuck): do not burn a core
					}
				}
				doClose(cs)
			}()
		}
	}
	close(startGate)
	if !waitTimeout(&wg, watchdog) {
		// a submitter that sits on a lock inside nbio in a final state (nothing runs, nothing moves)
		// will never return: that is a verdict, a bare expiry is not
		if ok, detail := h.StuckInNbio(func() int64 { return e.issued.Load() + e.endedTotal.Load() }); ok {
			r.Violate("c05:submission-never-returns", fmt.Sprintf("case %d (executor %s): Execute/MustExecute calls did not return; %s", c.Index, c.Executor, detail), c)
		} else {
			r.Inconclusive(fmt.Sprintf("case=%d submitters did not return within the watchdog (%v); stacks in log", c.Index, watchdog))
		}
		fmt.Println(h.Stacks())
		curEnv.Store(nil)
		e.abandoned.Store(true)
		watchdogsFired.Add(1)
		return // engine and goroutines are abandoned; no verdict
	}

	// ---- phase 2: sentinels from this goroutine (after every submitter returned)
	var sentinels []*jobRec
	newSent := func(ci int, must bool) *jobRec {
		rec := &e.jobs[e.sentNext]
		rec.id, rec.conn, rec.sub, rec.must = e.sentNext, ci, -1, must
		e.sentNext++
		sentinels = append(sentinels, rec)
		return rec
	}
	for i, cs := range e.conns {
		if cs.closeRet.Load() != 0 {
			e.submit(newSent(i, false)) // Execute after Close returned: must be false
			e.submit(newSent(i, true))  // MustExecute after Close: must run
		} else {
			e.submit(newSent(i, false)) // a job after all the others (and after any panicking job)
		}
	}

	// ---- quiescence
	final, lost := e.settle(r)
	if !final {
		watchdogsFired.Add(1)
		teardown()
		return
	}

	// ---- verdicts on the final history
	e.judge(r, lost)

	// ---- observations
	var ran, rejected int64
	for i := range e.jobs {
		rec := &e.jobs[i]
		if !rec.issued.Load() {
			continue
		}
		if rec.nStart.Load() > 0 {
			ran++
		}
		if !rec.accepted.Load() {
			rejected++
		}
	}
	gens := e.gens.Load()
	r.Count("jobs_run", ran)
	r.Count("jobs_rejected_on_closed_conn", rejected)
	r.Count("drainer_generations", gens)
	r.Max("max_queue_len", e.maxQueue.Load())
	r.Max("max_inside", int64(e.maxInside.Load()))
	r.Count("handover_windows_with_concurrent_submit", e.handover.Load())
	r.Count("appends_while_job_running", e.appendBusy.Load())
	r.Count("panicking_jobs_run", e.panicsRun.Load())
	r.Count("panics_logged_by_nbio", lg.panics.Load()-panicsLoggedBefore)
	r.Count("nested_submissions", e.nestedDone.Load())
	r.Seen("config_cell", fmt.Sprintf("%s/procs%d/close-%s", c.Executor, c.Procs, c.Close))
	for a := range e.sigs {
		for b := range e.sigs[a] {
			if e.sigs[a][b].Load() > 0 {
				r.Seen("handover", fmt.Sprintf("%d-submitters-inflight/%s-queued", a, qBucketName[b]))
			}
		}
	}
	// non-trivial: more than one drainer generation AND the two-party window
	// (drainer finished the last queued job while another submit was in flight)
	// was observed at least once
	if gens >= 2 && e.handover.Load() >= 1 {
		r.Nontrivial(fmt.Sprintf("case-%d", c.Index))
	}
	if c.Index < 8 {
		r.Sample(map[string]interface{}{"case": c, "jobs_run": ran, "drainer_generations": gens, "handover_windows": e.handover.Load(), "max_queue_len": e.maxQueue.Load()})
	}
	teardown()
}

// settle waits for the final state. The history is final when every submitter
// has returned (the caller guarantees that), no executor closure is pending or
// running (execPending == 0: no drainer exists or can appear) and no job is
// inside. In that state nothing can run any more, so a job that has not run is
// lost. Before "lost" is declared the state is additionally required to be
// stable over >= 20 samples spanning >= 2 s of idle process CPU.
func (e *env) settle(r *h.Run) (final bool, lost bool) {
	deadline := time.Now().Add(watchdog)
	isFinal := func() bool {
		if e.execPending.Load() != 0 {
			return false
		}
		for _, cs := range e.conns {
			if cs.inside.Load() != 0 {
				return false
			}
		}
		return true
	}
	// The predicate sampled in the stuck-state loop must be cheap (the loop
	// itself must not make the process look busy, least of all under the race
	// detector): counters first, the full scan only when they say "complete".
	allRan := func() bool {
		if e.endedTotal.Load() < e.accepted.Load() {
			return false
		}
		for i := range e.jobs {
			rec := &e.jobs[i]
			if rec.accepted.Load() && rec.nEnd.Load() == 0 {
				return false
			}
		}
		return true
	}
	sleep := 20 * time.Microsecond
	for {
		if isFinal() {
			before := e.endedTotal.Load()
			if isFinal() && e.endedTotal.Load() == before {
				if allRan() {
					return true, false
				}
				break // final but incomplete: confirm below
			}
		}
		if time.Now().After(deadline) {
			r.Inconclusive(fmt.Sprintf("case=%d executor still busy after %v (pending=%d): no verdict", e.c.Index, watchdog, e.execPending.Load()))
			return false, false
		}
		time.Sleep(sleep)
		if sleep < 2*time.Millisecond {
			sleep *= 2
		}
	}
	// stuck-state confirmation
	samples := 0
	t0 := time.Now()
	cpu0 := h.CPUTime()
	ended0 := e.endedTotal.Load()
	for {
		time.Sleep(100 * time.Millisecond)
		if !isFinal() || e.endedTotal.Load() != ended0 {
			// progress after all: start over through the normal path
			return e.settle(r)
		}
		if allRan() {
			return true, false
		}
		samples++
		el := time.Since(t0)
		if samples >= 20 && el >= 2*time.Second {
			cpu := h.CPUTime() - cpu0
			if float64(cpu) <= 0.02*float64(el) {
				return true, true
			}
			// the process was not idle: restart the window
			samples, t0, cpu0 = 0, time.Now(), h.CPUTime()
		}
		if time.Now().After(deadline.Add(30 * time.Second)) {
			r.Inconclusive(fmt.Sprintf("case=%d jobs missing but the process never became idle: no verdict", e.c.Index))
			return false, false
		}
	}
}

// jobsLen and stillOpen read connection state under the connection's own
// mutex. After all activity has ended that mutex is free on any sane tree; a
// tree that leaves it locked forever (e.g. a panic while holding it) must not
// hang the judge, so the read is abandoned after a while (-1 / false).
func jobsLen(c *nbio.Conn) int {
	ch := make(chan int, 1)
	go func() { ch <- nbio.VerifJobs(c) }()
	select {
	case n := <-ch:
		return n
	case <-time.After(3 * time.Second):
		return -1
	}
}

func stillOpen(c *nbio.Conn) bool {
	ch := make(chan bool, 1)
	go func() { ch <- !nbio.VerifBacklog(c).Closed }()
	select {
	case open := <-ch:
		return open
	case <-time.After(3 * time.Second):
		return false
	}
}

func (e *env) describe(rec *jobRec) string {
	kind := "Execute"
	if rec.must {
		kind = "MustExecute"
	}
	who := fmt.Sprintf("submitter %d", rec.sub)
	if rec.sub == -1 {
		who = "sentinel"
	} else if rec.sub == -2 {
		who = "nested"
	}
	return fmt.Sprintf("job %d conn %d %s by %s submit[%d,%d]=%v starts=%d(%d,%d) ends=%d(%d,%d)", rec.id, rec.conn, kind, who,
		rec.call.Load(), rec.ret.Load(), rec.accepted.Load(), rec.nStart.Load(), rec.start[0].Load(), rec.start[1].Load(), rec.nEnd.Load(), rec.end[0].Load(), rec.end[1].Load())
}

// neighbourhood renders the jobs of one connection whose submit or run ticks
// are close to t (the offending slice of the history).
func (e *env) neighbourhood(conn int, ticks ...int64) string {
	type row struct {
		t int64
		s string
	}
	var rows []row
	for i := range e.jobs {
		rec := &e.jobs[i]
		if !rec.issued.Load() || rec.conn != conn {
			continue
		}
		near := false
		for _, t := range ticks {
			for _, x := range []int64{rec.call.Load(), rec.ret.Load(), rec.start[0].Load(), rec.end[0].Load()} {
				if x != 0 && x >= t-12 && x <= t+12 {
					near = true
				}
			}
		}
		if near {
			rows = append(rows, row{rec.call.Load(), e.describe(rec)})
		}
	}
	sort.Slice(rows, func(i, j int) bool { return rows[i].t < rows[j].t })
	var sb strings.Builder
	for i, rw := range rows {
		if i >= 14 {
			sb.WriteString("…\n")
			break
		}
		sb.WriteString(rw.s)
		sb.WriteByte('\n')
	}
	cs := e.conns[conn]
	fmt.Fprintf(&sb, "conn %d: Close[%d,%d] OnClose@%d appended=%d started=%d ended=%d VerifJobs=%d", conn, cs.closeCall.Load(), cs.closeRet.Load(), cs.onClose.Load(), cs.appended.Load(), cs.started.Load(), cs.ended.Load(), jobsLen(cs.c))
	return sb.String()
}

func (e *env) judge(r *h.Run, lost bool) {
	c := e.c
	cfg := fmt.Sprintf("executor=%s submitters=%d conns=%d gomaxprocs=%d close=%s", c.Executor, c.Submitters, c.Conns, c.Procs, c.Close)
	perConn := make([][]hist.Op, len(e.conns))
	clean := make([]bool, len(e.conns))
	for i := range clean {
		clean[i] = true
	}
	for i := range e.jobs {
		rec := &e.jobs[i]
		if !rec.issued.Load() {
			continue
		}
		cs := e.conns[rec.conn]
		ns, ne := rec.nStart.Load(), rec.nEnd.Load()
		acc := rec.accepted.Load()
		switch {
		case acc && ns == 0:
			clean[rec.conn] = false
			if lost {
				sig := "c05:lost-job"
				what := "the job list is empty and no drainer exists"
				if jobsLen(cs.c) > 0 {
					sig = "c05:queue-stuck-without-drainer"
					what = "the job list is non-empty but no drainer exists or can appear"
				}
				r.Violate(sig, fmt.Sprintf("%s: accepted job never ran; final state (all submitters returned, no executor closure pending, nobody inside, stable >=20 samples/>=2 s idle CPU): %s\n%s\n%s", cfg, what, e.describe(rec), e.neighbourhood(rec.conn, rec.call.Load(), rec.ret.Load())), c)
			}
		case acc && (ns > 1 || ne > 1):
			clean[rec.conn] = false
			r.Violate("c05:double-run", fmt.Sprintf("%s: job ran %d times\n%s\n%s", cfg, ns, e.describe(rec), e.neighbourhood(rec.conn, rec.start[0].Load(), rec.start[1].Load())), c)
		case acc && ns == 1 && ne == 1:
			perConn[rec.conn] = append(perConn[rec.conn], hist.Op{ID: rec.id, Call: rec.call.Load(), Ret: rec.ret.Load(), Start: rec.start[0].Load(), End: rec.end[0].Load()})
		case acc:
			clean[rec.conn] = false // started but not ended in a final state: cannot happen (job bodies terminate)
			r.Inconclusive(fmt.Sprintf("case=%d job %d has %d starts and %d ends in the final state", c.Index, rec.id, ns, ne))
		case !acc && ns > 0:
			clean[rec.conn] = false
			r.Violate("c05:ran-after-execute-false", fmt.Sprintf("%s: Execute returned false but the job ran\n%s\n%s", cfg, e.describe(rec), e.neighbourhood(rec.conn, rec.call.Load(), rec.start[0].Load())), c)
		}
		if rec.must {
			continue
		}
		// close handling runs after all work queued before it - and nothing Execute accepted comes
		// after it: the close handling job is queued (FIFO) after the connection was closed, so a
		// job behind it was accepted by an Execute that found the connection closed
		if cj := cs.closeJobRan.Load(); cj != 0 && acc && ns >= 1 && rec.start[0].Load() > cj {
			r.Violate("c05:execute-accepted-job-ran-after-close-handling", fmt.Sprintf("%s: Execute returned true and the job ran (tick %d) after the close handling of the connection (a job queued with MustExecute by the close callback, ran at tick %d): it was appended to a connection that was closed already\n%s\n%s", cfg, rec.start[0].Load(), cj, e.describe(rec), e.neighbourhood(rec.conn, cj, rec.start[0].Load())), c)
		}
		// closed-connection clauses
		cc, cr, oc := cs.closeCall.Load(), cs.closeRet.Load(), cs.onClose.Load()
		if cr != 0 && rec.call.Load() > cr {
			r.Count("execute_after_close_returned", 1)
			if acc {
				r.Violate("c05:execute-true-after-close-returned", fmt.Sprintf("%s: Execute invoked after Close returned (tick %d) returned true\n%s", cfg, cr, e.describe(rec)), c)
			}
		} else if cc != 0 && rec.ret.Load() > cc {
			if acc {
				r.Count("execute_racing_close_true", 1)
			} else {
				r.Count("execute_racing_close_false", 1)
			}
		}
		if !acc {
			openFor := false
			if cc == 0 {
				// never closed by the harness: closed is a one-way flag, so
				// "still open now" means it was open during the call
				openFor = stillOpen(cs.c)
			} else if rec.ret.Load() < cc && oc > cc && (cr == 0 || oc < cr) {
				// returned before the harness invoked Close, and it was that
				// Close which closed the connection (OnClose fired inside it)
				openFor = true
			}
			if openFor {
				r.Violate("c05:execute-false-on-open-conn", fmt.Sprintf("%s: Execute returned false although the connection was not closed\n%s\n%s", cfg, e.describe(rec), e.neighbourhood(rec.conn, rec.call.Load())), c)
			}
		}
	}
	if m := e.maxInside.Load(); m > 1 {
		r.Violate("c05:overlap", fmt.Sprintf("%s: %d jobs of one connection were inside at once\n%s", cfg, m, strings.Join(e.overlapNote, "\n")), c)
	}
	for ci, ops := range perConn {
		if p := hist.Overlap(ops); p != nil && e.maxInside.Load() <= 1 {
			r.Violate("c05:overlap", fmt.Sprintf("%s: run intervals of two jobs of connection %d intersect: %s\n%s", cfg, ci, p, e.neighbourhood(ci, p.A.Start, p.B.Start)), c)
		}
		if o := hist.StartBeforeCall(ops); o != nil {
			r.Inconclusive(fmt.Sprintf("case=%d harness clock anomaly: %s", c.Index, o))
			continue
		}
		fifo := hist.FIFOSweep(ops)
		small := len(ops) >= 2 && len(ops) <= 30 && clean[ci]
		if small {
			switch v := hist.Porcupine(ops, 300*time.Millisecond); {
			case v == hist.Unknown:
				r.Count("porcupine_timeouts", 1)
			case (v == hist.Illegal) != (fifo != nil):
				// the two oracles disagree: one of them is wrong - never a violation
				r.Inconclusive(fmt.Sprintf("case=%d ORACLE DISAGREEMENT conn %d: sweep=%v porcupine=%v history=%v", c.Index, ci, fifo, v, ops))
				fifo = nil
			default:
				r.Count("histories_cross_checked_with_porcupine", 1)
			}
		}
		if fifo != nil {
			r.Violate("c05:fifo-violated", fmt.Sprintf("%s: conn %d: A's submit returned before B's was invoked, but B started first\nA = %s\nB = %s\n%s", cfg, ci, fifo.A, fifo.B, e.neighbourhood(ci, fifo.A.Start, fifo.B.Start)), c)
		}
		r.Count("histories_checked", 1)
	}
}

// ---------------------------------------------------------------- main

func main() {
	casesFlag := flag.Int("cases", 0, "override the number of cases (experiments only)")
	r := h.Start("C05")
	defer r.Finish()
	logging.SetLogger(lg)
	nbio.VerifSetPoint(hook)

	if r.Phase == "http" {
		if r.Replay != "" {
			var c httpCase
			if err := r.ReplayCase(&c); err != nil {
				fmt.Println("replay:", err)
				return
			}
			for i := 0; i < 5 && r.Violations() == 0; i++ {
				runHTTPCase(r, c)
			}
			return
		}
		n := r.N(216, 4320)
		for i := 0; i < n; i++ {
			if !r.Mine(i) {
				continue
			}
			c := genHTTPCase(r, i)
			r.Begin(c)
			runHTTPCase(r, c)
			if i < 2 {
				r.Sample(c)
			}
		}
		return
	}
	if r.Replay != "" {
		var c caseT
		if err := r.ReplayCase(&c); err != nil {
			fmt.Println("replay:", err)
			return
		}
		// one configuration, several attempts: the schedule is not reproducible
		for i := 0; i < 20 && r.Violations() == 0; i++ {
			runCase(r, c)
		}
		return
	}

	n := r.N(1600, 80000)
	if r.Phase == "race" {
		n = r.N(320, 12000)
	}
	if *casesFlag > 0 {
		n = *casesFlag
	}
	if r.Shard == 0 {
		// the hand-written sweep is checked against an O(n^2) reference and the
		// porcupine queue model on synthetic histories (legal and illegal)
		agreed, illegal, unknown, dis := hist.SelfTest(r.Rand("c05/selftest", 0), r.N(120, 2000), 9, 100*time.Millisecond)
		r.Count("selftest_synthetic_histories_agreed", int64(agreed))
		r.Count("selftest_synthetic_illegal", int64(illegal))
		r.Count("selftest_porcupine_timeouts", int64(unknown))
		if dis != "" {
			r.Inconclusive("ORACLE SELF-TEST DISAGREEMENT: " + dis)
		}
	}
	for i := 0; i < n; i++ {
		if !r.Mine(i) {
			continue
		}
		if watchdogsFired.Load() >= 2 {
			r.Inconclusive(fmt.Sprintf("watchdogs fired in %d cases of this process: cases from index %d on were skipped", watchdogsFired.Load(), i))
			break
		}
		runCase(r, genCase(r, i))
	}
	for _, s := range lg.other {
		r.Seen("other_error_log_lines", s)
	}
}
