package main

// Phase "http": the consequence clause at the HTTP layer - "HTTP handlers of
// one connection never overlap, and close handling runs after all work queued
// before it" - for the close notification an application registers with
// nbhttp.Engine.OnClose. The core phases submit jobs themselves; here the jobs
// are nbhttp's own (one per request, one for the close), in every engine cell.
//
// One case = one engine cell and a few connections. A raw client writes k
// pipelined requests in one segment; the handler of the first is held on a
// gate, so the others are parsed and queued behind it; the client closes its
// side while the first handler is inside; then the gate opens. Every handler
// entry/exit and the close notification of the connection are stamped with one
// atomic clock. In the final history:
//
//	no two handler invocations of one connection overlap,
//	they run in request order,
//	the close notification does not arrive while a handler of that connection
//	is inside, and no handler of that connection starts after it.

import (
	"fmt"
	"net"
	"net/http"
	"strings"
	"sync"
	"sync/atomic"
	"time"

	"github.com/lesismal/nbio/nbhttp"

	"verif/internal/e2e"
	"verif/internal/h"
	"verif/internal/httpx"
)

type httpCase struct {
	Index int        `json:"index"`
	HTTP  bool       `json:"http"`
	Cell  httpx.Cell `json:"cell"`
	Conns int        `json:"conns"`
	Depth int        `json:"pipelined_requests"`
	Seed  int64      `json:"seed"`
}

func genHTTPCase(r *h.Run, idx int) httpCase {
	rng := r.Rand("c05-http", idx)
	return httpCase{Index: idx, HTTP: true,
		Cell: httpx.Cell{
			IOMod: []int{nbhttp.IOModNonBlocking, nbhttp.IOModBlocking, nbhttp.IOModMixed}[idx%3],
			Mode:  []string{"LT", "ET", "ONESHOT"}[(idx/3)%3],
			TLS:   (idx/9)%2 == 1,
		},
		Conns: 1 + rng.Intn(5), Depth: 2 + rng.Intn(4), Seed: rng.Int63()}
}

type httpEv struct {
	t    int64
	what string // start | end | close
	seq  int
}

type httpConnLog struct {
	mu     sync.Mutex
	evs    []httpEv
	inside int32
	gate   chan struct{}
	first  chan struct{} // closed when the first handler is inside
	closed chan struct{}
}

var httpProgress int64

func runHTTPCase(r *h.Run, c httpCase) {
	r.Eval(1)
	var mu sync.Mutex
	logs := map[string]*httpConnLog{} // remote address -> log
	get := func(rem string) *httpConnLog {
		mu.Lock()
		defer mu.Unlock()
		l := logs[rem]
		if l == nil {
			l = &httpConnLog{gate: make(chan struct{}), first: make(chan struct{}), closed: make(chan struct{})}
			logs[rem] = l
		}
		return l
	}
	var clock int64
	mux := http.NewServeMux()
	mux.HandleFunc("/", func(w http.ResponseWriter, rq *http.Request) {
		l := get(rq.RemoteAddr)
		seq := 0
		fmt.Sscanf(strings.TrimPrefix(rq.URL.Path, "/r"), "%d", &seq)
		in := atomic.AddInt32(&l.inside, 1)
		l.mu.Lock()
		l.evs = append(l.evs, httpEv{atomic.AddInt64(&clock, 1), "start", seq})
		if in > 1 {
			l.evs = append(l.evs, httpEv{atomic.AddInt64(&clock, 1), "overlap", seq})
		}
		l.mu.Unlock()
		atomic.AddInt64(&httpProgress, 1)
		if seq == 0 {
			close(l.first)
			<-l.gate
		}
		_, _ = w.Write([]byte("ok"))
		l.mu.Lock()
		l.evs = append(l.evs, httpEv{atomic.AddInt64(&clock, 1), "end", seq})
		l.mu.Unlock()
		atomic.AddInt32(&l.inside, -1)
		atomic.AddInt64(&httpProgress, 1)
	})
	eng := nbhttp.NewEngine(c.Cell.Config(mux))
	eng.OnClose(func(nc net.Conn, err error) {
		l := get(nc.RemoteAddr().String())
		l.mu.Lock()
		l.evs = append(l.evs, httpEv{atomic.AddInt64(&clock, 1), "close", int(atomic.LoadInt32(&l.inside))})
		l.mu.Unlock()
		atomic.AddInt64(&httpProgress, 1)
		select {
		case <-l.closed:
		default:
			close(l.closed)
		}
	})
	if err := eng.Start(); err != nil {
		r.Inconclusive(fmt.Sprintf("http case %d: engine start: %v", c.Index, err))
		return
	}
	defer eng.Stop()
	addr := httpx.Addr(eng, c.Cell)
	cell := c.Cell.String()
	cls := strings.Split(cell, "/")[0]
	if c.Cell.TLS {
		cls += "-tls"
	}
	var wg sync.WaitGroup
	bad := int32(0)
	for k := 0; k < c.Conns; k++ {
		wg.Add(1)
		go func(k int) {
			defer wg.Done()
			nc, err := c.Cell.Dial(addr)
			if err != nil {
				r.Inconclusive(fmt.Sprintf("http case %d: dial: %v", c.Index, err))
				atomic.StoreInt32(&bad, 1)
				return
			}
			l := get(nc.LocalAddr().String())
			var sb strings.Builder
			for s := 0; s < c.Depth; s++ {
				fmt.Fprintf(&sb, "GET /r%d HTTP/1.1\r\nHost: x\r\n\r\n", s)
			}
			if _, err := nc.Write([]byte(sb.String())); err != nil {
				nc.Close()
				atomic.StoreInt32(&bad, 1)
				return
			}
			select {
			case <-l.first:
			case <-time.After(20 * time.Second):
				r.Inconclusive(fmt.Sprintf("http case %d (%s): the first handler did not start", c.Index, cell))
				nc.Close()
				close(l.gate)
				atomic.StoreInt32(&bad, 1)
				return
			}
			// the other requests arrived in the same segment: they are parsed and queued behind the
			// held handler before the end of the stream can be seen
			e2e.Sleep(time.Duration(2+k) * time.Millisecond)
			nc.Close()
			// the close event is dispatched while the first handler is inside (give it the chance)
			e2e.Sleep(time.Duration(5+3*k) * time.Millisecond)
			close(l.gate)
			switch e2e.WaitQuiet(l.closed, func() int64 { return atomic.LoadInt64(&httpProgress) }, 60*time.Second) {
			case "done":
			case "quiet":
				l.mu.Lock()
				evs := fmt.Sprint(l.evs)
				l.mu.Unlock()
				r.Violate(fmt.Sprintf("c05:http:%s:close-notification-missing", cls), fmt.Sprintf("the client closed its connection, the history is final (no progress, idle CPU, 3 s) and Engine.OnClose has not been called for it\nengine %s, %d pipelined requests; events %s", cell, c.Depth, evs), c)
				atomic.StoreInt32(&bad, 1)
			default:
				r.Inconclusive(fmt.Sprintf("http case %d (%s): neither closed nor quiet", c.Index, cell))
				atomic.StoreInt32(&bad, 1)
			}
		}(k)
	}
	wg.Wait()
	if atomic.LoadInt32(&bad) != 0 {
		return
	}
	// handlers that run behind the close notification (only on a tree that breaks the clause) get a
	// moment to show up; what is not seen by then is simply not judged
	for i := 0; i < 100; i++ {
		mu.Lock()
		done := true
		for _, l := range logs {
			l.mu.Lock()
			ends := 0
			for _, e := range l.evs {
				if e.what == "end" {
					ends++
				}
			}
			l.mu.Unlock()
			if ends < c.Depth {
				done = false
			}
		}
		mu.Unlock()
		if done {
			break
		}
		time.Sleep(10 * time.Millisecond)
	}
	mu.Lock()
	defer mu.Unlock()
	for rem, l := range logs {
		l.mu.Lock()
		evs := append([]httpEv(nil), l.evs...)
		l.mu.Unlock()
		render := func() string {
			var sb strings.Builder
			for _, e := range evs {
				fmt.Fprintf(&sb, " %s(%d)@%d", e.what, e.seq, e.t)
			}
			return sb.String()
		}
		viol := func(sig, detail string) {
			r.Violate(fmt.Sprintf("c05:http:%s:%s", cls, sig), fmt.Sprintf("%s\nengine %s, connection %s, %d pipelined requests in one segment, client closed while the first handler was held\nevents (what(seq)@clock; for close: handlers inside):%s", detail, cell, rem, c.Depth, render()), c)
		}
		inside, lastStart, closedSeen, ok := 0, -1, false, true
		for _, e := range evs {
			switch e.what {
			case "overlap":
				viol("handlers-overlap", "two handler invocations of one connection were inside at the same time")
				ok = false
			case "start":
				if closedSeen {
					viol("handler-after-close-notification", fmt.Sprintf("the handler of request %d started after Engine.OnClose had been called for its connection", e.seq))
					ok = false
				}
				if e.seq != lastStart+1 {
					viol("handlers-out-of-order", fmt.Sprintf("handler of request %d started after the handler of request %d", e.seq, lastStart))
					ok = false
				}
				lastStart = e.seq
				inside++
			case "end":
				inside--
			case "close":
				if inside > 0 {
					viol("close-notification-while-handler-inside", "Engine.OnClose was called while a handler of that connection, queued before the close, was still running")
					ok = false
				}
				closedSeen = true
			}
			if !ok {
				break
			}
		}
		if !ok {
			return
		}
		if closedSeen && lastStart >= 1 {
			r.Count("http_connections_with_queued_handlers_before_close", 1)
		}
		r.Count("http_handler_runs", int64(lastStart+1))
	}
	r.Nontrivial(fmt.Sprintf("http/%d", c.Index))
	r.Seen("http_cells", cell)
}
