package main

import (
	"bufio"
	"errors"
	"fmt"
	"io"
	"net"
	"net/http"
	"strings"
	"sync"
	"sync/atomic"
	"time"

	"github.com/lesismal/nbio"
	"github.com/lesismal/nbio/nbhttp"
	"github.com/lesismal/nbio/nbhttp/websocket"

	"verif/internal/dl"
	"verif/internal/h"
)

// ---------------------------------------------------------------- cases

// appHist is one client connection against an nbhttp engine: N requests (or a
// WebSocket upgrade followed by N messages) and then silence until the server
// closes the connection.
type appHist struct {
	Index int    `json:"index"`
	Kind  string `json:"kind"` // http | ws
	N     int    `json:"n"`
	Gaps  []int  `json:"gaps"` // ms of silence before each request / message
	Edge  bool   `json:"edge,omitempty"`
}

type appCfg struct {
	Mode    string `json:"mode"` // nb | blocking
	K       int    `json:"keepalive_ms"`
	K2      int    `json:"ws_keepalive_ms"`
	NPoller int    `json:"npoller"`
}

type appCase struct {
	Cfg  appCfg  `json:"cfg"`
	Hist appHist `json:"hist"`
}

const appBatch = 40

func appBatchCfg(r *h.Run, b int) appCfg {
	rng := r.Rand("c16-app-cfg", b)
	c := appCfg{Mode: "nb", K: 200 + rng.Intn(301), K2: 200 + rng.Intn(301), NPoller: 1 + rng.Intn(2)}
	if b%3 == 2 {
		c.Mode = "blocking"
	}
	if b%4 == 3 {
		// WebSocket keep-alive disabled: the upgrade clears the HTTP keep-alive deadline and nothing
		// arms one again - an upgraded connection must not be closed by any timer
		c.K2 = 0
	}
	return c
}

func genApp(r *h.Run, idx int, cfg appCfg) appHist {
	rng := r.Rand("c16-app", idx)
	a := appHist{Index: idx, Kind: "http"}
	if idx%2 == 1 {
		a.Kind = "ws"
	}
	a.N = rng.Intn(4)
	k := cfg.K
	if a.Kind == "ws" && cfg.K2 > 0 {
		k = cfg.K2
	}
	a.Edge = rng.Intn(8) == 0
	for i := 0; i < a.N; i++ {
		// normally well inside the keep-alive window: the renewal is effective
		g := rng.Intn(k - 120)
		if rng.Intn(3) == 0 {
			g = rng.Intn(30)
		}
		if a.Edge && i == a.N-1 {
			g = k - 45 + rng.Intn(50) // aimed at the instant the old deadline fires
		}
		a.Gaps = append(a.Gaps, g)
	}
	return a
}

// ---------------------------------------------------------------- server side

type openInfo struct {
	c   net.Conn
	t   int64
	seq int64
}

type arun struct {
	cfg appCfg
	hs  appHist

	mu      sync.Mutex
	handler []int64    // clock at the end of every request / message handler
	jobs    []int64    // clock of every execute.afterJob of the server connection
	up      [2]int64   // clock before / after Upgrade
	sclose  []closeEv  // engine OnClose notifications
	wsclose []closeEv  // upgrader OnClose notifications
	log     []string   // event log
	srv     net.Conn   // server side connection (kept referenced on purpose)
	shape   []string   // what the client did
	incon   string     // why the history cannot be decided
	viol    [][]string // sig, detail
	outcome string
	decided bool
}

func (x *arun) logf(f string, a ...interface{}) {
	x.mu.Lock()
	if len(x.log) < 100 {
		x.log = append(x.log, fmt.Sprintf("%s ", dl.Ms(dl.Now()))+fmt.Sprintf(f, a...))
	}
	x.mu.Unlock()
}

type appEnv struct {
	cfg   appCfg
	eng   *nbhttp.Engine
	addr  string
	mu    sync.Mutex
	opens map[string]*openInfo // by remote address
	seq   int64
	cond  *sync.Cond
	byRem sync.Map // remote address -> *arun
	bySrv sync.Map // server net.Conn / *nbio.Conn -> *arun
	// every server connection stays referenced until the batch ends so that a
	// finalizer can never close a descriptor the engine forgot to close
	keep []net.Conn
}

func remoteOf(c net.Conn) string {
	if a := c.RemoteAddr(); a != nil {
		return a.String()
	}
	return ""
}

func newAppEnv(cfg appCfg) (*appEnv, error) {
	e := &appEnv{cfg: cfg, opens: map[string]*openInfo{}}
	e.cond = sync.NewCond(&e.mu)
	u := websocket.NewUpgrader()
	u.KeepaliveTime = time.Duration(cfg.K2) * time.Millisecond
	u.OnMessage(func(c *websocket.Conn, mt websocket.MessageType, b []byte) {
		if v, ok := e.byRem.Load(remoteOf(c)); ok {
			x := v.(*arun)
			t := dl.Now()
			x.mu.Lock()
			x.handler = append(x.handler, t)
			x.mu.Unlock()
			x.logf("server: message handler (%d bytes)", len(b))
			atomic.AddInt64(&progress, 1)
		}
	})
	u.SetPingHandler(func(c *websocket.Conn, data string) {
		_ = c.WriteMessage(websocket.PongMessage, []byte(data))
		if v, ok := e.byRem.Load(remoteOf(c)); ok {
			x := v.(*arun)
			t := dl.Now()
			x.mu.Lock()
			x.handler = append(x.handler, t)
			x.mu.Unlock()
			x.logf("server: ping handler (%d bytes)", len(data))
			atomic.AddInt64(&progress, 1)
		}
	})
	u.OnClose(func(c *websocket.Conn, err error) {
		if v, ok := e.byRem.Load(remoteOf(c)); ok {
			x := v.(*arun)
			t := dl.Now()
			x.mu.Lock()
			x.wsclose = append(x.wsclose, closeEv{t, err})
			x.mu.Unlock()
			x.logf("server: websocket OnClose err=%v", err)
		}
	})
	mux := http.NewServeMux()
	mux.HandleFunc("/r", func(w http.ResponseWriter, r *http.Request) {
		_, _ = w.Write([]byte("ok " + r.URL.RawQuery))
		if v, ok := e.byRem.Load(r.RemoteAddr); ok {
			x := v.(*arun)
			t := dl.Now()
			x.mu.Lock()
			x.handler = append(x.handler, t)
			x.mu.Unlock()
			x.logf("server: request handler done (%s)", r.URL.RawQuery)
			atomic.AddInt64(&progress, 1)
		}
	})
	mux.HandleFunc("/ws", func(w http.ResponseWriter, r *http.Request) {
		v, ok := e.byRem.Load(r.RemoteAddr)
		t0 := dl.Now()
		_, err := u.Upgrade(w, r, nil)
		t1 := dl.Now()
		if ok {
			x := v.(*arun)
			x.mu.Lock()
			if err == nil {
				x.up = [2]int64{t0, t1}
			}
			x.mu.Unlock()
			x.logf("server: Upgrade call=%s ret=%s err=%v", dl.Ms(t0), dl.Ms(t1), err)
		}
	})
	conf := nbhttp.Config{
		Network: "tcp", Addrs: []string{"127.0.0.1:0"}, Handler: mux, NPoller: cfg.NPoller,
		KeepaliveTime: time.Duration(cfg.K) * time.Millisecond,
		Listen: func(n, a string) (net.Listener, error) {
			ln, err := net.Listen(n, a)
			if err == nil {
				e.addr = ln.Addr().String()
			}
			return ln, err
		},
	}
	if cfg.Mode == "blocking" {
		conf.IOMod = nbhttp.IOModBlocking
	} else {
		conf.IOMod = nbhttp.IOModNonBlocking
	}
	eng := nbhttp.NewEngine(conf)
	eng.OnOpen(func(c net.Conn) {
		t := dl.Now()
		e.mu.Lock()
		e.seq++
		e.opens[remoteOf(c)] = &openInfo{c: c, t: t, seq: e.seq}
		e.keep = append(e.keep, c)
		e.cond.Broadcast()
		e.mu.Unlock()
	})
	eng.OnClose(func(c net.Conn, err error) {
		t := dl.Now()
		if v, ok := e.bySrv.Load(c); ok {
			x := v.(*arun)
			x.mu.Lock()
			x.sclose = append(x.sclose, closeEv{t, err})
			x.mu.Unlock()
			x.logf("server: engine OnClose err=%v", err)
			atomic.AddInt64(&progress, 1)
		}
	})
	if err := eng.Start(); err != nil {
		return nil, err
	}
	e.eng = eng
	nbio.VerifSetPoint(func(name string, c *nbio.Conn) {
		if name != "execute.afterJob" {
			return
		}
		if v, ok := e.bySrv.Load(net.Conn(c)); ok {
			x := v.(*arun)
			t := dl.Now()
			x.mu.Lock()
			if len(x.jobs) < 64 {
				x.jobs = append(x.jobs, t)
			}
			x.mu.Unlock()
		}
	})
	return e, nil
}

func (e *appEnv) stop() {
	nbio.VerifSetPoint(nil)
	done := make(chan struct{})
	go func() { e.eng.Stop(); close(done) }()
	select {
	case <-done:
	case <-time.After(20 * time.Second):
	}
	e.mu.Lock()
	for _, c := range e.keep {
		_ = c.Close()
	}
	e.keep = nil
	e.mu.Unlock()
}

// waitOpen waits until the engine reported the connection whose remote
// address is rem.
func (e *appEnv) waitOpen(rem string, max time.Duration) *openInfo {
	end := time.Now().Add(max)
	stop := time.AfterFunc(max, func() { e.mu.Lock(); e.cond.Broadcast(); e.mu.Unlock() })
	defer stop.Stop()
	e.mu.Lock()
	defer e.mu.Unlock()
	for {
		if o := e.opens[rem]; o != nil {
			return o
		}
		if time.Now().After(end) {
			return nil
		}
		e.cond.Wait()
	}
}

// ---------------------------------------------------------------- client side

var wsKey = "dGhlIHNhbXBsZSBub25jZQ=="

func maskedText(p []byte, key [4]byte) []byte {
	b := []byte{0x81, 0x80 | byte(len(p)), key[0], key[1], key[2], key[3]}
	for i, c := range p {
		b = append(b, c^key[i%4])
	}
	return b
}

func isTimeout(err error) bool {
	var ne net.Error
	return errors.As(err, &ne) && ne.Timeout()
}

func (x *arun) label() (string, string) {
	if x.hs.Kind == "ws" {
		return "ws-keepalive", x.cfg.Mode
	}
	return "http-keepalive", x.cfg.Mode
}

func (x *arun) dump() string {
	x.mu.Lock()
	defer x.mu.Unlock()
	return "client did: " + strings.Join(x.shape, ",") + "\nevents:\n  " + strings.Join(x.log, "\n  ")
}

// effects builds the deadline effects of the server connection from what the
// harness observed on the server side (all stamps are lower/upper bounds of
// the instants at which nbhttp computed now+KeepaliveTime).
func (x *arun) effects(tDial, tWit int64) []dl.Effect {
	x.mu.Lock()
	defer x.mu.Unlock()
	K := int64(x.cfg.K) * 1e6
	K2 := int64(x.cfg.K2) * 1e6
	effs := []dl.Effect{{Kind: "set", Call: tDial, Ret: tWit, Dmin: tDial + K, Dmax: tWit + K}}
	k := K
	if x.up[0] != 0 {
		if K2 == 0 {
			// keep-alive disabled: the upgrade cancels the deadline and messages do not renew it
			return append(effs, dl.Effect{Kind: "clear", Call: x.up[0], Ret: x.up[1], MustClear: true})
		}
		effs = append(effs, dl.Effect{Kind: "set", Call: x.up[0], Ret: x.up[1], Dmin: x.up[0] + K2, Dmax: x.up[1] + K2})
		k = K2
	} else if x.hs.Kind == "ws" {
		return effs
	}
	for _, th := range x.handler {
		e := dl.Effect{Kind: "set", Call: th, Ret: dl.Inf, Dmin: th + k}
		if x.cfg.Mode == "blocking" {
			// one goroutine reads, handles and renews in turn and the deadline
			// only matters inside its next Read: the renewal is in effect
			// before the connection can time out again
			e.Ret = th
			e.Dmax = th + k
		} else {
			for _, tj := range x.jobs {
				if tj >= th {
					e.Ret = tj
					e.Dmax = tj + k
					break
				}
			}
			if e.Ret == dl.Inf {
				e.Dmax = dl.Inf
			}
		}
		effs = append(effs, e)
	}
	return effs
}

func (x *arun) run(r *h.Run, e *appEnv, mon *dl.Monitor) {
	defer atomic.AddInt64(&progress, 1)
	feat, mode := x.label()
	tDial := dl.Now()
	c, err := net.DialTimeout("tcp", e.addr, 5*time.Second)
	if err != nil {
		x.incon = "dial: " + err.Error()
		return
	}
	defer c.Close()
	me := c.LocalAddr().String()
	e.byRem.Store(me, x)
	o := e.waitOpen(me, 10*time.Second)
	if o == nil {
		x.incon = "accept not observed"
		return
	}
	x.srv = o.c
	e.bySrv.Store(o.c, x)
	// witness: the listener goroutine accepts sequentially, so once a LATER
	// connection was reported, the accept path of ours (including its
	// SetReadDeadline(now+KeepaliveTime)) has returned
	w, err := net.DialTimeout("tcp", e.addr, 5*time.Second)
	if err != nil {
		x.incon = "witness dial: " + err.Error()
		return
	}
	wo := e.waitOpen(w.LocalAddr().String(), 10*time.Second)
	_ = w.Close()
	if wo == nil || wo.seq <= o.seq {
		x.incon = "witness accept not observed"
		return
	}
	tWit := wo.t
	x.logf("client: connected (dial began %s, accept path returned by %s)", dl.Ms(tDial), dl.Ms(tWit))

	br := bufio.NewReader(c)
	var tEOF int64
	var eofErr error
	sent := 0
	unanswered := false
	request := func(line string) (*http.Response, bool) {
		_ = c.SetDeadline(time.Now().Add(3 * time.Second))
		if _, err := c.Write([]byte(line)); err != nil {
			tEOF, eofErr = dl.Now(), err
			return nil, false
		}
		resp, err := http.ReadResponse(br, nil)
		if err != nil {
			if isTimeout(err) {
				// neither an answer nor a close: the silent phase below decides
				// whether the server abandoned the connection without closing it
				unanswered = true
				x.logf("client: no response within 3 s")
				x.shape = append(x.shape, "(unanswered)")
				return nil, false
			}
			tEOF, eofErr = dl.Now(), err
			return nil, false
		}
		if resp.StatusCode != 101 {
			_, err = io.ReadAll(resp.Body)
			resp.Body.Close()
			if err != nil {
				tEOF, eofErr = dl.Now(), err
				return nil, false
			}
		}
		return resp, true
	}
	ok := true
	if x.hs.Kind == "ws" {
		resp, good := request("GET /ws HTTP/1.1\r\nHost: t\r\nUpgrade: websocket\r\nConnection: Upgrade\r\nSec-WebSocket-Key: " + wsKey + "\r\nSec-WebSocket-Version: 13\r\n\r\n")
		ok = good
		if good && resp.StatusCode != 101 {
			x.incon = fmt.Sprintf("upgrade answered %d", resp.StatusCode)
			return
		}
		x.shape = append(x.shape, "upgrade")
	}
	for i := 0; ok && i < x.hs.N && x.incon == ""; i++ {
		time.Sleep(time.Duration(x.hs.Gaps[i]) * time.Millisecond)
		if x.hs.Kind == "ws" {
			x.logf("client: sends message %d", i)
			frame := maskedText([]byte(fmt.Sprintf("m%d-%d", x.hs.Index, i)), [4]byte{1, 2, 3, byte(i)})
			if x.hs.Index%4 == 3 && i > 0 {
				// control frames are messages too: a ping must renew the keep-alive deadline
				frame[0] = 0x89
				x.shape = append(x.shape, "ping")
			}
			if _, err := c.Write(frame); err != nil {
				tEOF, eofErr = dl.Now(), err
				ok = false
			}
			x.shape = append(x.shape, "msg")
		} else {
			x.logf("client: sends request %d", i)
			_, ok = request(fmt.Sprintf("GET /r?%d-%d HTTP/1.1\r\nHost: t\r\n\r\n", x.hs.Index, i))
			x.shape = append(x.shape, "req")
		}
		if ok {
			sent++
		}
	}
	if x.incon != "" {
		return
	}
	if x.hs.Edge {
		x.shape = append(x.shape, "(last at the old deadline)")
	}
	// ---- silence: wait for the server to close
	waitEOF := func(until int64) bool {
		if tEOF != 0 {
			return true
		}
		buf := make([]byte, 512)
		for {
			_ = c.SetReadDeadline(dl.Time(until))
			_, err := br.Read(buf)
			if err == nil {
				continue // e.g. a WebSocket close frame before the FIN
			}
			if isTimeout(err) {
				return false
			}
			tEOF, eofErr = dl.Now(), err
			return true
		}
	}
	// first guess of the upper bound; refined with the server-side stamps below
	K := int64(x.cfg.K) * 1e6
	if x.hs.Kind == "ws" {
		if k2 := int64(x.cfg.K2) * 1e6; k2 > K {
			K = k2
		}
	}
	// for a WebSocket connection the last message may still be in flight to its
	// handler: give the stamps a moment (the deadline is >= 200 ms away)
	time.Sleep(20 * time.Millisecond)
	effs := x.effects(tDial, tWit)
	st := dl.Final(effs)
	ub := st.UB
	if st.Armed != dl.Yes || ub == dl.Inf || ub == 0 {
		// the last renewal was not witnessed (yet): bound it by now
		ub = dl.Now() + K
	}
	if n := dl.Now(); ub < n {
		ub = n // an unanswered request already consumed the window: measure from now
	}
	c0 := dl.NewControl(ub)
	got := waitEOF(ub + slack + int64(maxCtlLate))
	l, fired := c0.Late()
	r.Max("max_control_lateness_ms", l.Milliseconds())
	effs = x.effects(tDial, tWit)
	if st2 := dl.Final(effs); st2.Armed == dl.Yes && st2.UB != dl.Inf && st2.UB > ub {
		// a renewal was witnessed after the first guess (message handled late)
		ub = st2.UB
		if !got {
			got = waitEOF(ub + slack + int64(maxCtlLate))
		}
	}
	x.mu.Lock()
	var sc *closeEv
	if len(x.sclose) > 0 {
		sc = &x.sclose[0]
	}
	nJobs := len(x.jobs)
	nH := len(x.handler)
	x.mu.Unlock()
	_ = nJobs
	r.Count("app_handlers_seen", int64(nH))

	if got {
		x.logf("client: read ended with %v", eofErr)
		// ---- never early
		t := tEOF
		if sc != nil && sc.T < t {
			t = sc.T
		}
		if dl.Final(effs).Armed == dl.No && (sc == nil || !(errors.Is(sc.Err, nbio.ErrReadTimeout) || isTimeout(sc.Err))) {
			// no deadline is armed and the close is not a timeout: not a deadline matter
			x.incon = fmt.Sprintf("WebSocket keep-alive disabled, connection ended with %v / server %s (no timeout)", eofErr, scString(sc))
			return
		}
		v := dl.CheckTimeoutClose(effs, t)
		if v.Symptom != "" {
			x.viol = append(x.viol, []string{"c16:" + feat + ":" + mode + ":closed-early",
				fmt.Sprintf("keep-alive %d ms (ws %d ms): %s; server-side close notification: %v; client saw %v at %s", x.cfg.K, x.cfg.K2, v.Detail, scString(sc), eofErr, dl.Ms(tEOF))})
			return
		}
		if v.Racy {
			r.Count("app_closes_governed_by_a_race_window", 1)
		}
		if unanswered {
			x.incon = "a request stayed unanswered for 3 s although the connection was closed only later"
			return
		}
		if tEOF <= ub+int64(l)+slack {
			x.outcome = "closed-on-time"
			x.decided = sent == x.hs.N || x.hs.Edge
			if sc != nil {
				switch {
				case errors.Is(sc.Err, nbio.ErrReadTimeout), isTimeout(sc.Err):
					r.Count("app_server_close_read_timeout", 1)
				default:
					r.Count("app_server_close_other_error", 1)
				}
			}
			return
		}
		if st.Armed == dl.No {
			// closed without a timeout (e.g. an error of the transport): nothing to decide here
			x.incon = fmt.Sprintf("WebSocket keep-alive disabled, connection ended with %v (no timeout)", eofErr)
			return
		}
		g := mon.MaxGap(ub, tEOF)
		if fired && l <= maxCtlLate && g <= maxMonGap && sc != nil && sc.T-ub > slack {
			x.viol = append(x.viol, []string{"c16:" + feat + ":" + mode + ":closed-late",
				fmt.Sprintf("keep-alive %d ms (ws %d ms): the last renewal was computed no later than %s, control timer for that deadline ran %v late, but the server closed at %s and the client saw the end at %s", x.cfg.K, x.cfg.K2, dl.Ms(ub), l, scString(sc), dl.Ms(tEOF))})
			return
		}
		x.incon = fmt.Sprintf("close seen %s after the keep-alive deadline, machine possibly starved (control late %v, gap %v)", dl.Ms(tEOF-ub), l, g)
		return
	}
	if st.Armed == dl.No && x.hs.Kind == "ws" && x.cfg.K2 == 0 && x.up[0] != 0 {
		// keep-alive disabled and the connection outlived every deadline that was ever armed
		// (the HTTP keep-alive from the accept, bounded by now+K when the wait began) plus slack
		x.outcome = "stayed-open(keep-alive disabled)"
		x.decided = true
		r.Count("app_ws_keepalive_disabled_stayed_open", 1)
		return
	}
	// ---- not closed: stuck-state confirmation at +5 s and +10 s
	c5 := dl.NewControl(ub + stuckFirst)
	late := func() {
		x.incon = fmt.Sprintf("close seen only %s after the keep-alive deadline", dl.Ms(tEOF-ub))
		l, fired = c0.Late()
		g := mon.MaxGap(ub, tEOF)
		if fired && l <= maxCtlLate && g <= maxMonGap {
			x.incon = ""
			x.viol = append(x.viol, []string{"c16:" + feat + ":" + mode + ":closed-late",
				fmt.Sprintf("keep-alive %d ms (ws %d ms): deadline upper bound %s, control timer ran %v late, the client saw the end of the connection only at %s (%v); server-side close notification: %s", x.cfg.K, x.cfg.K2, dl.Ms(ub), l, dl.Ms(tEOF), eofErr, scString(sc))})
		}
	}
	if waitEOF(ub + stuckFirst + int64(maxCtlLate)) {
		late()
		return
	}
	c10 := dl.NewControl(ub + stuckSecond)
	if waitEOF(ub + stuckSecond + int64(maxCtlLate)) {
		late()
		return
	}
	l, fired = c0.Late()
	l5, f5 := c5.Late()
	l10, f10 := c10.Late()
	x.mu.Lock()
	if len(x.sclose) > 0 {
		sc = &x.sclose[0]
	}
	x.mu.Unlock()
	// is the server's descriptor really still open?
	open := "unknown"
	if nc, isNb := x.srv.(*nbio.Conn); isNb {
		cl, _ := nc.IsClosed()
		open = fmt.Sprintf("IsClosed=%v", cl)
	} else if x.srv != nil {
		if err := x.srv.SetWriteDeadline(time.Time{}); err == nil {
			open = "yes (SetWriteDeadline on the server connection still succeeds)"
		} else {
			open = "no (" + err.Error() + ")"
		}
	}
	if fired && f5 && f10 && l <= maxCtlLate && l5 <= maxCtlLate && l10 <= maxCtlLate {
		x.outcome = "never-closed"
		x.viol = append(x.viol, []string{"c16:" + feat + ":" + mode + ":never-closed",
			fmt.Sprintf("keep-alive %d ms (ws %d ms): every renewal was computed no later than %s, yet the client still sees an open connection 5 s and 10 s later (control timers for the deadline, +5 s, +10 s ran %v / %v / %v late). Server-side close notification: %s. Server descriptor still open: %s", x.cfg.K, x.cfg.K2, dl.Ms(ub), l, l5, l10, scString(sc), open)})
		return
	}
	x.incon = fmt.Sprintf("no close 10 s after the keep-alive deadline but control timers were late (%v/%v/%v)", l, l5, l10)
}

func scString(sc *closeEv) string {
	if sc == nil {
		return "none"
	}
	return fmt.Sprintf("err=%v at %s", sc.Err, dl.Ms(sc.T))
}

func runAppBatch(r *h.Run, cfg appCfg, hists []appHist, mon *dl.Monitor) {
	r.Eval(len(hists))
	e, err := newAppEnv(cfg)
	if err != nil {
		r.Inconclusive(fmt.Sprintf("app batch %+v: engine start: %v", cfg, err))
		return
	}
	defer e.stop()
	var runs []*arun
	var wg sync.WaitGroup
	for _, hs := range hists {
		x := &arun{cfg: cfg, hs: hs}
		runs = append(runs, x)
		wg.Add(1)
		go func(x *arun) {
			defer wg.Done()
			x.run(r, e, mon)
		}(x)
		time.Sleep(2 * time.Millisecond)
	}
	wg.Wait()
	for _, x := range runs {
		feat, mode := x.label()
		sh := feat + "/" + mode + ":" + strings.Join(x.shape, ",")
		if x.outcome != "" {
			sh += "|" + x.outcome
		}
		r.Seen("history_shapes", sh)
		r.Seen("cells", feat+"/"+mode)
		for _, v := range x.viol {
			r.Violate(v[0], v[1]+"\n"+x.dump(), appCase{cfg, x.hs})
		}
		if x.incon != "" {
			r.Inconclusive(fmt.Sprintf("app history %d (%s): %s", x.hs.Index, sh, x.incon))
			r.Count("histories_inconclusive", 1)
			continue
		}
		if x.decided {
			r.Nontrivial(fmt.Sprintf("app-%d", x.hs.Index))
			r.Count("outcome_"+feat+"_"+x.outcome, 1)
		}
	}
}
