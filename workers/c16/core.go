package main

import (
	"errors"
	"fmt"
	"math/rand"
	"net"
	"os"
	"sort"
	"strings"
	"sync"
	"sync/atomic"
	"time"

	"github.com/lesismal/nbio"

	"verif/internal/dl"
	"verif/internal/h"
	"verif/internal/outb"
)

// ---------------------------------------------------------------- cases

// opT is one step of a history.
//
//	R W B          Set{Read,Write,}Deadline(now + D ms)
//	cR cW cB       the same call with the zero time (clear)
//	data           the peer sends a few bytes (does not renew anything)
//	dataR          the peer sends a few bytes and the OnData handler calls SetReadDeadline(now + D ms)
//	write          the application writes a few bytes (empties the backlog => clears the write timer)
//	close          application Close()
//	pclose         the peer closes
//	race           two goroutines issue (K, D) and (K2, D2) at the same time
type opT struct {
	K     string `json:"k"`
	D     int    `json:"d,omitempty"`
	K2    string `json:"k2,omitempty"`
	D2    int    `json:"d2,omitempty"`
	Gap   int    `json:"gap"`               // ms slept before the step
	Edge  bool   `json:"edge,omitempty"`    // instead of Gap: sleep until the earliest armed deadline + EdgeUs
	EdgeU int    `json:"edge_us,omitempty"` // microseconds relative to that deadline (mostly negative)
}

type histT struct {
	Dialed bool   `json:"dialed,omitempty"` // the nbio side is a DialAsync connection and the first Set*Deadline is issued inside the dial callback
	Index  int    `json:"index"`
	Shape  string `json:"shape"` // plain | backlog-fire | backlog-drain-write | backlog-drain-only
	Ops    []opT  `json:"ops"`
	D      int    `json:"d,omitempty"`                       // backlog shapes: write deadline in ms
	Pre    string `json:"deadline_before_backlog,omitempty"` // backlog-fire: "" | Write | Writev - the deadline is set on the idle connection, then ONE call leaves the backlog
}

type coreCase struct {
	Cfg  outb.Cfg `json:"cfg"`
	Hist histT    `json:"hist"`
}

const batchSize = 100

var nets = []string{"tcp", "unix"}
var modes = []string{"LT", "ET", "ONESHOT"}

func batchCfg(b int) outb.Cfg {
	return outb.Cfg{Net: nets[b%2], Mode: modes[(b/2)%3], NPoller: 1 + (b/6)%2}
}

func dur(rng *rand.Rand) int { return 50 + rng.Intn(351) }

func genHist(r *h.Run, idx int) histT {
	rng := r.Rand("c16-core", idx)
	hs := histT{Index: idx, Shape: "plain"}
	switch idx % 25 {
	case 7:
		hs.Shape = "backlog-fire"
		hs.D = 60 + rng.Intn(300)
		hs.Pre = []string{"", "Writev", "Write"}[(idx/25)%3]
		return hs
	case 13:
		hs.Shape = "backlog-drain-write"
		hs.D = 350 + rng.Intn(300)
		return hs
	case 19:
		hs.Shape = "backlog-drain-only"
		hs.D = 250 + rng.Intn(300)
		return hs
	case 22:
		// the backlog is a file range only (Sendfile to a peer that does not read); writes that
		// add nothing follow the deadline: they do not empty the backlog, the deadline stands
		hs.Shape = "file-backlog-fire"
		hs.D = 60 + rng.Intn(300)
		return hs
	}
	hs.Dialed = idx%6 == 4
	n := 1 + rng.Intn(8)
	sets := []string{"R", "W", "B"}
	// a history is biased towards one direction so that renew/clear sequences
	// on the same timer are common
	fav := sets[rng.Intn(3)]
	pick := func() string {
		if rng.Intn(3) != 0 {
			return fav
		}
		return sets[rng.Intn(3)]
	}
	closed := false
	for i := 0; i < n; i++ {
		op := opT{Gap: rng.Intn(151)}
		if rng.Intn(2) == 0 {
			op.Gap = rng.Intn(50)
		}
		x := rng.Intn(100)
		switch {
		case i == 0 || x < 38:
			op.K, op.D = pick(), dur(rng)
			if rng.Intn(40) == 0 {
				op.D = -rng.Intn(20) // already expired
			}
		case x < 52:
			op.K = "c" + pick()
		case x < 60:
			op.K = "data"
		case x < 70:
			op.K, op.D = "dataR", dur(rng)
		case x < 82:
			op.K = "write"
		case x < 86:
			op.K = "close"
		case x < 90:
			op.K = "pclose"
		default:
			k1 := pick()
			k2 := k1 // the same call from both goroutines
			if rng.Intn(2) == 0 {
				k2 = pick()
			}
			op.D, op.D2 = dur(rng), dur(rng)
			if rng.Intn(3) == 0 {
				k2, op.D2 = "c"+k2, 0
			}
			op.K, op.K2 = "race:"+k1, k2
		}
		// renewals/clears aimed at the instant the current deadline fires
		if i > 0 && !closed && rng.Intn(6) == 0 && (op.K == "R" || op.K == "W" || op.K == "B" || strings.HasPrefix(op.K, "c") && op.K != "close") {
			op.Edge = true
			op.EdgeU = -45000 + rng.Intn(50000)
		}
		if op.K == "close" || op.K == "pclose" {
			closed = true
		}
		hs.Ops = append(hs.Ops, op)
	}
	return hs
}

// ---------------------------------------------------------------- running

type closeEv struct {
	T   int64
	Err error
}

type hrun struct {
	firstInDialCb bool
	cfg           outb.Cfg
	hs            histT
	srv           *nbio.Conn
	peer          net.Conn

	mu     sync.Mutex
	eff    [2][]dl.Effect // 0 read, 1 write
	closes []closeEv
	log    []string
	maxD   int64
	tdown  int64 // clock at close.beforeTeardown (closed flag just published), 0 = not seen
	// backlog shapes: queued bytes when the connection was torn down
	bkAtClose int
	notes     []string // evidence counters to bump at the end

	closedCh chan struct{}
	closedFl int32
	action   int32 // pending OnData renewal: D ms + 1<<20, 0 = none
	handled  chan struct{}
	gate     chan struct{}
	peerRecv int64
	peerEOF  int64

	appClose  int64
	peerClose int64
	endClose  int64
	incon     string
	shape     []string
	outcome   string
	decided   bool
	nSets     int
	expFire   bool
}

var progress int64

func dirName(d int) string {
	if d == 0 {
		return "read"
	}
	return "write"
}

func (x *hrun) logf(f string, a ...interface{}) {
	x.mu.Lock()
	if len(x.log) < 200 {
		x.log = append(x.log, fmt.Sprintf("%s ", dl.Ms(dl.Now()))+fmt.Sprintf(f, a...))
	}
	x.mu.Unlock()
}

func (x *hrun) isClosed() bool { return atomic.LoadInt32(&x.closedFl) != 0 }

// onClose runs inside the engine's close callback.
func (x *hrun) onClose(err error) {
	t := dl.Now()
	x.mu.Lock()
	x.closes = append(x.closes, closeEv{T: t, Err: err})
	first := len(x.closes) == 1
	x.mu.Unlock()
	x.logf("OnClose err=%v (stamp %s)", err, dl.Ms(t))
	atomic.AddInt64(&progress, 1)
	if first {
		atomic.StoreInt32(&x.closedFl, 1)
		close(x.closedCh)
	}
}

type part struct {
	dirs []int
	e    dl.Effect
}

// call issues one Set*Deadline call (kind R|W|B|cR|cW|cB) and returns what it
// did, stamped on both sides.
func (x *hrun) call(kind string, dms int, who string) part {
	clr := strings.HasPrefix(kind, "c")
	k := strings.TrimPrefix(kind, "c")
	var D time.Time
	call := dl.Now()
	if !clr {
		D = time.Now().Add(time.Duration(dms) * time.Millisecond)
	}
	switch k {
	case "R":
		_ = x.srv.SetReadDeadline(D)
	case "W":
		_ = x.srv.SetWriteDeadline(D)
	default:
		_ = x.srv.SetDeadline(D)
	}
	ret := dl.Now()
	p := part{}
	switch k {
	case "R":
		p.dirs = []int{0}
		k = "Read"
	case "W":
		p.dirs = []int{1}
		k = "Write"
	default:
		p.dirs = []int{0, 1}
		k = ""
	}
	if clr {
		p.e = dl.Effect{Kind: "clear", Call: call, Ret: ret, MustClear: true}
		x.logf("%s: Set%sDeadline(zero) call=%s ret=%s", who, k, dl.Ms(call), dl.Ms(ret))
	} else {
		d := dl.At(D)
		p.e = dl.Effect{Kind: "set", Call: call, Ret: ret, Dmin: d, Dmax: d}
		x.logf("%s: Set%sDeadline(now%+dms = %s) call=%s ret=%s", who, k, dms, dl.Ms(d), dl.Ms(call), dl.Ms(ret))
		x.mu.Lock()
		if d > x.maxD {
			x.maxD = d
		}
		x.nSets++
		x.mu.Unlock()
	}
	return p
}

func (x *hrun) record(parts ...part) {
	x.mu.Lock()
	defer x.mu.Unlock()
	for dir := 0; dir < 2; dir++ {
		var ps []dl.Effect
		for _, p := range parts {
			for _, d := range p.dirs {
				if d == dir {
					ps = append(ps, p.e)
				}
			}
		}
		if len(ps) > 0 {
			x.eff[dir] = append(x.eff[dir], dl.Compound(ps))
		}
	}
}

func (x *hrun) states() (dl.State, dl.State) {
	x.mu.Lock()
	defer x.mu.Unlock()
	return dl.Final(x.eff[0]), dl.Final(x.eff[1])
}

// onData runs on the engine's goroutine.
func (x *hrun) onData(c *nbio.Conn, b []byte) {
	if a := atomic.SwapInt32(&x.action, 0); a != 0 {
		x.record(x.call("R", int(a)-(1<<20), "OnData"))
	}
	select {
	case x.handled <- struct{}{}:
	default:
	}
}

func (x *hrun) peerReader(gate chan struct{}) {
	if gate != nil {
		<-gate
	}
	buf := make([]byte, 32<<10)
	for {
		n, err := x.peer.Read(buf)
		if n > 0 {
			atomic.AddInt64(&x.peerRecv, int64(n))
		}
		if err != nil {
			atomic.StoreInt64(&x.peerEOF, dl.Now())
			return
		}
	}
}

func (x *hrun) waitHandled() {
	select {
	case <-x.handled:
	case <-x.closedCh:
	case <-time.After(3 * time.Second):
		if !x.isClosed() {
			x.incon = "OnData was not observed within 3 s after the peer wrote"
		}
	}
}

func (x *hrun) smallWrite(rng *rand.Rand) {
	b := make([]byte, 16+rng.Intn(400))
	before := nbio.VerifBacklog(x.srv)
	api := "Write"
	call := dl.Now()
	var n int
	var err error
	if rng.Intn(3) == 0 {
		api = "Writev"
		n, err = x.srv.Writev([][]byte{b[:len(b)/2], b[len(b)/2:]})
	} else {
		n, err = x.srv.Write(b)
	}
	ret := dl.Now()
	after := nbio.VerifBacklog(x.srv)
	if err != nil || n != len(b) {
		x.logf("%s(%d) = %d, %v", api, len(b), n, err)
		return
	}
	if before.Entries == 0 && after.Entries == 0 && !before.Closed {
		// the only writer is this goroutine and the queue was empty before and
		// after: the call ended with an empty backlog, which cancels the write timer
		x.record(part{dirs: []int{1}, e: dl.Effect{Kind: "wclear", Call: call, Ret: ret, MustClear: true}})
		x.logf("%s(%d) returned with an empty backlog call=%s ret=%s", api, len(b), dl.Ms(call), dl.Ms(ret))
		r := "write_emptied_backlog_via_" + api
		x.mu.Lock()
		x.notes = append(x.notes, r)
		x.mu.Unlock()
	} else {
		x.record(part{dirs: []int{1}, e: dl.Effect{Kind: "wmaybe", Call: call, Ret: ret, Keep: true}})
		x.logf("%s(%d) backlog entries before=%d after=%d (no claim)", api, len(b), before.Entries, after.Entries)
	}
}

// fill writes until a backlog exists (the peer is not reading).
func (x *hrun) fill() (int64, bool) {
	var total int64
	chunk := make([]byte, 128<<10)
	for total < 64<<20 {
		n, err := x.srv.Write(chunk)
		if err != nil || n != len(chunk) {
			return total, false
		}
		total += int64(n)
		if bk := nbio.VerifBacklog(x.srv); bk.Entries > 0 && bk.BufBytes >= 256<<10 {
			x.logf("backlog: %d bytes in %d entries after %d bytes written", bk.BufBytes, bk.Entries, total)
			return total, true
		}
	}
	return total, false
}

// fillFile queues a file range behind an empty queue (the peer is not reading): the backlog holds
// no buffer bytes at all.
func (x *hrun) fillFile() (int64, bool) {
	f, err := os.CreateTemp("", "vc16")
	if err != nil {
		return 0, false
	}
	defer os.Remove(f.Name())
	defer f.Close()
	const size = 16 << 20
	if err := f.Truncate(size); err != nil {
		return 0, false
	}
	n, err := x.srv.Sendfile(f, size)
	if err != nil || n != size {
		return n, false
	}
	bk := nbio.VerifBacklog(x.srv)
	x.logf("file backlog: %d file bytes, %d buffer bytes in %d entries", bk.FileBytes, bk.BufBytes, bk.Entries)
	return n, bk.FileBytes > 0 && bk.BufBytes == 0
}

func (x *hrun) runOps(rng *rand.Rand) {
	defer atomic.AddInt64(&progress, 1)
	switch x.hs.Shape {
	case "file-backlog-fire":
		total, ok := x.fillFile()
		if !ok {
			x.incon = fmt.Sprintf("no file-only backlog after Sendfile of %d bytes", total)
			return
		}
		x.shape = append(x.shape, "file-backlog", "W", "empty-writes")
		x.record(x.call("W", x.hs.D, "app"))
		// nothing is added, nothing is emptied: the write deadline stands
		_, _ = x.srv.Write(nil)
		_, _ = x.srv.Writev([][]byte{{}, {}})
		_, _ = x.srv.Write([]byte{})
		return
	case "backlog-fire", "backlog-drain-write", "backlog-drain-only":
		if x.hs.Shape == "backlog-fire" && x.hs.Pre != "" {
			// the write deadline is pending on an idle connection; one call the kernel takes only partly
			// leaves a backlog: that call did not empty the backlog, so the deadline stands and fires
			x.shape = append(x.shape, "W", "backlog-by-one-"+x.hs.Pre)
			x.record(x.call("W", x.hs.D, "app"))
			big := make([]byte, 8<<20)
			var n int
			var err error
			if x.hs.Pre == "Writev" {
				n, err = x.srv.Writev([][]byte{big[:3<<20], big[3<<20:]})
			} else {
				n, err = x.srv.Write(big)
			}
			bk := nbio.VerifBacklog(x.srv)
			x.logf("%s(%d) = %d, %v; backlog %d bytes in %d entries", x.hs.Pre, len(big), n, err, bk.BufBytes, bk.Entries)
			if err != nil || n != len(big) || bk.Entries == 0 {
				x.incon = fmt.Sprintf("no backlog after one %s of %d bytes (n=%d err=%v)", x.hs.Pre, len(big), n, err)
			}
			return
		}
		total, ok := x.fill()
		if !ok {
			x.incon = fmt.Sprintf("no backlog after %d bytes", total)
			return
		}
		x.shape = append(x.shape, "backlog", "W")
		x.record(x.call("W", x.hs.D, "app"))
		_, w := x.states()
		if x.hs.Shape == "backlog-fire" {
			return
		}
		close(x.gate)
		x.gate = nil
		x.shape = append(x.shape, "drain")
		// wait until the peer holds every byte: then the kernel buffers are empty
		for atomic.LoadInt64(&x.peerRecv) < total && !x.isClosed() && dl.Now() < w.LB-int64(60*time.Millisecond) {
			time.Sleep(time.Millisecond)
		}
		drained := atomic.LoadInt64(&x.peerRecv) >= total
		x.logf("peer received %d of %d", atomic.LoadInt64(&x.peerRecv), total)
		if x.hs.Shape == "backlog-drain-write" && drained && !x.isClosed() {
			x.shape = append(x.shape, "write")
			x.smallWrite(rng)
		} else if drained {
			// flush alone emptied the backlog: the implementation keeps the write
			// timer armed; the statement does not say - accept both outcomes
			x.record(part{dirs: []int{1}, e: dl.Effect{Kind: "wmaybe", Call: dl.Now(), Ret: dl.Now(), Keep: true}})
		}
		return
	}
	writes := 0
	for i, op := range x.hs.Ops {
		if i == 0 && x.firstInDialCb {
			continue
		}
		closed := x.isClosed()
		if !closed {
			if op.Edge {
				rs, ws := x.states()
				tgt := dl.Inf
				if rs.Armed != dl.No && rs.LB < tgt {
					tgt = rs.LB
				}
				if ws.Armed != dl.No && ws.LB < tgt {
					tgt = ws.LB
				}
				if tgt != dl.Inf && tgt-dl.Now() < int64(500*time.Millisecond) {
					dl.SleepUntil(tgt + int64(op.EdgeU)*1000)
				} else {
					time.Sleep(time.Duration(op.Gap) * time.Millisecond)
				}
			} else {
				time.Sleep(time.Duration(op.Gap) * time.Millisecond)
			}
		}
		closed = x.isClosed()
		lab := op.K
		switch {
		case op.K == "R" || op.K == "W" || op.K == "B":
			rs, ws := x.states()
			x.record(x.call(op.K, op.D, "app"))
			// label renewals: + later, - earlier than what was armed
			for _, d := range dirsOf(op.K) {
				st := rs
				if d == 1 {
					st = ws
				}
				if st.Armed != dl.No {
					rs2, ws2 := x.states()
					st2 := rs2
					if d == 1 {
						st2 = ws2
					}
					if st2.UB >= st.UB {
						lab = op.K + "+"
					} else {
						lab = op.K + "-"
					}
				}
			}
		case op.K == "cR" || op.K == "cW" || op.K == "cB":
			x.record(x.call(op.K, 0, "app"))
		case strings.HasPrefix(op.K, "race:"):
			k1 := strings.TrimPrefix(op.K, "race:")
			var p1, p2 part
			start := make(chan struct{})
			var wg sync.WaitGroup
			wg.Add(2)
			go func() { defer wg.Done(); <-start; p1 = x.call(k1, op.D, "g1") }()
			go func() { defer wg.Done(); <-start; p2 = x.call(op.K2, op.D2, "g2") }()
			close(start)
			wg.Wait()
			x.record(p1, p2)
			lab = "race(" + k1 + "," + op.K2 + ")"
		case op.K == "data":
			if closed {
				continue
			}
			drain(x.handled)
			if _, err := x.peer.Write([]byte("ping-" + fmt.Sprint(i))); err == nil {
				x.logf("peer wrote")
				x.waitHandled()
			}
		case op.K == "dataR":
			if closed {
				continue
			}
			drain(x.handled)
			atomic.StoreInt32(&x.action, int32(op.D+(1<<20)))
			if _, err := x.peer.Write([]byte("renew-" + fmt.Sprint(i))); err == nil {
				x.logf("peer wrote (handler renews)")
				x.waitHandled()
			}
			atomic.StoreInt32(&x.action, 0)
		case op.K == "write":
			if closed || writes >= 4 {
				continue
			}
			writes++
			x.smallWrite(rng)
		case op.K == "close":
			if x.appClose == 0 {
				x.appClose = dl.Now()
				x.logf("app Close()")
				_ = x.srv.Close()
			}
		case op.K == "pclose":
			if x.peerClose == 0 {
				x.peerClose = dl.Now()
				x.logf("peer Close()")
				_ = x.peer.Close()
				// the close notification follows the EOF; wait for it so that the
				// following steps are ordered after it (bounded: it is not our property)
				select {
				case <-x.closedCh:
				case <-time.After(3 * time.Second):
				}
			}
		}
		if closed {
			lab = "(" + lab + ")"
		}
		x.shape = append(x.shape, lab)
		atomic.AddInt64(&progress, 1)
		if x.incon != "" {
			return
		}
	}
}

func dirsOf(k string) []int {
	switch strings.TrimPrefix(k, "c") {
	case "R":
		return []int{0}
	case "W":
		return []int{1}
	}
	return []int{0, 1}
}

func drain(c chan struct{}) {
	for {
		select {
		case <-c:
		default:
			return
		}
	}
}

// waitClosed waits for the first close notification until the harness clock
// reads `until`.
func (x *hrun) waitClosed(until int64) bool {
	d := until - dl.Now()
	if d <= 0 {
		return x.isClosed()
	}
	tm := time.NewTimer(time.Duration(d))
	defer tm.Stop()
	select {
	case <-x.closedCh:
		return true
	case <-tm.C:
		return x.isClosed()
	}
}

const (
	slack       = int64(time.Second)
	maxCtlLate  = 500 * time.Millisecond
	negMargin   = int64(300 * time.Millisecond)
	maxMonGap   = 250 * time.Millisecond
	stuckFirst  = int64(5 * time.Second)
	stuckSecond = int64(10 * time.Second)
)

// final waits for the history's last event and decides the liveness side.
func (x *hrun) final(r *h.Run, mon *dl.Monitor) {
	rs, ws := x.states()
	if x.isClosed() {
		return
	}
	ub := dl.Inf
	which := ""
	if rs.Armed == dl.Yes {
		ub, which = rs.UB, "read"
	}
	if ws.Armed == dl.Yes {
		if ws.UB < ub {
			ub, which = ws.UB, "write"
		} else if ws.UB == ub {
			which = "both"
		}
	}
	if ub == dl.Inf {
		// nothing is certainly armed: the connection must survive every deadline
		// that was ever set (negative observation bounded by a margin)
		x.mu.Lock()
		end := x.maxD
		x.mu.Unlock()
		if end < dl.Now() {
			end = dl.Now()
		}
		c0 := dl.NewControl(end)
		closed := x.waitClosed(end + negMargin)
		if closed {
			return // the lower-bound oracle judges the close
		}
		l, fired := c0.Late()
		r.Max("max_control_lateness_ms", l.Milliseconds())
		if !fired || int64(l) > negMargin/2 {
			x.incon = fmt.Sprintf("survival window not trustworthy: control timer late by %v (fired=%v)", l, fired)
			return
		}
		x.outcome = "survive"
		if rs.Armed == dl.Maybe || ws.Armed == dl.Maybe {
			x.outcome = "survive(either)"
		}
		x.decided = true
		return
	}
	x.expFire = true
	c0 := dl.NewControl(ub)
	closed := x.waitClosed(ub + slack + int64(maxCtlLate))
	l, fired := c0.Late()
	r.Max("max_control_lateness_ms", l.Milliseconds())
	tc := x.closeTime()
	if closed && tc != 0 && (tc <= ub+int64(l)+slack) {
		x.decided = true
		return
	}
	late := func(tc int64) {
		l, fired = c0.Late()
		g := mon.MaxGap(ub, tc)
		if fired && l <= maxCtlLate && g <= maxMonGap {
			r.Violate("c16:"+which+":fired-late", fmt.Sprintf("deadline upper bound %s, control timer for the same instant ran %v late, but the close notification arrived at %s (%s after the bound); longest scheduling gap seen in between %v\n%s", dl.Ms(ub), l, dl.Ms(tc), dl.Ms(tc-ub), g, x.dump()), coreCase{x.cfg, x.hs})
		} else {
			x.incon = fmt.Sprintf("close %s after the deadline but the machine was starved (control late %v fired=%v, scheduling gap %v)", dl.Ms(tc-ub), l, fired, g)
		}
	}
	if closed && tc != 0 {
		late(tc)
		return
	}
	// not closed: confirm the stuck state at +5 s and +10 s with control timers
	c5 := dl.NewControl(ub + stuckFirst)
	if x.waitClosed(ub + stuckFirst + int64(maxCtlLate)) {
		late(x.closeTime())
		return
	}
	c10 := dl.NewControl(ub + stuckSecond)
	if x.waitClosed(ub + stuckSecond + int64(maxCtlLate)) {
		late(x.closeTime())
		return
	}
	l, fired = c0.Late()
	l5, f5 := c5.Late()
	l10, f10 := c10.Late()
	cl, _ := x.srv.IsClosed()
	bk := nbio.VerifBacklog(x.srv)
	if fired && f5 && f10 && l <= maxCtlLate && l5 <= maxCtlLate && l10 <= maxCtlLate && !cl && !bk.Closed {
		r.Violate("c16:"+which+":never-fired", fmt.Sprintf("deadline upper bound %s: no close notification at +5 s and at +10 s while control timers for the deadline, +5 s and +10 s ran %v / %v / %v late; the connection is still open (IsClosed=false, backlog entries=%d)\n%s", dl.Ms(ub), l, l5, l10, bk.Entries, x.dump()), coreCase{x.cfg, x.hs})
		x.outcome = "never-fired"
		return
	}
	x.incon = fmt.Sprintf("no close 10 s after the deadline but the predicate is not clean (control late %v/%v/%v, IsClosed=%v)", l, l5, l10, cl)
}

// closeTime is the earliest stamp of the connection being closed (0 = none).
func (x *hrun) closeTime() int64 {
	x.mu.Lock()
	defer x.mu.Unlock()
	var tc int64
	if len(x.closes) > 0 {
		tc = x.closes[0].T
	}
	if x.tdown != 0 && (tc == 0 || x.tdown < tc) {
		tc = x.tdown
	}
	return tc
}

func (x *hrun) dump() string {
	x.mu.Lock()
	defer x.mu.Unlock()
	return "history: " + strings.Join(x.shape, ",") + "\nevents:\n  " + strings.Join(x.log, "\n  ")
}

// judge applies the lower-bound / right-error / exactly-once oracles.
func (x *hrun) judge(r *h.Run) {
	cs := coreCase{x.cfg, x.hs}
	x.mu.Lock()
	closes := append([]closeEv(nil), x.closes...)
	effs := [2][]dl.Effect{append([]dl.Effect(nil), x.eff[0]...), append([]dl.Effect(nil), x.eff[1]...)}
	tdown := x.tdown
	x.mu.Unlock()
	for d := range effs {
		sort.SliceStable(effs[d], func(i, j int) bool { return effs[d][i].Call < effs[d][j].Call })
	}
	if x.incon != "" {
		return // the recorded order of events is not trustworthy (see incon)
	}
	if len(closes) == 0 {
		if x.incon == "" {
			x.incon = "no close notification at all after Close() (C03 matter)"
		}
		return
	}
	if len(closes) > 1 {
		var s []string
		for _, c := range closes {
			s = append(s, fmt.Sprintf("%s err=%v", dl.Ms(c.T), c.Err))
		}
		r.Violate("c16:second-close-notification", fmt.Sprintf("%d close notifications for one connection: %s\n%s", len(closes), strings.Join(s, "; "), x.dump()), cs)
		return
	}
	c := closes[0]
	dir := -1
	switch {
	case errors.Is(c.Err, nbio.ErrReadTimeout):
		dir = 0
	case errors.Is(c.Err, nbio.ErrWriteTimeout):
		dir = 1
	}
	if dir < 0 {
		switch {
		case x.appClose != 0 && c.T >= x.appClose:
			x.outcome = "app-close"
			r.Count("closes_app", 1)
			x.decided = x.incon == ""
		case x.peerClose != 0 && c.T >= x.peerClose:
			x.outcome = "peer-close"
			r.Count("closes_peer", 1)
			x.decided = x.incon == ""
		case x.endClose != 0 && c.T >= x.endClose:
			// the harness closed a connection that had reached its final state
			// (survived every deadline, or never fired): final() decided
			r.Count("closes_by_harness_at_end", 1)
		case errors.Is(c.Err, nbio.ErrDialTimeout):
			// the callback has reported an established connection: the dial timeout cannot be
			// the cause any more - a deadline of the connection fired with the wrong error
			// (or the dial timer itself outlived the connect)
			r.Violate("c16:established-connection-closed-with-dial-timeout", fmt.Sprintf("a connection whose dial callback had reported success was closed with %v at %s; neither side closed it\n%s", c.Err, dl.Ms(c.T), x.dump()), cs)
		default:
			x.outcome = "other-close"
			r.Count("closes_other", 1)
			if x.incon == "" {
				x.incon = fmt.Sprintf("connection closed with %v although neither side closed it", c.Err)
			}
		}
		return
	}
	r.Count("closes_"+dirName(dir)+"_timeout", 1)
	if dir == 1 && x.hs.Shape == "backlog-drain-only" && x.bkAtClose == 0 {
		// not asserted either way (the statement names only "a write that
		// empties the backlog"): the poller's flush alone does not cancel
		r.Count("write_timeouts_after_flush_alone_emptied_the_backlog(unasserted)", 1)
	}
	if dir == 1 && x.bkAtClose > 0 {
		r.Count("write_timeouts_with_backlog_pending", 1)
		r.Max("max_backlog_at_write_timeout", int64(x.bkAtClose))
	}
	x.outcome = "fire-" + dirName(dir)
	// the instant the connection was marked closed, as sharp as observed
	tc := c.T
	if tdown != 0 && tdown < tc {
		tc = tdown
	}
	v := dl.CheckTimeoutClose(effs[dir], tc)
	if v.Symptom == "" {
		if v.Racy {
			r.Count("timeout_closes_governed_by_a_race_window", 1)
		}
		x.decided = x.incon == ""
		return
	}
	x.decided = false
	sig := "c16:" + dirName(dir) + ":" + v.Symptom
	if v.Symptom == "timeout-without-deadline" {
		o := dl.CheckTimeoutClose(effs[1-dir], tc)
		if o.Symptom == "" {
			sig = "c16:" + dirName(1-dir) + ":wrong-error"
			v.Detail = fmt.Sprintf("only a %s deadline was pending (bound %s) but the connection was closed with %v", dirName(1-dir), dl.Ms(o.Bound), c.Err)
		}
	}
	r.Violate(sig, fmt.Sprintf("%s (error %v)\n%s", v.Detail, c.Err, x.dump()), cs)
}

// ---------------------------------------------------------------- batch

func runCoreBatch(r *h.Run, cfg outb.Cfg, hists []histT, mon *dl.Monitor) {
	r.Eval(len(hists))
	env, err := outb.NewEnv(cfg)
	if err != nil {
		r.Inconclusive(fmt.Sprintf("batch %s: engine start: %v", cfg.Cell(), err))
		return
	}
	defer env.Stop()
	var byConn sync.Map
	srvCh := make(chan *nbio.Conn, 4)
	env.OnOpen = func(c *nbio.Conn) { srvCh <- c }
	env.OnData = func(c *nbio.Conn, b []byte) {
		if v, ok := byConn.Load(c); ok {
			v.(*hrun).onData(c, b)
		}
	}
	env.OnCloseHook = func(c *nbio.Conn, err error) {
		if v, ok := byConn.Load(c); ok {
			v.(*hrun).onClose(err)
		}
	}
	// closeWithError (the path every timer takes) reports here right after it
	// published the closed flag: a sharper stamp than the asynchronous OnClose
	nbio.VerifSetPoint(func(name string, c *nbio.Conn) {
		if name != "close.beforeTeardown" {
			return
		}
		t := dl.Now()
		if v, ok := byConn.Load(c); ok {
			x := v.(*hrun)
			bkBytes := -1
			if x.hs.Shape != "plain" {
				// the queue is released only after this point
				bkBytes = nbio.VerifBacklog(c).BufBytes
			}
			x.mu.Lock()
			if x.tdown == 0 {
				x.tdown = t
				x.bkAtClose = bkBytes
			}
			x.mu.Unlock()
		}
	})
	defer nbio.VerifSetPoint(nil)
	var dialLn net.Listener
	if cfg.Net == "tcp" {
		if l, err := net.Listen("tcp", "127.0.0.1:0"); err == nil {
			dialLn = l
			defer l.Close()
		}
	}
	var runs []*hrun
	for _, hs := range hists {
		x := &hrun{cfg: cfg, hs: hs, closedCh: make(chan struct{}), handled: make(chan struct{}, 8)}
		var peer net.Conn
		if hs.Dialed && cfg.Net == "tcp" && hs.Shape == "plain" && len(hs.Ops) > 0 && dialLn != nil {
			// the nbio side dials a harness listener; the first Set*Deadline of the history is
			// issued inside the dial callback (where the engine is just done with its dial timer)
			done := make(chan error, 1)
			op0 := hs.Ops[0]
			// every second dialed history has a dial timeout (far away): the engine arms its dial timer
			// in the connection's write-deadline slot and must be completely done with it at connect
			dialTO := time.Duration(0)
			if (hs.Index/6)%2 == 0 {
				dialTO = time.Hour
				r.Count("histories_dialed_with_dial_timeout", 1)
			}
			derr := env.G.DialAsyncTimeout("tcp", dialLn.Addr().String(), dialTO, func(c *nbio.Conn, err error) {
				if err == nil {
					x.srv = c
					byConn.Store(c, x)
					x.firstInDialCb = true
					x.shape = append(x.shape, "dialcb:"+op0.K)
					x.record(x.call(op0.K, op0.D, "dial-callback"))
				}
				done <- err
			})
			if derr != nil {
				r.Inconclusive(fmt.Sprintf("history %d: DialAsync: %v", hs.Index, derr))
				continue
			}
			pc, aerr := dialLn.Accept()
			if aerr != nil {
				r.Inconclusive(fmt.Sprintf("history %d: harness accept: %v", hs.Index, aerr))
				continue
			}
			select {
			case e := <-done:
				if e != nil {
					pc.Close()
					r.Inconclusive(fmt.Sprintf("history %d: dial callback error: %v", hs.Index, e))
					continue
				}
			case <-time.After(10 * time.Second):
				pc.Close()
				r.Inconclusive(fmt.Sprintf("history %d: dial callback not observed", hs.Index))
				continue
			}
			peer = pc
			r.Count("histories_on_dialed_connections", 1)
		} else {
			var err error
			peer, err = env.Dial()
			if err != nil {
				r.Inconclusive(fmt.Sprintf("history %d: dial: %v", hs.Index, err))
				continue
			}
			select {
			case x.srv = <-srvCh:
			case <-time.After(10 * time.Second):
				peer.Close()
				r.Inconclusive(fmt.Sprintf("history %d: accept not observed", hs.Index))
				continue
			}
		}
		x.peer = peer
		if hs.Shape != "plain" {
			x.gate = make(chan struct{})
			if cfg.Net == "tcp" {
				_ = x.srv.SetWriteBuffer(64 << 10)
				if tc, ok := peer.(*net.TCPConn); ok {
					_ = tc.SetReadBuffer(64 << 10)
				}
			}
		}
		byConn.Store(x.srv, x)
		runs = append(runs, x)
	}
	var wg sync.WaitGroup
	for _, x := range runs {
		wg.Add(1)
		go func(x *hrun) {
			defer wg.Done()
			rng := r.Rand("c16-core-run", x.hs.Index)
			go x.peerReader(x.gate)
			x.runOps(rng)
			if x.incon == "" {
				x.final(r, mon)
			}
			// anything that was ever armed must stay silent after the close:
			// watch until every deadline has passed, then count notifications
			x.mu.Lock()
			end := x.maxD + negMargin
			x.mu.Unlock()
			if !x.isClosed() {
				x.endClose = dl.Now()
				x.logf("harness Close()")
				_ = x.srv.Close()
			}
			if end-dl.Now() > int64(2*time.Second) {
				end = dl.Now() + int64(2*time.Second)
			}
			dl.SleepUntil(end)
			// the engine delivers close notifications asynchronously
			select {
			case <-x.closedCh:
				time.Sleep(20 * time.Millisecond)
			case <-time.After(5 * time.Second):
			}
			if x.gate != nil {
				close(x.gate)
				x.gate = nil
			}
			_ = x.peer.Close()
			x.judge(r)
		}(x)
	}
	wg.Wait()
	for _, x := range runs {
		sh := strings.Join(x.shape, ",")
		if x.outcome != "" {
			sh += "|" + x.outcome
		}
		r.Seen("history_shapes", sh)
		r.Seen("cells", cfg.Cell()+fmt.Sprintf("/p%d", cfg.NPoller))
		x.mu.Lock()
		tEnd := dl.Inf
		if len(x.closes) > 0 {
			tEnd = x.closes[0].T
		}
		if x.tdown != 0 && x.tdown < tEnd {
			tEnd = x.tdown
		}
		for dir := 0; dir < 2; dir++ {
			st := dl.Initial()
			for _, e := range x.eff[dir] {
				if e.Call >= tEnd {
					r.Count("calls_on_a_closed_connection", 1)
					break
				}
				nx := dl.Step(st, e)
				switch {
				case e.MustClear && e.Kind == "wclear":
					r.Count("write_emptied_backlog", 1)
					if st.Armed != dl.No {
						r.Count("write_emptied_backlog_with_timer_armed", 1)
					}
				case e.MustClear:
					if st.Armed != dl.No {
						if nx.Racy {
							r.Count("clears_inside_race_window", 1)
						} else {
							r.Count("clears_outside_race_window", 1)
						}
					}
				case !e.Keep:
					if st.Armed != dl.No {
						if nx.Racy {
							r.Count("renewals_inside_race_window", 1)
						} else {
							r.Count("renewals_outside_race_window", 1)
						}
					}
					if e.Kind == "race" {
						r.Count("concurrent_set_pairs", 1)
					}
				}
				st = nx
			}
		}
		n := x.nSets
		for _, k := range x.notes {
			r.Count(k, 1)
		}
		x.mu.Unlock()
		if x.incon != "" {
			r.Inconclusive(fmt.Sprintf("history %d (%s): %s", x.hs.Index, sh, x.incon))
			r.Count("histories_inconclusive", 1)
			continue
		}
		if x.decided && n > 0 {
			r.Nontrivial(fmt.Sprintf("core-%d", x.hs.Index))
			r.Count("outcome_"+x.outcome, 1)
		} else if x.outcome != "" {
			r.Count("undecided_outcome_"+x.outcome, 1)
		}
	}
}
