// C16 - deadlines fire on time, never early, and can be renewed or cleared.
//
// Phase core: hundreds of connections of an nbio engine run random histories
// of Set{Read,Write,}Deadline (set, renew later/earlier, clear, two goroutines
// at once, calls aimed at the instant the old deadline fires), traffic, small
// writes, closes and write deadlines over a real backlog. Every call is
// stamped before and after with one monotonic clock; the engine's close
// callback stamps the notification. Verdicts are one-sided inequalities that
// machine load cannot falsify (internal/dl).
//
// Phase app: an nbhttp engine (non-blocking and blocking IO mode) with a short
// KeepaliveTime and a WebSocket upgrader with its own KeepaliveTime; raw
// clients send a few requests / messages and fall silent. The instants at
// which nbhttp computed now+KeepaliveTime are bracketed by server-side stamps
// (handler end, execute.afterJob, a later accept on the sequential listener).
package main

import (
	"fmt"
	"os"
	"sync/atomic"
	"time"

	"verif/internal/dl"
	"verif/internal/h"
	"verif/internal/outb"
)

func guarded(r *h.Run, what string, f func()) {
	v := h.Guard(6*time.Minute, func() int64 { return atomic.LoadInt64(&progress) }, f)
	switch v.Kind {
	case "":
		return
	case "spin":
		r.Violate("c16:"+what+":spin-no-progress", v.Detail, nil)
	case "deadlock":
		r.Violate("c16:"+what+":deadlock-no-progress", v.Detail, nil)
	default:
		r.Inconclusive(fmt.Sprintf("%s: %s", what, v.Detail))
	}
	r.Inconclusive(fmt.Sprintf("shard stopped in %s (process state unrecoverable)", what))
	outb.Cleanup()
	r.Finish()
	os.Exit(0)
}

func main() {
	r := h.Start("C16")
	defer r.Finish()
	defer outb.Cleanup()
	mon := dl.StartMonitor()
	defer func() {
		r.Max("max_scheduling_gap_ms", mon.Max().Milliseconds())
		mon.Stop()
	}()

	if r.Replay != "" {
		// timing-dependent outcomes (which side of a race window a call fell on,
		// machine lateness) may not reproduce; the history itself is replayed
		if r.Phase == "client" {
			var c clientCase
			if err := r.ReplayCase(&c); err != nil {
				fmt.Println("replay:", err)
				return
			}
			guarded(r, "client", func() { runClientBatch(r, []clientCase{c}) })
			return
		}
		if r.Phase == "app" {
			var c appCase
			if err := r.ReplayCase(&c); err != nil {
				fmt.Println("replay:", err)
				return
			}
			guarded(r, "app", func() { runAppBatch(r, c.Cfg, []appHist{c.Hist}, mon) })
			return
		}
		var c coreCase
		if err := r.ReplayCase(&c); err != nil {
			fmt.Println("replay:", err)
			return
		}
		guarded(r, "core", func() { runCoreBatch(r, c.Cfg, []histT{c.Hist}, mon) })
		return
	}

	if r.Phase == "client" {
		n := r.N(360, 7200)
		const batch = 30
		for b := 0; b*batch < n; b++ {
			if !r.Mine(b) {
				continue
			}
			var cs []clientCase
			for i := b * batch; i < (b+1)*batch && i < n; i++ {
				cs = append(cs, genClient(r, i))
			}
			r.Begin(map[string]interface{}{"batch": b, "first": b * batch, "count": len(cs)})
			if b < 1 {
				r.Sample(cs[0])
			}
			guarded(r, "client", func() { runClientBatch(r, cs) })
		}
		return
	}
	if r.Phase == "app" {
		n := r.N(960, 19200)
		for b := 0; b*appBatch < n; b++ {
			if !r.Mine(b) {
				continue
			}
			cfg := appBatchCfg(r, b)
			var hs []appHist
			for i := b * appBatch; i < (b+1)*appBatch && i < n; i++ {
				hs = append(hs, genApp(r, i, cfg))
			}
			r.Begin(map[string]interface{}{"batch": b, "cfg": cfg, "first": b * appBatch, "count": len(hs)})
			if b < 2 && len(hs) > 1 {
				r.Sample(appCase{cfg, hs[1]})
			}
			t0 := time.Now()
			guarded(r, "app", func() { runAppBatch(r, cfg, hs, mon) })
			r.Max("max_batch_ms", time.Since(t0).Milliseconds())
		}
		return
	}

	n := r.N(2400, 120000)
	for b := 0; b*batchSize < n; b++ {
		if !r.Mine(b) {
			continue
		}
		cfg := batchCfg(b)
		var hs []histT
		for i := b * batchSize; i < (b+1)*batchSize && i < n; i++ {
			hs = append(hs, genHist(r, i))
		}
		r.Begin(map[string]interface{}{"batch": b, "cfg": cfg, "first": b * batchSize, "count": len(hs)})
		if b < 2 {
			r.Sample(coreCase{cfg, hs[3]})
		}
		t0 := time.Now()
		guarded(r, "core", func() { runCoreBatch(r, cfg, hs, mon) })
		r.Max("max_batch_ms", time.Since(t0).Milliseconds())
	}
}
