package main

// Phase "client": the read deadline nbhttp's own HTTP client keeps on its
// keep-alive connection. ClientConn arms the read deadline of the connection
// for a request (Timeout) and, when the last pending response has arrived,
// replaces it by the idle deadline (IdleConnTimeout) or clears it. A deadline
// left behind by an answered request is a stale timer: it closes an idle
// keep-alive connection nobody asked to close.
//
// One case = one ClientConn against a net/http server (independent peer):
//
//	request 1 (dials), request 2..k (reuse), every one answered at once
//	idle for 2.5 x Timeout
//	one more request
//
// IdleConnTimeout = 0: nothing may close the connection - no close callback,
// the last request is answered, the server has seen one connection.
// IdleConnTimeout = I > 0 (idle period > I): the close is due, and never
// earlier than I after the server began to write the last response (a stamp
// taken before the deadline can have been armed; load only makes the close
// later). Both verdicts are one-sided.

import (
	"fmt"
	"io"
	"net"
	"net/http"
	"sync"
	"sync/atomic"
	"time"

	"github.com/lesismal/nbio"
	"github.com/lesismal/nbio/nbhttp"

	"verif/internal/e2e"
	"verif/internal/h"
)

type clientCase struct {
	Index     int    `json:"index"`
	Client    bool   `json:"client"`
	TimeoutMs int    `json:"timeout_ms"`
	IdleMs    int    `json:"idle_conn_timeout_ms"` // 0 = not configured
	Requests  int    `json:"requests_before_idle"`
	Mode      string `json:"epoll_mode"`
}

func genClient(r *h.Run, i int) clientCase {
	rng := r.Rand("c16-client", i)
	c := clientCase{Index: i, Client: true, TimeoutMs: []int{150, 300, 500}[rng.Intn(3)], Requests: 1 + rng.Intn(4), Mode: []string{"LT", "ET", "ONESHOT"}[i%3]}
	if rng.Intn(3) == 0 {
		c.IdleMs = c.TimeoutMs/2 + rng.Intn(c.TimeoutMs)
	}
	return c
}

type clientSrv struct {
	ln    net.Listener
	srv   *http.Server
	mu    sync.Mutex
	conns map[string]int   // X-Case -> connections seen
	wrote map[string]int64 // X-Case -> stamp (ns) taken before the last response was written
}

var clientT0 = time.Now()

func cstamp() int64 { return int64(time.Since(clientT0)) }

func newClientSrv() (*clientSrv, error) {
	ln, err := net.Listen("tcp", "127.0.0.1:0")
	if err != nil {
		return nil, err
	}
	s := &clientSrv{ln: ln, conns: map[string]int{}, wrote: map[string]int64{}}
	seen := map[string]map[string]bool{}
	s.srv = &http.Server{Handler: http.HandlerFunc(func(w http.ResponseWriter, rq *http.Request) {
		id := rq.Header.Get("X-Case")
		s.mu.Lock()
		if seen[id] == nil {
			seen[id] = map[string]bool{}
		}
		if !seen[id][rq.RemoteAddr] {
			seen[id][rq.RemoteAddr] = true
			s.conns[id]++
		}
		s.wrote[id] = cstamp()
		s.mu.Unlock()
		atomic.AddInt64(&progress, 1)
		_, _ = io.WriteString(w, "ok:"+rq.URL.Path)
	})}
	go func() { _ = s.srv.Serve(ln) }()
	return s, nil
}

func runClientBatch(r *h.Run, cases []clientCase) {
	srv, err := newClientSrv()
	if err != nil {
		r.Inconclusive("client phase: listen: " + err.Error())
		return
	}
	defer srv.srv.Close()
	engines := map[string]*nbhttp.Engine{}
	for _, m := range []string{"LT", "ET", "ONESHOT"} {
		cfg := nbhttp.Config{Name: "c16-client-" + m, NPoller: 2}
		switch m {
		case "ET":
			cfg.EpollMod = nbio.EPOLLET
		case "ONESHOT":
			cfg.EpollMod = nbio.EPOLLET
			cfg.EPOLLONESHOT = nbio.EPOLLONESHOT
		}
		e := nbhttp.NewEngine(cfg)
		if err := e.Start(); err != nil {
			r.Inconclusive("client phase: engine start: " + err.Error())
			return
		}
		defer e.Stop()
		engines[m] = e
	}
	var wg sync.WaitGroup
	for _, c := range cases {
		wg.Add(1)
		go func(c clientCase) {
			defer wg.Done()
			runClientCase(r, c, srv, engines[c.Mode])
		}(c)
	}
	wg.Wait()
}

func runClientCase(r *h.Run, c clientCase, srv *clientSrv, eng *nbhttp.Engine) {
	r.Eval(1)
	id := fmt.Sprint(c.Index)
	T := time.Duration(c.TimeoutMs) * time.Millisecond
	I := time.Duration(c.IdleMs) * time.Millisecond
	cc := &nbhttp.ClientConn{Engine: eng, Timeout: T, IdleConnTimeout: I}
	var closedAt int64
	closed := make(chan struct{})
	var once sync.Once
	cc.OnClose(func() {
		atomic.StoreInt64(&closedAt, cstamp())
		atomic.AddInt64(&progress, 1)
		once.Do(func() { close(closed) })
	})
	defer cc.Close()
	url := "http://" + srv.ln.Addr().String() + "/c" + id
	do := func(k int) (string, error) {
		rq, _ := http.NewRequest("GET", fmt.Sprintf("%s/%d", url, k), nil)
		rq.Header.Set("X-Case", id)
		type res struct {
			body string
			err  error
		}
		ch := make(chan res, 1)
		cc.Do(rq, func(rs *http.Response, _ net.Conn, err error) {
			atomic.AddInt64(&progress, 1)
			if err != nil {
				ch <- res{"", err}
				return
			}
			b, _ := io.ReadAll(rs.Body)
			rs.Body.Close()
			ch <- res{string(b), nil}
		})
		select {
		case x := <-ch:
			return x.body, x.err
		case <-time.After(30 * time.Second):
			return "", fmt.Errorf("harness: no callback within 30 s")
		}
	}
	viol := func(sig, detail string) {
		r.Violate("c16:client:"+sig, fmt.Sprintf("%s\nClientConn Timeout=%v IdleConnTimeout=%v, engine %s, %d requests before the idle period", detail, T, I, c.Mode, c.Requests), c)
	}
	for k := 0; k < c.Requests; k++ {
		if _, err := do(k); err != nil {
			// the dialing request and an unlucky machine: nothing to decide
			r.Inconclusive(fmt.Sprintf("client case %d: request %d failed: %v", c.Index, k, err))
			return
		}
	}
	srv.mu.Lock()
	lastWrite := srv.wrote[id]
	srv.mu.Unlock()
	idle := T*5/2 + I
	e2e.Sleep(idle)
	if I == 0 {
		// nothing is configured that may close an idle connection
		select {
		case <-closed:
			viol("idle-connection-closed-without-idle-timeout", fmt.Sprintf("the idle keep-alive connection was closed %v after the server began to write the last response; every request had been answered, no IdleConnTimeout is configured", time.Duration(atomic.LoadInt64(&closedAt)-lastWrite)))
			return
		default:
		}
		body, err := do(99)
		if err != nil {
			viol("request-after-idle-failed", fmt.Sprintf("the request after an idle period of %v failed with %v", idle, err))
			return
		}
		if body != "ok:/c"+id+"/99" {
			viol("request-after-idle-wrong-response", fmt.Sprintf("got %q", body))
			return
		}
		srv.mu.Lock()
		n := srv.conns[id]
		srv.mu.Unlock()
		if n != 1 {
			viol("idle-connection-replaced", fmt.Sprintf("the server has seen %d connections for %d sequential keep-alive requests of one ClientConn (idle period %v)", n, c.Requests+1, idle))
			return
		}
		if c.Requests >= 2 {
			// (the dialing request arms no deadline on the connection: only reuse does)
			r.Nontrivial(fmt.Sprintf("client/%d", c.Index))
		}
		r.Seen("client_cells", fmt.Sprintf("%s/no-idle-timeout/reqs=%d", c.Mode, c.Requests))
		return
	}
	// an idle deadline was armed when the last response arrived: due by now
	select {
	case <-closed:
	default:
		switch e2e.WaitQuiet(closed, func() int64 { return atomic.LoadInt64(&progress) }, 60*time.Second) {
		case "done":
		case "quiet":
			viol("idle-timeout-never-fired", fmt.Sprintf("IdleConnTimeout %v: the connection is still open %v after the last response, in a final history (no progress, idle CPU, 3 s)", I, idle))
			return
		default:
			r.Inconclusive(fmt.Sprintf("client case %d: neither closed nor quiet", c.Index))
			return
		}
	}
	if d := time.Duration(atomic.LoadInt64(&closedAt) - lastWrite); d < I {
		viol("idle-timeout-early", fmt.Sprintf("IdleConnTimeout %v: the connection was closed %v after the server began to write the last response", I, d))
		return
	}
	r.Nontrivial(fmt.Sprintf("client/%d", c.Index))
	r.Seen("client_cells", fmt.Sprintf("%s/idle-timeout/reqs=%d", c.Mode, c.Requests))
}
