package main

import (
	"bytes"
	"fmt"
	"io"
	"math/rand"
	"net/http"
	"runtime"
	"strconv"
	"strings"
	"sync/atomic"
	"time"

	"verif/internal/e2e"
	"verif/internal/outb"
)

// reqPlan is one request as the client plans it. Everything the handler needs
// travels in X- headers, so the handler is stateless.
type reqPlan struct {
	ID       uint32
	Conn     string
	Seq      int
	Proto10  bool
	ConnHdr  string // value of the Connection header, "" = none
	Method   string
	Resp     int  // response body size
	Body     int  // request body size
	ChunkReq bool // request body sent chunked
	Pieces   int  // the handler writes the body in this many Write calls
	CL       bool // the handler announces Content-Length
	Kill     bool // the handler closes the connection instead of answering
	NoOrder  bool // pooled client: the order on the connection is not known to the client
	Jitter   int
}

// closeDictating applies RFC 7230 section 6.3 to the request as sent; it is
// the harness's own reading, not nbio's.
func (p *reqPlan) closeDictating() bool {
	hasClose, keepAlive := false, false
	for _, t := range strings.Split(p.ConnHdr, ",") {
		switch strings.ToLower(strings.TrimSpace(t)) {
		case "close":
			hasClose = true
		case "keep-alive":
			keepAlive = true
		}
	}
	if p.Proto10 {
		return hasClose || !keepAlive
	}
	return hasClose
}

func (p *reqPlan) String() string {
	v := "1.1"
	if p.Proto10 {
		v = "1.0"
	}
	return fmt.Sprintf("{id=%#x conn=%s seq=%d HTTP/%s Connection=%q %s req-body=%d(chunked=%v) resp=%d pieces=%d content-length=%v kill=%v}", p.ID, p.Conn, p.Seq, v, p.ConnHdr, p.Method, p.Body, p.ChunkReq, p.Resp, p.Pieces, p.CL, p.Kill)
}

func reqBodyID(id uint32) uint32 { return id | 0x80000000 }

// flushFirst: the handler calls Flush before its first Write (a streaming handler). Only for
// HTTP/1.1: there the response is still self-delimiting (chunked or with its declared length)
// and the connection is kept or closed as the request dictates; for HTTP/1.0 a head sent before
// the length is known ends at the close, which is a framing decision (C09), not a verdict here.
func (p *reqPlan) flushFirst() bool { return !p.Proto10 && !p.Kill && p.ID%7 == 3 }

// headers renders the X- headers of a plan.
func (p *reqPlan) headers() [][2]string {
	hs := [][2]string{
		{"X-Id", strconv.FormatUint(uint64(p.ID), 10)},
		{"X-Conn", p.Conn},
		{"X-Seq", strconv.Itoa(p.Seq)},
		{"X-Size", strconv.Itoa(p.Resp)},
		{"X-Blen", strconv.Itoa(p.Body)},
		{"X-Pieces", strconv.Itoa(p.Pieces)},
	}
	if p.CL {
		hs = append(hs, [2]string{"X-Cl", "1"})
	}
	if p.Kill {
		hs = append(hs, [2]string{"X-Kill", "1"})
	}
	if p.NoOrder {
		hs = append(hs, [2]string{"X-Noorder", "1"})
	}
	if p.Jitter > 0 {
		hs = append(hs, [2]string{"X-Jit", strconv.Itoa(p.Jitter)})
	}
	if p.flushFirst() {
		hs = append(hs, [2]string{"X-Flush", "first"})
	}
	return hs
}

// wire renders the request for the raw client.
func (p *reqPlan) wire(rng *rand.Rand) []byte {
	var b bytes.Buffer
	v := "HTTP/1.1"
	if p.Proto10 {
		v = "HTTP/1.0"
	}
	fmt.Fprintf(&b, "%s /x/%d %s\r\nHost: verif\r\n", p.Method, p.ID, v)
	for _, kv := range p.headers() {
		fmt.Fprintf(&b, "%s: %s\r\n", kv[0], kv[1])
	}
	if p.ConnHdr != "" {
		fmt.Fprintf(&b, "Connection: %s\r\n", p.ConnHdr)
	}
	if p.ID%5 == 0 {
		// an upgrade offer the handler does not take (curl --http2 sends one): the request is
		// answered like every other one, in its place among the pipelined requests
		b.WriteString("Upgrade: h2c\r\n")
	}
	if p.Method == "POST" {
		body := outb.Payload(reqBodyID(p.ID), p.Body)
		if p.ChunkReq {
			b.WriteString("Transfer-Encoding: chunked\r\n\r\n")
			for off := 0; off < len(body); {
				n := 1 + rng.Intn(40000)
				if n > len(body)-off {
					n = len(body) - off
				}
				fmt.Fprintf(&b, "%x\r\n", n)
				b.Write(body[off : off+n])
				b.WriteString("\r\n")
				off += n
			}
			b.WriteString("0\r\n\r\n")
		} else {
			fmt.Fprintf(&b, "Content-Length: %d\r\n\r\n", len(body))
			b.Write(body)
		}
	} else {
		b.WriteString("\r\n")
	}
	return b.Bytes()
}

// pieceCuts splits n bytes into k pieces, deterministically from the id.
func pieceCuts(id uint32, n, k int) []int {
	if k < 1 {
		k = 1
	}
	cuts := []int{}
	rng := rand.New(rand.NewSource(int64(id)*2654435761 + 17))
	for i := 1; i < k; i++ {
		cuts = append(cuts, rng.Intn(n+1))
	}
	for i := 1; i < len(cuts); i++ {
		for j := i; j > 0 && cuts[j] < cuts[j-1]; j-- {
			cuts[j], cuts[j-1] = cuts[j-1], cuts[j]
		}
	}
	return append(cuts, n)
}

func (e *env) state(key string) *connState {
	if v, ok := e.states.Load(key); ok {
		return v.(*connState)
	}
	v, _ := e.states.LoadOrStore(key, &connState{lastSeq: -1})
	return v.(*connState)
}

// ServeHTTP is the handler under every server of a case (nbhttp and, for the
// nbhttp client cases, net/http).
func (e *env) ServeHTTP(w http.ResponseWriter, r *http.Request) {
	bump()
	hd := r.Header
	id64, _ := strconv.ParseUint(hd.Get("X-Id"), 10, 32)
	id := uint32(id64)
	seq, _ := strconv.Atoi(hd.Get("X-Seq"))
	n, _ := strconv.Atoi(hd.Get("X-Size"))
	blen, _ := strconv.Atoi(hd.Get("X-Blen"))
	pieces, _ := strconv.Atoi(hd.Get("X-Pieces"))
	jit, _ := strconv.Atoi(hd.Get("X-Jit"))
	key := r.RemoteAddr + "|" + hd.Get("X-Conn")
	st := e.state(key)
	in := atomic.AddInt32(&st.inside, 1)
	e.log.Add("handler.entry", key, int64(id), fmt.Sprintf("seq=%d inside=%d %s %s", seq, in, r.Method, r.Proto))
	defer func() {
		e.log.Add("handler.exit", key, int64(id), "")
		atomic.AddInt32(&st.inside, -1)
	}()
	if hd.Get("X-Id") == "" {
		e.violate("c10:"+e.cls+":handler-got-unknown-request", fmt.Sprintf("the handler was invoked for a request the harness never sent: %s %s from %s, headers %v\n%s", r.Method, r.URL, r.RemoteAddr, hd, e.log.Slice(r.RemoteAddr, 30)))
		return
	}
	if in > 1 {
		e.violate("c10:"+e.cls+":handlers-overlap", fmt.Sprintf("%d handlers of connection %s are running at the same time (entered for id %#x seq %d)\nevents of the connection:\n%s", in, key, id, seq, e.log.Slice(key, 40)))
	}
	if hd.Get("X-Noorder") == "" {
		prev := atomic.SwapInt64(&st.lastSeq, int64(seq))
		if int64(seq) <= prev {
			what := "handlers-out-of-request-order"
			if int64(seq) == prev {
				what = "handler-ran-twice-for-one-request"
			}
			e.violate("c10:"+e.cls+":"+what, fmt.Sprintf("connection %s: handler for request seq %d entered after the handler for seq %d\nevents of the connection:\n%s", key, seq, prev, e.log.Slice(key, 40)))
		}
	}
	// the request body travels too
	body, err := io.ReadAll(r.Body)
	if err != nil && e.c.Kind == "nbclient" && e.c.NbTarget == "std" {
		// the server is net/http here and streams the body: the nbhttp client
		// closing mid-request ends the read; nothing of nbio's server side is involved
		e.r.Count("request_body_reads_ended_by_a_client_close(net/http server)", 1)
		return
	} else if err != nil {
		e.violate("c10:"+e.cls+":request-body-read-error", fmt.Sprintf("connection %s id %#x: reading the request body failed: %v", key, id, err))
	} else if is := e2e.CheckBody(body, reqBodyID(id), blen); is != nil {
		sym := is.Symptom
		if is.Symptom == "foreign-bytes-in-body" {
			if o, ok := e.ids.Load(is.Foreign & 0x7fffffff); ok {
				is.Detail += fmt.Sprintf(" (id %#x belongs to %v)", is.Foreign, o)
			}
		}
		e.violate("c10:"+e.cls+":request-"+sym, fmt.Sprintf("connection %s seq %d: request body delivered to the handler differs: %s\nevents of the connection:\n%s", key, seq, is.Detail, e.log.Slice(key, 20)))
	}
	switch {
	case jit == 1:
		runtime.Gosched()
	case jit > 1:
		time.Sleep(time.Duration(jit) * time.Microsecond)
	}
	if hd.Get("X-Kill") != "" {
		if hj, ok := w.(http.Hijacker); ok {
			if nc, _, err := hj.Hijack(); err == nil && nc != nil {
				e.log.Add("handler.kill", key, int64(id), "")
				_ = nc.Close()
			}
		}
		return
	}
	w.Header().Set("X-Id", strconv.FormatUint(uint64(id), 10))
	if hd.Get("X-Cl") != "" {
		w.Header().Set("Content-Length", strconv.Itoa(n))
	}
	if n == 0 {
		return
	}
	// every fifth chunked HTTP/1.1 response declares a trailer and sets it behind the body: the
	// closing part of the chunked stream (last chunk, trailer fields) follows writes of any size
	// (declared before a handler that flushes first commits the head)
	trailer := hd.Get("X-Cl") == "" && r.ProtoAtLeast(1, 1) && id%5 == 2
	if trailer {
		w.Header().Set("Trailer", "X-Sum")
		defer func() { w.Header().Set("X-Sum", strconv.FormatUint(uint64(id), 10)) }()
		e.r.Count("responses_with_a_declared_trailer", 1)
	}
	if hd.Get("X-Flush") == "first" {
		if f, ok := w.(http.Flusher); ok {
			f.Flush()
			e.r.Count("handlers_that_flushed_before_their_first_write", 1)
		}
	}
	payload := outb.Payload(id, n)
	prev := 0
	for _, c := range pieceCuts(id, n, pieces) {
		if c == prev {
			continue
		}
		if _, err := w.Write(payload[prev:c]); err != nil {
			e.log.Add("handler.write-error", key, int64(id), err.Error())
			return
		}
		prev = c
	}
}
