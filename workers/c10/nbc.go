package main

import (
	"bytes"
	stdtls "crypto/tls"
	"fmt"
	"io"
	"log"
	"math/rand"
	"net"
	"net/http"
	"os"
	"strconv"
	"strings"
	"sync"
	"sync/atomic"
	"time"

	lltls "github.com/lesismal/llib/std/crypto/tls"
	"github.com/lesismal/nbio/nbhttp"

	"verif/internal/e2e"
	"verif/internal/h"
	"verif/internal/httpx"
	"verif/internal/outb"
)

// cbRec is the record of one request handed to nbhttp's client.
type cbRec struct {
	p      *reqPlan
	api    string // Client.Do | ClientConn.Do
	calls  int32
	okResp int32
	errs   int32
	first  atomic.Value // string
}

type nbRun struct {
	e       *env
	mu      sync.Mutex
	recs    []*cbRec
	pending int64
	allDone chan struct{} // buffered(1): a token whenever pending reaches zero
	lastDo  atomic.Value  // time.Time
	ccs     []*nbhttp.ClientConn
	byID    sync.Map // id -> *cbRec
	tainted sync.Map // ClientConn name / "Client": its FIFO is known to be shifted
}

func (n *nbRun) add(p *reqPlan, api string) *cbRec {
	rec := &cbRec{p: p, api: api}
	n.mu.Lock()
	n.recs = append(n.recs, rec)
	n.mu.Unlock()
	n.byID.Store(p.ID, rec)
	atomic.AddInt64(&n.pending, 1)
	n.lastDo.Store(time.Now())
	return rec
}

// callback builds the function handed to Do. Everything is checked inside the
// callback: nbhttp releases the response when it returns.
func (n *nbRun) callback(rec *cbRec) func(res *http.Response, conn net.Conn, err error) {
	e := n.e
	return func(res *http.Response, conn net.Conn, err error) {
		bump()
		k := atomic.AddInt32(&rec.calls, 1)
		p := rec.p
		what := "error: "
		if err == nil {
			what = "response"
		} else {
			what += err.Error()
		}
		e.log.Add("callback", p.Conn, int64(p.ID), fmt.Sprintf("call #%d %s", k, what))
		if k > 1 {
			prev, _ := rec.first.Load().(string)
			e.violate("c10:client:callback-twice", fmt.Sprintf("%s: the callback of request %s was invoked %d times; first invocation: %s; this invocation: %s\nevents:\n%s", rec.api, p, k, prev, what, e.log.Slice(p.Conn, 40)))
			return
		}
		rec.first.Store(what)
		defer func() {
			if atomic.AddInt64(&n.pending, -1) == 0 {
				select {
				case n.allDone <- struct{}{}:
				default:
				}
			}
		}()
		if err != nil {
			atomic.AddInt32(&rec.errs, 1)
			e.r.Count("client_callbacks_with_error", 1)
			return
		}
		if res == nil {
			e.violate("c10:client:callback-without-response-or-error", fmt.Sprintf("%s: the callback of request %s got neither a response nor an error", rec.api, p))
			return
		}
		gotID := res.Header.Get("X-Id")
		if gotID != strconv.FormatUint(uint64(p.ID), 10) {
			g64, _ := strconv.ParseUint(gotID, 10, 32)
			o, _ := e.ids.Load(uint32(g64))
			sig, extra := "c10:client:callback-got-another-requests-response", ""
			tkey := p.Conn
			if rec.api == "Client.Do" {
				tkey = "Client"
			}
			if _, was := n.tainted.LoadOrStore(tkey, true); was {
				// once one response went to the wrong callback every later one on
				// that connection object is shifted too: consequences, not findings
				e.r.Count("client_mismatches_following_a_reported_one", 1)
				return
			}
			if ov, ok := n.byID.Load(uint32(g64)); ok {
				if orec := ov.(*cbRec); atomic.LoadInt32(&orec.errs) > 0 {
					// a response that arrives after its own request was already failed
					// (client closed, timeout) and is handed to whoever is pending now
					sig = "c10:client:callback-got-response-of-an-already-failed-request"
					extra = fmt.Sprintf("; that request's own callback had already been invoked with an error (%v)", orec.first.Load())
				}
			}
			e.violate(sig, fmt.Sprintf("%s against the %s server: the callback of request %s was invoked with the response carrying X-Id %q (%v), status %d%s\nevents:\n%s", rec.api, e.c.NbTarget, p, gotID, o, res.StatusCode, extra, e.log.Slice(p.Conn, 30)))
			return
		}
		var body []byte
		var rerr error
		if res.Body != nil {
			body, rerr = io.ReadAll(res.Body)
		}
		if is := e2e.CheckBody(body, p.ID, p.Resp); is != nil {
			if is.Symptom == "foreign-bytes-in-body" {
				if o, ok := e.ids.Load(is.Foreign & 0x7fffffff); ok {
					is.Detail += fmt.Sprintf(" (id %#x belongs to %v)", is.Foreign, o)
				}
			}
			e.violate("c10:client:response-"+is.Symptom, fmt.Sprintf("%s against the %s server: request %s: %s (body read error %v)\nevents:\n%s", rec.api, e.c.NbTarget, p, is.Detail, rerr, e.log.Slice(p.Conn, 30)))
			return
		}
		atomic.AddInt32(&rec.okResp, 1)
		atomic.AddInt64(&e.exchanges, 1)
		atomic.AddInt64(&e.bytesOK, int64(len(body)))
		e.r.Count("client_callbacks_with_matching_response", 1)
	}
}

// originHandler serves one of two origins of a case: a request that names the
// other origin was sent over a connection to the wrong server.
type originHandler struct {
	e  *env
	me string
}

func (o *originHandler) ServeHTTP(w http.ResponseWriter, r *http.Request) {
	if want := r.Header.Get("X-Origin"); want != "" && want != o.me {
		o.e.violate("c10:nbclient:request-sent-to-another-origin", fmt.Sprintf("a request for origin %s (URL host %s) arrived at origin %s: the client used a connection to another host:port; X-Id %s\n%s",
			want, r.Host, o.me, r.Header.Get("X-Id"), o.e.log.Slice(r.RemoteAddr, 20)))
	}
	o.e.ServeHTTP(w, r)
}

func (n *nbRun) request(p *reqPlan, base string) *http.Request {
	var body io.Reader
	if p.Method == "POST" {
		body = bytes.NewReader(outb.Payload(reqBodyID(p.ID), p.Body))
	}
	req, err := http.NewRequest(p.Method, fmt.Sprintf("%s/x/%d", base, p.ID), body)
	if err != nil {
		panic(err)
	}
	for _, kv := range p.headers() {
		req.Header.Set(kv[0], kv[1])
	}
	if p.ConnHdr != "" {
		req.Header.Set("Connection", p.ConnHdr)
	}
	return req
}

func (e *env) nbPlan(rng *rand.Rand, conn string, seq int, noOrder bool) *reqPlan {
	c := e.c
	p := &reqPlan{ID: newID(), Conn: conn, Seq: seq, Method: "GET", Pieces: 1 + rng.Intn(5), NoOrder: noOrder}
	e.ids.Store(p.ID, fmt.Sprintf("nbhttp client %s seq %d", conn, seq))
	p.Resp = pickSize(rng, c.MaxResp)
	p.CL = p.Resp > chunkedOneBuffer || rng.Intn(2) == 0
	if c.MaxReq > 0 && rng.Intn(2) == 0 {
		p.Method = "POST"
		p.Body = pickSize(rng, c.MaxReq)
	}
	if c.Jitter {
		p.Jitter = []int{0, 1, 50, 300}[rng.Intn(4)]
	}
	return p
}

// runNbClient: nbhttp's Client.Do and ClientConn.Do against an nbhttp server
// of the cell or a net/http server.
func (e *env) runNbClient() {
	c := e.c
	rng := rand.New(rand.NewSource(c.Seed))
	var addr string
	var stopServer func()
	hA := &originHandler{e: e, me: "A"}
	if c.NbTarget == "nbhttp" {
		eng := nbhttp.NewEngine(c.Cell.Config(hA))
		if err := eng.Start(); err != nil {
			e.r.Inconclusive(fmt.Sprintf("case %d: start: %v", c.Index, err))
			return
		}
		addr = httpx.Addr(eng, c.Cell)
		stopServer = eng.Stop
	} else {
		ln, err := net.Listen("tcp", "127.0.0.1:0")
		if err != nil {
			e.r.Inconclusive(fmt.Sprintf("case %d: listen: %v", c.Index, err))
			return
		}
		if c.Cell.TLS {
			cp, kp := httpx.Cert()
			cert, err := stdtls.X509KeyPair(cp, kp)
			if err != nil {
				panic(err)
			}
			// llib's TLS 1.3 client does not interoperate with this toolchain's
			// crypto/tls server (handshake ends in "bad record MAC", see the final
			// report); TLS 1.2 does, and the property is about the callbacks
			tc := &stdtls.Config{Certificates: []stdtls.Certificate{cert}, MaxVersion: stdtls.VersionTLS12}
			if os.Getenv("C10_STD_TLS13") != "" {
				tc.MaxVersion = 0 // debugging aid: every exchange then fails in the TLS layer
			}
			ln = stdtls.NewListener(ln, tc)
		}
		srv := &http.Server{Handler: hA, ErrorLog: log.New(io.Discard, "", 0)}
		go func() { _ = srv.Serve(ln) }()
		addr = ln.Addr().String()
		stopServer = func() { _ = srv.Close() }
	}
	// a second origin on the same host (another port) in half of the cases: one Client, two origins -
	// a request must reach the origin its URL names (the connection pool is per host:port)
	addrB := ""
	if c.Seed%2 == 0 {
		if ln, err := net.Listen("tcp", "127.0.0.1:0"); err == nil {
			if c.Cell.TLS {
				cp, kp := httpx.Cert()
				if cert, err := stdtls.X509KeyPair(cp, kp); err == nil {
					ln = stdtls.NewListener(ln, &stdtls.Config{Certificates: []stdtls.Certificate{cert}, MaxVersion: stdtls.VersionTLS12})
				}
			}
			srvB := &http.Server{Handler: &originHandler{e: e, me: "B"}, ErrorLog: log.New(io.Discard, "", 0)}
			go func() { _ = srvB.Serve(ln) }()
			addrB = ln.Addr().String()
			stopA := stopServer
			stopServer = func() { stopA(); _ = srvB.Close() }
		}
	}
	// the client side: its own engine in the cell's epoll mode
	ccfg := nbhttp.Config{NPoller: 2}
	switch c.Cell.Mode {
	case "ET":
		ccfg.EpollMod = c.Cell.Config(nil).EpollMod
	case "ONESHOT":
		cc := c.Cell.Config(nil)
		ccfg.EpollMod, ccfg.EPOLLONESHOT = cc.EpollMod, cc.EPOLLONESHOT
	}
	ce := nbhttp.NewEngine(ccfg)
	if err := ce.Start(); err != nil {
		e.r.Inconclusive(fmt.Sprintf("case %d: client engine start: %v", c.Index, err))
		stopServer()
		return
	}
	base := "http://" + addr
	if c.Cell.TLS {
		base = "https://" + addr
	}
	baseB := ""
	if addrB != "" {
		baseB = base[:len(base)-len(addr)] + addrB
	}
	timeout := time.Duration(c.NbTimeout) * time.Second
	tlsc := &lltls.Config{InsecureSkipVerify: true}
	if !c.NbTLS13 {
		tlsc.MaxVersion = lltls.VersionTLS12
	}
	n := &nbRun{e: e, allDone: make(chan struct{}, 1)}
	n.lastDo.Store(time.Now())
	stop := make(chan struct{})
	stopped := func() bool {
		select {
		case <-stop:
			return true
		default:
			return false
		}
	}

	// ---- A: Client.Do from several goroutines over a small connection pool
	cli := &nbhttp.Client{Engine: ce, Timeout: timeout, MaxConnsPerHost: int32(c.NbConns), TLSClientConfig: tlsc}
	var wg sync.WaitGroup
	issuers := 1 + rng.Intn(4)
	perIssuer := 2 + rng.Intn(6*c.Rounds)
	if timeout == 0 {
		// without a Timeout nbhttp's pool does not wait for a free connection:
		// keep the number of outstanding requests within the pool
		issuers = min(issuers, c.NbConns)
	}
	for g := 0; g < issuers; g++ {
		wg.Add(1)
		grng := rand.New(rand.NewSource(rng.Int63()))
		go func(g int) {
			defer wg.Done()
			conn := fmt.Sprintf("nbc%d", g)
			for s := 0; s < perIssuer && !stopped(); s++ {
				p := e.nbPlan(grng, conn, s, true)
				if c.SrvKill && grng.Intn(10) == 0 {
					p.Kill = true
				}
				rec := n.add(p, "Client.Do")
				done := make(chan struct{})
				cb := n.callback(rec)
				e.log.Add("client.do", conn, int64(p.ID), p.String())
				rq := n.request(p, base)
				rq.Header.Set("X-Origin", "A")
				if baseB != "" && grng.Intn(2) == 0 {
					rq = n.request(p, baseB)
					rq.Header.Set("X-Origin", "B")
					e.r.Count("nbclient_requests_to_the_second_origin", 1)
				}
				cli.Do(rq, func(res *http.Response, conn net.Conn, err error) {
					cb(res, conn, err)
					select {
					case <-done:
					default:
						close(done)
					}
				})
				if timeout == 0 || grng.Intn(3) != 0 {
					// wait for this exchange before the next one (otherwise overlap them)
					select {
					case <-done:
					case <-stop:
						return
					}
				}
			}
		}(g)
	}

	// ---- B: ClientConn.Do, pipelined on one connection: callbacks are matched FIFO
	for k := 0; k < 1+rng.Intn(2); k++ {
		wg.Add(1)
		grng := rand.New(rand.NewSource(rng.Int63()))
		go func(k int) {
			defer wg.Done()
			conn := fmt.Sprintf("nbcc%d", k)
			cc := &nbhttp.ClientConn{Engine: ce, Timeout: timeout, TLSClientConfig: tlsc}
			n.mu.Lock()
			n.ccs = append(n.ccs, cc)
			n.mu.Unlock()
			seq := 0
			for round := 0; round < c.Rounds && !stopped(); round++ {
				depth := 1 + grng.Intn(c.Depth)
				if timeout == 0 {
					depth = 1 // see the final report: pipelining without Timeout arms a deadline in the past
				}
				killAt := -1
				if c.SrvKill && grng.Intn(2) == 0 {
					killAt = grng.Intn(depth)
				}
				var batch []*cbRec
				var dones []chan struct{}
				for i := 0; i < depth; i++ {
					p := e.nbPlan(grng, conn, seq, false)
					seq++
					p.Kill = i == killAt
					rec := n.add(p, "ClientConn.Do")
					batch = append(batch, rec)
					done := make(chan struct{})
					dones = append(dones, done)
					cb := n.callback(rec)
					e.log.Add("clientconn.do", conn, int64(p.ID), p.String())
					cc.Do(n.request(p, base), func(res *http.Response, conn net.Conn, err error) {
						cb(res, conn, err)
						select {
						case <-done:
						default:
							close(done)
						}
					})
				}
				e.r.Seen("pipelining_depths", strconv.Itoa(depth))
				if c.CliKill && grng.Intn(3) == 0 {
					// client-side mid-stream close: every pending callback must get its error
					cc.Close()
					e.r.Count("client_side_midstream_closes", 1)
				}
				for _, d := range dones {
					select {
					case <-d:
					case <-stop:
						return
					}
				}
				if killAt >= 0 {
					e.r.Count("server_side_midstream_closes", 1)
					// after a server-side close every request from the closing one on must have failed
					for i := killAt; i < depth; i++ {
						if atomic.LoadInt32(&batch[i].okResp) > 0 && i == killAt {
							e.violate("c10:client:response-for-unanswered-request", fmt.Sprintf("ClientConn.Do: request %s was never answered (its handler closed the connection) but its callback got a response", batch[i].p))
						}
					}
				}
				if multi := depth >= 2 && killAt < 0; multi {
					ok := 0
					for _, b := range batch {
						ok += int(atomic.LoadInt32(&b.okResp))
					}
					if ok >= 2 {
						atomic.AddInt64(&e.multiConns, 1)
						e.r.Count("multi_request_connections_completed", 1)
					}
				}
				cc.Reset()
			}
			cc.Close()
		}(k)
	}

	// ---- C: close / reset / reuse: a ClientConn is closed while the response to its request may
	// already be on its way to the callback, reset and used for the next request at once
	// (what Client.Do does with pooled objects): the next request's callback must get its own
	// response or an error, never the one of the request that has been failed
	{
		wg.Add(1)
		grng := rand.New(rand.NewSource(rng.Int63()))
		go func() {
			defer wg.Done()
			conn := "nbreuse"
			cc := &nbhttp.ClientConn{Engine: ce, Timeout: timeout, TLSClientConfig: tlsc}
			n.mu.Lock()
			n.ccs = append(n.ccs, cc)
			n.mu.Unlock()
			seq := 0
			iters := 40
			if c.Cell.TLS {
				iters = 12 // every iteration is a handshake
			}
			for it := 0; it < iters && !stopped(); it++ {
				var last chan struct{}
				for half := 0; half < 2; half++ {
					p := e.nbPlan(grng, conn, seq, true)
					seq++
					p.Kill = false
					rec := n.add(p, "ClientConn.Do")
					done := make(chan struct{})
					cb := n.callback(rec)
					e.log.Add("clientconn.do", conn, int64(p.ID), p.String())
					cc.Do(n.request(p, base), func(res *http.Response, conn net.Conn, err error) {
						cb(res, conn, err)
						select {
						case <-done:
						default:
							close(done)
						}
					})
					if half == 0 {
						// A: closed while it is in flight
						if d := grng.Intn(400); d > 0 {
							time.Sleep(time.Duration(d) * time.Microsecond)
						}
						cc.Close()
						cc.Reset()
						select {
						case <-done: // Close fails every pending request synchronously
						case <-stop:
							return
						}
					} else {
						last = done
					}
				}
				select {
				case <-last:
				case <-stop:
					return
				}
				e.r.Count("client_close_reset_reuse_iterations", 1)
				cc.Close()
				cc.Reset()
			}
			cc.Close()
		}()
	}

	issued := make(chan struct{})
	go func() { wg.Wait(); close(issued) }()
	// ---- every callback must arrive. A missing callback is only "never" in a
	// state in which nothing can deliver it any more: no issuer is running, the
	// clients were closed (Close fails every pending request synchronously), the
	// configured Timeout - a timer the workload armed - has certainly expired,
	// and the history is quiet again.
	res := e2e.WaitQuiet(issued, prog, 150*time.Second)
	close(stop) // nobody issues from here on
	decidable := true
	select {
	case <-issued:
	case <-time.After(10 * time.Second):
		decidable = false
		e.r.Inconclusive(fmt.Sprintf("case %d: a request issuer is stuck inside Do (nbhttp holds the connection mutex while it dials)", c.Index))
	}
	if res != "done" {
		atomic.StoreInt32(&e.final, 1)
	}
	// from here on pending only falls: the callback that brings it to zero
	// leaves a token in allDone
	waitPending := func(max time.Duration) string {
		for {
			if atomic.LoadInt64(&n.pending) <= 0 {
				return "done"
			}
			if r := e2e.WaitQuiet(n.allDone, prog, max); r != "done" {
				return r
			}
		}
	}
	if res == "done" && !c.CliKill {
		// exchanges nobody waited for may still be in flight: let them finish.
		// (with client_side_closes the clients are closed while they are)
		res = waitPending(150 * time.Second)
	} else if res == "done" {
		e.r.Count("client_closed_with_requests_in_flight", 1)
	}
	if decidable {
		closed := make(chan struct{})
		go func() {
			cli.Close()
			n.mu.Lock()
			for _, cc := range n.ccs {
				cc.Close()
			}
			n.mu.Unlock()
			close(closed)
		}()
		select {
		case <-closed:
		case <-time.After(20 * time.Second):
			// Close waits for the connection mutex, which Do holds while it dials
			// and shakes hands
			decidable = false
			e.r.Inconclusive(fmt.Sprintf("case %d: Client.Close / ClientConn.Close did not return (a Do is stuck in its dial/handshake holding the connection mutex)", c.Index))
		}
	}
	if atomic.LoadInt64(&n.pending) > 0 {
		for {
			res = waitPending(150 * time.Second)
			last, _ := n.lastDo.Load().(time.Time)
			if res != "quiet" || time.Since(last) > timeout+5*time.Second {
				break
			}
		}
		if res == "watchdog" {
			decidable = false
		}
	}
	ce.Stop()
	stopServer()
	bump()
	n.mu.Lock()
	recs := append([]*cbRec(nil), n.recs...)
	n.mu.Unlock()
	never := 0
	// a panic inside ClientConn.Do is recovered and logged by nbhttp; the handler
	// it had already queued is then forgotten. That cause gets its own signature.
	sigNever := "c10:client:callback-never"
	e.logLines = capLog.Take()
	for _, l := range h.PanicLines(e.logLines) {
		if strings.Contains(l, "ClientConn Do failed") {
			sigNever = "c10:client:callback-never:after-panic-recovered-in-do"
			break
		}
	}
	for _, rec := range recs {
		if decidable && atomic.LoadInt32(&rec.calls) == 0 {
			never++
			if never <= 2 {
				extra := ""
				if sigNever != "c10:client:callback-never" {
					for _, l := range h.PanicLines(e.logLines) {
						if strings.Contains(l, "ClientConn Do failed") {
							extra = "\nnbhttp logged during this case: " + strings.SplitN(l, "\n", 2)[0]
							break
						}
					}
				}
				e.violate(sigNever, fmt.Sprintf("%s against the %s server: the callback of request %s was never invoked: every issuer has returned, Client.Close / ClientConn.Close have returned, the Timeout (%v) has expired and the history is quiet (process idle, no progress for 3 s)%s\nevents:\n%s", rec.api, c.NbTarget, rec.p, timeout, extra, e.log.Slice(rec.p.Conn, 14)))
			}
		}
	}
	e.r.Count("client_requests_issued", int64(len(recs)))
	e.r.Seen("cells_x_clients", c.Cell.String()+"/nbhttp-client->"+c.NbTarget)
	_ = h.Hex
}
