package main

import (
	"fmt"
	"strings"
	"sync"

	"verif/internal/h"
)

// dbgLogger keeps nbio's error lines (through h.CapLogger) and, for the detail
// of a violation, the most recent debug lines that report a failure (nbhttp
// logs the reason for closing a connection at debug level only).
type dbgLogger struct {
	h.CapLogger
	mu   sync.Mutex
	last []string
}

func (l *dbgLogger) Debug(format string, v ...interface{}) {
	if !strings.Contains(format, "fail") {
		return
	}
	s := fmt.Sprintf(format, v...)
	if len(s) > 300 {
		s = s[:300]
	}
	l.mu.Lock()
	l.last = append(l.last, s)
	if len(l.last) > 12 {
		l.last = l.last[len(l.last)-12:]
	}
	l.mu.Unlock()
}

func (l *dbgLogger) recent() string {
	l.mu.Lock()
	defer l.mu.Unlock()
	if len(l.last) == 0 {
		return ""
	}
	return "\nrecent failure lines of nbio's debug log (all connections): " + strings.Join(l.last, " | ")
}

func (l *dbgLogger) reset() {
	l.mu.Lock()
	l.last = nil
	l.mu.Unlock()
}
