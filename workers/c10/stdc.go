package main

import (
	"bytes"
	"context"
	"fmt"
	"io"
	"math/rand"
	"net/http"
	"net/http/httptrace"
	"strconv"
	"strings"
	"sync/atomic"

	"verif/internal/e2e"
	"verif/internal/httpx"
	"verif/internal/outb"
)

// stdClient: net/http.Transport with keep-alive, one connection at a time,
// sequential exchanges.
func (e *env) stdClient(j int, rng *rand.Rand, addr string) {
	c := e.c
	name := fmt.Sprintf("s%d", j)
	tr := &http.Transport{TLSClientConfig: httpx.ClientTLS(), DisableCompression: true, MaxConnsPerHost: 1, MaxIdleConnsPerHost: 1}
	defer tr.CloseIdleConnections()
	ctx, cancel := context.WithCancel(context.Background())
	defer cancel()
	e.onFinal(cancel)
	scheme := "http"
	if c.Cell.TLS {
		scheme = "https"
	}
	n := 2 + rng.Intn(3*c.Rounds+2)
	completed := 0
	reused := 0
	prevKeep := false
	for seq := 0; seq < n; seq++ {
		p := &reqPlan{ID: newID(), Conn: name, Seq: seq, Method: "GET", Pieces: 1 + rng.Intn(5)}
		e.ids.Store(p.ID, fmt.Sprintf("net/http client %s seq %d", name, seq))
		closing := rng.Intn(6) == 0
		p.Resp = pickSize(rng, c.MaxResp)
		if closing {
			p.ConnHdr = "close"
			if p.Resp > 64<<10 {
				p.Resp = pickSize(rng, 64<<10)
			}
		}
		var body io.Reader
		if c.MaxReq > 0 && rng.Intn(2) == 0 {
			p.Method = "POST"
			p.Body = pickSize(rng, c.MaxReq)
			body = bytes.NewReader(outb.Payload(reqBodyID(p.ID), p.Body))
		}
		switch {
		case c.Kind == "chunked" && !closing:
			p.CL = false
			if p.Resp < chunkedOneBuffer {
				p.Resp = chunkedOneBuffer + 1 + rng.Intn(c.MaxResp-chunkedOneBuffer)
			}
		case p.Resp > chunkedOneBuffer:
			p.CL = true
		default:
			p.CL = rng.Intn(2) == 0
		}
		if c.Jitter {
			p.Jitter = []int{0, 1, 50}[rng.Intn(3)]
		}
		req, err := http.NewRequestWithContext(ctx, p.Method, fmt.Sprintf("%s://%s/x/%d", scheme, addr, p.ID), body)
		if err != nil {
			return
		}
		if p.Method == "POST" {
			req.ContentLength = int64(p.Body)
			if rng.Intn(3) == 0 {
				req.ContentLength = -1 // net/http sends it chunked
				req.Body = io.NopCloser(body)
				p.ChunkReq = true
			}
		}
		for _, kv := range p.headers() {
			req.Header.Set(kv[0], kv[1])
		}
		req.Close = closing
		wasReused := false
		req = req.WithContext(httptrace.WithClientTrace(ctx, &httptrace.ClientTrace{GotConn: func(i httptrace.GotConnInfo) { wasReused = i.Reused }}))
		e.log.Add("client.send", name, int64(p.ID), p.String())
		resp, err := tr.RoundTrip(req)
		if err != nil {
			if e.isFinal() {
				e.violate("c10:"+e.cls+":response-never-completed", fmt.Sprintf("net/http client %s: request %s never got its response: the history is final (process idle, nothing pending for 3 s): %v\n%s", name, p, err, e.log.Slice(name, 30)))
			} else if ctx.Err() == nil {
				// not asserted through this client: net/http hides which connection
				// it used and why it gave up (the raw client asserts the same clause
				// with full visibility). Counted and reported as inconclusive.
				e.r.Count("nethttp_requests_failed(not asserted)", 1)
				e.r.Inconclusive(fmt.Sprintf("case %d: net/http client %s: request %s failed: %v (previous exchange kept the connection alive: %v); server-side events: %s", e.c.Index, name, p, err, prevKeep, strings.ReplaceAll(e.log.Slice(name, 8), "\n", " ;")))
			}
			return
		}
		key := name
		gotID := resp.Header.Get("X-Id")
		if resp.StatusCode != 200 || gotID != strconv.FormatUint(uint64(p.ID), 10) {
			resp.Body.Close()
			g64, _ := strconv.ParseUint(gotID, 10, 32)
			o, _ := e.ids.Load(uint32(g64))
			e.violate("c10:"+e.cls+":response-of-another-request", fmt.Sprintf("net/http client %s: request %s answered with status %d and X-Id %q (%v)\n%s", name, p, resp.StatusCode, gotID, o, e.log.Slice(key, 30)))
			return
		}
		got, rerr := io.ReadAll(resp.Body)
		resp.Body.Close()
		shape := ""
		if is := e2e.CheckBody(got, p.ID, p.Resp); is != nil {
			if e.isFinal() {
				e.violate("c10:"+e.cls+":response-never-completed", fmt.Sprintf("net/http client %s: response to %s stalled (final history): %s", name, p, is.Detail))
				return
			}
			if is.Symptom == "foreign-bytes-in-body" {
				if o, ok := e.ids.Load(is.Foreign & 0x7fffffff); ok {
					is.Detail += fmt.Sprintf(" (id %#x belongs to %v)", is.Foreign, o)
				}
			}
			e.violate("c10:"+e.cls+":"+shape+is.Symptom, fmt.Sprintf("net/http client %s: request %s: %s; reading the body ended with %v\n%s", name, p, is.Detail, rerr, e.log.Slice(key, 20)))
			return
		}
		if rerr != nil {
			e.violate("c10:"+e.cls+":"+shape+"response-undecodable", fmt.Sprintf("net/http client %s: request %s: all %d body bytes are correct but decoding ended with %v", name, p, len(got), rerr))
			return
		}
		atomic.AddInt64(&e.exchanges, 1)
		atomic.AddInt64(&e.bytesOK, int64(len(got)))
		bump()
		completed++
		if wasReused {
			reused++
			e.r.Count("nethttp_connection_reused", 1)
		} else if prevKeep {
			// asserted through the raw client only: net/http redials silently
			e.r.Count("nethttp_redialed_after_keepalive_exchange", 1)
		}
		prevKeep = !closing
	}
	if reused > 0 {
		atomic.AddInt64(&e.multiConns, 1)
		e.r.Count("multi_request_connections_completed", 1)
	}
}
