package main

import (
	"bufio"
	"errors"
	"fmt"
	"io"
	"math/rand"
	"net"
	"net/http"
	"strconv"
	"strings"
	"sync/atomic"
	"syscall"
	"time"

	"verif/internal/e2e"
	"verif/internal/h"
)

const (
	watchdogRead = 120 * time.Second
	// a response at least this large is "larger than what the socket buffers
	// hold" for the purpose of the known close-with-backlog finding. The bulk
	// workload never asks for more than 64 KiB from a close-dictating request.
	largeMin = 1 << 20
	// chunked responses up to this size are encoded into one buffer by
	// nbhttp; larger ones take the multi-write chunk path.
	chunkedOneBuffer = 60000
)

var connHdrKeep = []string{"", "", "", "keep-alive", "Keep-Alive"}
var connHdrClose = []string{"close", "close", "Close", "keep-alive, close"}

func isTimeout(err error) bool {
	var ne net.Error
	return errors.As(err, &ne) && ne.Timeout()
}

func isConnEnd(err error) bool {
	return errors.Is(err, io.EOF) || errors.Is(err, io.ErrUnexpectedEOF) || errors.Is(err, syscall.ECONNRESET) || errors.Is(err, syscall.EPIPE) || errors.Is(err, net.ErrClosed) || strings.Contains(err.Error(), "use of closed") || strings.Contains(err.Error(), "connection reset")
}

func pickSize(rng *rand.Rand, max int) int {
	if max <= 0 {
		return 0
	}
	switch rng.Intn(10) {
	case 0:
		return 0
	case 1, 2, 3:
		return 1 + rng.Intn(min(max, 2000))
	case 4, 5:
		return 1 + rng.Intn(min(max, 20000))
	case 6:
		// around the 64 KiB packet boundary of the response writer
		v := 65536 - 300 + rng.Intn(600)
		if v > max {
			v = max
		}
		return v
	case 7, 8:
		return 1 + rng.Intn(min(max, 70000))
	default:
		return 1 + rng.Intn(max)
	}
}

// planBatch plans k pipelined requests. closeAt >= 0 makes that request
// close-dictating (and keeps the batch small so that the dictated close never
// meets a write backlog); killAt >= 0 makes the handler close the connection.
func (e *env) planBatch(rng *rand.Rand, conn string, seq *int, k, closeAt, killAt int) []*reqPlan {
	c := e.c
	var ps []*reqPlan
	for i := 0; i < k; i++ {
		p := &reqPlan{ID: newID(), Conn: conn, Seq: *seq, Method: "GET", Pieces: 1 + rng.Intn(5)}
		*seq++
		e.ids.Store(p.ID, fmt.Sprintf("connection %s seq %d", conn, p.Seq))
		p.Proto10 = rng.Intn(6) == 0
		if i == closeAt {
			if p.Proto10 && rng.Intn(2) == 0 {
				p.ConnHdr = ""
			} else {
				p.ConnHdr = connHdrClose[rng.Intn(len(connHdrClose))]
			}
		} else if p.Proto10 {
			p.ConnHdr = []string{"keep-alive", "Keep-Alive"}[rng.Intn(2)]
		} else {
			p.ConnHdr = connHdrKeep[rng.Intn(len(connHdrKeep))]
		}
		p.Resp = pickSize(rng, c.MaxResp)
		if closeAt >= 0 && closeAt < k {
			// a batch that ends in a dictated close stays far below the socket buffers
			lim := (192 << 10) / k
			if i == closeAt || lim > 64<<10 {
				lim = min(lim, 64<<10)
			}
			if p.Resp > lim {
				p.Resp = pickSize(rng, lim)
			}
		}
		if c.MaxReq > 0 && rng.Intn(2) == 0 {
			p.Method = "POST"
			p.Body = pickSize(rng, c.MaxReq)
			p.ChunkReq = !p.Proto10 && rng.Intn(3) == 0
		}
		switch {
		case c.Kind == "chunked" && !p.Proto10 && (closeAt < 0 || k == 1) && i != closeAt:
			// the multi-write chunk path: no Content-Length, more than one buffer
			p.CL = false
			if p.Resp < chunkedOneBuffer {
				p.Resp = chunkedOneBuffer + 1 + rng.Intn(c.MaxResp-chunkedOneBuffer)
			}
			p.Pieces = 1 + rng.Intn(5)
		case p.Resp > chunkedOneBuffer && !p.Proto10:
			p.CL = true
		default:
			p.CL = rng.Intn(2) == 0
		}
		if i == killAt {
			p.Kill = true
		}
		if c.Jitter {
			p.Jitter = []int{0, 1, 1, 50, 300}[rng.Intn(5)]
		}
		ps = append(ps, p)
	}
	return ps
}

// outcome of checking one response
type respResult int

const (
	respOK respResult = iota
	respConnEnded
	respBad
)

// readAndCheck reads the response to p from br and applies the per-exchange
// oracle. after describes what preceded on the connection ("" | "kill" |
// "close"): a response that arrives although the connection was closed by the
// server before it is a violation of its own.
func (e *env) readAndCheck(nc net.Conn, br *bufio.Reader, p *reqPlan, own map[uint32]int, client string, abortOK bool) (respResult, error) {
	_ = nc.SetReadDeadline(time.Now().Add(watchdogRead))
	resp, err := http.ReadResponse(br, &http.Request{Method: p.Method})
	if err != nil {
		return respConnEnded, err
	}
	key := p.Conn
	gotID := resp.Header.Get("X-Id")
	if resp.StatusCode != 200 || gotID == "" {
		b, _ := io.ReadAll(io.LimitReader(resp.Body, 300))
		e.violate("c10:"+e.cls+":unexpected-response", fmt.Sprintf("%s client, connection %s: request %s was answered with status %d, headers %v, body starts %s\n%s", client, key, p, resp.StatusCode, resp.Header, h.Hex(b, 200), e.log.Slice(key, 20)))
		return respBad, nil
	}
	if gotID != strconv.FormatUint(uint64(p.ID), 10) {
		g64, _ := strconv.ParseUint(gotID, 10, 32)
		if s, ok := own[uint32(g64)]; ok {
			e.violate("c10:"+e.cls+":response-order", fmt.Sprintf("%s client, connection %s: the response read in position of request seq %d (id %#x) carries the id of request seq %d (id %#x) of the same connection\nevents of the connection:\n%s", client, key, p.Seq, p.ID, s, g64, e.log.Slice(key, 40)))
		} else {
			o, _ := e.ids.Load(uint32(g64))
			e.violate("c10:"+e.cls+":response-of-another-connection", fmt.Sprintf("%s client, connection %s: the response read in position of request seq %d (id %#x) carries id %#x, which belongs to %v\nevents of the connection:\n%s", client, key, p.Seq, p.ID, g64, o, e.log.Slice(key, 40)))
		}
		return respBad, nil
	}
	if p.CL && resp.ContentLength != int64(p.Resp) {
		e.violate("c10:"+e.cls+":content-length-differs", fmt.Sprintf("%s client, connection %s: request %s: the handler announced Content-Length %d, the response declares %d (Transfer-Encoding %v)", client, key, p, p.Resp, resp.ContentLength, resp.TransferEncoding))
		return respBad, nil
	}
	body, rerr := io.ReadAll(resp.Body)
	if rerr != nil && isTimeout(rerr) {
		return respConnEnded, rerr
	}
	is := e2e.CheckBody(body, p.ID, p.Resp)
	shape := ""
	if is != nil {
		if is.Symptom == "body-truncated" && e.isFinal() {
			return respConnEnded, fmt.Errorf("body stalled after %d of %d bytes: %v", len(body), p.Resp, rerr)
		}
		if is.Symptom == "body-truncated" && abortOK && rerr != nil && isConnEnd(rerr) {
			// the harness itself provoked an abortive close (handler closed the
			// connection / requests pipelined behind a dictated close): the kernel
			// may discard what was still in flight
			return respConnEnded, rerr
		}
		if is.Symptom == "body-truncated" && p.closeDictating() && p.Resp >= largeMin && (rerr == nil || isConnEnd(rerr)) {
			e.violate("c10:close-dictated:large-response-truncated", fmt.Sprintf("%s client, connection %s: close-dictating request %s: %s; the connection ended with %v (the server closes the connection while its write backlog is still queued)\nevents of the connection:\n%s", client, key, p, is.Detail, rerr, e.log.Slice(key, 12)))
			return respBad, nil
		}
		if is.Symptom == "foreign-bytes-in-body" {
			if o, ok := e.ids.Load(is.Foreign & 0x7fffffff); ok {
				is.Detail += fmt.Sprintf(" (id %#x belongs to %v)", is.Foreign, o)
			}
		}
		e.violate("c10:"+e.cls+":"+shape+is.Symptom, fmt.Sprintf("%s client, connection %s: request %s: %s; reading the body ended with %v\nevents of the connection:\n%s", client, key, p, is.Detail, rerr, e.log.Slice(key, 20)))
		return respBad, nil
	}
	if rerr != nil {
		e.violate("c10:"+e.cls+":"+shape+"response-undecodable", fmt.Sprintf("%s client, connection %s: request %s: all %d body bytes are correct but decoding the response ended with %v\n%s", client, key, p, len(body), rerr, e.log.Slice(key, 20)))
		return respBad, nil
	}
	if !p.CL && !p.Proto10 && p.ID%5 == 2 && p.Resp > 0 && len(resp.TransferEncoding) > 0 {
		// the handler declared a trailer and set it behind the body
		if got, want := resp.Trailer.Get("X-Sum"), strconv.FormatUint(uint64(p.ID), 10); got != want {
			e.violate("c10:"+e.cls+":trailer-differs", fmt.Sprintf("%s client, connection %s: request %s: the handler set the declared trailer X-Sum to %s behind the body, the response carries %q (trailers %v)\n%s", client, key, p, want, got, resp.Trailer, e.log.Slice(key, 20)))
			return respBad, nil
		}
	}
	atomic.AddInt64(&e.exchanges, 1)
	atomic.AddInt64(&e.bytesOK, int64(len(body)))
	bump()
	return respOK, nil
}

// expectEnd: after a dictated close the client must see the end of the stream
// and nothing else. extras says that the harness itself sent more requests
// after the close-dictating one (then a reset instead of EOF is the kernel's
// normal answer to unread data and is tolerated).
func (e *env) expectEnd(nc net.Conn, br *bufio.Reader, p *reqPlan, extras bool, client string) {
	_ = nc.SetReadDeadline(time.Now().Add(watchdogRead))
	buf := make([]byte, 4096)
	n, err := br.Read(buf)
	key := p.Conn
	switch {
	case n > 0:
		e.violate("c10:close-dictated:bytes-after-response", fmt.Sprintf("%s client, connection %s: after the response to the close-dictating request %s the server sent more bytes: %s\nevents of the connection:\n%s", client, key, p, h.Hex(buf[:n], 160), e.log.Slice(key, 30)))
	case err == io.EOF:
		e.r.Count("dictated_closes_seen_as_eof", 1)
	case e.isFinal():
		e.violate("c10:close-dictated:connection-left-open", fmt.Sprintf("%s client, connection %s: the response to the close-dictating request %s was received completely, but the server never closed the connection: the history is final (process idle, nothing pending for 3 s) and the client still waits for EOF\nevents of the connection:\n%s", client, key, p, e.log.Slice(key, 30)))
	case isTimeout(err):
		e.r.Inconclusive(fmt.Sprintf("case %d: watchdog while waiting for EOF after a dictated close", e.c.Index))
	case isConnEnd(err):
		if extras {
			e.r.Count("dictated_closes_seen_as_reset(after pipelined extras)", 1)
		} else {
			e.r.Count("dictated_closes_seen_as_reset", 1)
		}
	default:
		e.r.Count("dictated_closes_seen_as_other_error", 1)
	}
}

func writeSegmented(nc net.Conn, wire []byte, rng *rand.Rand, segmented bool) error {
	_ = nc.SetWriteDeadline(time.Now().Add(watchdogRead))
	if !segmented {
		_, err := nc.Write(wire)
		return err
	}
	for off := 0; off < len(wire); {
		n := 1 + rng.Intn(3000)
		if rng.Intn(4) == 0 {
			n = 1 + rng.Intn(40)
		}
		if n > len(wire)-off {
			n = len(wire) - off
		}
		if _, err := nc.Write(wire[off : off+n]); err != nil {
			return err
		}
		off += n
	}
	return nil
}

// rawClient: k requests back-to-back on one connection, then k responses.
func (e *env) rawClient(name string, rng *rand.Rand, addr string) {
	c := e.c
	nc, err := c.Cell.Dial(addr)
	if err != nil {
		e.r.Inconclusive(fmt.Sprintf("case %d: dial: %v", c.Index, err))
		return
	}
	defer nc.Close()
	e.register(nc)
	br := bufio.NewReaderSize(nc, 32<<10)
	seq := 0
	own := map[uint32]int{}
	completed := 0
	wrng := rand.New(rand.NewSource(rng.Int63()))
	for round := 0; round < c.Rounds; round++ {
		k := 1 + rng.Intn(c.Depth)
		last := round == c.Rounds-1
		closeAt, killAt, cliKillAfter := -1, -1, -1
		if last || rng.Intn(8) == 0 {
			switch {
			case c.SrvKill && rng.Intn(2) == 0:
				killAt = rng.Intn(k)
			case c.CliKill && rng.Intn(2) == 0:
				cliKillAfter = rng.Intn(k)
			case rng.Intn(4) != 0:
				closeAt = k - 1
			}
		}
		extras := 0
		if closeAt >= 0 && c.PostClose {
			extras = 1 + rng.Intn(2)
			k += extras
		}
		plans := e.planBatch(rng, name, &seq, k, closeAt, killAt)
		var wire []byte
		for _, p := range plans {
			own[p.ID] = p.Seq
			wire = append(wire, p.wire(rng)...)
		}
		e.r.Seen("pipelining_depths", strconv.Itoa(k))
		e.log.Add("client.send", name, int64(plans[0].ID), fmt.Sprintf("%d pipelined requests seq %d..%d (%d bytes) closeAt=%d killAt=%d clientCloseAfter=%d", k, plans[0].Seq, plans[k-1].Seq, len(wire), closeAt, killAt, cliKillAfter))
		// the writer runs beside the reader: a blocking-mode server that answers
		// before it reads on must not deadlock against a client that only writes
		werr := make(chan error, 1)
		seg := rng.Intn(3) == 0 && len(wire) < 200000
		go func() { werr <- writeSegmented(nc, wire, wrng, seg) }()
		ended := false
		for i, p := range plans {
			if cliKillAfter >= 0 && i == cliKillAfter {
				// client-side mid-stream close (sometimes in the middle of a response)
				if rng.Intn(2) == 0 {
					_ = nc.SetReadDeadline(time.Now().Add(watchdogRead))
					_, _ = br.Read(make([]byte, 1+rng.Intn(2000)))
				}
				_ = nc.Close()
				e.r.Count("client_side_midstream_closes", 1)
				<-werr
				e.finishConn(completed)
				return
			}
			if (killAt >= 0 && i >= killAt) || (closeAt >= 0 && i > closeAt) {
				// the server has closed (or must close) the connection before this
				// request: no response may arrive for it
				what := "the handler of request seq " + strconv.Itoa(plans[max(killAt, 0)].Seq) + " closed the connection"
				sig := "c10:" + e.cls + ":response-after-server-close"
				if closeAt >= 0 {
					what = "request seq " + strconv.Itoa(plans[closeAt].Seq) + " dictated a close"
					sig = "c10:close-dictated:later-request-answered"
				}
				_ = nc.SetReadDeadline(time.Now().Add(watchdogRead))
				buf := make([]byte, 4096)
				n, rerr := br.Read(buf)
				if n > 0 {
					e.violate(sig, fmt.Sprintf("raw client, connection %s: %s, yet more bytes arrived afterwards: %s\nevents of the connection:\n%s", name, what, h.Hex(buf[:n], 200), e.log.Slice(name, 40)))
				} else if e.isFinal() {
					e.violate("c10:"+e.cls+":connection-left-open-after-server-close", fmt.Sprintf("raw client, connection %s: %s but the client never saw the end of the stream (final history)\n%s", name, what, e.log.Slice(name, 40)))
				} else if isTimeout(rerr) {
					e.r.Inconclusive(fmt.Sprintf("case %d: watchdog while waiting for the end of a closed connection", c.Index))
				}
				if killAt >= 0 {
					e.r.Count("server_side_midstream_closes", 1)
				}
				ended = true
				break
			}
			abortOK := killAt >= 0 || extras > 0
			res, rerr := e.readAndCheck(nc, br, p, own, "raw", abortOK)
			if res == respConnEnded {
				switch {
				case abortOK && !e.isFinal() && isConnEnd(rerr):
					// a close the harness asked for (handler closed the connection, or
					// requests were pipelined behind a dictated close) is abortive:
					// responses still in flight may be discarded by the kernel
					e.r.Count("responses_lost_to_a_requested_abortive_close", 1)
				case e.isFinal():
					e.violate("c10:"+e.cls+":response-never-completed", fmt.Sprintf("raw client, connection %s: request %s (position %d of %d pipelined) was sent but its response never arrived completely: the history is final (process idle, nothing pending for 3 s); read state: %v\nevents of the connection:\n%s", name, p, i, k, rerr, e.log.Slice(name, 40)))
				case isTimeout(rerr):
					e.r.Inconclusive(fmt.Sprintf("case %d: read watchdog fired waiting for a response", c.Index))
				case isConnEnd(rerr):
					why := e.serverCloseReason(nc.LocalAddr().String())
					e.violate("c10:keepalive:connection-closed-early", fmt.Sprintf("raw client, connection %s (%s): no request so far dictated a close and the client has not closed anything, %d responses of this batch were read, then the stream ended (%v) instead of the response to %s\nwhat the server reported for this connection (%s):\n%sevents of the connection:\n%s", name, nc.LocalAddr(), i, rerr, p, why, e.log.Slice(nc.LocalAddr().String(), 6), e.log.Slice(name, 30)))
				default:
					e.violate("c10:"+e.cls+":response-undecodable", fmt.Sprintf("raw client, connection %s: reading the response to %s failed: %v\nevents of the connection:\n%s", name, p, rerr, e.log.Slice(name, 40)))
				}
				ended = true
				break
			}
			if res == respBad {
				ended = true
				break
			}
			completed++
			if i == closeAt {
				if extras == 0 {
					e.expectEnd(nc, br, p, false, "raw")
					ended = true
					break
				}
				// extras follow: checked by the branch above on the next iteration
			}
		}
		if ended {
			_ = nc.Close()
			<-werr
			e.finishConn(completed)
			return
		}
		if err := <-werr; err != nil && !e.isFinal() {
			why := e.serverCloseReason(nc.LocalAddr().String())
			e.violate("c10:keepalive:connection-closed-early", fmt.Sprintf("raw client, connection %s (%s): writing the pipelined requests failed with %v although no request dictated a close (%s)\n%s%s", name, nc.LocalAddr(), err, why, e.log.Slice(nc.LocalAddr().String(), 6), e.log.Slice(name, 30)))
			e.finishConn(completed)
			return
		}
	}
	e.finishConn(completed)
}

// serverCloseReason waits (briefly: the engine reports a close behind the jobs
// still queued for the connection) for what the server itself says about the
// end of the connection with this client address and classifies it (for the
// detail only: client ports are reused within a case, the match can be stale).
func (e *env) serverCloseReason(addr string) string {
	for i := 0; i < 150; i++ {
		if info, ok := e.log.Find("server.onclose", addr); ok {
			switch {
			case info == "err=EOF":
				return "server-reported-peer-eof: the server believes the client closed"
			case info == "err=<nil>":
				return "server-closed-without-error"
			case strings.Contains(info, "timeout"):
				return "server-reported-timeout"
			default:
				return "server-reported-other-error"
			}
		}
		time.Sleep(20 * time.Millisecond)
	}
	return "server-reported-nothing"
}

func (e *env) finishConn(completed int) {
	if completed >= 2 {
		atomic.AddInt64(&e.multiConns, 1)
		e.r.Count("multi_request_connections_completed", 1)
	}
}

// largeCloseClient exercises the shape of the known finding in isolation: one
// close-dictating request whose response is far larger than the socket
// buffers, read by a client that starts late; plus the same response without a
// dictated close as control (must arrive completely, and the connection must
// stay usable).
func (e *env) largeCloseClient(ci int, rng *rand.Rand, addr string) {
	c := e.c
	name := fmt.Sprintf("L%d", ci)
	nc, err := c.Cell.Dial(addr)
	if err != nil {
		e.r.Inconclusive(fmt.Sprintf("case %d: dial: %v", c.Index, err))
		return
	}
	defer nc.Close()
	e.register(nc)
	br := bufio.NewReaderSize(nc, 64<<10)
	own := map[uint32]int{}
	seq := 0
	completed := 0
	control := ci%3 == 2 || rng.Intn(4) == 0
	late := time.Duration(200+rng.Intn(400)) * time.Millisecond
	if control {
		p := &reqPlan{ID: newID(), Conn: name, Seq: seq, Method: "GET", Pieces: 1 + rng.Intn(3), CL: true, Resp: c.MaxResp/2 + rng.Intn(c.MaxResp/2)}
		seq++
		own[p.ID] = p.Seq
		e.ids.Store(p.ID, fmt.Sprintf("connection %s seq %d", name, p.Seq))
		if _, err := nc.Write(p.wire(rng)); err != nil {
			return
		}
		e2e.Sleep(late)
		res, rerr := e.readAndCheck(nc, br, p, own, "raw(late reader, keep-alive control)", false)
		if res == respConnEnded {
			if e.isFinal() {
				e.violate("c10:"+e.cls+":response-never-completed", fmt.Sprintf("raw client (late reader), connection %s: large keep-alive response to %s never arrived completely (final history): %v\n%s", name, p, rerr, e.log.Slice(name, 20)))
			} else if isConnEnd(rerr) {
				why := e.serverCloseReason(nc.LocalAddr().String())
				e.violate("c10:keepalive:connection-closed-early", fmt.Sprintf("raw client (late reader), connection %s: the stream ended (%v) instead of the large response to %s (%s)\n%s", name, rerr, p, why, e.log.Slice(name, 20)))
			} else {
				e.r.Inconclusive(fmt.Sprintf("case %d: %v", c.Index, rerr))
			}
			return
		}
		if res != respOK {
			return
		}
		completed++
		e.r.Count("large_keepalive_responses_complete(late reader)", 1)
	}
	p := &reqPlan{ID: newID(), Conn: name, Seq: seq, Method: "GET", Pieces: 1 + rng.Intn(3), CL: true, Resp: c.MaxResp/2 + rng.Intn(c.MaxResp/2)}
	p.Proto10 = rng.Intn(3) == 0
	if !p.Proto10 || rng.Intn(2) == 0 {
		p.ConnHdr = "close"
	}
	own[p.ID] = p.Seq
	e.ids.Store(p.ID, fmt.Sprintf("connection %s seq %d", name, p.Seq))
	if _, err := nc.Write(p.wire(rng)); err != nil {
		return
	}
	if rng.Intn(4) != 0 {
		e2e.Sleep(late)
	}
	e.r.Count("large_close_dictating_requests", 1)
	res, rerr := e.readAndCheck(nc, br, p, own, "raw(late reader)", false)
	switch res {
	case respConnEnded:
		if e.isFinal() {
			e.violate("c10:"+e.cls+":response-never-completed", fmt.Sprintf("raw client (late reader), connection %s: response to %s never arrived completely (final history): %v\n%s", name, p, rerr, e.log.Slice(name, 20)))
		} else if isConnEnd(rerr) {
			e.violate("c10:close-dictated:large-response-head-missing", fmt.Sprintf("raw client (late reader), connection %s: the stream ended (%v) before the head of the response to %s was complete\n%s", name, rerr, p, e.log.Slice(name, 20)))
		} else {
			e.r.Inconclusive(fmt.Sprintf("case %d: %v", c.Index, rerr))
		}
	case respOK:
		completed++
		e.r.Count("large_close_dictated_responses_complete", 1)
		e.expectEnd(nc, br, p, false, "raw(late reader)")
	}
	e.finishConn(completed)
}

// churnClient exercises descriptor reuse under close churn. Half of the
// clients ("churners") send one close-dictating request to a handler that
// takes 100-400 us and give up (close or half-close) while it is still busy,
// so that the server and the peer end the same connection at the same time;
// the other half ("victims") keep opening fresh connections and run ordinary
// keep-alive histories on them under the full oracle: nothing may end a
// victim's connection early.
func (e *env) churnClient(ci int, rng *rand.Rand, addr string) {
	c := e.c
	if ci%2 == 1 {
		for it := 0; it < c.Rounds*20 && !e.isFinal(); it++ {
			e.rawClient(fmt.Sprintf("v%d.%d", ci, it), rng, addr)
			e.r.Count("churn_victim_connections", 1)
		}
		return
	}
	for it := 0; it < c.Rounds*150 && !e.isFinal(); it++ {
		nc, err := c.Cell.Dial(addr)
		if err != nil {
			continue
		}
		seq := 0
		p := e.planBatch(rng, fmt.Sprintf("c%d.%d", ci, it), &seq, 1, 0, -1)[0]
		p.Method, p.Body, p.ChunkReq, p.Resp, p.CL = "GET", 0, false, 5, true
		p.Jitter = 100 + rng.Intn(300)
		_ = nc.SetDeadline(time.Now().Add(watchdogRead))
		if _, err := nc.Write(p.wire(rng)); err == nil {
			time.Sleep(time.Duration(50+rng.Intn(250)) * time.Microsecond)
			if tc, ok := nc.(*net.TCPConn); ok && rng.Intn(2) == 0 {
				_ = tc.CloseWrite()
				_, _ = io.Copy(io.Discard, nc)
			}
		}
		_ = nc.Close()
		bump()
		e.r.Count("churn_connections_closed_from_both_sides", 1)
	}
}
