// C10 - HTTP exchanges end to end. A real nbhttp.Engine listens on a socket in
// one cell of IOMod x {plain, TLS} x epoll mode; independent clients (a raw
// pipelining client over net.Conn / crypto/tls and net/http.Transport) and
// nbhttp's own Client / ClientConn drive request histories against it. Every
// exchange has a process-unique id: the request body and the response body are
// the id-keyed pattern of internal/outb, so any byte that belongs to another
// exchange is recognised. Monitors: response i on a connection answers request
// i (id, exact body); one response per request unless the connection was
// closed as dictated; EOF after a close-dictating exchange and nothing else;
// the next request succeeds otherwise; handlers of one connection never
// overlap and run in request order; every nbhttp client callback runs exactly
// once with its own response or an error. Completeness is decided when the
// clients returned or, failing that, in a final (quiescent) history - never
// by a timeout.
package main

import (
	"fmt"
	"math/rand"
	"net"
	"os"
	"strings"
	"sync"
	"sync/atomic"
	"time"

	"github.com/lesismal/nbio"
	"github.com/lesismal/nbio/logging"
	"github.com/lesismal/nbio/nbhttp"

	"verif/internal/e2e"
	"verif/internal/h"
	"verif/internal/httpx"
)

type caseT struct {
	Index     int        `json:"index"`
	Kind      string     `json:"kind"` // matrix | chunked | largeclose | nbclient | churn
	Cell      httpx.Cell `json:"cell"`
	Raw       int        `json:"raw_conns"`
	Std       int        `json:"nethttp_clients"`
	Depth     int        `json:"max_pipeline_depth"`
	Rounds    int        `json:"rounds"`
	MaxResp   int        `json:"max_response"`
	MaxReq    int        `json:"max_request_body"`
	SrvKill   bool       `json:"server_side_closes"`
	CliKill   bool       `json:"client_side_closes"`
	PostClose bool       `json:"requests_after_close_dictating"`
	Delay     bool       `json:"delay_points"`
	Jitter    bool       `json:"handler_jitter"`
	NbTarget  string     `json:"nbclient_target,omitempty"` // nbhttp | std
	NbTimeout int        `json:"nbclient_timeout_s,omitempty"`
	NbConns   int        `json:"nbclient_max_conns_per_host,omitempty"`
	NbTLS13   bool       `json:"nbclient_tls13,omitempty"`
	Seed      int64      `json:"seed"`
}

var cells []httpx.Cell

func init() {
	for _, io := range []int{nbhttp.IOModNonBlocking, nbhttp.IOModBlocking, nbhttp.IOModMixed} {
		for _, tls := range []bool{false, true} {
			for _, m := range []string{"LT", "ET", "ONESHOT"} {
				cells = append(cells, httpx.Cell{IOMod: io, TLS: tls, Mode: m})
			}
		}
	}
}

func genCase(r *h.Run, idx int) caseT {
	rng := r.Rand("c10-"+r.Phase, idx)
	c := caseT{Index: idx, Seed: rng.Int63(), Cell: cells[idx%len(cells)]}
	block := (idx / len(cells)) % 7
	switch {
	case r.Phase == "chunked":
		// the multi-write chunk path of the response writer has its own phase
		// (own processes): what it does to the shared buffer pool must not
		// reach the exchanges of the other phases
		c.Kind = "chunked"
	case block <= 3:
		c.Kind = "matrix"
	case block == 4:
		c.Kind = "nbclient"
		c.NbTarget = "nbhttp"
	case block == 5:
		c.Kind = "nbclient"
		c.NbTarget = "std"
	default:
		if idx%2 == 0 {
			c.Kind = "largeclose"
		} else {
			c.Kind = "churn"
		}
	}
	c.Delay = rng.Intn(2) == 0
	c.Jitter = rng.Intn(2) == 0
	switch c.Kind {
	case "matrix", "chunked":
		// 1-64 concurrent connections, skewed to the small side
		switch rng.Intn(6) {
		case 0:
			c.Raw = 1
		case 1:
			c.Raw = 2 + rng.Intn(3)
		case 2, 3:
			c.Raw = 4 + rng.Intn(12)
		case 4:
			c.Raw = 16 + rng.Intn(24)
		default:
			c.Raw = 40 + rng.Intn(22)
		}
		c.Std = rng.Intn(4)
		if c.Raw+c.Std > 64 {
			c.Std = 64 - c.Raw
		}
		c.Depth = []int{1, 2, 3, 4, 6, 8, 12, 16}[rng.Intn(8)]
		c.Rounds = 1 + rng.Intn(4)
		c.MaxResp = []int{2000, 70000, 70000, 200000, 1 << 20}[rng.Intn(5)]
		c.MaxReq = []int{0, 500, 70000, 300000, 1 << 20}[rng.Intn(5)]
		c.SrvKill = rng.Intn(4) == 0
		c.CliKill = rng.Intn(4) == 0
		c.PostClose = rng.Intn(4) == 0
		if c.Kind == "chunked" {
			c.MaxResp = []int{200000, 1 << 20}[rng.Intn(2)]
			if c.Raw > 24 {
				c.Raw = 24
			}
		}
		if c.Raw > 24 && c.MaxResp > 200000 {
			c.MaxResp = 200000
		}
		if c.Raw > 24 && c.MaxReq > 300000 {
			c.MaxReq = 300000
		}
	case "churn":
		c.Raw = 32
		c.Depth, c.Rounds = 1+rng.Intn(2), 2+rng.Intn(2)
		c.MaxResp, c.MaxReq = 2000, 500
		c.Jitter = true
	case "largeclose":
		c.Raw = 1 + rng.Intn(3)
		c.Depth, c.Rounds = 1, 1
		c.MaxResp = (8 + rng.Intn(17)) << 20
	case "nbclient":
		c.Raw = 0
		c.Depth = []int{1, 2, 4, 8, 16}[rng.Intn(5)]
		c.Rounds = 1 + rng.Intn(3)
		c.MaxResp = []int{2000, 70000, 200000}[rng.Intn(3)]
		c.MaxReq = []int{0, 500, 70000}[rng.Intn(3)]
		c.SrvKill = rng.Intn(2) == 0
		c.CliKill = rng.Intn(3) == 0
		c.NbTimeout = []int{6, 6, 6, 0}[rng.Intn(4)]
		c.NbConns = 1 + rng.Intn(4)
		// with TLS 1.3 nbhttp's https client does not complete a single exchange in
		// this tree ("bad record MAC", see the final report): most TLS cases pin the
		// client to TLS 1.2 so that the callbacks see real responses
		c.NbTLS13 = c.Cell.TLS && rng.Intn(8) == 0
		if c.NbTLS13 && c.NbTimeout == 0 {
			// its blocking handshake can wait for ever; without a Timeout nothing ends it
			c.NbTimeout = 6
		}
	}
	return c
}

var progress int64

var capLog = &dbgLogger{}

func prog() int64 { return atomic.LoadInt64(&progress) }
func bump()       { atomic.AddInt64(&progress, 1) }

var idCounter uint32

// newID returns a process-unique exchange id (bit 31 is reserved for request
// bodies, so that a request body can never be mistaken for a response body).
func newID() uint32 { return atomic.AddUint32(&idCounter, 1) & 0x7fffffff }

// env is the state of one running case.
type env struct {
	r   *h.Run
	c   caseT
	log *e2e.Log
	cls string

	states sync.Map // handler key -> *connState
	ids    sync.Map // id -> "conn/seq" (attribution of foreign bytes)

	final int32 // the quiescence monitor declared the history final

	cmu     sync.Mutex
	clients []net.Conn
	cancels []func()

	logLines []string // nbio's error log lines of the case

	exchanges  int64
	bytesOK    int64
	multiConns int64 // connections that completed >= 2 exchanges
	viol       int32
}

type connState struct {
	inside  int32
	lastSeq int64
}

func cellClass(c httpx.Cell) string { return strings.Split(c.String(), "/")[0] }

func (e *env) violate(sig, detail string) {
	atomic.AddInt32(&e.viol, 1)
	if e.c.Kind == "chunked" {
		// one signature for the whole phase: once the multi-write chunk path has
		// freed a buffer it keeps using, every later symptom in the process
		// (foreign bytes, undecodable responses, corrupt request bodies, ...) is
		// a consequence; the symptom stays in the detail
		detail = "[" + sig + "] " + detail
		sig = "c10:chunked-multiwrite:exchange-corrupted"
	}
	if len(detail) > 3200 {
		detail = detail[:3200] + "…"
	}
	e.r.Violate(sig, detail+fmt.Sprintf("\ncell %s, case kind %s (the case config replays the workload; the schedule itself is not reproducible)", e.c.Cell, e.c.Kind)+capLog.recent(), e.c)
}

func (e *env) register(nc net.Conn) {
	e.cmu.Lock()
	e.clients = append(e.clients, nc)
	e.cmu.Unlock()
}

func (e *env) onFinal(f func()) {
	e.cmu.Lock()
	e.cancels = append(e.cancels, f)
	e.cmu.Unlock()
}

func (e *env) isFinal() bool { return atomic.LoadInt32(&e.final) == 1 }

// monitor turns "the clients never returned" into a decidable state: when the
// history is final it releases the blocked clients, which then report what
// they were still waiting for as never delivered.
func (e *env) monitor(done <-chan struct{}) {
	switch e2e.WaitQuiet(done, prog, 150*time.Second) {
	case "done":
		return
	case "quiet":
		atomic.StoreInt32(&e.final, 1)
	default:
		e.r.Inconclusive(fmt.Sprintf("case %d: clients did not return within the watchdog and the process never went quiet", e.c.Index))
		atomic.StoreInt32(&e.final, 2)
	}
	e.cmu.Lock()
	for _, nc := range e.clients {
		_ = nc.Close()
	}
	for _, f := range e.cancels {
		f()
	}
	e.cmu.Unlock()
}

func installDelays(c caseT) func() {
	if !c.Delay {
		return func() {}
	}
	d := e2e.NewDelayer(c.Seed, 3, 300)
	nbio.VerifSetPoint(func(name string, cn *nbio.Conn) {
		if name == "execute.afterAppend" || name == "execute.afterJob" {
			d.Hit()
		}
	})
	return func() { nbio.VerifSetPoint(nil) }
}

func runCase(r *h.Run, c caseT) {
	r.Eval(1)
	e := &env{r: r, c: c, log: e2e.NewLog(20000), cls: cellClass(c.Cell)}
	capLog.reset()
	undo := installDelays(c)
	defer undo()
	switch c.Kind {
	case "nbclient":
		e.runNbClient()
	default:
		e.runServerCase()
	}
	if pl := h.PanicLines(append(e.logLines, capLog.Take()...)); len(pl) > 0 {
		r.Count("panics_recovered_and_logged_by_nbio", int64(len(pl)))
		for i, l := range pl {
			if i < 3 {
				fmt.Printf("case %d: nbio logged a recovered panic:\n%s\n", c.Index, l)
			}
		}
	}
	r.Count("exchanges_checked", atomic.LoadInt64(&e.exchanges))
	r.Count("response_bytes_verified", atomic.LoadInt64(&e.bytesOK))
	if atomic.LoadInt32(&e.viol) == 0 && atomic.LoadInt64(&e.multiConns) > 0 && !e.isFinal() && atomic.LoadInt32(&e.final) == 0 {
		r.Nontrivial(fmt.Sprint(c.Index))
	}
}

// runServerCase: matrix / chunked / largeclose - independent clients against
// an nbhttp server.
func (e *env) runServerCase() {
	c := e.c
	eng := nbhttp.NewEngine(c.Cell.Config(e))
	// what the server itself says about the end of each connection
	eng.OnClose(func(nc net.Conn, err error) {
		if ra := nc.RemoteAddr(); ra != nil {
			e.log.Add("server.onclose", ra.String(), 0, fmt.Sprintf("err=%v", err))
		}
	})
	if err := eng.Start(); err != nil {
		e.r.Inconclusive(fmt.Sprintf("case %d: start: %v", c.Index, err))
		return
	}
	addr := httpx.Addr(eng, c.Cell)
	var wg sync.WaitGroup
	done := make(chan struct{})
	for i := 0; i < c.Raw; i++ {
		wg.Add(1)
		go func(i int) {
			defer wg.Done()
			rng := rand.New(rand.NewSource(c.Seed ^ int64(i+1)*0x9E3779B97F4A7C))
			switch c.Kind {
			case "largeclose":
				e.largeCloseClient(i, rng, addr)
			case "churn":
				e.churnClient(i, rng, addr)
			default:
				e.rawClient(fmt.Sprintf("r%d", i), rng, addr)
			}
		}(i)
	}
	for j := 0; j < c.Std; j++ {
		wg.Add(1)
		go func(j int) {
			defer wg.Done()
			rng := rand.New(rand.NewSource(c.Seed ^ int64(j+1)*0x7F4A7C15BF58476D))
			e.stdClient(j, rng, addr)
		}(j)
	}
	go func() { wg.Wait(); close(done) }()
	e.monitor(done)
	<-done
	eng.Stop()
	bump()
	e.r.Seen("cells_x_clients", c.Cell.String()+"/raw")
	if c.Std > 0 {
		e.r.Seen("cells_x_clients", c.Cell.String()+"/nethttp")
	}
	e.r.Max("max_concurrent_connections", int64(c.Raw+c.Std))
}

// runningStacks returns the stacks of the goroutines that are running or
// runnable right now (other than the caller).
func runningStacks() string {
	var out []string
	for _, p := range strings.Split(h.Stacks(), "\n\n") {
		if (strings.Contains(p, "[running]") || strings.Contains(p, "[runnable")) && !strings.Contains(p, "runningStacks") {
			if len(p) > 1500 {
				p = p[:1500]
			}
			out = append(out, p)
		}
	}
	return strings.Join(out, "\n\n")
}

func guarded(r *h.Run, c caseT) {
	v := h.Guard(6*time.Minute, prog, func() { runCase(r, c) })
	cls := cellClass(c.Cell)
	switch v.Kind {
	case "":
		return
	case "deadlock":
		r.Violate(fmt.Sprintf("c10:%s:hang-goroutines-blocked-in-nbio", cls), v.Detail+fmt.Sprintf("\ncase %+v", c), c)
	case "spin":
		// the verdict is about the process: blame nbio only if a goroutine is
		// running inside nbio frames; otherwise say what is running
		run := runningStacks()
		if strings.Contains(run, "github.com/lesismal/nbio") {
			r.Violate(fmt.Sprintf("c10:%s:spin-no-progress", cls), v.Detail+"\nrunning goroutines:\n"+run, c)
		} else {
			fmt.Printf("case %d: process spins, no running goroutine inside nbio; running goroutines:\n%s\n", c.Index, run)
			r.Inconclusive(fmt.Sprintf("case %d: the process burns CPU without progress but no running goroutine is inside nbio frames (see the shard log)", c.Index))
		}
	default:
		r.Inconclusive(fmt.Sprintf("case %d: %s", c.Index, v.Detail))
	}
	r.Inconclusive(fmt.Sprintf("shard stopped after case %d (process state unrecoverable)", c.Index))
	r.Finish()
	os.Exit(0)
}

func main() {
	r := h.Start("C10")
	defer r.Finish()
	logging.SetLogger(capLog)
	_, _ = httpx.Cert()
	if r.Replay != "" {
		var c caseT
		if err := r.ReplayCase(&c); err != nil {
			fmt.Println("replay:", err)
			return
		}
		r.Begin(c)
		guarded(r, c)
		return
	}
	n := r.N(252, 10080)
	if r.Phase == "chunked" {
		n = r.N(36, 720)
	}
	for i := 0; i < n; i++ {
		if !r.Mine(i) {
			continue
		}
		c := genCase(r, i)
		r.Begin(c)
		t0 := time.Now()
		guarded(r, c)
		if d := time.Since(t0); d > 8*time.Second {
			fmt.Printf("slow case %d: %v %+v\n", c.Index, d, c)
		}
		if i < 3 {
			r.Sample(c)
		}
	}
}
